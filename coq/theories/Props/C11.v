(* C11 - bundled puzzle solvers agree with the published rules: final theorems only. *)
From Coq Require Import ZArith List Bool.
From Cspuz Require Import Core.Expr Core.Program Puzzle.PuzzleBase Puzzle.SatAbs Puzzle.SatAbsProofs.

(* Tier 2 evaluator: sat_abs decides "some assignment of all variables respects
   the declared domains, satisfies every posted constraint and reads as ans on
   the answer variables" for every well-formed captured program *)
Theorem C11_sat_abs_correct : forall st kids order ans,
  wf_prog st kids = true ->
  (sat_abs st kids order ans = true <->
   exists en, model_of no_graph en st /\ reads st en kids = ans).
Proof. exact sat_abs_correct. Qed.
Print Assumptions C11_sat_abs_correct.

(* what each generated, kernel-evaluated instance goal [tier2_ok ... = true] establishes:
   on every candidate answer, the captured program of the real solve_<p> admits it
   exactly when the rule specification does *)
Theorem C11_tier2_ok_meaning : forall st kids order rules answers,
  tier2_ok st kids order rules answers = true ->
  forall ans, In ans answers ->
    ((exists en, model_of no_graph en st /\ reads st en kids = ans) <-> rules ans = true).
Proof. exact tier2_ok_meaning. Qed.
Print Assumptions C11_tier2_ok_meaning.

(* Tier 1, sudoku, every n: the program posted by solve_sudoku (model Puzzle/Sudoku.v,
   tied to the Python by program capture) has a model reading as [ans] on the answer
   grid exactly when [ans] obeys the published rules and keeps the given numbers *)
From Cspuz Require Import Lib.PyErr Puzzle.Rules_sudoku Puzzle.Sudoku Puzzle.SudokuProofs.
Theorem C11_sudoku_exact : forall n clues st ans,
  solve_sudoku_model (List.cons (List.cons (Z.of_nat n) nil) (List.cons clues nil)) = Ok st ->
  ((exists en, model_of no_graph en st /\
               reads st en (seq 0 ((n * n) * (n * n))) = ans)
   <-> rules_sudoku (List.cons (List.cons (Z.of_nat n) nil) (List.cons clues nil)) ans = true).
Proof. exact sudoku_exact. Qed.
Print Assumptions C11_sudoku_exact.

(* Tier 1, norinori, every board shape and region layout *)
From Cspuz Require Import Puzzle.Rules_norinori Puzzle.Norinori Puzzle.NorinoriProofs.
Theorem C11_norinori_exact : forall h w region st ans,
  solve_norinori_model (List.cons (List.cons (Z.of_nat h) (List.cons (Z.of_nat w) nil)) (List.cons region nil)) = Ok st ->
  ((exists en, model_of no_graph en st /\ reads st en (seq 0 (h * w)) = ans)
   <-> rules_norinori (List.cons (List.cons (Z.of_nat h) (List.cons (Z.of_nat w) nil)) (List.cons region nil)) ans = true).
Proof. exact norinori_exact. Qed.
Print Assumptions C11_norinori_exact.

(* Tier 1, putteria, every board shape and region layout *)
From Cspuz Require Import Puzzle.Rules_putteria Puzzle.Putteria Puzzle.PutteriaProofs.
Theorem C11_putteria_exact : forall h w region st ans,
  solve_putteria_model (List.cons (List.cons (Z.of_nat h) (List.cons (Z.of_nat w) nil)) (List.cons region nil)) = Ok st ->
  ((exists en, model_of no_graph en st /\ reads st en (seq 0 (h * w)) = ans)
   <-> rules_putteria (List.cons (List.cons (Z.of_nat h) (List.cons (Z.of_nat w) nil)) (List.cons region nil)) ans = true).
Proof. exact putteria_exact. Qed.
Print Assumptions C11_putteria_exact.

(* Tier 1, star battle, every n, k >= 0 and region layout *)
From Cspuz Require Import Puzzle.Rules_star_battle Puzzle.StarBattle Puzzle.StarBattleProofs.
Theorem C11_star_battle_exact : forall n k region st ans,
  (0 <= k)%Z ->
  solve_star_battle_model (List.cons (List.cons (Z.of_nat n) (List.cons k nil)) (List.cons region nil)) = Ok st ->
  ((exists en, model_of no_graph en st /\ reads st en (seq 0 (n * n)) = ans)
   <-> rules_star_battle (List.cons (List.cons (Z.of_nat n) (List.cons k nil)) (List.cons region nil)) ans = true).
Proof. exact star_battle_exact. Qed.
Print Assumptions C11_star_battle_exact.

(* Tier 1, aquarium (after fix 97459c5), every board shape, every layout of orthogonally connected
   tanks, all clues: rule specification = one water level across the full width of a tank *)
From Cspuz Require Import Graph.GraphModel Puzzle.Rules_aquarium Puzzle.Aquarium Puzzle.AquariumProofs.
Theorem C11_aquarium_exact : forall h w region rows cols st ans,
  (forall i : Z, connected (board h w) (fun v => (getz region v =? i)%Z)) ->
  solve_aquarium_model (List.cons (List.cons (Z.of_nat h) (List.cons (Z.of_nat w) nil))
                          (List.cons region (List.cons rows (List.cons cols nil)))) = Ok st ->
  ((exists en, model_of no_graph en st /\ reads st en (seq 0 (h * w)) = ans)
   <-> rules_aquarium (List.cons (List.cons (Z.of_nat h) (List.cons (Z.of_nat w) nil))
                          (List.cons region (List.cons rows (List.cons cols nil)))) ans = true).
Proof. exact aquarium_exact. Qed.
Print Assumptions C11_aquarium_exact.

(* Tier 1, creek, every board shape and all point clues; the connectivity rule is discharged by
   property C04's theorems about graph.active_vertices_connected (Avc.post_avc on the grid graph).
   Programs of this module contain no native graph operator, so gsem_avc only fixes the evaluator. *)
From Cspuz Require Import Graph.Avc Puzzle.Rules_creek Puzzle.Creek Puzzle.CreekProofs.
Theorem C11_creek_exact : forall h w clue st ans,
  solve_creek_model (List.cons (List.cons (Z.of_nat h) (List.cons (Z.of_nat w) nil)) (List.cons clue nil)) = Ok st ->
  ((exists en, model_of gsem_avc en st /\ reads st en (seq 0 (h * w)) = ans)
   <-> rules_creek (List.cons (List.cons (Z.of_nat h) (List.cons (Z.of_nat w) nil)) (List.cons clue nil)) ans = true).
Proof. exact creek_exact. Qed.
Print Assumptions C11_creek_exact.

(* Tier 1, akari, every board shape and every layout of white / black / numbered cells *)
From Cspuz Require Import Puzzle.Rules_akari Puzzle.Akari Puzzle.AkariProofs.
Theorem C11_akari_exact : forall h w grid st ans,
  solve_akari_model (List.cons (List.cons (Z.of_nat h) (List.cons (Z.of_nat w) nil)) (List.cons grid nil)) = Ok st ->
  ((exists en, model_of no_graph en st /\ reads st en (seq 0 (h * w)) = ans)
   <-> rules_akari (List.cons (List.cons (Z.of_nat h) (List.cons (Z.of_nat w) nil)) (List.cons grid nil)) ans = true).
Proof. exact akari_exact. Qed.
Print Assumptions C11_akari_exact.

(* Tier 1, building (skyscrapers), every n and all clues (for n = 0 the solver raises ValueError) *)
From Cspuz Require Import Puzzle.Rules_building Puzzle.Building Puzzle.BuildingProofs.
Theorem C11_building_exact : forall n up dw lf rg st ans,
  solve_building_model (List.cons (List.cons (Z.of_nat n) nil)
      (List.cons up (List.cons dw (List.cons lf (List.cons rg nil))))) = Ok st ->
  ((exists en, model_of no_graph en st /\ reads st en (seq 0 (n * n)) = ans)
   <-> rules_building (List.cons (List.cons (Z.of_nat n) nil)
      (List.cons up (List.cons dw (List.cons lf (List.cons rg nil))))) ans = true).
Proof. exact building_exact. Qed.
Print Assumptions C11_building_exact.

(* Tier 1, doppelblock, every n and all clues (for n < 2 the solver raises ValueError) *)
From Cspuz Require Import Puzzle.Rules_doppelblock Puzzle.Doppelblock Puzzle.DoppelblockProofs.
Theorem C11_doppelblock_exact : forall n rows cols st ans,
  solve_doppelblock_model (List.cons (List.cons (Z.of_nat n) nil) (List.cons rows (List.cons cols nil))) = Ok st ->
  ((exists en, model_of no_graph en st /\ reads st en (seq 0 (n * n)) = ans)
   <-> rules_doppelblock (List.cons (List.cons (Z.of_nat n) nil) (List.cons rows (List.cons cols nil))) ans = true).
Proof. exact doppelblock_exact. Qed.
Print Assumptions C11_doppelblock_exact.

(* Tier 1, nurimisaki (after fix f977eba), every board shape, circles without number and with any number
   n >= 1 (the model rejects cell values below -1, which are outside the module's alphabet); connectivity
   through property C04's theorems as for creek *)
From Cspuz Require Import Puzzle.Rules_nurimisaki Puzzle.Nurimisaki Puzzle.NurimisakiProofs.
Theorem C11_nurimisaki_exact : forall h w grid st ans,
  solve_nurimisaki_model (List.cons (List.cons (Z.of_nat h) (List.cons (Z.of_nat w) nil)) (List.cons grid nil)) = Ok st ->
  ((exists en, model_of gsem_avc en st /\ reads st en (seq 0 (h * w)) = ans)
   <-> rules_nurimisaki (List.cons (List.cons (Z.of_nat h) (List.cons (Z.of_nat w) nil)) (List.cons grid nil)) ans = true).
Proof. exact nurimisaki_exact. Qed.
Print Assumptions C11_nurimisaki_exact.

(* Tier 1, heyawake, every board shape, every room layout and all room clues; the connectivity of the white
   cells through property C04's theorems, the adjacency rule through the two shifted-slice conjunctions the grid
   form of active_vertices_not_adjacent posts, the "no white line across two room borders" rule proved
   equivalent to the posted per-border windows *)
From Cspuz Require Import Puzzle.Rules_heyawake Puzzle.Heyawake Puzzle.HeyawakeProofs.
Theorem C11_heyawake_exact : forall h w room clue st ans,
  solve_heyawake_model (List.cons (List.cons (Z.of_nat h) (List.cons (Z.of_nat w) nil))
                          (List.cons room (List.cons clue nil))) = Ok st ->
  ((exists en, model_of gsem_avc en st /\ reads st en (seq 0 (h * w)) = ans)
   <-> rules_heyawake (List.cons (List.cons (Z.of_nat h) (List.cons (Z.of_nat w) nil))
                          (List.cons room (List.cons clue nil))) ans = true).
Proof. exact heyawake_exact. Qed.
Print Assumptions C11_heyawake_exact.

(* Tier 1, gokigen (slant), every board shape (also without cells) and every layout of point clues (any negative
   value = no clue, any value >= 0 = clue); the "no closed loop" rule through property C09's theorems about
   graph.active_edges_acyclic (Acyclic.post_acyclic on the graph of both diagonals of every cell with flags
   edge_type / ~edge_type), and GokigenForest.edges_acyclic_forest: #lines + #components = #points iff every
   drawn line is a bridge *)
From Cspuz Require Import Graph.Acyclic Puzzle.Rules_gokigen Puzzle.Gokigen Puzzle.GokigenForest Puzzle.GokigenProofs.
Theorem C11_gokigen_exact : forall h w clue st ans,
  solve_gokigen_model (List.cons (List.cons (Z.of_nat h) (List.cons (Z.of_nat w) nil)) (List.cons clue nil)) = Ok st ->
  ((exists en, model_of no_graph en st /\ reads st en (seq 0 (h * w)) = ans)
   <-> rules_gokigen (List.cons (List.cons (Z.of_nat h) (List.cons (Z.of_nat w) nil)) (List.cons clue nil)) ans = true).
Proof. exact gokigen_exact. Qed.
Print Assumptions C11_gokigen_exact.

(* the rule vocabulary's "#edges + #components = #vertices" is C09's forest (every selected edge is a bridge),
   for every well-formed multigraph and every edge selection *)
Theorem C11_edges_acyclic_forest : forall g A, GraphModel.wf_graph g = true ->
  (edges_acyclic g A = true <-> Acyclic.forest g A).
Proof. exact GokigenForest.edges_acyclic_forest. Qed.
Print Assumptions C11_edges_acyclic_forest.

(* Tier 1, slitherlink, every board shape (height, width >= 0, also boards without cells) and every clue layout;
   the single-loop rule through property C06's theorems about graph.active_edges_single_cycle on a BoolGridFrame
   (Cycle.active_edges_single_cycle, auxiliary-variable route; composition theorem CycleCompose.cycle_frame_compose).
   Programs of this module contain no native graph operator. *)
From Cspuz Require Import Puzzle.Rules_slitherlink Puzzle.Slitherlink Puzzle.SlitherlinkProofs.
Theorem C11_slitherlink_exact : forall h w clues st ans,
  solve_slitherlink_model (List.cons (List.cons (Z.of_nat h) (List.cons (Z.of_nat w) nil)) (List.cons clues nil)) = Ok st ->
  ((exists en, model_of no_graph en st /\ reads st en (seq 0 (S h * w + h * S w)) = ans)
   <-> rules_slitherlink (List.cons (List.cons (Z.of_nat h) (List.cons (Z.of_nat w) nil)) (List.cons clues nil)) ans = true).
Proof. exact slitherlink_exact. Qed.
Print Assumptions C11_slitherlink_exact.

(* Tier 1, view, every board shape and every layout of given numbers (a cell value >= 0 is a given number, any
   negative value an empty cell).  The answer is read on the variables of nums (ids 3hw .. 4hw-1, declared after
   the connectivity helper's 2hw auxiliary variables) followed by those of has_number (ids 0 .. hw-1), the order
   in which solve_view registers its answer keys.  Connectivity of the number cells through property C04's
   theorems (avc_eval, cert_sound, cert_complete; Puzzle/ViewCompose.v); the four auxiliary distance grids
   to_up / to_down / to_left / to_right are proved to be determined by their recurrences (they are the sight
   distances of the rules) and, conversely, the sight distances of a rule-obeying answer are proved to lie in the
   declared domains 0 .. h-1 / 0 .. w-1 and to satisfy the recurrences *)
From Cspuz Require Import Graph.Avc Puzzle.Rules_view Puzzle.View Puzzle.ViewProofs.
Theorem C11_view_exact : forall h w grid st ans,
  solve_view_model (List.cons (List.cons (Z.of_nat h) (List.cons (Z.of_nat w) nil)) (List.cons grid nil)) = Ok st ->
  ((exists en, model_of gsem_avc en st /\
               reads st en (seq (3 * (h * w)) (h * w) ++ seq 0 (h * w)) = ans)
   <-> rules_view (List.cons (List.cons (Z.of_nat h) (List.cons (Z.of_nat w) nil)) (List.cons grid nil)) ans = true).
Proof. exact view_exact. Qed.
Print Assumptions C11_view_exact.

(* Tier 1, nurikabe (after fix 51000d9), every board shape and every layout of numbers and '?': the program posted by
   solve_nurikabe (model Puzzle/Nurikabe.v - the division grid, graph.division_connected = the model of property C05 with
   one group per clue plus the wall group, is_white <-> division != 0, equal labels on adjacent white cells, no 2x2 wall,
   island sizes - tied to the Python by program capture) has a model whose answer-key variables (the is_white grid, declared
   after the existential division / rank / is_root / spanning_forest variables) read as [ans] exactly when [ans] obeys the
   published rules.  The hypothesis holds exactly for the boards with at least one cell and a full clue list. *)
From Cspuz Require Import Graph.Division Puzzle.DivisionCompose Puzzle.Rules_nurikabe Puzzle.Nurikabe Puzzle.NurikabeProofs.
Theorem C11_nurikabe_exact : forall h w grid st ans,
  solve_nurikabe_model (List.cons (List.cons (Z.of_nat h) (List.cons (Z.of_nat w) nil)) (List.cons grid nil)) = Ok st ->
  ((exists en, model_of division_gsem en st /\ reads st en (key_ids st) = ans)
   <-> rules_nurikabe (List.cons (List.cons (Z.of_nat h) (List.cons (Z.of_nat w) nil)) (List.cons grid nil)) ans = true).
Proof. exact nurikabe_exact. Qed.
Print Assumptions C11_nurikabe_exact.

Theorem C11_nurikabe_key_ids : forall h w grid st,
  solve_nurikabe_model (List.cons (List.cons (Z.of_nat h) (List.cons (Z.of_nat w) nil)) (List.cons grid nil)) = Ok st ->
  key_ids st = List.seq (3 * (h * w) + length (GraphModel.grid_edges h w)) (h * w).
Proof. exact nurikabe_key_ids. Qed.
Print Assumptions C11_nurikabe_key_ids.

Theorem C11_nurikabe_model_defined : forall h w grid,
  (exists st, solve_nurikabe_model (List.cons (List.cons (Z.of_nat h) (List.cons (Z.of_nat w) nil)) (List.cons grid nil)) = Ok st)
  <-> (0 < h * w <= length grid)%nat.
Proof. exact nurikabe_model_defined. Qed.
Print Assumptions C11_nurikabe_model_defined.

(* ---- C11's statement in full for every Tier-1 module: composition of the module's <p>_exact theorem
   (hypothesis [exact] below, in the form the theorems above have for a fixed problem) with property C02's
   solve_exact.  For ANY solver meeting the two oracle hypotheses of C01/C02: Solver.solve on the posted
   program reports "no solution" exactly when no rule-obeying answer exists; otherwise the answer-key variable
   at position k of the answer is reported decided with value z exactly when every rule-obeying answer has z
   there, and undecided exactly when two rule-obeying answers differ there.  [wf_state] (every posted constraint
   is a tree the public constructors build, over declared variables) makes the evaluator parameter immaterial. *)
From Cspuz Require Import Backend.Z3 Backend.Z3Oracle Backend.Z3SolveProofs Backend.SolveLoop Backend.SolveZ3Proofs
     Puzzle.SolveCompose Puzzle.SolveComposeExample.
Theorem C11_solve_reports : forall oracle, oracle_sound_on oracle -> oracle_complete_on oracle ->
  forall gsem st ids (rules : list Z -> bool),
  wf_state st -> wf_keys st ->
  (forall i, In i ids -> nth_error (keys st) i = Some true) ->
  (forall ans, (exists en, model_of gsem en st /\ reads st en ids = ans) <-> rules ans = true) ->
  exists r, solve oracle st = Ok r /\
    match r with
    | Unsat => forall ans, rules ans = false
    | Sat sol =>
        (exists ans, rules ans = true) /\
        forall k i, nth_error ids k = Some i ->
          exists a, nth_error sol i = Some a /\
            (forall z, (exists v, a = Some v /\ zval v = z) <->
                       (forall ans, rules ans = true -> nth_error ans k = Some z)) /\
            (a = None <-> exists a1 a2, rules a1 = true /\ rules a2 = true /\ nth_error a1 k <> nth_error a2 k)
    | OutOfFuel => False
    end.
Proof. exact solve_puzzle_exact. Qed.
Print Assumptions C11_solve_reports.

(* the hypotheses hold together somewhere: the program of solve_slitherlink on a 2x1 board with clues [3; -1],
   with C02's brute-force oracle *)
Theorem C11_solve_reports_nonvacuous :
  forall st, solve_slitherlink_model ex_pb = Ok st ->
  wf_state st /\ wf_keys st /\ (forall i, In i ex_ids -> nth_error (keys st) i = Some true) /\
  (forall ans, (exists en, model_of no_graph en st /\ reads st en ex_ids = ans) <-> rules_slitherlink ex_pb ans = true) /\
  exists r, solve bf_oracle st = Ok r /\ r <> OutOfFuel.
Proof. exact solve_puzzle_exact_nonvacuous. Qed.
Print Assumptions C11_solve_reports_nonvacuous.

(* Tier 1, simpleloop, every board shape, every layout of black cells (0 = white, any other integer black) and every
   pivot: the model accepts (Ok) exactly the boards with cells whose pivot lies inside the board (and whose `blocked`
   is long enough), so the statement needs no side condition; the colour of the pivot cell is the parity of the number
   of the other white cells, as in the module format.  The single-loop rule and "the loop visits exactly the white
   cells" go through property C06's theorems about graph.active_edges_single_cycle on a BoolGridFrame of
   (height-1) x (width-1) cells whose points are the board cells (Cycle.active_edges_single_cycle, auxiliary-variable
   route) and the is_passed array it returns (composition theorem CycleCompose.cycle_frame_compose).
   Programs of this module contain no native graph operator. *)
From Cspuz Require Import Puzzle.Rules_simpleloop Puzzle.Simpleloop Puzzle.SimpleloopProofs.
Theorem C11_simpleloop_exact : forall h w py px blocked st ans,
  solve_simpleloop_model (List.cons (List.cons (Z.of_nat h) (List.cons (Z.of_nat w) (List.cons (Z.of_nat py) (List.cons (Z.of_nat px) nil))))
                                    (List.cons blocked nil)) = Ok st ->
  ((exists en, model_of no_graph en st /\ reads st en (seq 0 (h * (w - 1) + (h - 1) * w)) = ans)
   <-> rules_simpleloop (List.cons (List.cons (Z.of_nat h) (List.cons (Z.of_nat w) (List.cons (Z.of_nat py) (List.cons (Z.of_nat px) nil))))
                                   (List.cons blocked nil)) ans = true).
Proof. exact simpleloop_exact. Qed.
Print Assumptions C11_simpleloop_exact.

(* Tier 1, yajilin, every board shape (the solver rejects height < 1 or width < 1 with ValueError, so does the model)
   and every clue layout in the problem format of Rules_yajilin.v (kind 0 plain, 1..4 arrows, anything else a clue
   cell without number; any integer as the number).  The answer is read on the frame between the cell centres
   (ids 0 .. N-1, N = n_lattice_edges h w) followed by the black-cell grid (ids N + 3hw .. N + 4hw - 1, declared after
   the single-cycle helper's 3hw auxiliary variables), the order in which solve_yajilin registers its answer keys.
   The single-loop rule through property C06's theorems about graph.active_edges_single_cycle on a BoolGridFrame
   (composition theorem YajilinCompose.cycle_grid_compose: variables declared after the call, is_passed = on_line in
   every model); the grid form of graph.active_vertices_not_adjacent (two shifted-slice conjunctions) is proved
   equivalent to the rule that black cells do not touch, cell by cell.  No native graph operator in these programs. *)
From Cspuz Require Import Lib.PyErr Puzzle.Rules_yajilin Puzzle.Yajilin Puzzle.YajilinProofs.
Theorem C11_yajilin_exact : forall h w kind num st ans,
  solve_yajilin_model (List.cons (List.cons (Z.of_nat h) (List.cons (Z.of_nat w) nil)) (List.cons kind (List.cons num nil))) = Ok st ->
  ((exists en, model_of no_graph en st /\
               reads st en (seq 0 (n_lattice_edges h w) ++ seq (n_lattice_edges h w + 3 * (h * w)) (h * w)) = ans)
   <-> rules_yajilin (List.cons (List.cons (Z.of_nat h) (List.cons (Z.of_nat w) nil)) (List.cons kind (List.cons num nil))) ans = true).
Proof. exact yajilin_exact. Qed.
Print Assumptions C11_yajilin_exact.

(* Tier 1, masyu, every board shape (height, width >= 1; solve_masyu raises for the others, the model returns the
   matching error) and every circle layout (1 white, 2 black, any other integer: no circle).  The answer is the
   BoolGridFrame of height - 1 x width - 1 cells whose points are the cells of the board, i.e. the
   n_lattice_edges h w = h (w - 1) + (h - 1) w segments between cell centres; the single-loop rule through property
   C06's theorems about graph.active_edges_single_cycle on a BoolGridFrame (composition theorem
   CycleCompose.cycle_frame_compose); the circle constraints built by get_edge (Python bools for the segments
   outside the board) are proved equal, circle by circle, to rules 3 and 4 of Rules_masyu.v.
   Programs of this module contain no native graph operator. *)
From Cspuz Require Import Puzzle.Rules_masyu Puzzle.Masyu Puzzle.MasyuProofs.
Theorem C11_masyu_exact : forall h w circles st ans,
  solve_masyu_model (List.cons (List.cons (Z.of_nat h) (List.cons (Z.of_nat w) nil)) (List.cons circles nil)) = Ok st ->
  ((exists en, model_of no_graph en st /\ reads st en (seq 0 (n_lattice_edges h w)) = ans)
   <-> rules_masyu (List.cons (List.cons (Z.of_nat h) (List.cons (Z.of_nat w) nil)) (List.cons circles nil)) ans = true).
Proof. exact masyu_exact. Qed.
Print Assumptions C11_masyu_exact.

(* Tier 1, geradeweg, every board shape (height, width >= 1; the Python and the model raise ValueError on boards with
   height <= 0 or width <= 0) and every clue layout (a value >= 1 is a number); the frame points are the cells; the
   single-loop rule through property C06's theorems (CycleCompose.cycle_frame_compose); the nested cond-trees of
   line_length are proved to evaluate to the straight-run lengths run_len of the rules.  No native graph operator. *)
From Cspuz Require Import Puzzle.Rules_geradeweg Puzzle.Geradeweg Puzzle.GeradewegProofs.
Theorem C11_geradeweg_exact : forall h w clues st ans,
  solve_geradeweg_model (List.cons (List.cons (Z.of_nat h) (List.cons (Z.of_nat w) nil)) (List.cons clues nil)) = Ok st ->
  ((exists en, model_of no_graph en st /\ reads st en (seq 0 (h * (w - 1) + (h - 1) * w)) = ans)
   <-> rules_geradeweg (List.cons (List.cons (Z.of_nat h) (List.cons (Z.of_nat w) nil)) (List.cons clues nil)) ans = true).
Proof. exact geradeweg_exact. Qed.
Print Assumptions C11_geradeweg_exact.

(* Tier 1, compass, every board shape and every layout of compasses and numbers: the program posted by solve_compass
   (model Puzzle/Compass.v - the division grid, ONE call of graph.division_connected = the model of property C05 with one
   group per compass rooted at the compass cell and allow_empty_group False, division[y, x] == i, and the four
   directional counts where a number is given - tied to the Python by program capture) has a model whose answer-key
   variables (the division grid itself, ids 0 .. h*w-1; only rank / is_root / spanning_forest are existential) read as
   [ans] exactly when [ans] obeys the published rules.  The hypothesis holds exactly for the problems with at least one
   compass and every compass on a cell of the board (otherwise the Python raises ValueError / IndexError). *)
From Cspuz Require Import Puzzle.Rules_compass Puzzle.Compass Puzzle.CompassProofs.
Theorem C11_compass_exact : forall h w cps st ans,
  solve_compass_model (List.cons (List.cons (Z.of_nat h) (List.cons (Z.of_nat w) nil)) (List.cons cps nil)) = Ok st ->
  ((exists en, model_of division_gsem en st /\ reads st en (key_ids st) = ans)
   <-> rules_compass (List.cons (List.cons (Z.of_nat h) (List.cons (Z.of_nat w) nil)) (List.cons cps nil)) ans = true).
Proof. exact compass_exact. Qed.
Print Assumptions C11_compass_exact.

Theorem C11_compass_key_ids : forall h w cps st,
  solve_compass_model (List.cons (List.cons (Z.of_nat h) (List.cons (Z.of_nat w) nil)) (List.cons cps nil)) = Ok st ->
  key_ids st = List.seq 0 (h * w).
Proof. exact compass_key_ids. Qed.
Print Assumptions C11_compass_key_ids.

Theorem C11_compass_model_defined : forall h w cps,
  (exists st, solve_compass_model (List.cons (List.cons (Z.of_nat h) (List.cons (Z.of_nat w) nil)) (List.cons cps nil)) = Ok st)
  <-> (Nat.modulo (length cps) 6 = 0 /\ 0 < Nat.div (length cps) 6 /\
       forall i, i < Nat.div (length cps) 6 ->
                 (0 <= cp_field cps i 0 < Z.of_nat h)%Z /\ (0 <= cp_field cps i 1 < Z.of_nat w)%Z)%nat.
Proof. exact compass_model_defined. Qed.
Print Assumptions C11_compass_model_defined.

(* ---- C11's statement in full, per module, for every board size: [solve_reports oracle st ids rules] is, by
   definition, the conclusion of C11_solve_reports (next theorem: it unfolds to it).  For each module the side
   hypotheses of C11_solve_reports are PROVED from the model (Puzzle/<P>Wf.v: <p>_model_wf - every constraint the
   model posts is a well-typed tree over declared variables, keys and declarations have the same length, the ids
   the answer is read on are answer keys), so what remains is: any solver meeting C01/C02's oracle hypotheses,
   and the module's model returning Ok. *)
From Cspuz Require Import Puzzle.WfLemmas.
Theorem C11_solve_reports_def : forall oracle st ids rules,
  solve_reports oracle st ids rules <->
  exists r, solve oracle st = Ok r /\
    match r with
    | Unsat => forall ans, rules ans = false
    | Sat sol =>
        (exists ans, rules ans = true) /\
        forall k i, nth_error ids k = Some i ->
          exists a, nth_error sol i = Some a /\
            (forall z, (exists v, a = Some v /\ zval v = z) <->
                       (forall ans, rules ans = true -> nth_error ans k = Some z)) /\
            (a = None <-> exists a1 a2, rules a1 = true /\ rules a2 = true /\ nth_error a1 k <> nth_error a2 k)
    | OutOfFuel => False
    end.
Proof. intros; apply iff_refl. Qed.
Print Assumptions C11_solve_reports_def.

From Cspuz Require Import Puzzle.NorinoriWf.
Theorem C11_norinori_solve_reports : forall oracle, oracle_sound_on oracle -> oracle_complete_on oracle ->
  forall h w region st, 
  solve_norinori_model (List.cons (List.cons (Z.of_nat h) (List.cons (Z.of_nat w) nil)) (List.cons region nil)) = Ok st ->
  solve_reports oracle st (seq 0 (h * w)) (rules_norinori (List.cons (List.cons (Z.of_nat h) (List.cons (Z.of_nat w) nil)) (List.cons region nil))).
Proof. exact norinori_solve_reports. Qed.
Print Assumptions C11_norinori_solve_reports.

From Cspuz Require Import Puzzle.PutteriaWf.
Theorem C11_putteria_solve_reports : forall oracle, oracle_sound_on oracle -> oracle_complete_on oracle ->
  forall h w region st, 
  solve_putteria_model (List.cons (List.cons (Z.of_nat h) (List.cons (Z.of_nat w) nil)) (List.cons region nil)) = Ok st ->
  solve_reports oracle st (seq 0 (h * w)) (rules_putteria (List.cons (List.cons (Z.of_nat h) (List.cons (Z.of_nat w) nil)) (List.cons region nil))).
Proof. exact putteria_solve_reports. Qed.
Print Assumptions C11_putteria_solve_reports.

From Cspuz Require Import Puzzle.StarBattleWf.
Theorem C11_star_battle_solve_reports : forall oracle, oracle_sound_on oracle -> oracle_complete_on oracle ->
  forall n k region st, (0 <= k)%Z ->
  solve_star_battle_model (List.cons (List.cons (Z.of_nat n) (List.cons k nil)) (List.cons region nil)) = Ok st ->
  solve_reports oracle st (seq 0 (n * n)) (rules_star_battle (List.cons (List.cons (Z.of_nat n) (List.cons k nil)) (List.cons region nil))).
Proof. exact star_battle_solve_reports. Qed.
Print Assumptions C11_star_battle_solve_reports.

From Cspuz Require Import Puzzle.SudokuWf.
Theorem C11_sudoku_solve_reports : forall oracle, oracle_sound_on oracle -> oracle_complete_on oracle ->
  forall n clues st, 
  solve_sudoku_model (List.cons (List.cons (Z.of_nat n) nil) (List.cons clues nil)) = Ok st ->
  solve_reports oracle st (seq 0 ((n * n) * (n * n))) (rules_sudoku (List.cons (List.cons (Z.of_nat n) nil) (List.cons clues nil))).
Proof. exact sudoku_solve_reports. Qed.
Print Assumptions C11_sudoku_solve_reports.

From Cspuz Require Import Puzzle.AkariWf.
Theorem C11_akari_solve_reports : forall oracle, oracle_sound_on oracle -> oracle_complete_on oracle ->
  forall h w grid st, 
  solve_akari_model (List.cons (List.cons (Z.of_nat h) (List.cons (Z.of_nat w) nil)) (List.cons grid nil)) = Ok st ->
  solve_reports oracle st (seq 0 (h * w)) (rules_akari (List.cons (List.cons (Z.of_nat h) (List.cons (Z.of_nat w) nil)) (List.cons grid nil))).
Proof. exact akari_solve_reports. Qed.
Print Assumptions C11_akari_solve_reports.

From Cspuz Require Import Puzzle.AquariumWf.
Theorem C11_aquarium_solve_reports : forall oracle, oracle_sound_on oracle -> oracle_complete_on oracle ->
  forall h w region rows cols st, (forall i : Z, GraphModel.connected (board h w) (fun v => (getz region v =? i)%Z)) ->
  solve_aquarium_model (List.cons (List.cons (Z.of_nat h) (List.cons (Z.of_nat w) nil)) (List.cons region (List.cons rows (List.cons cols nil)))) = Ok st ->
  solve_reports oracle st (seq 0 (h * w)) (rules_aquarium (List.cons (List.cons (Z.of_nat h) (List.cons (Z.of_nat w) nil)) (List.cons region (List.cons rows (List.cons cols nil))))).
Proof. exact aquarium_solve_reports. Qed.
Print Assumptions C11_aquarium_solve_reports.

From Cspuz Require Import Puzzle.BuildingWf.
Theorem C11_building_solve_reports : forall oracle, oracle_sound_on oracle -> oracle_complete_on oracle ->
  forall n up dw lf rg st, 
  solve_building_model (List.cons (List.cons (Z.of_nat n) nil) (List.cons up (List.cons dw (List.cons lf (List.cons rg nil))))) = Ok st ->
  solve_reports oracle st (seq 0 (n * n)) (rules_building (List.cons (List.cons (Z.of_nat n) nil) (List.cons up (List.cons dw (List.cons lf (List.cons rg nil)))))).
Proof. exact building_solve_reports. Qed.
Print Assumptions C11_building_solve_reports.

From Cspuz Require Import Puzzle.DoppelblockWf.
Theorem C11_doppelblock_solve_reports : forall oracle, oracle_sound_on oracle -> oracle_complete_on oracle ->
  forall n rows cols st, 
  solve_doppelblock_model (List.cons (List.cons (Z.of_nat n) nil) (List.cons rows (List.cons cols nil))) = Ok st ->
  solve_reports oracle st (seq 0 (n * n)) (rules_doppelblock (List.cons (List.cons (Z.of_nat n) nil) (List.cons rows (List.cons cols nil)))).
Proof. exact doppelblock_solve_reports. Qed.
Print Assumptions C11_doppelblock_solve_reports.

From Cspuz Require Import Puzzle.CreekWf.
Theorem C11_creek_solve_reports : forall oracle, oracle_sound_on oracle -> oracle_complete_on oracle ->
  forall h w clue st, 
  solve_creek_model (List.cons (List.cons (Z.of_nat h) (List.cons (Z.of_nat w) nil)) (List.cons clue nil)) = Ok st ->
  solve_reports oracle st (seq 0 (h * w)) (rules_creek (List.cons (List.cons (Z.of_nat h) (List.cons (Z.of_nat w) nil)) (List.cons clue nil))).
Proof. exact creek_solve_reports. Qed.
Print Assumptions C11_creek_solve_reports.

From Cspuz Require Import Puzzle.NurimisakiWf.
Theorem C11_nurimisaki_solve_reports : forall oracle, oracle_sound_on oracle -> oracle_complete_on oracle ->
  forall h w grid st, 
  solve_nurimisaki_model (List.cons (List.cons (Z.of_nat h) (List.cons (Z.of_nat w) nil)) (List.cons grid nil)) = Ok st ->
  solve_reports oracle st (seq 0 (h * w)) (rules_nurimisaki (List.cons (List.cons (Z.of_nat h) (List.cons (Z.of_nat w) nil)) (List.cons grid nil))).
Proof. exact nurimisaki_solve_reports. Qed.
Print Assumptions C11_nurimisaki_solve_reports.

From Cspuz Require Import Puzzle.HeyawakeWf.
Theorem C11_heyawake_solve_reports : forall oracle, oracle_sound_on oracle -> oracle_complete_on oracle ->
  forall h w room clue st, 
  solve_heyawake_model (List.cons (List.cons (Z.of_nat h) (List.cons (Z.of_nat w) nil)) (List.cons room (List.cons clue nil))) = Ok st ->
  solve_reports oracle st (seq 0 (h * w)) (rules_heyawake (List.cons (List.cons (Z.of_nat h) (List.cons (Z.of_nat w) nil)) (List.cons room (List.cons clue nil)))).
Proof. exact heyawake_solve_reports. Qed.
Print Assumptions C11_heyawake_solve_reports.

From Cspuz Require Import Puzzle.GokigenWf.
Theorem C11_gokigen_solve_reports : forall oracle, oracle_sound_on oracle -> oracle_complete_on oracle ->
  forall h w clue st, 
  solve_gokigen_model (List.cons (List.cons (Z.of_nat h) (List.cons (Z.of_nat w) nil)) (List.cons clue nil)) = Ok st ->
  solve_reports oracle st (seq 0 (h * w)) (rules_gokigen (List.cons (List.cons (Z.of_nat h) (List.cons (Z.of_nat w) nil)) (List.cons clue nil))).
Proof. exact gokigen_solve_reports. Qed.
Print Assumptions C11_gokigen_solve_reports.

From Cspuz Require Import Puzzle.SlitherlinkWf.
Theorem C11_slitherlink_solve_reports : forall oracle, oracle_sound_on oracle -> oracle_complete_on oracle ->
  forall h w clues st, 
  solve_slitherlink_model (List.cons (List.cons (Z.of_nat h) (List.cons (Z.of_nat w) nil)) (List.cons clues nil)) = Ok st ->
  solve_reports oracle st (seq 0 (S h * w + h * S w)) (rules_slitherlink (List.cons (List.cons (Z.of_nat h) (List.cons (Z.of_nat w) nil)) (List.cons clues nil))).
Proof. exact slitherlink_solve_reports. Qed.
Print Assumptions C11_slitherlink_solve_reports.

From Cspuz Require Import Puzzle.ViewWf.
Theorem C11_view_solve_reports : forall oracle, oracle_sound_on oracle -> oracle_complete_on oracle ->
  forall h w grid st, 
  solve_view_model (List.cons (List.cons (Z.of_nat h) (List.cons (Z.of_nat w) nil)) (List.cons grid nil)) = Ok st ->
  solve_reports oracle st (seq (3 * (h * w)) (h * w) ++ seq 0 (h * w)) (rules_view (List.cons (List.cons (Z.of_nat h) (List.cons (Z.of_nat w) nil)) (List.cons grid nil))).
Proof. exact view_solve_reports. Qed.
Print Assumptions C11_view_solve_reports.

From Cspuz Require Import Puzzle.NurikabeWf.
Theorem C11_nurikabe_solve_reports : forall oracle, oracle_sound_on oracle -> oracle_complete_on oracle ->
  forall h w grid st, 
  solve_nurikabe_model (List.cons (List.cons (Z.of_nat h) (List.cons (Z.of_nat w) nil)) (List.cons grid nil)) = Ok st ->
  solve_reports oracle st (key_ids st) (rules_nurikabe (List.cons (List.cons (Z.of_nat h) (List.cons (Z.of_nat w) nil)) (List.cons grid nil))).
Proof. exact nurikabe_solve_reports. Qed.
Print Assumptions C11_nurikabe_solve_reports.

(* Tier 1, fivecells, every board shape and every layout of holes (< -1), blank cells (-1) and numbers (>= 0), any meaning
   gsem of the native graph operators (none is posted): the program posted by solve_fivecells (model Puzzle/Fivecells.v - the
   graph on the renumbered usable cells, graph.division_connected_variable_groups with group_size = 5 = the model of
   property C07, one count_true(group_id[c] != group_id[nb]) == number - (4 - #usable neighbours) per number, then the
   is_border variables with is_border[k] == (group_id[u] != group_id[v]) - tied to the Python by program capture) has a model
   whose answer-key variables (is_border, declared after the existential group_id / rank / is_root / is_active_edge /
   downstream_size / total_size variables) read as [ans] exactly when [ans] obeys the published rules.  Regions through
   property C07's theorem vargroups_exact_scalar (Puzzle/GroupsCompose.v::groups_compose, emb_border_exact).  The
   hypothesis holds exactly for the full grids with at least one usable cell (otherwise the Python raises IndexError /
   ValueError, and so does the model). *)
From Cspuz Require Import Graph.VarGroups Puzzle.GroupsCompose Puzzle.Rules_fivecells Puzzle.Fivecells Puzzle.FivecellsProofs.
Theorem C11_fivecells_exact : forall gsem h w grid st ans,
  solve_fivecells_model (List.cons (List.cons (Z.of_nat h) (List.cons (Z.of_nat w) nil)) (List.cons grid nil)) = Ok st ->
  ((exists en, model_of gsem en st /\ reads st en (key_ids st) = ans)
   <-> rules_fivecells (List.cons (List.cons (Z.of_nat h) (List.cons (Z.of_nat w) nil)) (List.cons grid nil)) ans = true).
Proof. exact fivecells_exact. Qed.
Print Assumptions C11_fivecells_exact.

Theorem C11_fivecells_key_ids : forall h w grid st,
  solve_fivecells_model (List.cons (List.cons (Z.of_nat h) (List.cons (Z.of_nat w) nil)) (List.cons grid nil)) = Ok st ->
  key_ids st = List.seq (5 * fc_vid grid (h * w) + length (fc_pairs h w grid)) (length (fc_pairs h w grid)).
Proof. exact fivecells_key_ids. Qed.
Print Assumptions C11_fivecells_key_ids.

Theorem C11_fivecells_model_defined : forall h w grid,
  (exists st, solve_fivecells_model (List.cons (List.cons (Z.of_nat h) (List.cons (Z.of_nat w) nil)) (List.cons grid nil)) = Ok st)
  <-> (h * w <= length grid /\ 1 <= fc_vid grid (h * w))%nat.
Proof. exact fivecells_model_defined. Qed.
Print Assumptions C11_fivecells_model_defined.

(* Tier 1, fillomino, every board shape and every layout of given numbers (a cell value >= 1 is a given number, anything
   else empty): the program posted by solve_fillomino (model Puzzle/Fillomino.v - the size grid 1..h*w = the answer keys,
   ids 0..h*w-1; the BoolInnerGridFrame of borders; graph.division_connected_variable_groups_with_borders = the model of
   property C07, inner-frame form, auxiliary-variable route; "a border lies exactly between cells of different size"; the
   given numbers - tied to the Python by program capture) has a model reading as [ans] on the size grid exactly when [ans]
   obeys the published rules.  Border variables and the connectivity encoding's variables are existential; composition
   through C07's vargroups_borders_exact / vargroups_frame_layout (Puzzle/BordersCompose.v: borders_grid_compose,
   border_exact_groups).  The hypothesis holds exactly for boards with at least one cell and a full clue list (otherwise
   the Python raises ValueError / IndexError). *)
From Cspuz Require Import Puzzle.Rules_fillomino Puzzle.Fillomino Puzzle.FillominoProofs.
Theorem C11_fillomino_exact : forall h w given st ans,
  solve_fillomino_model (List.cons (List.cons (Z.of_nat h) (List.cons (Z.of_nat w) nil)) (List.cons given nil)) = Ok st ->
  ((exists en, model_of no_graph en st /\ reads st en (seq 0 (h * w)) = ans)
   <-> rules_fillomino (List.cons (List.cons (Z.of_nat h) (List.cons (Z.of_nat w) nil)) (List.cons given nil)) ans = true).
Proof. exact fillomino_exact. Qed.
Print Assumptions C11_fillomino_exact.

Theorem C11_fillomino_model_defined : forall h w given,
  (exists st, solve_fillomino_model (List.cons (List.cons (Z.of_nat h) (List.cons (Z.of_nat w) nil)) (List.cons given nil)) = Ok st)
  <-> (0 < h * w <= length given)%nat.
Proof. exact fillomino_model_defined. Qed.
Print Assumptions C11_fillomino_model_defined.

(* Tier 1, shakashaka, every board shape and every layout of white / black / numbered cells: the program posted by
   solve_shakashaka (model Puzzle/Shakashaka.v, tied to the Python by program capture) has a model reading as [ans]
   on the answer grid exactly when [ans] obeys Rules_shakashaka (triangles only in white cells, every number counts
   the triangles around it, every white area passes the rule file's executable rectangle test); the equivalence of the
   posted local corner patterns with the rectangle test is a geometric theorem (Puzzle/Shakashaka{Geo,Axis,Diag,Sound,
   Complete,Bridge,Count,Rect}.v) *)
From Cspuz Require Import Lib.PyErr Puzzle.Rules_shakashaka Puzzle.Shakashaka Puzzle.ShakashakaProofs Puzzle.ShakashakaWf.
Theorem C11_shakashaka_exact : forall h w grid st ans,
  solve_shakashaka_model (List.cons (List.cons (Z.of_nat h) (List.cons (Z.of_nat w) nil)) (List.cons grid nil)) = Ok st ->
  ((exists en, model_of no_graph en st /\ reads st en (seq 0 (h * w)) = ans)
   <-> rules_shakashaka (List.cons (List.cons (Z.of_nat h) (List.cons (Z.of_nat w) nil)) (List.cons grid nil)) ans = true).
Proof. exact shakashaka_exact. Qed.
Print Assumptions C11_shakashaka_exact.

Theorem C11_shakashaka_solve_reports : forall oracle, oracle_sound_on oracle -> oracle_complete_on oracle ->
  forall h w grid st,
  solve_shakashaka_model (List.cons (List.cons (Z.of_nat h) (List.cons (Z.of_nat w) nil)) (List.cons grid nil)) = Ok st ->
  solve_reports oracle st (seq 0 (h * w)) (rules_shakashaka (List.cons (List.cons (Z.of_nat h) (List.cons (Z.of_nat w) nil)) (List.cons grid nil))).
Proof. exact shakashaka_solve_reports. Qed.
Print Assumptions C11_shakashaka_solve_reports.

(* Tier 1, yinyang, every board shape and every clue layout: the program posted by solve_yinyang (model Puzzle/Yinyang.v -
   graph.active_vertices_connected = the model of property C04 called twice, on the grid and on its negation (NOT-nodes as
   activity flags), the two "no monochrome 2x2" constraints, the clue constraints and the three auxiliary constraints the
   published rules do not state: no 2x2 checkerboard (two constraints) and at most two colour changes along the border walk -
   tied to the Python by program capture) has a model reading as [ans] exactly when [ans] obeys the published rules.
   The auxiliary constraints follow from the rules by planarity only; C11_yinyang_aux_implied is that statement, proved for
   every board size by a crossing-parity argument (Puzzle/YinyangPlanar.v, YinyangBorder.v, YinyangAuxProofs.v; bounded
   re-checks by kernel computation on all small boards are in Puzzle/YinyangBounded.v, outside this file's closure). *)
From Cspuz Require Import Graph.Avc Puzzle.Rules_yinyang Puzzle.Yinyang Puzzle.YinyangAux Puzzle.YinyangLemmas
     Puzzle.YinyangAuxProofs Puzzle.YinyangProofs.
Theorem C11_yinyang_exact : forall h w grid st ans,
  solve_yinyang_model (List.cons (List.cons (Z.of_nat h) (List.cons (Z.of_nat w) nil)) (List.cons grid nil)) = Ok st ->
  ((exists en, model_of gsem_avc en st /\ reads st en (seq 0 (h * w)) = ans)
   <-> rules_yinyang (List.cons (List.cons (Z.of_nat h) (List.cons (Z.of_nat w) nil)) (List.cons grid nil)) ans = true).
Proof. exact yinyang_exact. Qed.
Print Assumptions C11_yinyang_exact.

Theorem C11_yinyang_model_defined : forall h w grid,
  (exists st, solve_yinyang_model (List.cons (List.cons (Z.of_nat h) (List.cons (Z.of_nat w) nil)) (List.cons grid nil)) = Ok st)
  <-> (0 < h * w <= length grid)%nat.
Proof. exact yinyang_model_defined. Qed.
Print Assumptions C11_yinyang_model_defined.

Theorem C11_yinyang_aux_implied : forall h w given ans,
  rules_yinyang (List.cons (List.cons (Z.of_nat h) (List.cons (Z.of_nat w) nil)) (List.cons given nil)) ans = true ->
  yy_aux h w ans = true.
Proof. exact yinyang_aux_implied. Qed.
Print Assumptions C11_yinyang_aux_implied.

Theorem C11_yinyang_model_exact : forall h w grid st ans,
  solve_yinyang_model (List.cons (List.cons (Z.of_nat h) (List.cons (Z.of_nat w) nil)) (List.cons grid nil)) = Ok st ->
  ((exists en, model_of gsem_avc en st /\ reads st en (seq 0 (h * w)) = ans)
   <-> rules_yinyang (List.cons (List.cons (Z.of_nat h) (List.cons (Z.of_nat w) nil)) (List.cons grid nil)) ans
       && yy_aux h w ans = true).
Proof. exact yinyang_model_exact. Qed.
Print Assumptions C11_yinyang_model_exact.

(* Tier 1, castle_wall, every board shape (height, width >= 1: single-row and single-column boards included; the
   model - like the Python - rejects height <= 0 or width <= 0) and every clue layout (kind 0 = no clue, 1..4 =
   arrows ^ v < > with any integer as number, other kinds = clue cell without arrow; side 1 = white, 2 = black).
   Hypothesis cw_wf: only clue cells are marked white / black (the encoding of Rules_castle_wall.v: "side 0 = gray
   / not a clue"); it cannot be dropped (CastleWallProofs.castle_wall_wf_needed), and C11_castle_wall_program says
   what the posted program means without it.  Single-loop rule through C06 (CastleWallCompose.cycle_frame_compose_aux:
   auxiliary booleans declared AFTER the graph call; the post-call state is closed under later variables).  Inside /
   outside: the is_inside flags are determined by their recurrence (parity of horizontal segments above a unit
   square), proved equal to the rule file's parity of vertical segments right of the cell for every cell off the
   line once every lattice point has even degree - a discrete 2-colouring argument, no Jordan curve theorem.
   Programs of this module contain no native graph operator. *)
From Cspuz Require Import Lib.PyErr Puzzle.CycleFrameBase Puzzle.Rules_castle_wall Puzzle.CastleWall Puzzle.CastleWallProofs.
Theorem C11_castle_wall_exact : forall h w kind num side st ans,
  cw_wf h w kind side = true ->
  solve_castle_wall_model (List.cons (List.cons (Z.of_nat h) (List.cons (Z.of_nat w) nil))
                             (List.cons kind (List.cons num (List.cons side nil)))) = Ok st ->
  ((exists en, model_of no_graph en st /\ reads st en (seq 0 (h * (w - 1) + (h - 1) * w)) = ans)
   <-> rules_castle_wall (List.cons (List.cons (Z.of_nat h) (List.cons (Z.of_nat w) nil))
                            (List.cons kind (List.cons num (List.cons side nil)))) ans = true).
Proof. exact castle_wall_exact. Qed.
Print Assumptions C11_castle_wall_exact.

Theorem C11_castle_wall_program : forall fh fw kind num side st ans,
  solve_castle_wall_model (List.cons (List.cons (Z.of_nat (S fh)) (List.cons (Z.of_nat (S fw)) nil))
                             (List.cons kind (List.cons num (List.cons side nil)))) = Ok st ->
  ((exists en, model_of no_graph en st /\ reads st en (seq 0 (frame_n fh fw)) = ans)
   <-> Nat.eqb (length ans) (frame_n fh fw) && forallb is01 ans &&
       single_loop_b (lattice (S fh) (S fw)) (fun k => isb (getz ans k)) && cw_local fh fw kind num side ans = true).
Proof. exact castle_wall_program. Qed.
Print Assumptions C11_castle_wall_program.

(* Tier 1, lits, every board shape and every room layout (rooms given as region ids 0..k-1; an id that no cell
   carries is an empty room): the tetromino of each room through the three posted counting conditions
   (LitsClassify.classify: four cells, each with a neighbour in the room, exactly three adjacent pairs = a translate
   of one of the 18 fixed non-square tetrominoes), the auxiliary variables num_straight / has_t existentially
   (they carry the kind L/I/T/S of the room's shape), connectivity of the black cells through property C04's
   theorems (LitsProofs.lits_compose: variables declared after the connectivity helper) *)
From Cspuz Require Import Puzzle.Rules_lits Puzzle.Lits Puzzle.LitsProofs.
Theorem C11_lits_exact : forall h w region st ans,
  solve_lits_model (List.cons (List.cons (Z.of_nat h) (List.cons (Z.of_nat w) nil)) (List.cons region nil)) = Ok st ->
  ((exists en, model_of gsem_avc en st /\ reads st en (seq 0 (h * w)) = ans)
   <-> rules_lits (List.cons (List.cons (Z.of_nat h) (List.cons (Z.of_nat w) nil)) (List.cons region nil)) ans = true).
Proof. exact lits_exact. Qed.
Print Assumptions C11_lits_exact.

(* the remaining modules' solve_reports corollaries (Puzzle/<P>Wf.v; VarGroupsWf.v for the C07 helpers) *)
From Cspuz Require Import Puzzle.MasyuWf.
Theorem C11_masyu_solve_reports : forall oracle, oracle_sound_on oracle -> oracle_complete_on oracle ->
  forall h w circles st, 
  solve_masyu_model (List.cons (List.cons (Z.of_nat h) (List.cons (Z.of_nat w) nil)) (List.cons circles nil)) = Ok st ->
  solve_reports oracle st (seq 0 (n_lattice_edges h w)) (rules_masyu (List.cons (List.cons (Z.of_nat h) (List.cons (Z.of_nat w) nil)) (List.cons circles nil))).
Proof. exact masyu_solve_reports. Qed.
Print Assumptions C11_masyu_solve_reports.

From Cspuz Require Import Puzzle.GeradewegWf.
Theorem C11_geradeweg_solve_reports : forall oracle, oracle_sound_on oracle -> oracle_complete_on oracle ->
  forall h w clues st, 
  solve_geradeweg_model (List.cons (List.cons (Z.of_nat h) (List.cons (Z.of_nat w) nil)) (List.cons clues nil)) = Ok st ->
  solve_reports oracle st (seq 0 (h * (w - 1) + (h - 1) * w)) (rules_geradeweg (List.cons (List.cons (Z.of_nat h) (List.cons (Z.of_nat w) nil)) (List.cons clues nil))).
Proof. exact geradeweg_solve_reports. Qed.
Print Assumptions C11_geradeweg_solve_reports.

From Cspuz Require Import Puzzle.SimpleloopWf.
Theorem C11_simpleloop_solve_reports : forall oracle, oracle_sound_on oracle -> oracle_complete_on oracle ->
  forall h w py px blocked st, 
  solve_simpleloop_model (List.cons (List.cons (Z.of_nat h) (List.cons (Z.of_nat w) (List.cons (Z.of_nat py) (List.cons (Z.of_nat px) nil)))) (List.cons blocked nil)) = Ok st ->
  solve_reports oracle st (seq 0 (h * (w - 1) + (h - 1) * w)) (rules_simpleloop (List.cons (List.cons (Z.of_nat h) (List.cons (Z.of_nat w) (List.cons (Z.of_nat py) (List.cons (Z.of_nat px) nil)))) (List.cons blocked nil))).
Proof. exact simpleloop_solve_reports. Qed.
Print Assumptions C11_simpleloop_solve_reports.

From Cspuz Require Import Puzzle.YajilinWf.
Theorem C11_yajilin_solve_reports : forall oracle, oracle_sound_on oracle -> oracle_complete_on oracle ->
  forall h w kind num st, 
  solve_yajilin_model (List.cons (List.cons (Z.of_nat h) (List.cons (Z.of_nat w) nil)) (List.cons kind (List.cons num nil))) = Ok st ->
  solve_reports oracle st (seq 0 (n_lattice_edges h w) ++ seq (n_lattice_edges h w + 3 * (h * w)) (h * w)) (rules_yajilin (List.cons (List.cons (Z.of_nat h) (List.cons (Z.of_nat w) nil)) (List.cons kind (List.cons num nil)))).
Proof. exact yajilin_solve_reports. Qed.
Print Assumptions C11_yajilin_solve_reports.

From Cspuz Require Import Puzzle.CastleWallWf.
Theorem C11_castle_wall_solve_reports : forall oracle, oracle_sound_on oracle -> oracle_complete_on oracle ->
  forall h w kind num side st, cw_wf h w kind side = true ->
  solve_castle_wall_model (List.cons (List.cons (Z.of_nat h) (List.cons (Z.of_nat w) nil)) (List.cons kind (List.cons num (List.cons side nil)))) = Ok st ->
  solve_reports oracle st (seq 0 (h * (w - 1) + (h - 1) * w)) (rules_castle_wall (List.cons (List.cons (Z.of_nat h) (List.cons (Z.of_nat w) nil)) (List.cons kind (List.cons num (List.cons side nil))))).
Proof. exact castle_wall_solve_reports. Qed.
Print Assumptions C11_castle_wall_solve_reports.

From Cspuz Require Import Puzzle.YinyangWf.
Theorem C11_yinyang_solve_reports : forall oracle, oracle_sound_on oracle -> oracle_complete_on oracle ->
  forall h w grid st, 
  solve_yinyang_model (List.cons (List.cons (Z.of_nat h) (List.cons (Z.of_nat w) nil)) (List.cons grid nil)) = Ok st ->
  solve_reports oracle st (seq 0 (h * w)) (rules_yinyang (List.cons (List.cons (Z.of_nat h) (List.cons (Z.of_nat w) nil)) (List.cons grid nil))).
Proof. exact yinyang_solve_reports. Qed.
Print Assumptions C11_yinyang_solve_reports.

From Cspuz Require Import Puzzle.CompassWf.
Theorem C11_compass_solve_reports : forall oracle, oracle_sound_on oracle -> oracle_complete_on oracle ->
  forall h w cps st, 
  solve_compass_model (List.cons (List.cons (Z.of_nat h) (List.cons (Z.of_nat w) nil)) (List.cons cps nil)) = Ok st ->
  solve_reports oracle st (key_ids st) (rules_compass (List.cons (List.cons (Z.of_nat h) (List.cons (Z.of_nat w) nil)) (List.cons cps nil))).
Proof. exact compass_solve_reports. Qed.
Print Assumptions C11_compass_solve_reports.

From Cspuz Require Import Puzzle.FillominoWf.
Theorem C11_fillomino_solve_reports : forall oracle, oracle_sound_on oracle -> oracle_complete_on oracle ->
  forall h w given st, 
  solve_fillomino_model (List.cons (List.cons (Z.of_nat h) (List.cons (Z.of_nat w) nil)) (List.cons given nil)) = Ok st ->
  solve_reports oracle st (seq 0 (h * w)) (rules_fillomino (List.cons (List.cons (Z.of_nat h) (List.cons (Z.of_nat w) nil)) (List.cons given nil))).
Proof. exact fillomino_solve_reports. Qed.
Print Assumptions C11_fillomino_solve_reports.

From Cspuz Require Import Puzzle.FivecellsWf.
Theorem C11_fivecells_solve_reports : forall oracle, oracle_sound_on oracle -> oracle_complete_on oracle ->
  forall h w grid st, 
  solve_fivecells_model (List.cons (List.cons (Z.of_nat h) (List.cons (Z.of_nat w) nil)) (List.cons grid nil)) = Ok st ->
  solve_reports oracle st (key_ids st) (rules_fivecells (List.cons (List.cons (Z.of_nat h) (List.cons (Z.of_nat w) nil)) (List.cons grid nil))).
Proof. exact fivecells_solve_reports. Qed.
Print Assumptions C11_fivecells_solve_reports.


(* ---- the five modules of cspuz.puzzle outside the property's anchor list (firefly, magnets, nanro, nurimaze, slalom) are
   covered in the same way: rule specification, plug-in (Tier 2 + search), Tier-1 model and theorem. *)

(* Tier 1, magnets, every board shape, plate layout (to_right / to_down flags) and clue vector; rule 1 is stated per plate
   (for a proper domino division exactly the published rule), so no tiling hypothesis is needed *)
From Cspuz Require Import Puzzle.Rules_magnets Puzzle.Magnets Puzzle.MagnetsProofs.
Theorem C11_magnets_exact : forall h w tr td rp rm cp cm st ans,
  solve_magnets_model (List.cons (List.cons (Z.of_nat h) (List.cons (Z.of_nat w) nil))
     (List.cons tr (List.cons td (List.cons rp (List.cons rm (List.cons cp (List.cons cm nil))))))) = Ok st ->
  ((exists en, model_of no_graph en st /\ reads st en (seq 0 (2 * (h * w))) = ans)
   <-> rules_magnets (List.cons (List.cons (Z.of_nat h) (List.cons (Z.of_nat w) nil))
     (List.cons tr (List.cons td (List.cons rp (List.cons rm (List.cons cp (List.cons cm nil))))))) ans = true).
Proof. exact magnets_exact. Qed.
Print Assumptions C11_magnets_exact.

Theorem C11_magnets_model_defined : forall (h w : nat) (tr td rp rm cp cm : list Z),
  (h * w <= length tr)%nat -> (h * w <= length td)%nat ->
  (h <= length rp)%nat -> (h <= length rm)%nat -> (w <= length cp)%nat -> (w <= length cm)%nat ->
  mag_rim_flag h w tr td = false ->
  exists st, solve_magnets_model (List.cons (List.cons (Z.of_nat h) (List.cons (Z.of_nat w) nil))
     (List.cons tr (List.cons td (List.cons rp (List.cons rm (List.cons cp (List.cons cm nil))))))) = Ok st.
Proof. exact magnets_model_defined. Qed.
Print Assumptions C11_magnets_model_defined.

From Cspuz Require Import Puzzle.MagnetsWf.
Theorem C11_magnets_solve_reports : forall oracle, oracle_sound_on oracle -> oracle_complete_on oracle ->
  forall h w tr td rp rm cp cm st,
  solve_magnets_model (List.cons (List.cons (Z.of_nat h) (List.cons (Z.of_nat w) nil))
     (List.cons tr (List.cons td (List.cons rp (List.cons rm (List.cons cp (List.cons cm nil))))))) = Ok st ->
  solve_reports oracle st (seq 0 (2 * (h * w)))
    (rules_magnets (List.cons (List.cons (Z.of_nat h) (List.cons (Z.of_nat w) nil))
     (List.cons tr (List.cons td (List.cons rp (List.cons rm (List.cons cp (List.cons cm nil)))))))).
Proof. exact magnets_solve_reports. Qed.
Print Assumptions C11_magnets_solve_reports.

(* Tier 1, nanro, every board shape, every room layout (rooms given as room ids 0..k-1; an id that no cell carries is
   an empty room) and every layout of given numbers: the program posted by solve_nanro (model Puzzle/Nanro.v - has_num,
   the cell values with has_num <-> value != 0, graph.active_vertices_connected on has_num = the model of property C04,
   then the per-room counters `nonempty` and the room / given-number / 2x2 / room-border constraints - tied to the Python
   by program capture) has a model whose answer-key variables (the cell values, ids h*w .. 2*h*w-1; has_num, ranks, root
   flags and the counters are existential) read as [ans] exactly when [ans] obeys the published rules.  Connectivity of the
   numbered cells through property C04's theorems (NanroCompose.avc_mid_*: the connectivity call sits in the middle of the
   program).  The hypothesis holds exactly for the problems with at least one cell, a full room grid without negative
   ids and a full grid of given numbers (C11_nanro_model_defined). *)
From Cspuz Require Import Graph.Avc Puzzle.Rules_norinori Puzzle.Rules_nanro Puzzle.Nanro Puzzle.NanroProofs Puzzle.NanroWf.
Theorem C11_nanro_exact : forall h w room num st ans,
  solve_nanro_model (List.cons (List.cons (Z.of_nat h) (List.cons (Z.of_nat w) nil)) (List.cons room (List.cons num nil))) = Ok st ->
  ((exists en, model_of gsem_avc en st /\ reads st en (seq (h * w) (h * w)) = ans)
   <-> rules_nanro (List.cons (List.cons (Z.of_nat h) (List.cons (Z.of_nat w) nil)) (List.cons room (List.cons num nil))) ans = true).
Proof. exact nanro_exact. Qed.
Print Assumptions C11_nanro_exact.

Theorem C11_nanro_keys : forall h w room num st,
  solve_nanro_model (List.cons (List.cons (Z.of_nat h) (List.cons (Z.of_nat w) nil)) (List.cons room (List.cons num nil))) = Ok st ->
  keys st = (repeat false (h * w) ++ repeat true (h * w) ++ repeat false (h * w) ++ repeat false (h * w) ++
             repeat false (n_regions room))%list.
Proof. exact nanro_keys. Qed.
Print Assumptions C11_nanro_keys.

Theorem C11_nanro_model_defined : forall h w room num,
  (exists st, solve_nanro_model (List.cons (List.cons (Z.of_nat h) (List.cons (Z.of_nat w) nil)) (List.cons room (List.cons num nil))) = Ok st)
  <-> (forallb (fun z => (0 <=? z)%Z) room = true /\ (0 < h * w <= length room)%nat /\ (h * w <= length num)%nat).
Proof. exact nanro_model_defined. Qed.
Print Assumptions C11_nanro_model_defined.

Theorem C11_nanro_solve_reports : forall oracle, oracle_sound_on oracle -> oracle_complete_on oracle ->
  forall h w room num st,
  solve_nanro_model (List.cons (List.cons (Z.of_nat h) (List.cons (Z.of_nat w) nil)) (List.cons room (List.cons num nil))) = Ok st ->
  solve_reports oracle st (seq (h * w) (h * w))
    (rules_nanro (List.cons (List.cons (Z.of_nat h) (List.cons (Z.of_nat w) nil)) (List.cons room (List.cons num nil)))).
Proof. exact nanro_solve_reports. Qed.
Print Assumptions C11_nanro_solve_reports.

(* Tier 1, nurimaze (a module not in the original 26), every board shape, every layout of bold lines and symbols, every
   S / G of which at least one is a cell of the board: composition with property C04's acyclic form
   (NurimazeCompose: active_vertices_connected(..., acyclic=True), path variables declared after the helper); the path
   grid is existential - in every model it IS the route of the rules, i.e. the cells that separate S from G in the
   maze (NurimazeTree.nmt_route_sound, by the handshake lemma on the components of the path cells), and the route
   has the posted degrees (nmt_end_degree / nmt_mid_degree); with S = G or one of them off the board neither side
   has a solution (nmt_one_end); tiles = connected components of the cells joined across missing bold lines *)
From Cspuz Require Import Puzzle.Rules_nurimaze Puzzle.Nurimaze Puzzle.NurimazeProofs.
Theorem C11_nurimaze_exact : forall h w wv wh mark sy sx gy gx st ans,
  on_board h w sy sx = true \/ on_board h w gy gx = true ->
  solve_nurimaze_model (List.cons (List.cons (Z.of_nat h) (List.cons (Z.of_nat w) nil)) (List.cons wv (List.cons wh
     (List.cons mark (List.cons (List.cons sy (List.cons sx (List.cons gy (List.cons gx nil)))) nil))))) = Ok st ->
  ((exists en, model_of gsem_avc en st /\ reads st en (seq 0 (h * w)) = ans)
   <-> rules_nurimaze (List.cons (List.cons (Z.of_nat h) (List.cons (Z.of_nat w) nil)) (List.cons wv (List.cons wh
     (List.cons mark (List.cons (List.cons sy (List.cons sx (List.cons gy (List.cons gx nil)))) nil))))) ans = true).
Proof. exact nurimaze_exact_gen. Qed.
Print Assumptions C11_nurimaze_exact.

Theorem C11_nurimaze_model_defined : forall (h w : nat) (wv wh mark : list Z) sy sx gy gx,
  (1 <= h * w)%nat -> (h * (w - 1) <= length wv)%nat -> ((h - 1) * w <= length wh)%nat -> (h * w <= length mark)%nat ->
  exists st, solve_nurimaze_model (List.cons (List.cons (Z.of_nat h) (List.cons (Z.of_nat w) nil)) (List.cons wv (List.cons wh
     (List.cons mark (List.cons (List.cons sy (List.cons sx (List.cons gy (List.cons gx nil)))) nil))))) = Ok st.
Proof. exact nurimaze_model_defined. Qed.
Print Assumptions C11_nurimaze_model_defined.

From Cspuz Require Import Puzzle.NurimazeWf.
Theorem C11_nurimaze_solve_reports : forall oracle, oracle_sound_on oracle -> oracle_complete_on oracle ->
  forall h w wv wh mark sy sx gy gx st,
  on_board h w sy sx = true \/ on_board h w gy gx = true ->
  solve_nurimaze_model (List.cons (List.cons (Z.of_nat h) (List.cons (Z.of_nat w) nil)) (List.cons wv (List.cons wh
     (List.cons mark (List.cons (List.cons sy (List.cons sx (List.cons gy (List.cons gx nil)))) nil))))) = Ok st ->
  solve_reports oracle st (seq 0 (h * w))
    (rules_nurimaze (List.cons (List.cons (Z.of_nat h) (List.cons (Z.of_nat w) nil)) (List.cons wv (List.cons wh
     (List.cons mark (List.cons (List.cons sy (List.cons sx (List.cons gy (List.cons gx nil)))) nil)))))).
Proof. exact nurimaze_solve_reports. Qed.
Print Assumptions C11_nurimaze_solve_reports.

(* Tier 1, slalom (solve_slalom, the reference_sol_loop=None form), every board in the puzzle's format and every gate layout /
   numbering.  problem = [[h; w]; [oy; ox]; black; gates] (5 integers y; x; d; l; n per gate, d 0 = horizontal dotted line,
   n >= 1 = the gate's number).  Hypothesis slalom_wf (Rules_slalom.v, executable; what instantiate_problem accepts, and a
   little more): the start and the gates lie on the board, gates are pairwise disjoint and do not contain the start, each
   end of a gate is the board edge or a black cell.  It cannot be dropped (C11_slalom_wf_needed: the solver does not post
   "straight through the gate", it relies on the black cells at the gate ends).  The answer is the BoolGridFrame `loop`
   (n_lattice_edges h w segments between cell centres).  Single loop through property C06 (SlalomCompose.sl_compose: two
   frames declared before the graph call, the second one - loop_dir - and the later gate_ord / passed variables are
   existential; the state after the call is closed under later variables by well-formedness).  Soundness: passed = "on the
   loop", loop_dir orients the loop consistently, gate_ord counts the gates from the start - the domain 0..len(gates) forces
   the count to start at 0 - so numbered gates sit at their positions in the direction loop_dir encodes; the solver's
   "auxiliary constraint" (pairwise different gate_ord on passed gate cells) is proved implied.  Completeness: loop_dir /
   gate_ord are read off the walk of the rule file (SlalomWalk.walk_trail and the sl_F_* facts: the walk lists every cell of the
   loop exactly once and returns to the start).  Programs of this module contain no native graph operator. *)
From Cspuz Require Import Puzzle.Rules_slalom Puzzle.Slalom Puzzle.SlalomProofs Puzzle.SlalomWf.
Theorem C11_slalom_exact : forall h w oy ox black gates st ans,
  slalom_wf (List.cons (List.cons (Z.of_nat h) (List.cons (Z.of_nat w) nil))
               (List.cons (List.cons oy (List.cons ox nil)) (List.cons black (List.cons gates nil)))) = true ->
  solve_slalom_model (List.cons (List.cons (Z.of_nat h) (List.cons (Z.of_nat w) nil))
                        (List.cons (List.cons oy (List.cons ox nil)) (List.cons black (List.cons gates nil)))) = Ok st ->
  ((exists en, model_of no_graph en st /\ reads st en (seq 0 (n_lattice_edges h w)) = ans)
   <-> rules_slalom (List.cons (List.cons (Z.of_nat h) (List.cons (Z.of_nat w) nil))
                       (List.cons (List.cons oy (List.cons ox nil)) (List.cons black (List.cons gates nil)))) ans = true).
Proof. exact slalom_exact. Qed.
Print Assumptions C11_slalom_exact.

(* on a board in the format the model (like the Python) is defined exactly when is_black has an entry for every cell *)
Theorem C11_slalom_model_defined : forall h w oy ox black gates,
  slalom_wf (List.cons (List.cons (Z.of_nat h) (List.cons (Z.of_nat w) nil))
               (List.cons (List.cons oy (List.cons ox nil)) (List.cons black (List.cons gates nil)))) = true ->
  ((exists st, solve_slalom_model (List.cons (List.cons (Z.of_nat h) (List.cons (Z.of_nat w) nil))
                 (List.cons (List.cons oy (List.cons ox nil)) (List.cons black (List.cons gates nil)))) = Ok st)
   <-> (h * w <= length black)%nat).
Proof. exact slalom_model_defined. Qed.
Print Assumptions C11_slalom_model_defined.

(* the format hypothesis is needed: 2 x 2 board, start (1, 1), no black cell, a one-cell horizontal gate at (0, 0) with an
   open end - the posted program accepts the square loop, which turns inside the gate cell *)
Theorem C11_slalom_wf_needed :
  let pb := List.cons (List.cons 2%Z (List.cons 2%Z nil))
              (List.cons (List.cons 1%Z (List.cons 1%Z nil))
                 (List.cons (List.cons 0%Z (List.cons 0%Z (List.cons 0%Z (List.cons 0%Z nil))))
                    (List.cons (List.cons 0%Z (List.cons 0%Z (List.cons 0%Z (List.cons 1%Z (List.cons (-1)%Z nil))))) nil))) in
  exists st en, solve_slalom_model pb = Ok st /\ model_of no_graph en st /\
                rules_slalom pb (reads st en (seq 0 4)) = false.
Proof. exact slalom_wf_needed. Qed.
Print Assumptions C11_slalom_wf_needed.

Theorem C11_slalom_solve_reports : forall oracle, oracle_sound_on oracle -> oracle_complete_on oracle ->
  forall h w oy ox black gates st,
  slalom_wf (List.cons (List.cons (Z.of_nat h) (List.cons (Z.of_nat w) nil))
               (List.cons (List.cons oy (List.cons ox nil)) (List.cons black (List.cons gates nil)))) = true ->
  solve_slalom_model (List.cons (List.cons (Z.of_nat h) (List.cons (Z.of_nat w) nil))
                        (List.cons (List.cons oy (List.cons ox nil)) (List.cons black (List.cons gates nil)))) = Ok st ->
  solve_reports oracle st (seq 0 (n_lattice_edges h w))
    (rules_slalom (List.cons (List.cons (Z.of_nat h) (List.cons (Z.of_nat w) nil))
                     (List.cons (List.cons oy (List.cons ox nil)) (List.cons black (List.cons gates nil))))).
Proof. exact slalom_solve_reports. Qed.
Print Assumptions C11_slalom_solve_reports.
(* Tier 1, firefly (Hotaru Beam), every board shape (height, width >= 1 lattice points; the Python and the model raise
   ValueError on boards with height <= 0 or width <= 0) and every firefly layout WITH AT LEAST ONE FIREFLY (dot side,
   number or '?'): the program posted by solve_firefly (model Puzzle/Firefly.v, tied to the Python by program capture:
   has_line = line_ul | line_dr, one ignored segment, ranks descending along the orientation, per-point flow and
   turn-counter constraints; no helper of cspuz.graph is called) has a model reading as [ans] on has_line exactly when
   [ans] obeys Rules_firefly.  The module's own "unicyclic = connected" encoding is proved equivalent to the
   connectivity rule (functional graphs, Puzzle/FireflyFun.v).  On boards without any firefly the statement fails
   (the program admits every single closed loop, by the rules only the empty drawing is a solution; kernel-checked
   witness FireflyProofs.firefly_no_firefly_deviation): reported as the class firefly:no-firefly, excluded here by the
   hypothesis firefly_present. *)
From Cspuz Require Import Lib.PyErr Puzzle.Rules_firefly Puzzle.Firefly Puzzle.FireflyProofs.
Theorem C11_firefly_exact : forall h w dir num st ans,
  firefly_present h w dir = true ->
  solve_firefly_model (List.cons (List.cons (Z.of_nat h) (List.cons (Z.of_nat w) nil)) (List.cons dir (List.cons num nil))) = Ok st ->
  ((exists en, model_of no_graph en st /\ reads st en (seq 0 (h * (w - 1) + (h - 1) * w)) = ans)
   <-> rules_firefly (List.cons (List.cons (Z.of_nat h) (List.cons (Z.of_nat w) nil)) (List.cons dir (List.cons num nil))) ans = true).
Proof. exact firefly_exact. Qed.
Print Assumptions C11_firefly_exact.

Theorem C11_firefly_model_defined : forall h w dir num,
  (exists st, solve_firefly_model (List.cons (List.cons (Z.of_nat h) (List.cons (Z.of_nat w) nil)) (List.cons dir (List.cons num nil))) = Ok st)
  <-> (1 <= h /\ 1 <= w /\ h * w <= length dir /\ h * w <= length num)%nat.
Proof. exact firefly_model_defined. Qed.
Print Assumptions C11_firefly_model_defined.

From Cspuz Require Import Puzzle.FireflyWf.
Theorem C11_firefly_solve_reports : forall oracle, oracle_sound_on oracle -> oracle_complete_on oracle ->
  forall h w dir num st,
  firefly_present h w dir = true ->
  solve_firefly_model (List.cons (List.cons (Z.of_nat h) (List.cons (Z.of_nat w) nil)) (List.cons dir (List.cons num nil))) = Ok st ->
  solve_reports oracle st (seq 0 (n_lattice_edges h w)) (rules_firefly (List.cons (List.cons (Z.of_nat h) (List.cons (Z.of_nat w) nil)) (List.cons dir (List.cons num nil)))).
Proof. exact firefly_solve_reports. Qed.
Print Assumptions C11_firefly_solve_reports.

From Cspuz Require Import Puzzle.LitsWf.
Theorem C11_lits_solve_reports : forall oracle, oracle_sound_on oracle -> oracle_complete_on oracle ->
  forall h w region st,
  solve_lits_model (List.cons (List.cons (Z.of_nat h) (List.cons (Z.of_nat w) nil)) (List.cons region nil)) = Ok st ->
  solve_reports oracle st (seq 0 (h * w)) (rules_lits (List.cons (List.cons (Z.of_nat h) (List.cons (Z.of_nat w) nil)) (List.cons region nil))).
Proof. exact lits_solve_reports. Qed.
Print Assumptions C11_lits_solve_reports.

(* ================= native-operator route (cspuz.config.use_graph_primitive / use_graph_division_primitive ON: the
   defaults with the csugar / enigma_csp / cspuz_core backends).  Each graph helper posts ONE native node whose meaning
   the graph properties C04-C07 define as the specification; the models solve_<p>_model_prim (Puzzle/<P>Prim.v) are tied
   to the Python by a second program capture with the flags on; same hypotheses, rules and answer arrays as above. *)
From Cspuz Require Import Graph.Avc Puzzle.Rules_view Puzzle.ViewPrim.
Theorem C11_view_exact_native : forall h w grid st ans,
  solve_view_model_prim (List.cons (List.cons (Z.of_nat h) (List.cons (Z.of_nat w) nil)) (List.cons grid nil)) = Ok st ->
  ((exists en, model_of gsem_avc en st /\
               reads st en (seq (h * w) (h * w) ++ seq 0 (h * w)) = ans)
   <-> rules_view (List.cons (List.cons (Z.of_nat h) (List.cons (Z.of_nat w) nil)) (List.cons grid nil)) ans = true).
Proof. exact view_exact_prim. Qed.
Print Assumptions C11_view_exact_native.

From Cspuz Require Import Graph.Avc Puzzle.Rules_yinyang Puzzle.YinyangPrim.
Theorem C11_yinyang_exact_native : forall h w grid st ans,
  solve_yinyang_model_prim (List.cons (List.cons (Z.of_nat h) (List.cons (Z.of_nat w) nil)) (List.cons grid nil)) = Ok st ->
  ((exists en, model_of gsem_avc en st /\ reads st en (seq 0 (h * w)) = ans)
   <-> rules_yinyang (List.cons (List.cons (Z.of_nat h) (List.cons (Z.of_nat w) nil)) (List.cons grid nil)) ans = true).
Proof. exact yinyang_exact_prim. Qed.
Print Assumptions C11_yinyang_exact_native.

From Cspuz Require Import Graph.Avc Puzzle.Rules_norinori Puzzle.Rules_nanro Puzzle.NanroPrim.
Theorem C11_nanro_exact_native : forall h w room num st ans,
  solve_nanro_model_prim (List.cons (List.cons (Z.of_nat h) (List.cons (Z.of_nat w) nil)) (List.cons room (List.cons num nil))) = Ok st ->
  ((exists en, model_of gsem_avc en st /\ reads st en (seq (h * w) (h * w)) = ans)
   <-> rules_nanro (List.cons (List.cons (Z.of_nat h) (List.cons (Z.of_nat w) nil)) (List.cons room (List.cons num nil))) ans = true).
Proof. exact nanro_exact_prim. Qed.
Print Assumptions C11_nanro_exact_native.

Theorem C11_nanro_keys_native : forall h w room num st,
  solve_nanro_model_prim (List.cons (List.cons (Z.of_nat h) (List.cons (Z.of_nat w) nil)) (List.cons room (List.cons num nil))) = Ok st ->
  keys st = (repeat false (h * w) ++ repeat true (h * w) ++ repeat false (n_regions room))%list.
Proof. exact nanro_keys_prim. Qed.
Print Assumptions C11_nanro_keys_native.

From Cspuz Require Import Graph.Avc Puzzle.Rules_nurimaze Puzzle.Nurimaze Puzzle.NurimazePrim.
Theorem C11_nurimaze_model_native_same : forall pb, solve_nurimaze_model_prim pb = solve_nurimaze_model pb.
Proof. exact solve_nurimaze_model_prim_eq. Qed.
Print Assumptions C11_nurimaze_model_native_same.

Theorem C11_nurimaze_exact_native : forall h w wv wh mark sy sx gy gx st ans,
  on_board h w sy sx = true \/ on_board h w gy gx = true ->
  solve_nurimaze_model_prim (List.cons (List.cons (Z.of_nat h) (List.cons (Z.of_nat w) nil)) (List.cons wv (List.cons wh
     (List.cons mark (List.cons (List.cons sy (List.cons sx (List.cons gy (List.cons gx nil)))) nil))))) = Ok st ->
  ((exists en, model_of gsem_avc en st /\ reads st en (seq 0 (h * w)) = ans)
   <-> rules_nurimaze (List.cons (List.cons (Z.of_nat h) (List.cons (Z.of_nat w) nil)) (List.cons wv (List.cons wh
     (List.cons mark (List.cons (List.cons sy (List.cons sx (List.cons gy (List.cons gx nil)))) nil))))) ans = true).
Proof. exact nurimaze_exact_gen_prim. Qed.
Print Assumptions C11_nurimaze_exact_native.

From Cspuz Require Import Graph.Cycle Puzzle.CyclePrimCompose Puzzle.SlitherlinkPrim.
Theorem C11_slitherlink_exact_native : forall h w clues st ans,
  solve_slitherlink_model_prim (List.cons (List.cons (Z.of_nat h) (List.cons (Z.of_nat w) nil)) (List.cons clues nil)) = Ok st ->
  ((exists en, model_of gsem_c06 en st /\ reads st en (seq 0 (S h * w + h * S w)) = ans)
   <-> rules_slitherlink (List.cons (List.cons (Z.of_nat h) (List.cons (Z.of_nat w) nil)) (List.cons clues nil)) ans = true).
Proof. exact slitherlink_exact_prim. Qed.
Print Assumptions C11_slitherlink_exact_native.

From Cspuz Require Import Puzzle.MasyuPrim.
Theorem C11_masyu_exact_native : forall h w circles st ans,
  solve_masyu_model_prim (List.cons (List.cons (Z.of_nat h) (List.cons (Z.of_nat w) nil)) (List.cons circles nil)) = Ok st ->
  ((exists en, model_of gsem_c06 en st /\ reads st en (seq 0 (n_lattice_edges h w)) = ans)
   <-> rules_masyu (List.cons (List.cons (Z.of_nat h) (List.cons (Z.of_nat w) nil)) (List.cons circles nil)) ans = true).
Proof. exact masyu_exact_prim. Qed.
Print Assumptions C11_masyu_exact_native.

From Cspuz Require Import Puzzle.GeradewegPrim.
Theorem C11_geradeweg_exact_native : forall h w clues st ans,
  solve_geradeweg_model_prim (List.cons (List.cons (Z.of_nat h) (List.cons (Z.of_nat w) nil)) (List.cons clues nil)) = Ok st ->
  ((exists en, model_of gsem_c06 en st /\ reads st en (seq 0 (h * (w - 1) + (h - 1) * w)) = ans)
   <-> rules_geradeweg (List.cons (List.cons (Z.of_nat h) (List.cons (Z.of_nat w) nil)) (List.cons clues nil)) ans = true).
Proof. exact geradeweg_exact_prim. Qed.
Print Assumptions C11_geradeweg_exact_native.

From Cspuz Require Import Puzzle.SimpleloopPrim.
Theorem C11_simpleloop_exact_native : forall h w py px blocked st ans,
  solve_simpleloop_model_prim (List.cons (List.cons (Z.of_nat h) (List.cons (Z.of_nat w) (List.cons (Z.of_nat py) (List.cons (Z.of_nat px) nil))))
                                         (List.cons blocked nil)) = Ok st ->
  ((exists en, model_of gsem_c06 en st /\ reads st en (seq 0 (h * (w - 1) + (h - 1) * w)) = ans)
   <-> rules_simpleloop (List.cons (List.cons (Z.of_nat h) (List.cons (Z.of_nat w) (List.cons (Z.of_nat py) (List.cons (Z.of_nat px) nil))))
                                   (List.cons blocked nil)) ans = true).
Proof. exact simpleloop_exact_prim. Qed.
Print Assumptions C11_simpleloop_exact_native.

From Cspuz Require Import Puzzle.CreekPrim Puzzle.NurimisakiPrim Puzzle.HeyawakePrim Puzzle.LitsPrim.
Theorem C11_creek_exact_native : forall h w clue st ans,
  solve_creek_model_prim (List.cons (List.cons (Z.of_nat h) (List.cons (Z.of_nat w) nil)) (List.cons clue nil)) = Ok st ->
  ((exists en, model_of gsem_avc en st /\ reads st en (seq 0 (h * w)) = ans)
   <-> rules_creek (List.cons (List.cons (Z.of_nat h) (List.cons (Z.of_nat w) nil)) (List.cons clue nil)) ans = true).
Proof. exact creek_exact_prim. Qed.
Print Assumptions C11_creek_exact_native.

Theorem C11_nurimisaki_exact_native : forall h w grid st ans,
  solve_nurimisaki_model_prim (List.cons (List.cons (Z.of_nat h) (List.cons (Z.of_nat w) nil)) (List.cons grid nil)) = Ok st ->
  ((exists en, model_of gsem_avc en st /\ reads st en (seq 0 (h * w)) = ans)
   <-> rules_nurimisaki (List.cons (List.cons (Z.of_nat h) (List.cons (Z.of_nat w) nil)) (List.cons grid nil)) ans = true).
Proof. exact nurimisaki_exact_prim. Qed.
Print Assumptions C11_nurimisaki_exact_native.

Theorem C11_heyawake_exact_native : forall h w room clue st ans,
  solve_heyawake_model_prim (List.cons (List.cons (Z.of_nat h) (List.cons (Z.of_nat w) nil))
                               (List.cons room (List.cons clue nil))) = Ok st ->
  ((exists en, model_of gsem_avc en st /\ reads st en (seq 0 (h * w)) = ans)
   <-> rules_heyawake (List.cons (List.cons (Z.of_nat h) (List.cons (Z.of_nat w) nil))
                          (List.cons room (List.cons clue nil))) ans = true).
Proof. exact heyawake_exact_prim. Qed.
Print Assumptions C11_heyawake_exact_native.

Theorem C11_lits_exact_native : forall h w region st ans,
  solve_lits_model_prim (List.cons (List.cons (Z.of_nat h) (List.cons (Z.of_nat w) nil)) (List.cons region nil)) = Ok st ->
  ((exists en, model_of gsem_avc en st /\ reads st en (seq 0 (h * w)) = ans)
   <-> rules_lits (List.cons (List.cons (Z.of_nat h) (List.cons (Z.of_nat w) nil)) (List.cons region nil)) ans = true).
Proof. exact lits_exact_prim. Qed.
Print Assumptions C11_lits_exact_native.

From Cspuz Require Import Lib.PyErr Core.Expr Core.Program Graph.Division Puzzle.DivisionCompose Puzzle.Rules_nurikabe Puzzle.NurikabePrim.
Theorem C11_nurikabe_exact_native : forall h w grid st ans,
  solve_nurikabe_model_prim (List.cons (List.cons (Z.of_nat h) (List.cons (Z.of_nat w) nil)) (List.cons grid nil)) = Ok st ->
  ((exists en, model_of Division.division_gsem en st /\ reads st en (DivisionCompose.key_ids st) = ans)
   <-> rules_nurikabe (List.cons (List.cons (Z.of_nat h) (List.cons (Z.of_nat w) nil)) (List.cons grid nil)) ans = true).
Proof. exact nurikabe_exact_prim. Qed.
Print Assumptions C11_nurikabe_exact_native.

Theorem C11_nurikabe_model_defined_native : forall h w grid,
  (exists st, solve_nurikabe_model_prim (List.cons (List.cons (Z.of_nat h) (List.cons (Z.of_nat w) nil)) (List.cons grid nil)) = Ok st)
  <-> (h * w <= length grid)%nat.
Proof. exact nurikabe_model_prim_defined. Qed.
Print Assumptions C11_nurikabe_model_defined_native.

From Cspuz Require Import Puzzle.Rules_compass Puzzle.Compass Puzzle.CompassPrim.
Theorem C11_compass_exact_native : forall h w cps st ans,
  solve_compass_model_prim (List.cons (List.cons (Z.of_nat h) (List.cons (Z.of_nat w) nil)) (List.cons cps nil)) = Ok st ->
  ((exists en, model_of Division.division_gsem en st /\ reads st en (DivisionCompose.key_ids st) = ans)
   <-> rules_compass (List.cons (List.cons (Z.of_nat h) (List.cons (Z.of_nat w) nil)) (List.cons cps nil)) ans = true).
Proof. exact compass_exact_prim. Qed.
Print Assumptions C11_compass_exact_native.

Theorem C11_compass_key_ids_native : forall h w cps st,
  solve_compass_model_prim (List.cons (List.cons (Z.of_nat h) (List.cons (Z.of_nat w) nil)) (List.cons cps nil)) = Ok st ->
  DivisionCompose.key_ids st = seq 0 (h * w).
Proof. exact compass_key_ids_prim. Qed.
Print Assumptions C11_compass_key_ids_native.

From Cspuz Require Import Graph.VarGroups Puzzle.Rules_fillomino Puzzle.FillominoPrim.
Theorem C11_fillomino_exact_native : forall h w given st ans,
  solve_fillomino_model_prim (List.cons (List.cons (Z.of_nat h) (List.cons (Z.of_nat w) nil)) (List.cons given nil)) = Ok st ->
  ((exists en, model_of VarGroups.graph_sem en st /\ reads st en (seq 0 (h * w)) = ans)
   <-> rules_fillomino (List.cons (List.cons (Z.of_nat h) (List.cons (Z.of_nat w) nil)) (List.cons given nil)) ans = true).
Proof. exact fillomino_exact_prim. Qed.
Print Assumptions C11_fillomino_exact_native.

Theorem C11_fillomino_model_defined_native : forall h w given,
  (exists st, solve_fillomino_model_prim (List.cons (List.cons (Z.of_nat h) (List.cons (Z.of_nat w) nil)) (List.cons given nil)) = Ok st)
  <-> (0 < h * w <= length given)%nat.
Proof. exact fillomino_model_prim_defined. Qed.
Print Assumptions C11_fillomino_model_defined_native.

From Cspuz Require Import Graph.Cycle Puzzle.CyclePrimCompose2 Puzzle.YajilinPrim Puzzle.CastleWallPrim Puzzle.SlalomPrim.
Theorem C11_yajilin_exact_native : forall h w kind num st ans,
  solve_yajilin_model_prim (List.cons (List.cons (Z.of_nat h) (List.cons (Z.of_nat w) nil)) (List.cons kind (List.cons num nil))) = Ok st ->
  ((exists en, model_of gsem_c06 en st /\
               reads st en (seq 0 (n_lattice_edges h w) ++ seq (n_lattice_edges h w + h * w) (h * w)) = ans)
   <-> rules_yajilin (List.cons (List.cons (Z.of_nat h) (List.cons (Z.of_nat w) nil)) (List.cons kind (List.cons num nil))) ans = true).
Proof. exact yajilin_exact_prim. Qed.
Print Assumptions C11_yajilin_exact_native.

Theorem C11_castle_wall_exact_native : forall h w kind num side st ans,
  cw_wf h w kind side = true ->
  solve_castle_wall_model_prim (List.cons (List.cons (Z.of_nat h) (List.cons (Z.of_nat w) nil))
                                  (List.cons kind (List.cons num (List.cons side nil)))) = Ok st ->
  ((exists en, model_of gsem_c06 en st /\ reads st en (seq 0 (h * (w - 1) + (h - 1) * w)) = ans)
   <-> rules_castle_wall (List.cons (List.cons (Z.of_nat h) (List.cons (Z.of_nat w) nil))
                            (List.cons kind (List.cons num (List.cons side nil)))) ans = true).
Proof. exact castle_wall_exact_prim. Qed.
Print Assumptions C11_castle_wall_exact_native.

Theorem C11_slalom_exact_native : forall h w oy ox black gates st ans,
  slalom_wf (List.cons (List.cons (Z.of_nat h) (List.cons (Z.of_nat w) nil))
               (List.cons (List.cons oy (List.cons ox nil)) (List.cons black (List.cons gates nil)))) = true ->
  solve_slalom_model_prim (List.cons (List.cons (Z.of_nat h) (List.cons (Z.of_nat w) nil))
                             (List.cons (List.cons oy (List.cons ox nil)) (List.cons black (List.cons gates nil)))) = Ok st ->
  ((exists en, model_of gsem_c06 en st /\ reads st en (seq 0 (n_lattice_edges h w)) = ans)
   <-> rules_slalom (List.cons (List.cons (Z.of_nat h) (List.cons (Z.of_nat w) nil))
                       (List.cons (List.cons oy (List.cons ox nil)) (List.cons black (List.cons gates nil)))) ans = true).
Proof. exact slalom_exact_prim. Qed.
Print Assumptions C11_slalom_exact_native.
