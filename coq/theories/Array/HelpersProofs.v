(* C12 — proofs about the aggregate helpers (Core/Build.v count_true / fold_or /
   fold_and / alldifferent on the flattened arguments, Array/Helpers.v). *)
From Coq Require Import ZArith List Bool Lia.
From Cspuz Require Import Lib.PyErr Core.Expr Core.Build Array.Slice Array.Elementwise Array.ArraySpec
  Array.Helpers.
Import ListNotations.
Open Scope Z_scope.


Lemma all_some_ints zs : all_some (map (fun z => Some (VI z)) zs) = Some (map VI zs).
Proof. induction zs as [|z zs IH]; simpl; [reflexivity|]. rewrite IH; reflexivity. Qed.
Lemma as_ints_map zs : as_ints (map VI zs) = Some zs.
Proof. induction zs as [|z zs IH]; simpl; [reflexivity|]. rewrite IH; reflexivity. Qed.
Lemma all_some_bools bs : all_some (map (fun b => Some (VB b)) bs) = Some (map VB bs).
Proof. induction bs as [|z zs IH]; simpl; [reflexivity|]. rewrite IH; reflexivity. Qed.
Lemma as_bools_map bs : as_bools (map VB bs) = Some bs.
Proof. induction bs as [|z zs IH]; simpl; [reflexivity|]. rewrite IH; reflexivity. Qed.

Lemma denote_ints_app en l1 l2 z1 z2 :
  denote_ints en l1 z1 -> denote_ints en l2 z2 -> denote_ints en (l1 ++ l2) (z1 ++ z2).
Proof. unfold denote_ints; intros A B. rewrite !map_app, A, B. reflexivity. Qed.
Lemma denote_bools_app en l1 l2 z1 z2 :
  denote_bools en l1 z1 -> denote_bools en l2 z2 -> denote_bools en (l1 ++ l2) (z1 ++ z2).
Proof. unfold denote_bools; intros A B. rewrite !map_app, A, B. reflexivity. Qed.

Lemma zsum_app a b : zsum (a ++ b) = zsum a + zsum b.
Proof.
  induction a as [|x a IH]; [reflexivity|].
  change (zsum ((x :: a) ++ b)) with (x + zsum (a ++ b)).
  change (zsum (x :: a)) with (x + zsum a). rewrite IH. lia.
Qed.

Lemma zsum_single x : zsum [x] = x.
Proof. unfold zsum; simpl; lia. Qed.

Lemma eval_add en ops zs :
  ops <> [] -> denote_ints en ops zs -> ev en (INode ADD ops) = Some (VI (zsum zs)).
Proof.
  intros NE D. unfold ev in *; simpl. unfold denote_ints, ev in D. rewrite D.
  unfold eval_iop. rewrite all_some_ints.
  destruct zs as [|z zs].
  - destruct ops; [contradiction|discriminate].
  - simpl map. change (VI z :: map VI zs) with (map VI (z :: zs)). rewrite as_ints_map. reflexivity.
Qed.

Lemma eval_or en ops bs :
  denote_bools en ops bs -> ev en (BNode OR ops) = Some (VB (existsb (fun b => b) bs)).
Proof.
  intros D. unfold ev in *; simpl. unfold denote_bools, ev in D. rewrite D.
  unfold eval_bop. rewrite all_some_bools, as_bools_map. reflexivity.
Qed.
Lemma eval_and en ops bs :
  denote_bools en ops bs -> ev en (BNode AND ops) = Some (VB (forallb (fun b => b) bs)).
Proof.
  intros D. unfold ev in *; simpl. unfold denote_bools, ev in D. rewrite D.
  unfold eval_bop. rewrite all_some_bools, as_bools_map. reflexivity.
Qed.

Lemma count_trues_cons b bs : count_trues (b :: bs) = (if b then 1 else 0) + count_trues bs.
Proof.
  unfold count_trues, zlen. destruct b; cbn [filter length]; rewrite ?Nat2Z.inj_succ; lia.
Qed.
Lemma count_trues_nonneg bs : 0 <= count_trues bs.
Proof. unfold count_trues, zlen. lia. Qed.

(* ------------------------------------------------------------- count_true *)

Lemma count_true_go_sem en l : forall ops c bs zs r,
  count_true_go l ops c = Ok r ->
  denote_bools en l bs -> denote_ints en ops zs ->
  exists zs', denote_ints en (fst r) zs' /\ zsum zs' + snd r = zsum zs + c + count_trues bs /\
              c <= snd r.
Proof.
  induction l as [|x l IH]; intros ops c bs zs r H DB DI.
  - simpl in H. inversion H; subst r. destruct bs; [|discriminate]. exists zs. simpl.
    unfold count_trues, zlen; simpl. repeat split; auto; lia.
  - destruct bs as [|b bs]; [discriminate|].
    unfold denote_bools in DB. simpl in DB. inversion DB as [[Hx Hl]].
    assert (step : forall ops' c' zs'',
               denote_ints en ops' zs'' -> zsum zs'' + c' = zsum zs + c + (if b then 1 else 0) ->
               c <= c' ->
               count_true_go l ops' c' = Ok r ->
               exists zs', denote_ints en (fst r) zs' /\
                           zsum zs' + snd r = zsum zs + c + count_trues (b :: bs) /\ c <= snd r).
    { intros ops' c' zs'' D' S' LE G.
      destruct (IH ops' c' bs zs'' r G Hl D') as [zs' [A [B C]]].
      exists zs'. rewrite count_trues_cons. repeat split; auto; lia. }
    destruct x; simpl in H; try discriminate.
    + (* literal *)
      simpl in Hx. inversion Hx; subst b0.
      apply (step ops (if b then c + 1 else c) zs); auto; destruct b; lia.
    + (* BoolVar *)
      apply (step (ops ++ [i_cond (BVar id) (PyInt 1) (PyInt 0)]) c (zs ++ [if b then 1 else 0])); auto; try lia.
      * apply denote_ints_app; auto. unfold denote_ints, ev in *. simpl in *. rewrite Hx. destruct b; reflexivity.
      * rewrite zsum_app, zsum_single. lia.
    + (* BoolExpr node *)
      apply (step (ops ++ [i_cond (BNode o args) (PyInt 1) (PyInt 0)]) c (zs ++ [if b then 1 else 0])); auto; try lia.
      * apply denote_ints_app; auto. unfold denote_ints, ev in *.
        change (map (eval no_graph en) [i_cond (BNode o args) (PyInt 1) (PyInt 0)])
          with [eval_iop IF [eval no_graph en (BNode o args); Some (VI 1); Some (VI 0)]].
        rewrite Hx. destruct b; reflexivity.
      * rewrite zsum_app, zsum_single. lia.
Qed.

Theorem count_true_sem_list : forall l e en bs,
  count_true l = Ok e -> denote_bools en l bs -> ev en e = Some (VI (count_trues bs)).
Proof.
  intros l e en bs H DB. unfold count_true in H.
  destruct (count_true_go l [] 0) as [[ops c]|] eqn:G; try discriminate.
  destruct (count_true_go_sem en l [] 0 bs [] (ops, c) G DB eq_refl) as [zs' [D [S LE]]].
  simpl in D, S, LE. change (zsum []) with 0 in S.
  destruct (0 <? c) eqn:C.
  - assert (D2 : denote_ints en (ops ++ [PyInt c]) (zs' ++ [c])).
    { apply denote_ints_app; auto. reflexivity. }
    destruct (ops ++ [PyInt c]) as [|o1 os] eqn:E.
    + destruct ops; discriminate.
    + inversion H; subst e. rewrite (eval_add en (o1 :: os) (zs' ++ [c])); [|discriminate|exact D2].
      rewrite zsum_app, zsum_single. do 2 f_equal. lia.
  - apply Z.ltb_ge in C. assert (c = 0) by lia. subst c.
    destruct ops as [|o1 os].
    + inversion H; subst e. destruct zs'; [|discriminate]. change (zsum []) with 0 in S.
      rewrite <- S. reflexivity.
    + inversion H; subst e. rewrite (eval_add en (o1 :: os) zs'); [|discriminate|exact D].
      do 2 f_equal. lia.
Qed.

(* --------------------------------------------------------- fold_or / fold_and *)

Lemma existsb_app_id a b : existsb (fun x : bool => x) (a ++ b) = existsb (fun x => x) a || existsb (fun x => x) b.
Proof. apply existsb_app. Qed.

Lemma fold_or_go_sem en l : forall ops e bs cs,
  fold_or_go l ops = Ok e -> denote_bools en l bs -> denote_bools en ops cs ->
  ev en e = Some (VB (existsb (fun b => b) cs || existsb (fun b => b) bs)).
Proof.
  induction l as [|x l IH]; intros ops e bs cs H DB DC.
  - destruct bs; [|discriminate]. simpl. rewrite orb_false_r. simpl in H.
    destruct ops as [|o1 os].
    + inversion H; subst e. destruct cs; [|discriminate]. reflexivity.
    + inversion H; subst e. apply eval_or; exact DC.
  - destruct bs as [|b bs]; [discriminate|].
    unfold denote_bools in DB. simpl in DB. inversion DB as [[Hx Hl]].
    assert (step : forall y, ev en y = Some (VB b) -> fold_or_go l (ops ++ [y]) = Ok e ->
              ev en e = Some (VB (existsb (fun b => b) cs || existsb (fun b => b) (b :: bs)))).
    { intros y Hy G.
      rewrite (IH (ops ++ [y]) e bs (cs ++ [b]) G Hl).
      - rewrite existsb_app. simpl. rewrite orb_false_r, orb_assoc. reflexivity.
      - apply denote_bools_app; auto. unfold denote_bools; simpl. rewrite Hy. reflexivity. }
    destruct x; simpl in H; try discriminate.
    + simpl in Hx. inversion Hx; subst b0. destruct b.
      * inversion H; subst e. simpl. rewrite orb_true_r. reflexivity.
      * simpl. apply (IH ops e bs cs H Hl DC).
    + apply (step (BVar id)); auto.
    + apply (step (BNode o args)); auto.
Qed.

Theorem fold_or_sem_list : forall l e en bs,
  fold_or l = Ok e -> denote_bools en l bs -> ev en e = Some (VB (existsb (fun b => b) bs)).
Proof.
  intros l e en bs H DB. unfold fold_or in H.
  rewrite (fold_or_go_sem en l [] e bs [] H DB eq_refl). reflexivity.
Qed.

Lemma fold_and_go_sem en l : forall ops e bs cs,
  fold_and_go l ops = Ok e -> denote_bools en l bs -> denote_bools en ops cs ->
  ev en e = Some (VB (forallb (fun b => b) cs && forallb (fun b => b) bs)).
Proof.
  induction l as [|x l IH]; intros ops e bs cs H DB DC.
  - destruct bs; [|discriminate]. simpl. rewrite andb_true_r. simpl in H.
    destruct ops as [|o1 os].
    + inversion H; subst e. destruct cs; [|discriminate]. reflexivity.
    + inversion H; subst e. apply eval_and; exact DC.
  - destruct bs as [|b bs]; [discriminate|].
    unfold denote_bools in DB. simpl in DB. inversion DB as [[Hx Hl]].
    assert (step : forall y, ev en y = Some (VB b) -> fold_and_go l (ops ++ [y]) = Ok e ->
              ev en e = Some (VB (forallb (fun b => b) cs && forallb (fun b => b) (b :: bs)))).
    { intros y Hy G.
      rewrite (IH (ops ++ [y]) e bs (cs ++ [b]) G Hl).
      - rewrite forallb_app. simpl. rewrite andb_true_r, andb_assoc. reflexivity.
      - apply denote_bools_app; auto. unfold denote_bools; simpl. rewrite Hy. reflexivity. }
    destruct x; simpl in H; try discriminate.
    + simpl in Hx. inversion Hx; subst b0. destruct b.
      * simpl. apply (IH ops e bs cs H Hl DC).
      * inversion H; subst e. simpl. rewrite andb_false_r. reflexivity.
    + apply (step (BVar id)); auto.
    + apply (step (BNode o args)); auto.
Qed.

Theorem fold_and_sem_list : forall l e en bs,
  fold_and l = Ok e -> denote_bools en l bs -> ev en e = Some (VB (forallb (fun b => b) bs)).
Proof.
  intros l e en bs H DB. unfold fold_and in H.
  rewrite (fold_and_go_sem en l [] e bs [] H DB eq_refl). reflexivity.
Qed.

(* ------------------------------------------------------------- alldifferent *)

Theorem alldifferent_sem_list : forall l e en zs,
  alldifferent l = Ok e -> denote_ints en l zs -> ev en e = Some (VB (distinct zs)).
Proof.
  intros l e en zs H D. unfold alldifferent in H.
  destruct (forallb _ l); inversion H; subst e.
  unfold ev; simpl. unfold denote_ints, ev in D. rewrite D.
  unfold eval_bop. rewrite all_some_ints, as_ints_map. reflexivity.
Qed.

Lemma zmem_In x l : zmem x l = true <-> In x l.
Proof.
  induction l as [|y l IH]; simpl; [split; [discriminate|tauto]|].
  rewrite orb_true_iff, IH, Z.eqb_eq. split; intros [H|H]; auto.
Qed.

(* [distinct] is pairwise distinctness *)
Lemma distinct_NoDup l : distinct l = true <-> NoDup l.
Proof.
  induction l as [|x l IH]; simpl.
  - split; [constructor|reflexivity].
  - rewrite andb_true_iff, negb_true_iff, IH. split.
    + intros [A B]. constructor; auto. intros I. apply zmem_In in I. congruence.
    + intros N. inversion N; subst. split; auto.
      destruct (zmem x l) eqn:E; auto. apply zmem_In in E. contradiction.
Qed.

(* ------------------------------------------------- when the helpers raise *)


Lemma count_true_go_ok l : forall ops c,
  forallb bool_item l = true -> exists r, count_true_go l ops c = Ok r.
Proof.
  induction l as [|x l IH]; intros ops c H; simpl.
  - eexists; reflexivity.
  - simpl in H. apply andb_true_iff in H; destruct H as [Hx Hl].
    destruct x; simpl in Hx; try discriminate; apply IH; exact Hl.
Qed.

Lemma count_true_go_err l : forall ops c,
  forallb bool_item l = false -> count_true_go l ops c = Err TypeError.
Proof.
  induction l as [|x l IH]; intros ops c H; simpl in *; [discriminate|].
  destruct x; simpl in H; try reflexivity; apply IH; exact H.
Qed.

Theorem count_true_ok_iff l :
  (exists e, count_true l = Ok e) <-> forallb bool_item l = true.
Proof.
  unfold count_true. split.
  - intros [e H]. destruct (forallb bool_item l) eqn:F; [reflexivity|].
    rewrite (count_true_go_err l [] 0 F) in H. discriminate.
  - intros F. destruct (count_true_go_ok l [] 0 F) as [[ops c] G]. rewrite G.
    destruct (if 0 <? c then ops ++ [PyInt c] else ops); eexists; reflexivity.
Qed.

Theorem count_true_err l :
  forallb bool_item l = false -> count_true l = Err TypeError.
Proof. intros F. unfold count_true. rewrite (count_true_go_err l [] 0 F). reflexivity. Qed.

Theorem alldifferent_ok_iff l :
  (exists e, alldifferent l = Ok e) <-> forallb int_item l = true.
Proof.
  unfold alldifferent.
  change (fun x : expr => match x with PyInt _ | PyBool _ | IVar _ _ _ | INode _ _ => true | _ => false end)
    with int_item.
  destruct (forallb int_item l); split; intros H.
  - reflexivity.
  - eexists; reflexivity.
  - destruct H; discriminate.
  - discriminate.
Qed.
(* ---------------------------------------------------------- four neighbours *)

Lemma fn_parse_pair a y x : fn_parse a = Ok (y, x) -> a = FNTwoInts y x \/ a = FNTuple y x.
Proof. destruct a; simpl; intros H; inversion H; auto. Qed.

Theorem four_neighbor_indices_sem h w a y x :
  fn_parse a = Ok (y, x) -> 0 <= y < h -> 0 <= x < w ->
  exists l, four_neighbor_indices h w a = Ok l /\ NoDup l /\
    forall y' x', In (y', x') l <-> orth_neighbour h w y x y' x'.
Proof.
  intros P By Bx. unfold four_neighbor_indices. rewrite P. simpl.
  eexists. split; [reflexivity|].
  unfold orth_neighbour.
  destruct (Z.ltb_spec 0 y), (Z.ltb_spec y (h - 1)), (Z.ltb_spec 0 x), (Z.ltb_spec x (w - 1)); simpl;
  (split;
   [ repeat (apply NoDup_cons;
             [ simpl; intros I; repeat (destruct I as [I|I]; [inversion I; lia|]); exact I | ]);
     apply NoDup_nil
   | intros y' x'; split;
     [ intros I; repeat (destruct I as [I|I]; [inversion I; subst; lia|]); contradiction
     | intros [A [B C]];
       destruct C as [[C1 C2]|[[C1 C2]|[[C1 C2]|[C1 C2]]]]; subst y' x'; try lia;
       repeat (first [ left; reflexivity | right ]) ] ]).
Qed.

Lemma py_index_inrange {A} (l : list A) i :
  0 <= i < py_len l -> exists a, py_index l i = Ok a /\ nth_error l (Z.to_nat i) = Some a.
Proof.
  intros B. unfold py_index.
  destruct (Z.ltb_spec i 0); [lia|].
  destruct (Z.ltb_spec i 0); [lia|]. destruct (Z.leb_spec (py_len l) i); [lia|]. simpl.
  destruct (nth_error l (Z.to_nat i)) eqn:N; [eauto|].
  apply nth_error_None in N. unfold py_len in B. lia.
Qed.

Lemma cell_index_bound h w y x : 0 <= y < h -> 0 <= x < w -> 0 <= y * w + x < h * w.
Proof. intros. nia. Qed.

Lemma cell_of_inbounds h w (data : list expr) y x :
  zlen data = h * w -> 0 <= y < h -> 0 <= x < w ->
  exists e, cell_of h w data (y, x) = Ok e /\ nth_error data (Z.to_nat (y * w + x)) = Some e.
Proof.
  intros L By Bx. unfold cell_of, getitem_pair, parse_range. simpl fst; simpl snd.
  destruct (Z.ltb_spec y 0); [lia|]. destruct (Z.ltb_spec x 0); [lia|].
  destruct (Z.leb_spec 0 y); [|lia]. destruct (Z.ltb_spec y h); [|lia].
  destruct (Z.leb_spec 0 x); [|lia]. destruct (Z.ltb_spec x w); [|lia]. simpl.
  unfold range_size. simpl.
  destruct (Z.leb_spec (y + 1) y); [lia|]. destruct (Z.leb_spec (x + 1) x); [lia|]. simpl.
  destruct (py_index_inrange data (y * w + x)) as [e [P N]].
  { unfold py_len. fold (zlen data). rewrite L. apply cell_index_bound; assumption. }
  rewrite P. simpl. eauto.
Qed.

Theorem four_neighbors_sem k h w data a y x :
  fn_parse a = Ok (y, x) -> zlen data = h * w -> 0 <= y < h -> 0 <= x < w ->
  exists idx l, four_neighbor_indices h w a = Ok idx /\
    four_neighbors k h w data a = Ok (VA k (S1 (zlen l)) l) /\
    Forall2 (fun p e => nth_error data (Z.to_nat (fst p * w + snd p)) = Some e) idx l.
Proof.
  intros P L By Bx.
  destruct (four_neighbor_indices_sem h w a y x P By Bx) as [idx [FI [_ IN]]].
  unfold four_neighbors. rewrite FI. simpl.
  assert (M : exists l, mapM (cell_of h w data) idx = Ok l /\
                Forall2 (fun p e => nth_error data (Z.to_nat (fst p * w + snd p)) = Some e) idx l).
  { assert (B : forall p, In p idx -> 0 <= fst p < h /\ 0 <= snd p < w).
    { intros [y' x'] I. apply IN in I. destruct I as [A [B _]]. auto. }
    clear IN FI. induction idx as [|[y' x'] idx IH]; simpl.
    - exists []. split; [reflexivity|constructor].
    - destruct (B (y', x') (or_introl eq_refl)) as [B1 B2]. simpl in B1, B2.
      destruct (cell_of_inbounds h w data y' x' L B1 B2) as [e [C N]]. rewrite C. simpl.
      destruct IH as [l [Ml F]]. { intros p I; apply B; right; exact I. }
      rewrite Ml. simpl. exists (e :: l). split; [reflexivity|]. constructor; auto. }
  destruct M as [l [Ml F]]. rewrite Ml. simpl. exists idx, l. auto.
Qed.
(* ------------------------------------------------------------------ conv2d *)

Lemma slice_indices_window len s e :
  0 <= s -> s <= e -> e <= len -> slice_indices len (Some s) (Some e) None = Ok (s, e, 1).
Proof.
  intros A B C. unfold slice_indices. simpl.
  destruct (Z.ltb_spec s 0); [lia|]. destruct (Z.ltb_spec e 0); [lia|].
  rewrite !Z.min_l by lia. reflexivity.
Qed.

Lemma range_size_window s e : s < e -> range_size s e 1 = Ok (e - s).
Proof.
  intros A. unfold range_size. simpl.
  destruct (Z.leb_spec e s); [lia|]. f_equal. rewrite Z.div_1_r. lia.
Qed.

Lemma mapM_zseq_ok {A} (f : Z -> res A) n : forall s,
  (forall i, s <= i < s + Z.of_nat n -> exists a, f i = Ok a) ->
  exists l, mapM f (zseq s n) = Ok l /\ length l = n /\
    forall k, (k < n)%nat -> exists a, f (s + Z.of_nat k) = Ok a /\ nth_error l k = Some a.
Proof.
  induction n as [|n IH]; intros s H.
  - exists []. simpl. repeat split; auto. intros k Hk; lia.
  - simpl zseq. simpl mapM.
    destruct (H s) as [a Ha]; [lia|]. rewrite Ha. simpl.
    destruct (IH (s + 1)) as [l [Ml [Ll Nl]]].
    { intros i Hi. apply H. lia. }
    rewrite Ml. simpl. exists (a :: l). split; [reflexivity|]. split; [simpl; lia|].
    intros k Hk. destruct k as [|k].
    + exists a. rewrite Z.add_0_r. auto.
    + destruct (Nl k) as [b [Fb Nb]]; [lia|]. exists b. split; [|exact Nb].
      replace (s + Z.of_nat (S k)) with (s + 1 + Z.of_nat k) by lia. exact Fb.
Qed.

Lemma nth_error_concat_uniform {A} (rows : list (list A)) n :
  (forall r, In r rows -> length r = n) ->
  forall i j, (j < n)%nat ->
    nth_error (concat rows) (i * n + j) =
    match nth_error rows i with Some r => nth_error r j | None => None end.
Proof.
  induction rows as [|r rows IH]; intros H i j Hj.
  - simpl. destruct (i * n + j)%nat; destruct i; reflexivity.
  - simpl concat. pose proof (H r (or_introl eq_refl)) as Lr.
    destruct i as [|i]; simpl.
    + rewrite nth_error_app1 by lia. reflexivity.
    + rewrite nth_error_app2 by lia.
      replace (n + i * n + j - length r)%nat with (i * n + j)%nat by lia.
      apply IH; auto. intros r' I; apply H; right; exact I.
Qed.

Lemma length_concat_uniform {A} (rows : list (list A)) n :
  (forall r, In r rows -> length r = n) -> length (concat rows) = (length rows * n)%nat.
Proof.
  induction rows as [|r rows IH]; intros H; simpl; [reflexivity|].
  rewrite app_length, IH, (H r (or_introl eq_refl)); auto.
  intros r' I; apply H; right; exact I.
Qed.

(* the slice self[y : y + kh, x : x + kw] consists exactly of the window's cells *)
Lemma window_getitem h w (data : list expr) y x kh kw :
  zlen data = h * w -> 0 <= y -> y + kh <= h -> 0 <= x -> x + kw <= w -> 1 <= kh -> 1 <= kw ->
  exists l, getitem_pair h w data (KSlice (Some y) (Some (y + kh)) None)
                                  (KSlice (Some x) (Some (x + kw)) None) = Ok (R2 kh kw l) /\
    forall e, In e l <->
      exists dy dx, 0 <= dy < kh /\ 0 <= dx < kw /\
                    nth_error data (Z.to_nat ((y + dy) * w + (x + dx))) = Some e.
Proof.
  intros L Y0 Y1 X0 X1 KH KW.
  unfold getitem_pair, parse_range.
  rewrite (slice_indices_window h y (y + kh)) by lia.
  rewrite (slice_indices_window w x (x + kw)) by lia. cbn -[Z.mul Z.div Z.modulo Z.add Z.sub range_size].
  rewrite (range_size_window y (y + kh)) by lia.
  rewrite (range_size_window x (x + kw)) by lia. cbn -[Z.mul Z.div Z.modulo Z.add Z.sub Z.to_nat].
  replace (y + kh - y) with kh by lia. replace (x + kw - x) with kw by lia.
  set (f := fun i => py_index data ((y + 1 * (i / kw)) * w + (x + 1 * (i mod kw)))).
  assert (IDX : forall i, 0 <= i < kh * kw -> 0 <= i / kw < kh /\ 0 <= i mod kw < kw).
  { intros i Hi. split.
    - split; [apply Z.div_pos; lia|]. apply Z.div_lt_upper_bound; lia.
    - apply Z.mod_pos_bound; lia. }
  assert (FOK : forall i, 0 <= i < kh * kw -> exists a, f i = Ok a /\
              nth_error data (Z.to_nat ((y + i / kw) * w + (x + i mod kw))) = Some a).
  { intros i Hi. destruct (IDX i Hi) as [D M]. unfold f. rewrite !Z.mul_1_l.
    apply py_index_inrange. unfold py_len. fold (zlen data). rewrite L.
    apply cell_index_bound; lia. }
  destruct (mapM_zseq_ok f (Z.to_nat (kh * kw)) 0) as [l [Ml [Ll Nl]]].
  { intros i Hi. destruct (FOK i) as [a [Fa _]]; [lia|]. eauto. }
  fold f. rewrite Ml. simpl. exists l. split; [reflexivity|].
  intros e. split.
  - intros I. apply In_nth_error in I. destruct I as [k Nk].
    assert (Hk : (k < Z.to_nat (kh * kw))%nat).
    { rewrite <- Ll. apply nth_error_Some. rewrite Nk. discriminate. }
    destruct (Nl k Hk) as [a [Fa Na]]. rewrite Nk in Na. inversion Na; subst a.
    simpl in Fa. set (i := Z.of_nat k) in *.
    assert (Hi : 0 <= i < kh * kw) by (unfold i; lia).
    destruct (FOK i Hi) as [a' [Fa' Na']]. rewrite Fa in Fa'. inversion Fa'; subst a'.
    destruct (IDX i Hi). exists (i / kw), (i mod kw). auto.
  - intros [dy [dx [Hy [Hx N]]]].
    set (i := dy * kw + dx).
    assert (Hi : 0 <= i < kh * kw) by (unfold i; nia).
    assert (Di : i / kw = dy).
    { unfold i. rewrite Z.div_add_l by lia. rewrite Z.div_small by lia. lia. }
    assert (Mi : i mod kw = dx).
    { unfold i. rewrite Z.add_comm, Z.mod_add by lia. apply Z.mod_small; lia. }
    destruct (Nl (Z.to_nat i)) as [a [Fa Na]]; [lia|].
    rewrite Z2Nat.id in Fa by lia. simpl in Fa.
    destruct (FOK i Hi) as [a' [Fa' Na']]. rewrite Fa in Fa'. inversion Fa'; subst a'.
    rewrite Di, Mi, N in Na'. inversion Na'; subst a.
    eapply nth_error_In; exact Na.
Qed.

Lemma denote_bools_exists en l :
  (forall e, In e l -> exists b, ev en e = Some (VB b)) ->
  exists bs, denote_bools en l bs /\
    (forallb (fun b => b) bs = true <-> forall e, In e l -> ev en e = Some (VB true)) /\
    (existsb (fun b => b) bs = true <-> exists e, In e l /\ ev en e = Some (VB true)).
Proof.
  induction l as [|x l IH]; intros H.
  - exists []. split; [reflexivity|]. split; simpl.
    + split; auto. intros _ e [].
    + split; [discriminate|]. intros [e [[] _]].
  - destruct (H x (or_introl eq_refl)) as [b Hb].
    destruct IH as [bs [D [FA EX]]]. { intros e I; apply H; right; exact I. }
    exists (b :: bs). split.
    + unfold denote_bools in *. simpl. rewrite Hb, D. reflexivity.
    + split; simpl.
      * rewrite andb_true_iff, FA. split.
        -- intros [B A] e [I|I]; [subst e; rewrite Hb, B; reflexivity|apply A; exact I].
        -- intros A. split.
           ++ specialize (A x (or_introl eq_refl)). rewrite Hb in A. inversion A; reflexivity.
           ++ intros e I; apply A; right; exact I.
      * rewrite orb_true_iff, EX. split.
        -- intros [B|[e [I E]]]; [exists x; split; [left; reflexivity|rewrite Hb, B; reflexivity]|exists e; auto].
        -- intros [e [[I|I] E]]; [subst e; rewrite Hb in E; inversion E; auto|right; exists e; auto].
Qed.


Theorem conv2d_sem h w data kh kw o :
  0 <= h -> 0 <= w -> zlen data = h * w -> 1 <= kh -> 1 <= kw -> o <> ConvOther ->
  let rh := Z.max 0 (h - kh + 1) in
  let rw := Z.max 0 (w - kw + 1) in
  exists r, conv2d h w data kh kw o = Ok (VA KB (S2 rh rw) r) /\ zlen r = rh * rw /\
    forall y x, 0 <= y < rh -> 0 <= x < rw ->
      exists e, nth_error r (Z.to_nat (y * rw + x)) = Some e /\
        forall en,
          (forall dy dx, 0 <= dy < kh -> 0 <= dx < kw ->
             exists b, cell_value en w data (y + dy) (x + dx) = Some (VB b)) ->
          exists b, ev en e = Some (VB b) /\
            (b = true <->
             match o with
             | ConvAnd => forall dy dx, 0 <= dy < kh -> 0 <= dx < kw ->
                            cell_value en w data (y + dy) (x + dx) = Some (VB true)
             | _ => exists dy dx, 0 <= dy < kh /\ 0 <= dx < kw /\
                            cell_value en w data (y + dy) (x + dx) = Some (VB true)
             end).
Proof.
  intros H0 W0 L KH KW NO rh rw.
  set (OP := match o with ConvAnd => AND | _ => OR end).
  set (g := fun y x : Z =>
     bind (getitem_pair h w data (KSlice (Some y) (Some (y + kh)) None) (KSlice (Some x) (Some (x + kw)) None))
          (fun comp => match comp with R2 _ _ l => Ok (BNode OP l) | _ => Err OtherError end)).
  assert (CONV : conv2d h w data kh kw o =
     bind (mapM (fun y => mapM (g y) (zseq 0 (Z.to_nat rw))) (zseq 0 (Z.to_nat rh)))
          (fun rows => let r := concat rows in
                       if zlen r =? rh * rw then Ok (VA KB (S2 rh rw) r) else Err ValueError)).
  { unfold conv2d. destruct o; try contradiction; reflexivity. }
  assert (ROW : forall y, 0 <= y < rh ->
     exists row, mapM (g y) (zseq 0 (Z.to_nat rw)) = Ok row /\ length row = Z.to_nat rw /\
       forall x, 0 <= x < rw -> exists l, nth_error row (Z.to_nat x) = Some (BNode OP l) /\
         forall e, In e l <-> exists dy dx, 0 <= dy < kh /\ 0 <= dx < kw /\
                      nth_error data (Z.to_nat ((y + dy) * w + (x + dx))) = Some e).
  { intros y Hy.
    assert (GOK : forall x, 0 <= x < rw -> exists l, g y x = Ok (BNode OP l) /\
         forall e, In e l <-> exists dy dx, 0 <= dy < kh /\ 0 <= dx < kw /\
                      nth_error data (Z.to_nat ((y + dy) * w + (x + dx))) = Some e).
    { intros x Hx. destruct (window_getitem h w data y x kh kw L) as [l [G I]]; try lia.
      exists l. unfold g. rewrite G. simpl. auto. }
    destruct (mapM_zseq_ok (g y) (Z.to_nat rw) 0) as [row [Mr [Lr Nr]]].
    { intros i Hi. destruct (GOK i) as [l [G _]]; [lia|]. eauto. }
    exists row. split; [exact Mr|]. split; [exact Lr|].
    intros x Hx. destruct (Nr (Z.to_nat x)) as [a [Fa Na]]; [lia|].
    rewrite Z2Nat.id in Fa by lia. simpl in Fa.
    destruct (GOK x Hx) as [l [G I]]. rewrite G in Fa. inversion Fa; subst a. eauto. }
  destruct (mapM_zseq_ok (fun y => mapM (g y) (zseq 0 (Z.to_nat rw))) (Z.to_nat rh) 0) as [rows [Mrows [Lrows Nrows]]].
  { intros i Hi. destruct (ROW i) as [row [Mr _]]; [lia|]. eauto. }
  assert (UNI : forall r, In r rows -> length r = Z.to_nat rw).
  { intros r I. apply In_nth_error in I. destruct I as [k Nk].
    assert (Hk : (k < Z.to_nat rh)%nat).
    { rewrite <- Lrows. apply nth_error_Some. rewrite Nk; discriminate. }
    destruct (Nrows k Hk) as [a [Fa Na]]. rewrite Nk in Na. inversion Na; subst a.
    simpl in Fa. destruct (ROW (Z.of_nat k)) as [row [Mr [Lr _]]]; [lia|].
    rewrite Mr in Fa. inversion Fa; subst row. exact Lr. }
  assert (LEN : zlen (concat rows) = rh * rw).
  { unfold zlen. rewrite (length_concat_uniform rows _ UNI), Lrows.
    rewrite Nat2Z.inj_mul, !Z2Nat.id by lia. reflexivity. }
  rewrite CONV, Mrows. simpl. rewrite LEN, Z.eqb_refl.
  exists (concat rows). split; [reflexivity|]. split; [exact LEN|].
  intros y x Hy Hx.
  destruct (Nrows (Z.to_nat y)) as [row [Fr Nr]]; [lia|].
  rewrite Z2Nat.id in Fr by lia. simpl in Fr.
  destruct (ROW y Hy) as [row' [Mr [Lr Pr]]]. rewrite Mr in Fr. inversion Fr; subst row'.
  destruct (Pr x Hx) as [l [Nl IN]].
  exists (BNode OP l). split.
  { replace (Z.to_nat (y * rw + x)) with (Z.to_nat y * Z.to_nat rw + Z.to_nat x)%nat.
    - rewrite (nth_error_concat_uniform rows _ UNI) by lia. rewrite Nr. exact Nl.
    - rewrite Z2Nat.inj_add, Z2Nat.inj_mul by nia. reflexivity. }
  intros en CV.
  assert (CELL : forall dy dx, 0 <= dy < kh -> 0 <= dx < kw ->
            exists e, nth_error data (Z.to_nat ((y + dy) * w + (x + dx))) = Some e /\
                      cell_value en w data (y + dy) (x + dx) = ev en e).
  { intros dy dx Hdy Hdx. destruct (CV dy dx Hdy Hdx) as [b Hb]. unfold cell_value in *.
    destruct (nth_error data (Z.to_nat ((y + dy) * w + (x + dx)))) as [e|]; [|discriminate].
    exists e. auto. }
  destruct (denote_bools_exists en l) as [bs [D [FA EX]]].
  { intros e I. apply IN in I. destruct I as [dy [dx [Hdy [Hdx N]]]].
    destruct (CV dy dx Hdy Hdx) as [b Hb]. unfold cell_value in Hb. rewrite N in Hb. eauto. }
  destruct o; try contradiction; unfold OP.
  - exists (forallb (fun b => b) bs). split; [apply eval_and; exact D|].
    rewrite FA. split.
    + intros A dy dx Hdy Hdx. destruct (CELL dy dx Hdy Hdx) as [e [N E]]. rewrite E.
      apply A. apply IN. eauto.
    + intros A e I. apply IN in I. destruct I as [dy [dx [Hdy [Hdx N]]]].
      specialize (A dy dx Hdy Hdx). unfold cell_value in A. rewrite N in A. exact A.
  - exists (existsb (fun b => b) bs). split; [apply eval_or; exact D|].
    rewrite EX. split.
    + intros [e [I E]]. apply IN in I. destruct I as [dy [dx [Hdy [Hdx N]]]].
      exists dy, dx. split; [exact Hdy|]. split; [exact Hdx|]. unfold cell_value. rewrite N. exact E.
    + intros [dy [dx [Hdy [Hdx A]]]]. destruct (CELL dy dx Hdy Hdx) as [e [N E]].
      exists e. split; [apply IN; eauto|]. rewrite <- E. exact A.
Qed.

(* ------------------------------------------------ helpers on nested arguments *)

Theorem h_count_true_sem args e en bs :
  h_count_true args = Ok e -> denote_bools en (flatten_nest (NL args)) bs ->
  ev en e = Some (VI (count_trues bs)).
Proof. apply count_true_sem_list. Qed.

Theorem h_fold_or_sem args e en bs :
  h_fold_or args = Ok e -> denote_bools en (flatten_nest (NL args)) bs ->
  ev en e = Some (VB (existsb (fun b => b) bs)).
Proof. apply fold_or_sem_list. Qed.

Theorem h_fold_and_sem args e en bs :
  h_fold_and args = Ok e -> denote_bools en (flatten_nest (NL args)) bs ->
  ev en e = Some (VB (forallb (fun b => b) bs)).
Proof. apply fold_and_sem_list. Qed.

Theorem h_alldifferent_sem args e en zs :
  h_alldifferent args = Ok e -> denote_ints en (flatten_nest (NL args)) zs ->
  exists b, ev en e = Some (VB b) /\ (b = true <-> NoDup zs).
Proof.
  intros H D. exists (distinct zs). split; [eapply alldifferent_sem_list; eauto|apply distinct_NoDup].
Qed.

(* flattening: a list of arguments is the concatenation of the flattened
   arguments; an array contributes its items in row-major order *)
Lemma flatten_nest_list l : flatten_nest (NL l) = flat_map flatten_nest l.
Proof. reflexivity. Qed.
Lemma flatten_nest_array k sh d : flatten_nest (NV (VA k sh d)) = d.
Proof. reflexivity. Qed.
Lemma flatten_nest_scalar e : flatten_nest (NV (VE e)) = [e].
Proof. reflexivity. Qed.

Theorem h_count_true_ok_iff args :
  (exists e, h_count_true args = Ok e) <-> forallb bool_item (flatten_nest (NL args)) = true.
Proof. apply count_true_ok_iff. Qed.

(* ------------------------------------- the aggregate methods of the array classes *)

Theorem array_fold_or_sem k sh d en bs :
  k = KB -> denote_bools en d bs ->
  exists e, call_method (VA k sh d) m_fold_or [] = Ok (VE e) /\
            ev en e = Some (VB (existsb (fun b => b) bs)).
Proof.
  intros K D. subst k. exists (BNode OR d). split; [destruct sh; reflexivity|apply eval_or; exact D].
Qed.

Theorem array_fold_and_sem k sh d en bs :
  k = KB -> denote_bools en d bs ->
  exists e, call_method (VA k sh d) m_fold_and [] = Ok (VE e) /\
            ev en e = Some (VB (forallb (fun b => b) bs)).
Proof.
  intros K D. subst k. exists (BNode AND d). split; [destruct sh; reflexivity|apply eval_and; exact D].
Qed.

Theorem array_count_true_sem sh d en bs e :
  call_method (VA KB sh d) m_count_true [] = Ok (VE e) -> denote_bools en d bs ->
  ev en e = Some (VI (count_trues bs)).
Proof.
  intros H D.
  assert (C : count_true d = Ok e).
  { destruct sh; unfold call_method in H; simpl in H; destruct (count_true d); inversion H; reflexivity. }
  eapply count_true_sem_list; eauto.
Qed.

Theorem array_alldifferent_sem sh d en zs :
  denote_ints en d zs ->
  exists e b, call_method (VA KI sh d) m_alldifferent [] = Ok (VE e) /\
              ev en e = Some (VB b) /\ (b = true <-> NoDup zs).
Proof.
  intros D. exists (BNode ALLDIFF d), (distinct zs). split; [destruct sh; reflexivity|].
  split; [|apply distinct_NoDup].
  unfold ev; simpl. unfold denote_ints, ev in D. rewrite D.
  unfold eval_bop. rewrite all_some_ints, as_ints_map. reflexivity.
Qed.

(* a Python literal operand denotes what the corresponding constant node denotes *)
Theorem literal_is_constant en :
  (forall b, ev en (PyBool b) = ev en (BNode BOOL_CONSTANT [PyBool b])) /\
  (forall z, ev en (PyInt z) = ev en (INode INT_CONSTANT [PyInt z])).
Proof. split; reflexivity. Qed.
