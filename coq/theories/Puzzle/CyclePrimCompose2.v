(* C11 Tier 1, native-operator route (cspuz.config.use_graph_primitive on) - composition with property C06 for the loop
   solvers that declare FURTHER variables around the call graph.active_edges_single_cycle(solver, grid_frame): yajilin
   (a grid of booleans after the call), castle_wall (booleans after the call whose values the later constraints force),
   slalom (a second frame before the call, integers and booleans after it).  On this route the helper declares only the
   (h+1)(w+1) is_passed flags and posts one degree constraint per lattice point plus ONE native node
   Op.GRAPH_ACTIVE_VERTICES_CONNECTED over Graph.line_graph (Graph/Cycle.v::post_cycle ... true); the meaning of the native
   node is C06's gsem_c06.  The theorems below are the analogues of
       YajilinCompose.cycle_grid_compose, CastleWallCompose.cycle_frame_compose_aux, SlalomCompose.sl_compose
   for that call, with the same conclusions; they use C06's closed theorems cycle_frame, cycle_primitive,
   cycle_primitive_passed, the shape lemma post_cycle_prim_shape / evaluation lemma prim_cons_holds behind them
   (Graph/CyclePrim.v) and CycleCompose.frame_lattice for the vocabulary of the rule files.
     0.  gfree / eval_gfree : a tree without native graph node evaluates the same under every gsem;
         shift_expr / eval_shift : renaming the variables declared after the call (this route declares 2(h+1)(w+1) fewer
         auxiliary variables, so the ids of everything declared later move down by that amount)
     1.  Section PrimFrame : the call on a state that consists of n0 >= frame_n boolean variables the first frame_n of which
         are the frame, and no constraint: shape of the result, what C06 says, closedness
     2.  cycle_grid_compose_prim, cycle_frame_compose_aux_prim, sl_compose_prim *)
From Coq Require Import ZArith List Bool Arith Lia.
From Cspuz Require Import Lib.PyErr Core.Expr Core.Program Backend.ExprFacts Graph.GraphModel Graph.ReachProofs
     Graph.Cycle Graph.CycleLemmas Graph.CycleCert Graph.CycleProofs Graph.CycleMain Graph.CycleFrame Graph.CycleSpec
     Graph.LineGraph Graph.CyclePrim
     Puzzle.PuzzleBase Puzzle.SatAbs Puzzle.ModelBase Puzzle.ModelLemmas Puzzle.CreekProofs
     Puzzle.CycleFrameBase Puzzle.CycleCompose Puzzle.Slalom.
Import ListNotations.
Local Open Scope nat_scope.

Notation b2z := PuzzleBase.b2z.

(* ------------------------------------------------------------------------------------------------------ *)
(* 0a. trees without native graph node                                                                     *)

Fixpoint gfree (e : expr) : bool :=
  match e with
  | BNode o args => match o with G_AVC | G_DIV => false | _ => forallb gfree args end
  | INode _ args => forallb gfree args
  | _ => true
  end.

Lemma eval_gfree gsem : forall e, gfree e = true -> forall en, eval gsem en e = eval no_graph en e.
Proof.
  induction e as [c|z| |i|i lo hi|o args IH|o args IH] using expr_nested_ind; intros F en; try reflexivity.
  - assert (Hmap : map (eval gsem en) args = map (eval no_graph en) args).
    { assert (F' : forallb gfree args = true) by (destruct o; try discriminate F; exact F).
      rewrite forallb_forall in F'. rewrite Forall_forall in IH.
      apply map_ext_in. intros a Ia. apply IH; [exact Ia|apply F'; exact Ia]. }
    cbn [eval]. rewrite Hmap. destruct o; try discriminate F; reflexivity.
  - cbn [gfree] in F. cbn [eval]. f_equal.
    rewrite forallb_forall in F. rewrite Forall_forall in IH.
    apply map_ext_in. intros a Ia. apply IH; [exact Ia|apply F; exact Ia].
Qed.

Lemma holds_gfree gsem en e : gfree e = true -> holds gsem en e = holds no_graph en e.
Proof. intros F. unfold holds. rewrite (eval_gfree gsem e F en). reflexivity. Qed.

Lemma forallb_holds_gfree gsem en l :
  forallb gfree l = true -> forallb (holds gsem en) l = forallb (holds no_graph en) l.
Proof.
  intros F. rewrite forallb_forall in F. apply forallb_ext_in. intros e He. apply holds_gfree. apply F. exact He.
Qed.

Lemma gfree_ct_vars ids : gfree (ct_vars ids) = true.
Proof.
  destruct ids as [|i r]; [reflexivity|]. unfold ct_vars. cbn [gfree]. rewrite forallb_map.
  apply forallb_forall. intros; reflexivity.
Qed.

(* ------------------------------------------------------------------------------------------------------ *)
(* 0b. moving the ids from B on down by d                                                                  *)

Definition sh_id (B d i : nat) : nat := if i <? B then i else i - d.

Fixpoint shift_expr (B d : nat) (e : expr) : expr :=
  match e with
  | BVar i => BVar (sh_id B d i)
  | IVar i lo hi => IVar (sh_id B d i) lo hi
  | BNode o args => BNode o (map (shift_expr B d) args)
  | INode o args => INode o (map (shift_expr B d) args)
  | _ => e
  end.

Definition sh_env (B d : nat) (en : env) : env :=
  {| eb := fun i => eb en (sh_id B d i); ei := fun i => ei en (sh_id B d i) |}.

Lemma eval_shift gsem B d en : forall e, eval gsem en (shift_expr B d e) = eval gsem (sh_env B d en) e.
Proof.
  induction e as [c|z| |i|i lo hi|o args IH|o args IH] using expr_nested_ind; try reflexivity;
    cbn [shift_expr eval]; rewrite map_map; f_equal; rewrite Forall_forall in IH; apply map_ext_in; exact IH.
Qed.

Lemma holds_shift gsem B d en e : holds gsem en (shift_expr B d e) = holds gsem (sh_env B d en) e.
Proof. unfold holds. rewrite eval_shift. reflexivity. Qed.

Lemma forallb_holds_shift gsem B d en l :
  forallb (holds gsem en) (map (shift_expr B d) l) = forallb (holds gsem (sh_env B d en)) l.
Proof. rewrite forallb_map. apply forallb_ext_in. intros e _. apply holds_shift. Qed.

Lemma sh_id_low B d i : i < B -> sh_id B d i = i.
Proof. intros H. unfold sh_id. destruct (Nat.ltb_spec i B); [reflexivity|lia]. Qed.
Lemma sh_id_high B d i : B <= i -> sh_id B d i = i - d.
Proof. intros H. unfold sh_id. destruct (Nat.ltb_spec i B); [lia|reflexivity]. Qed.

(* ------------------------------------------------------------------------------------------------------ *)
(* 1. the call on the frame, native route                                                                  *)

Lemma prim_agree_below_le k k' e1 e2 : k <= k' -> agree_below k' e1 e2 -> agree_below k e1 e2.
Proof. intros Hk H i Hi. apply H. lia. Qed.

Section PrimFrame.
  Variables h w n0 : nat.
  Notation N := (frame_n h w).
  Notation P := (S h * S w).
  Notation hor := (frame_hor h w).
  Notation ver := (frame_ver h w).
  Notation G := (frame_graph h w (frame_hor h w) (frame_ver h w)).
  Notation fe := (frame_edges h w (frame_hor h w) (frame_ver h w)).
  Notation Lt := (lattice (S h) (S w)).
  Variables (st0 st1 : state) (res : passed_result).
  Hypothesis Hn0 : N <= n0.
  Hypothesis Hv0 : vars st0 = repeat DBool n0.
  Hypothesis Hc0 : Program.cons st0 = [].
  Hypothesis Hcall : active_edges_single_cycle st0 (AFrame h w hor ver) None true = Ok (st1, res).

  Lemma pf_next0 : next_id st0 = n0.
  Proof. unfold next_id. rewrite Hv0. apply repeat_length. Qed.

  Lemma pf_flags en : flags_ok gsem_c06 st0 en fe.
  Proof.
    pose proof Hn0 as Hn. unfold frame_n in Hn.
    intros e He. apply (frame_edges_in h w _ _ (frame_hor_length h w) (frame_ver_length h w)) in He.
    destruct He as [He|He]; apply in_map_iff in He; destruct He as [k [<- Hk]]; apply in_seq in Hk;
      (split; [reflexivity|]; split; [rewrite pf_next0; simpl; lia|]; eexists; reflexivity).
  Qed.
  Lemma pf_fe_cl e : In e fe -> is_constraint_like e = true.
  Proof. intros He. destruct (pf_flags {| eb := fun _ => false; ei := fun _ => 0%Z |} e He) as [H _]. exact H. Qed.

  Lemma pf_bounds0 en : in_bounds en st0 = true.
  Proof. unfold in_bounds. rewrite Hv0. apply CycleLemmas.in_bounds_from_bools. Qed.

  Lemma pf_G_wf : wf_graph G = true.
  Proof. destruct (cycle_frame h w _ _ (frame_hor_length h w) (frame_ver_length h w)) as [_ [_ [H _]]]. exact H. Qed.
  Lemma pf_G_len : length fe = length (edges G).
  Proof. destruct (cycle_frame h w _ _ (frame_hor_length h w) (frame_ver_length h w)) as [_ [_ [_ [H _]]]]. exact H. Qed.

  Lemma pf_post : post_cycle st0 fe G true = Ok (st1, passedL G n0) /\ res = P2 (S h) (S w) (map BVar (seq n0 P)) /\
                  vars st1 = vars st0 ++ repeat DBool P /\ Program.cons st1 = prim_cons fe G n0.
  Proof.
    destruct (cycle_frame h w _ _ (frame_hor_length h w) (frame_ver_length h w)) as [_ [_ [_ [_ [_ [Hc _]]]]]].
    pose proof Hcall as Hcall'. rewrite Hc in Hcall'.
    destruct (post_cycle_prim_shape fe G n0 pf_G_len pf_fe_cl st0 pf_next0) as [st' [Hp [Hv Hcs]]].
    rewrite Hp in Hcall'. inversion Hcall'; subst st' res. clear Hcall'.
    split; [exact Hp|]. split; [reflexivity|]. split; [exact Hv|]. rewrite Hcs, Hc0. reflexivity.
  Qed.

  Lemma pf_next1 : next_id st1 = n0 + P.
  Proof.
    destruct pf_post as [_ [_ [Hv _]]]. unfold next_id. rewrite Hv, Hv0, app_length, !repeat_length. reflexivity.
  Qed.

  Lemma pf_new_cons : new_cons st0 st1 = prim_cons fe G n0.
  Proof. destruct pf_post as [_ [_ [_ Hc]]]. unfold new_cons. rewrite Hc0, Hc. reflexivity. Qed.

  Lemma pf_bounds1 en : in_bounds en st1 = true.
  Proof.
    destruct pf_post as [_ [_ [Hv _]]]. unfold in_bounds. rewrite Hv, Hv0, CycleLemmas.in_bounds_from_app,
      !CycleLemmas.in_bounds_from_bools. reflexivity.
  Qed.

  (* what C06 says about the call, for every assignment of the variables declared before it *)
  Lemma pf_c06 en :
    ((exists en', extends_sat gsem_c06 st0 st1 en en') <-> single_loop_b Lt (eb en) = true) /\
    (forall en', extends_sat gsem_c06 st0 st1 en en' ->
       forall y x, y <= h -> x <= w -> eb en' (n0 + (y * S w + x)) = on_line Lt (eb en) (y * S w + x)).
  Proof.
    destruct pf_post as [Hp _].
    destruct (frame_lattice h w gsem_c06 en) as [FL1 FL2].
    split.
    - rewrite <- FL1.
      exact (cycle_primitive st0 fe G en st1 _ pf_G_wf pf_G_len (pf_flags en) (pf_bounds0 en) Hp).
    - intros en' He y x Hy Hx.
      destruct (cycle_primitive_passed st0 fe G en st1 _ pf_G_wf pf_G_len (pf_flags en) en' Hp He) as [_ PASS].
      destruct (PASS (y * S w + x)) as [q [Hq1 Hq2]]; [change (nv G) with P; nia|].
      unfold passedL in Hq1. rewrite nth_error_map_seq in Hq1 by (change (nv G) with P; nia).
      inversion Hq1; subst q. rewrite <- FL2, <- Hq2.
      unfold holds. simpl. destruct (eb en' (n0 + (y * S w + x))); reflexivity.
  Qed.

  (* the variables declared after the call can be overwritten in a satisfying extension *)
  Lemma pf_closed en e1 e2 :
    extends_sat gsem_c06 st0 st1 en e1 -> agree_below (n0 + P) e1 e2 -> extends_sat gsem_c06 st0 st1 en e2.
  Proof.
    intros [Hag [Hb Hs]] H12.
    assert (Hag2 : agree_below (next_id st0) en e2).
    { rewrite pf_next0 in *. intros i Hi. destruct (Hag i Hi) as [E1 E2]. destruct (H12 i ltac:(lia)) as [F1 F2].
      split; congruence. }
    split; [exact Hag2|]. split; [apply pf_bounds1|].
    rewrite pf_new_cons in *.
    assert (HA1 : forall k, k < length (edges G) ->
                eval gsem_c06 e1 (flag fe k) = Some (VB (pattern gsem_c06 en fe k))).
    { intros k Hk. apply (pattern_flag gsem_c06 st0 en e1 fe k (pf_flags en) Hag). rewrite pf_G_len. exact Hk. }
    assert (HA2 : forall k, k < length (edges G) ->
                eval gsem_c06 e2 (flag fe k) = Some (VB (pattern gsem_c06 en fe k))).
    { intros k Hk. apply (pattern_flag gsem_c06 st0 en e2 fe k (pf_flags en) Hag2). rewrite pf_G_len. exact Hk. }
    apply (prim_cons_holds fe G n0 pf_G_wf pf_G_len pf_fe_cl e2 _ HA2 (pattern_out _ _ _)).
    apply (prim_cons_holds fe G n0 pf_G_wf pf_G_len pf_fe_cl e1 _ HA1 (pattern_out _ _ _)) in Hs.
    destruct Hs as [H1 H2]. split; [|exact H2].
    intros i Hi. rewrite (H1 i Hi). unfold eP. change (nv G) with P in Hi.
    destruct (H12 (n0 + i)) as [E _]; [lia|]. rewrite E. reflexivity.
  Qed.

  Lemma pf_self en : model_of gsem_c06 en st1 <-> extends_sat gsem_c06 st0 st1 en en.
  Proof.
    unfold extends_sat, model_of, satisfies, new_cons. rewrite Hc0. simpl skipn. split.
    - intros [H1 H2]. split; [intros i _; split; reflexivity|]. split; assumption.
    - intros [_ [H1 H2]]. split; assumption.
  Qed.

  (* hence: the models of the state after the call do not look at variables declared later *)
  Lemma pf_model_closed e1 e2 : agree_below (n0 + P) e1 e2 -> model_of gsem_c06 e1 st1 -> model_of gsem_c06 e2 st1.
  Proof.
    intros H12 Hm. apply pf_self in Hm.
    assert (Hag : agree_below (next_id st0) e1 e2) by (rewrite pf_next0; apply (prim_agree_below_le _ (n0 + P)); [lia|exact H12]).
    destruct (pf_closed e1 e1 e2 Hm H12) as [_ [Hb Hs]]. split; [exact Hb|].
    unfold satisfies. unfold new_cons in Hs. rewrite Hc0 in Hs. exact Hs.
  Qed.

End PrimFrame.

Lemma frame_prim_call_ok h w n0 st0 :
  frame_n h w <= n0 -> vars st0 = repeat DBool n0 ->
  exists st1 res, active_edges_single_cycle st0 (AFrame h w (frame_hor h w) (frame_ver h w)) None true = Ok (st1, res).
Proof.
  intros Hn Hv.
  destruct (cycle_frame h w _ _ (frame_hor_length h w) (frame_ver_length h w)) as [_ [_ [Hwf [Hlen [_ [Hc _]]]]]].
  rewrite Hc.
  assert (Hcl : forall e, In e (frame_edges h w (frame_hor h w) (frame_ver h w)) -> is_constraint_like e = true).
  { intros e He. apply (frame_edges_in h w _ _ (frame_hor_length h w) (frame_ver_length h w)) in He.
    destruct He as [He|He]; apply in_map_iff in He; destruct He as [k [<- _]]; reflexivity. }
  destruct (post_cycle_prim_shape _ _ (next_id st0) Hlen Hcl st0 eq_refl) as [st' [Hp _]].
  rewrite Hp. eexists. eexists. reflexivity.
Qed.

(* ------------------------------------------------------------------------------------------------------ *)
(* 2a. frame, call, then m further boolean variables; the frame and the later variables are the answer keys *)
(*     (analogue of YajilinCompose.cycle_grid_compose)                                                     *)

(* first id after the call on the fresh frame, native route *)
Definition grid_base_prim (h w : nat) : nat := frame_n h w + S h * S w.
Definition key_ids_prim (h w m : nat) : list nat := seq 0 (frame_n h w) ++ seq (grid_base_prim h w) m.
Definition key_reading_prim (h w m : nat) (en : env) : answer := map (fun i => b2z (eb en i)) (key_ids_prim h w m).

Lemma kp_seq_as_map a n : seq a n = map (fun j => a + j) (seq 0 n).
Proof.
  revert a. induction n as [|n IH]; intros a; [reflexivity|].
  simpl. f_equal; [lia|]. rewrite (IH (S a)), <- seq_shift, map_map. apply map_ext. intros j. lia.
Qed.
Lemma kp_nth_map_seq_at (f : nat -> Z) a n j : j < n -> nth j (map f (seq a n)) 0%Z = f (a + j).
Proof.
  intros H. rewrite nth_indep with (d' := f 0) by (rewrite map_length, seq_length; exact H).
  rewrite map_nth, seq_nth by exact H. reflexivity.
Qed.
Lemma kp_get_frame h w m en k : k < frame_n h w -> getz (key_reading_prim h w m en) k = b2z (eb en k).
Proof.
  intros H. unfold getz, key_reading_prim, key_ids_prim. rewrite map_app, app_nth1 by (rewrite map_length, seq_length; exact H).
  rewrite kp_nth_map_seq_at by exact H. reflexivity.
Qed.
Lemma kp_get_grid h w m en j :
  j < m -> getz (key_reading_prim h w m en) (frame_n h w + j) = b2z (eb en (grid_base_prim h w + j)).
Proof.
  intros H. unfold getz, key_reading_prim, key_ids_prim. rewrite map_app, app_nth2 by (rewrite map_length, seq_length; lia).
  rewrite map_length, seq_length. replace (frame_n h w + j - frame_n h w) with j by lia.
  rewrite kp_nth_map_seq_at by exact H. reflexivity.
Qed.
Lemma kp_length h w m en : length (key_reading_prim h w m en) = frame_n h w + m.
Proof. unfold key_reading_prim, key_ids_prim. rewrite map_length, app_length, !seq_length. reflexivity. Qed.
Lemma kp_01 h w m en : forallb is01 (key_reading_prim h w m en) = true.
Proof. unfold key_reading_prim. rewrite forallb_map. apply forallb_forall. intros; apply is01_b2z. Qed.
Lemma kp_ext h w m a b :
  (forall i, i < frame_n h w -> eb a i = eb b i) ->
  (forall j, j < m -> eb a (grid_base_prim h w + j) = eb b (grid_base_prim h w + j)) ->
  key_reading_prim h w m a = key_reading_prim h w m b.
Proof.
  intros H1 H2. unfold key_reading_prim, key_ids_prim. rewrite !map_app.
  f_equal; apply map_ext_in; intros i Hi; apply in_seq in Hi.
  - rewrite H1 by lia. reflexivity.
  - replace i with (grid_base_prim h w + (i - grid_base_prim h w)) by lia. rewrite H2 by lia. reflexivity.
Qed.

Definition env_of_keys_prim (h w : nat) (ans : answer) : env :=
  {| eb := fun i => if i <? grid_base_prim h w then isb (getz ans i)
                    else isb (getz ans (frame_n h w + (i - grid_base_prim h w)));
     ei := fun _ => 0%Z |}.

Lemma kp_as_reading h w m ans :
  length ans = frame_n h w + m -> forallb is01 ans = true -> key_reading_prim h w m (env_of_keys_prim h w ans) = ans.
Proof.
  intros Hl H01.
  assert (Hz : forall i, i < length ans -> b2z (isb (getz ans i)) = getz ans i).
  { intros i Hi. apply isb_is01. rewrite forallb_forall in H01. apply H01. unfold getz. apply nth_In. exact Hi. }
  rewrite <- (map_getz_seq ans) at 2. rewrite Hl, seq_app, map_app. unfold key_reading_prim, key_ids_prim. rewrite map_app.
  assert (HB : frame_n h w <= grid_base_prim h w) by (unfold grid_base_prim; lia).
  f_equal.
  - apply map_ext_in. intros i Hi. apply in_seq in Hi. cbn [eb env_of_keys_prim].
    destruct (Nat.ltb_spec i (grid_base_prim h w)); [|lia]. apply Hz. lia.
  - rewrite (kp_seq_as_map (grid_base_prim h w)), (kp_seq_as_map (0 + frame_n h w)), !map_map.
    apply map_ext_in. intros j Hj. apply in_seq in Hj. cbn [eb env_of_keys_prim].
    destruct (Nat.ltb_spec (grid_base_prim h w + j) (grid_base_prim h w)); [lia|].
    replace (grid_base_prim h w + j - grid_base_prim h w) with j by lia. simpl Nat.add. apply Hz. lia.
Qed.

Section GridCompose.
  Variables h w m : nat.
  Notation N := (frame_n h w).
  Notation P := (S h * S w).
  Notation B := (grid_base_prim h w).
  Notation hor := (frame_hor h w).
  Notation ver := (frame_ver h w).
  Notation Lt := (lattice (S h) (S w)).
  Variables (st0 st1 st : state) (res : passed_result) (extra : list expr).
  Hypothesis Hv0 : vars st0 = repeat DBool N.
  Hypothesis Hc0 : Program.cons st0 = [].
  Hypothesis Hcall : active_edges_single_cycle st0 (AFrame h w hor ver) None true = Ok (st1, res).
  Hypothesis Hvars : vars st = vars st1 ++ repeat DBool m.
  Hypothesis Hcons : Program.cons st = Program.cons st1 ++ extra.

  Let Hle : N <= N := le_n N.

  Lemma cgp_split en :
    model_of gsem_c06 en st <-> (model_of gsem_c06 en st1 /\ forallb (holds gsem_c06 en) extra = true).
  Proof.
    unfold model_of, in_bounds, satisfies. rewrite Hvars, Hcons, forallb_app, CycleLemmas.in_bounds_from_app,
      CycleLemmas.in_bounds_from_bools, andb_true_r, andb_true_iff. tauto.
  Qed.

  Lemma cgp_reads en : reads st en (key_ids_prim h w m) = key_reading_prim h w m en.
  Proof.
    destruct (pf_post h w N st0 st1 res Hle Hv0 Hc0 Hcall) as [_ [_ [Hv _]]].
    assert (Hlen : length (vars st1) = B) by apply (pf_next1 h w N st0 st1 res Hle Hv0 Hc0 Hcall).
    unfold reads, key_reading_prim. apply map_ext_in. intros i Hi. unfold key_ids_prim in Hi. apply in_app_iff in Hi.
    unfold read_var.
    replace (nth_error (vars st) i) with (Some DBool); [reflexivity|]. symmetry.
    destruct Hi as [Hi|Hi]; apply in_seq in Hi.
    - rewrite Hvars, Hv, Hv0, <- !app_assoc, nth_error_app1 by (rewrite repeat_length; lia).
      apply nth_error_repeat. lia.
    - rewrite Hvars, nth_error_app2 by lia. rewrite Hlen. apply nth_error_repeat. lia.
  Qed.

  Theorem cycle_grid_compose_prim (local : answer -> bool) ans :
    (forall en,
       (forall y x, y <= h -> x <= w ->
          eb en (frame_pid h w y x) = on_line Lt (eb en) (y * S w + x)) ->
       local (key_reading_prim h w m en) = forallb (holds gsem_c06 en) extra) ->
    res = P2 (S h) (S w) (frame_passed h w) /\
    ((exists en, model_of gsem_c06 en st /\ reads st en (key_ids_prim h w m) = ans)
     <-> Nat.eqb (length ans) (N + m) && forallb is01 ans &&
         single_loop_b Lt (fun k => isb (getz ans k)) && local ans = true).
  Proof.
    intros Hloc. split; [apply (pf_post h w N st0 st1 res Hle Hv0 Hc0 Hcall)|].
    assert (HLlen : length (edges Lt) = N) by apply lattice_edges_length.
    assert (Hpid : forall y x, frame_pid h w y x = N + (y * S w + x)) by (intros; unfold frame_pid; lia).
    pose proof (pf_next0 N st0 Hv0) as Hn0.
    split.
    - intros [en [Hm Hr]]. rewrite cgp_reads in Hr. subst ans.
      apply cgp_split in Hm. destruct Hm as [Hm1 Hcl].
      rewrite kp_length, Nat.eqb_refl, kp_01. simpl andb.
      apply andb_true_iff. destruct (pf_c06 h w N st0 st1 res Hle Hv0 Hc0 Hcall en) as [EX PASS].
      apply (pf_self st0 st1 Hc0) in Hm1. split.
      + apply (single_loop_b_ext Lt (eb en) _ (lattice_wf h w)).
        * intros k Hk. rewrite HLlen in Hk. rewrite kp_get_frame by exact Hk. symmetry. apply b2z_isb.
        * apply EX. exists en. exact Hm1.
      + rewrite Hloc; [exact Hcl|]. intros y x Hy Hx. rewrite Hpid. apply PASS; assumption.
    - intros Hr.
      apply andb_true_iff in Hr. destruct Hr as [Hr Hcl].
      apply andb_true_iff in Hr. destruct Hr as [Hr Hloop].
      apply andb_true_iff in Hr. destruct Hr as [Hlen H01]. apply Nat.eqb_eq in Hlen.
      set (en0 := env_of_keys_prim h w ans).
      pose proof (kp_as_reading h w m ans Hlen H01) as Ha. fold en0 in Ha.
      destruct (pf_c06 h w N st0 st1 res Hle Hv0 Hc0 Hcall en0) as [EX PASS].
      assert (Hloop0 : single_loop_b Lt (eb en0) = true).
      { apply (single_loop_b_ext Lt (fun k => isb (getz ans k)) _ (lattice_wf h w)); [|exact Hloop].
        intros k Hk. rewrite HLlen in Hk. unfold en0. cbn [eb env_of_keys_prim].
        destruct (Nat.ltb_spec k B); [reflexivity|unfold grid_base_prim in *; lia]. }
      destruct (proj2 EX Hloop0) as [en1 He].
      set (en2 := {| eb := fun i => if i <? B then eb en1 i else eb en0 i;
                     ei := fun i => if i <? B then ei en1 i else 0%Z |}).
      assert (H12 : agree_below (N + P) en1 en2).
      { intros i Hi. unfold en2. cbn [eb ei]. fold B in Hi. destruct (Nat.ltb_spec i B); [split; reflexivity|lia]. }
      pose proof (pf_closed h w N st0 st1 res Hle Hv0 Hc0 Hcall en0 en1 en2 He H12) as He2.
      pose proof He2 as [Hag2 _]. rewrite Hn0 in Hag2.
      assert (Hsame : key_reading_prim h w m en2 = ans).
      { rewrite <- Ha. apply kp_ext.
        - intros i Hi. destruct (Hag2 i Hi) as [E _]. symmetry. exact E.
        - intros j Hj. unfold en2. cbn [eb]. destruct (Nat.ltb_spec (B + j) B); [lia|reflexivity]. }
      exists en2. split; [|rewrite cgp_reads; exact Hsame].
      apply cgp_split. split.
      + destruct He2 as [_ [H1 H2]]. split; [exact H1|].
        unfold satisfies. unfold new_cons in H2. rewrite Hc0 in H2. exact H2.
      + rewrite <- Hloc; [rewrite Hsame; exact Hcl|].
        intros y x Hy Hx. rewrite Hpid, (PASS en2 He2 y x Hy Hx).
        apply on_line_ext. intros k Hk. rewrite HLlen in Hk. apply (Hag2 k Hk).
  Qed.
End GridCompose.

(* ------------------------------------------------------------------------------------------------------ *)
(* 2b. fresh frame (the answer key), call, then m further boolean variables whose values the later          *)
(*     constraints force (analogue of CastleWallCompose.cycle_frame_compose_aux)                           *)

Definition frame_cycle_prim (h w : nat) : res (state * passed_result) :=
  active_edges_single_cycle (frame_state h w) (AFrame h w (frame_hor h w) (frame_ver h w)) None true.

(* overwrite the boolean variables B .. B+m-1 of an assignment *)
Definition prim_splice (B m : nat) (en : env) (val : nat -> bool) : env :=
  {| eb := fun i => if Nat.leb B i && Nat.ltb i (B + m) then val (i - B) else eb en i; ei := ei en |}.

Lemma prim_splice_agree B m en val : agree_below B en (prim_splice B m en val).
Proof.
  intros i Hi. cbn [prim_splice eb ei]. destruct (Nat.leb_spec B i); [lia|]. split; reflexivity.
Qed.
Lemma prim_splice_at B m en val j : j < m -> eb (prim_splice B m en val) (B + j) = val j.
Proof.
  intros Hj. cbn [prim_splice eb]. destruct (Nat.leb_spec B (B + j)); [|lia].
  destruct (Nat.ltb_spec (B + j) (B + m)); [|lia]. simpl. f_equal. lia.
Qed.

Lemma frame_cycle_prim_ok h w : exists st1 res, frame_cycle_prim h w = Ok (st1, res).
Proof. apply (frame_prim_call_ok h w (frame_n h w)); [apply le_n|reflexivity]. Qed.

Lemma frame_cycle_prim_next_id h w st1 res :
  frame_cycle_prim h w = Ok (st1, res) -> next_id st1 = frame_n h w + S h * S w.
Proof. intros Hcall. apply (pf_next1 h w (frame_n h w) (frame_state h w) st1 res (le_n _) eq_refl eq_refl Hcall). Qed.

Theorem cycle_frame_compose_aux_prim h w m (extra : list expr) (local : answer -> bool)
        (aux : answer -> nat -> bool) st1 res st ans :
  frame_cycle_prim h w = Ok (st1, res) ->
  vars st = vars st1 ++ repeat DBool m ->
  Program.cons st = Program.cons st1 ++ extra ->
  (forall en,
     (forall y x, y <= h -> x <= w ->
        eb en (frame_pid h w y x) = on_line (lattice (S h) (S w)) (eb en) (y * S w + x)) ->
     forallb (holds gsem_c06 en) extra = true ->
     local (map (fun i => b2z (eb en i)) (seq 0 (frame_n h w))) = true) ->
  (forall en,
     (forall y x, y <= h -> x <= w ->
        eb en (frame_pid h w y x) = on_line (lattice (S h) (S w)) (eb en) (y * S w + x)) ->
     local (map (fun i => b2z (eb en i)) (seq 0 (frame_n h w))) = true ->
     (forall j, j < m -> eb en (next_id st1 + j) = aux (map (fun i => b2z (eb en i)) (seq 0 (frame_n h w))) j) ->
     forallb (holds gsem_c06 en) extra = true) ->
  ((exists en, model_of gsem_c06 en st /\ reads st en (seq 0 (frame_n h w)) = ans)
   <-> Nat.eqb (length ans) (frame_n h w) && forallb is01 ans &&
       single_loop_b (lattice (S h) (S w)) (fun k => isb (getz ans k)) && local ans = true).
Proof.
  set (N := frame_n h w). set (st0 := frame_state h w). set (L := lattice (S h) (S w)).
  intros Hcall Hvars Hcons Hloc1 Hloc2.
  assert (Hv0 : vars st0 = repeat DBool N) by reflexivity.
  assert (Hc0 : Program.cons st0 = []) by reflexivity.
  unfold frame_cycle_prim in Hcall. fold st0 in Hcall.
  pose proof (pf_next1 h w N st0 st1 res (le_n _) Hv0 Hc0 Hcall) as HB. fold N in HB.
  destruct (pf_post h w N st0 st1 res (le_n _) Hv0 Hc0 Hcall) as [_ [_ [Hv _]]].
  set (B := next_id st1) in *.
  assert (Hn0 : next_id st0 = N) by (apply (pf_next0 N st0 Hv0)).
  assert (HLlen : length (edges L) = N) by apply lattice_edges_length.
  assert (Hpid : forall y x, frame_pid h w y x = N + (y * S w + x)) by (intros; unfold frame_pid; fold N; lia).
  assert (Hsplit : forall en, model_of gsem_c06 en st <->
                              (model_of gsem_c06 en st1 /\ forallb (holds gsem_c06 en) extra = true)).
  { intros en. unfold model_of, in_bounds, satisfies. rewrite Hvars, Hcons.
    rewrite CycleLemmas.in_bounds_from_app, CycleLemmas.in_bounds_from_bools, andb_true_r.
    rewrite forallb_app, andb_true_iff. tauto. }
  assert (Hreads : forall en, reads st en (seq 0 N) = map (fun i => b2z (eb en i)) (seq 0 N)).
  { intros en. eapply reads_bool_prefix. rewrite Hvars, Hv, Hv0, <- app_assoc. reflexivity. }
  assert (Hext : forall en en', extends_sat gsem_c06 st0 st1 en en' -> model_of gsem_c06 en' st1).
  { intros en en' [_ [H1 H2]]. split; [exact H1|exact H2]. }
  assert (C6 := pf_c06 h w N st0 st1 res (le_n _) Hv0 Hc0 Hcall).
  assert (Hread_on : forall en k, k < N ->
            isb (getz (map (fun i => b2z (eb en i)) (seq 0 N)) k) = eb en k).
  { intros en k Hk. rewrite getz_map_seq by exact Hk. apply b2z_isb. }
  split.
  - intros [en [Hm Hr]]. rewrite Hreads in Hr. subst ans.
    apply Hsplit in Hm. destruct Hm as [Hm1 Hcl].
    replace (Nat.eqb (length (map (fun i => b2z (eb en i)) (seq 0 N))) N) with true
      by (rewrite map_length, seq_length; symmetry; apply Nat.eqb_refl).
    replace (forallb is01 (map (fun i => b2z (eb en i)) (seq 0 N))) with true
      by (rewrite forallb_map; symmetry; apply forallb_forall; intros; apply is01_b2z).
    simpl andb. apply andb_true_iff. destruct (C6 en) as [EX PASS].
    apply (pf_self st0 st1 Hc0) in Hm1. split.
    + apply (single_loop_b_ext L (eb en) _ (lattice_wf h w)).
      * intros k Hk. rewrite HLlen in Hk. symmetry. apply Hread_on. exact Hk.
      * apply EX. exists en. exact Hm1.
    + apply Hloc1; [|exact Hcl]. intros y x Hy Hx. rewrite Hpid. apply PASS; assumption.
  - intros Hr.
    apply andb_true_iff in Hr. destruct Hr as [Hr Hcl].
    apply andb_true_iff in Hr. destruct Hr as [Hr Hloop].
    apply andb_true_iff in Hr. destruct Hr as [Hlen H01]. apply Nat.eqb_eq in Hlen.
    set (en0 := env_of_answer ans).
    pose proof (answer_as_reading ans N Hlen H01) as Ha. fold en0 in Ha.
    destruct (C6 en0) as [EX PASS].
    destruct (proj2 EX Hloop) as [en' He].
    pose proof He as [Hag _]. rewrite Hn0 in Hag.
    set (en2 := prim_splice B m en' (aux ans)).
    assert (Hag2 : agree_below B en' en2) by apply prim_splice_agree.
    assert (Hsame : map (fun i => b2z (eb en2 i)) (seq 0 N) = ans).
    { rewrite <- Ha. apply map_ext_in. intros i Hi. apply in_seq in Hi.
      destruct (Hag2 i ltac:(lia)) as [E2 _]. destruct (Hag i ltac:(lia)) as [E _]. rewrite <- E2, E. reflexivity. }
    assert (Hpass2 : forall y x, y <= h -> x <= w ->
              eb en2 (frame_pid h w y x) = on_line L (eb en2) (y * S w + x)).
    { intros y x Hy Hx. rewrite Hpid.
      destruct (Hag2 (N + (y * S w + x))) as [E2 _]; [nia|].
      rewrite <- E2, (PASS en' He y x Hy Hx).
      apply on_line_ext. intros k Hk. fold L in Hk. rewrite HLlen in Hk.
      destruct (Hag2 k ltac:(lia)) as [E3 _]. destruct (Hag k Hk) as [E _]. rewrite <- E3, E. reflexivity. }
    exists en2. split; [|rewrite Hreads; exact Hsame].
    apply Hsplit. split.
    + apply (pf_model_closed h w N st0 st1 res (le_n _) Hv0 Hc0 Hcall en' en2); [rewrite <- HB; exact Hag2|].
      exact (Hext _ _ He).
    + apply Hloc2; [exact Hpass2|rewrite Hsame; exact Hcl|].
      intros j Hj. rewrite Hsame. apply prim_splice_at. exact Hj.
Qed.

(* ------------------------------------------------------------------------------------------------------ *)
(* 2c. two frames (the first one is the answer key and goes to the helper), call, then further integer and *)
(*     boolean variables (analogue of SlalomCompose.sl_compose)                                            *)

Definition sl_cycle_prim (fh fw : nat) : res (state * passed_result) :=
  active_edges_single_cycle (sl_state0 fh fw) (AFrame fh fw (frame_hor fh fw) (frame_ver fh fw)) None true.

Definition prim_merge (B : nat) (a later : env) : env :=
  {| eb := fun i => if i <? B then eb a i else eb later i;
     ei := fun i => if i <? B then ei a i else ei later i |}.

Section SlCompose.
  Variables fh fw : nat.
  Let N := frame_n fh fw.
  Let nvs := S fh * S fw.
  Let st0 := sl_state0 fh fw.
  Let L := lattice (S fh) (S fw).

  Let Hle : N <= N + N.
  Proof. lia. Qed.
  Let Hv0 : vars st0 = repeat DBool (N + N).
  Proof. reflexivity. Qed.
  Let Hc0 : Program.cons st0 = [].
  Proof. reflexivity. Qed.

  Lemma sl_cycle_prim_ok : exists st1 res, sl_cycle_prim fh fw = Ok (st1, res).
  Proof. apply (frame_prim_call_ok fh fw (N + N)); [exact Hle|reflexivity]. Qed.

  Lemma sl_cycle_prim_next_id st1 res : sl_cycle_prim fh fw = Ok (st1, res) -> next_id st1 = N + N + nvs.
  Proof. intros Hcall. apply (pf_next1 fh fw (N + N) st0 st1 res Hle Hv0 Hc0 Hcall). Qed.

  Theorem sl_compose_prim (more : list vdecl) (extra : list expr) (local : answer -> bool) st1 res st ans :
    sl_cycle_prim fh fw = Ok (st1, res) ->
    vars st = vars st1 ++ more ->
    Program.cons st = Program.cons st1 ++ extra ->
    (forall en, single_loop_b L (fun k => isb (getz (map (fun i => b2z (eb en i)) (seq 0 N)) k)) = true ->
       in_bounds_from en (next_id st1) more = true -> forallb (holds gsem_c06 en) extra = true ->
       local (map (fun i => b2z (eb en i)) (seq 0 N)) = true) ->
    (forall a, length a = N -> forallb is01 a = true ->
       single_loop_b L (fun k => isb (getz a k)) = true -> local a = true ->
       exists (dirv : nat -> bool) (later : env), forall en,
         (forall k, k < N -> eb en k = isb (getz a k)) ->
         (forall k, k < N -> eb en (N + k) = dirv k) ->
         (forall i, next_id st1 <= i -> eb en i = eb later i /\ ei en i = ei later i) ->
         in_bounds_from en (next_id st1) more = true /\ forallb (holds gsem_c06 en) extra = true) ->
    ((exists en, model_of gsem_c06 en st /\ reads st en (seq 0 N) = ans)
     <-> Nat.eqb (length ans) N && forallb is01 ans &&
         single_loop_b L (fun k => isb (getz ans k)) && local ans = true).
  Proof.
    intros Hcall Hvars Hcons Hsound Hcomp.
    unfold sl_cycle_prim in Hcall. fold st0 in Hcall.
    pose proof (pf_next1 fh fw (N + N) st0 st1 res Hle Hv0 Hc0 Hcall) as HB. fold nvs in HB.
    destruct (pf_post fh fw (N + N) st0 st1 res Hle Hv0 Hc0 Hcall) as [_ [_ [Hv _]]].
    set (B := next_id st1) in *.
    assert (HLlen : length (edges L) = N) by apply lattice_edges_length.
    assert (Hsplit : forall en, model_of gsem_c06 en st <->
              (model_of gsem_c06 en st1 /\ in_bounds_from en B more = true /\
               forallb (holds gsem_c06 en) extra = true)).
    { intros en. unfold model_of, in_bounds, satisfies. rewrite Hvars, Hcons.
      rewrite CycleLemmas.in_bounds_from_app, forallb_app, !andb_true_iff. simpl. fold (next_id st1). fold B. tauto. }
    assert (Hreads : forall en, reads st en (seq 0 N) = map (fun i => b2z (eb en i)) (seq 0 N)).
    { intros en. eapply reads_bool_prefix. rewrite Hvars, Hv, Hv0, repeat_app, <- !app_assoc. reflexivity. }
    assert (C6 : forall en,
       (exists en', extends_sat gsem_c06 st0 st1 en en') <-> single_loop_b L (eb en) = true).
    { intros en. apply (pf_c06 fh fw (N + N) st0 st1 res Hle Hv0 Hc0 Hcall en). }
    assert (Hread_on : forall en k, k < N ->
              isb (getz (map (fun i => b2z (eb en i)) (seq 0 N)) k) = eb en k).
    { intros en k Hk. rewrite getz_map_seq by exact Hk. apply b2z_isb. }
    split.
    - intros [en [Hm Hr]]. rewrite Hreads in Hr. subst ans.
      apply Hsplit in Hm. destruct Hm as [Hm1 [Hb Hcl]].
      replace (Nat.eqb (length (map (fun i => b2z (eb en i)) (seq 0 N))) N) with true
        by (rewrite map_length, seq_length; symmetry; apply Nat.eqb_refl).
      replace (forallb is01 (map (fun i => b2z (eb en i)) (seq 0 N))) with true
        by (rewrite forallb_map; symmetry; apply forallb_forall; intros; apply is01_b2z).
      simpl andb. apply andb_true_iff.
      assert (Hloop : single_loop_b L (eb en) = true).
      { apply C6. exists en. apply (pf_self st0 st1 Hc0). exact Hm1. }
      assert (Hloop' : single_loop_b L (fun k => isb (getz (map (fun i => b2z (eb en i)) (seq 0 N)) k)) = true).
      { apply (single_loop_b_ext L (eb en) _ (lattice_wf fh fw)); [|exact Hloop].
        intros k Hk. rewrite HLlen in Hk. symmetry. apply Hread_on. exact Hk. }
      split; [exact Hloop'|]. apply Hsound; assumption.
    - intros Hr.
      apply andb_true_iff in Hr. destruct Hr as [Hr Hcl].
      apply andb_true_iff in Hr. destruct Hr as [Hr Hloop].
      apply andb_true_iff in Hr. destruct Hr as [Hlen H01]. apply Nat.eqb_eq in Hlen.
      destruct (Hcomp ans Hlen H01 Hloop Hcl) as [dirv [later Hlater]].
      set (en0 := {| eb := fun i => if i <? N then isb (getz ans i) else dirv (i - N); ei := fun _ => 0%Z |}).
      assert (Hloop0 : single_loop_b L (eb en0) = true).
      { apply (single_loop_b_ext L (fun k => isb (getz ans k)) _ (lattice_wf fh fw)); [|exact Hloop].
        intros k Hk. rewrite HLlen in Hk. simpl. destruct (Nat.ltb_spec k N); [reflexivity|lia]. }
      destruct (proj2 (C6 en0) Hloop0) as [en' He].
      pose proof He as [Hag [Hib Hnc]]. rewrite (pf_next0 (N + N) st0 Hv0) in Hag.
      set (en3 := prim_merge B en' later).
      assert (Hag3 : agree_below B en' en3).
      { intros i Hi. simpl. destruct (Nat.ltb_spec i B); [split; reflexivity|lia]. }
      assert (HBN : N + N <= B) by lia.
      assert (Hm1 : model_of gsem_c06 en3 st1).
      { apply (pf_model_closed fh fw (N + N) st0 st1 res Hle Hv0 Hc0 Hcall en' en3); [fold nvs; rewrite <- HB; exact Hag3|].
        split; [exact Hib|]. unfold satisfies. unfold new_cons in Hnc. rewrite Hc0 in Hnc. exact Hnc. }
      assert (Hlow : forall k, k < N -> eb en3 k = isb (getz ans k)).
      { intros k Hk. simpl. destruct (Nat.ltb_spec k B); [|lia].
        destruct (Hag k ltac:(lia)) as [E _]. rewrite <- E. simpl.
        destruct (Nat.ltb_spec k N); [reflexivity|lia]. }
      assert (Hdir : forall k, k < N -> eb en3 (N + k) = dirv k).
      { intros k Hk. simpl. destruct (Nat.ltb_spec (N + k) B); [|lia].
        destruct (Hag (N + k) ltac:(lia)) as [E _]. rewrite <- E. simpl.
        destruct (Nat.ltb_spec (N + k) N); [lia|]. f_equal. lia. }
      assert (Hlat : forall i, B <= i -> eb en3 i = eb later i /\ ei en3 i = ei later i).
      { intros i Hi. simpl. destruct (Nat.ltb_spec i B); [lia|]. split; reflexivity. }
      destruct (Hlater en3 Hlow Hdir Hlat) as [Hb3 Hx3].
      exists en3. split.
      + apply Hsplit. split; [exact Hm1|]. split; assumption.
      + rewrite Hreads. etransitivity; [|apply map_getz_seq]. rewrite Hlen.
        apply map_ext_in. intros i Hi. apply in_seq in Hi. rewrite Hlow by lia.
        apply isb_is01. rewrite forallb_forall in H01. apply H01. unfold getz. apply nth_In. lia.
  Qed.
End SlCompose.
