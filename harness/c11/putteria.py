"""C11 plug-in: putteria (solve_putteria(height, width, blocks))."""
import c11lib as L
from c11 import norinori as _nn

NAME = "putteria"
MODULE = "cspuz.puzzle.putteria"
FUNC = "solve_putteria"
TIER1 = ("Putteria", "solve_putteria_model")
tier1_problems = _nn.tier1_problems


def call(mod, pb):
    return mod.solve_putteria(pb["h"], pb["w"], [[tuple(c) for c in b] for b in pb["blocks"]])


def ncand(pb):
    return 2 ** (pb['h'] * pb['w'])


encode = _nn.encode


def families(tier, rng):
    th = tier == "thorough"
    for (h, w) in [(1, 1), (1, 2), (2, 1), (1, 3), (3, 1), (2, 2), (1, 4), (4, 1), (2, 3), (3, 2)]:
        parts = list(L.region_partitions(h, w))
        for blocks in (parts if th else L.sample(rng, parts, 25)):
            yield {"h": h, "w": w, "blocks": blocks}
    for (h, w) in [(3, 3), (2, 4), (4, 2), (3, 4), (4, 4)]:
        for blocks in _nn._random_parts(rng, h, w, 200 if th else 20):
            yield {"h": h, "w": w, "blocks": blocks}


def tier2(tier, rng):
    th = tier == "thorough"
    for (h, w) in [(1, 2), (2, 2), (2, 3), (3, 3)]:
        parts = list(L.region_partitions(h, w, max_size=6))
        for blocks in L.sample(rng, parts, 40 if th else 6):
            yield {"h": h, "w": w, "blocks": blocks}


def big(tier, rng):
    """5x5 / 4x6 / 6x4 boards with 3-4 rooms (too many candidate grids to enumerate: every grid the solver admits,
    up to the cap, is checked against the rules)"""
    th = tier == "thorough"
    for (h, w) in [(5, 5), (4, 6), (6, 4)]:
        k = 0
        for _ in range(400):
            blocks = L.random_rooms(rng, h, w, rng.choice([3, 4]))
            if all(len(b) >= 1 for b in blocks):
                yield {"h": h, "w": w, "blocks": blocks}
                k += 1
                if k >= (16 if th else 4):
                    break
