(* C16's room-based URL theorems with their two premises discharged.
   Codec/PuzzleProofs.v (rooms_url_roundtrip_given, valued_rooms_url_roundtrip_given) and
   Props/C16.v (rooms_codecs_roundtrip_given_rooms, heyawake_roundtrip_given_rooms) take
   CombRoundTrip.rooms_roundtrip_statement / valued_rooms_roundtrip_statement as explicit
   hypotheses; Codec/RoomsTotal.v and Codec/RoomsValued.v prove them.  The corollaries below
   have the same conclusions and no such hypothesis. *)
From Coq Require Import ZArith List Ascii Bool NArith Lia Sorting.Permutation.
From Cspuz Require Import Lib.PyErr Codec.Comb Codec.CombWf Codec.CombRoundTrip Codec.Url Codec.UrlProofs
  Codec.Puzzles Codec.SerChars Codec.PuzzleProofs Codec.RoomsTotal Codec.RoomsValued Gen.Codecs.
Import ListNotations.
Local Open Scope Z_scope.

(* ------------------------------------------------------------------ any module built on Rooms / ValuedRooms *)
(* PuzzleProofs.rooms_url_roundtrip_given without its first hypothesis: every partition of the
   board into connected rooms, in any order, gets a URL, and the URL decodes to the canonical
   listing of the same partition *)
Theorem rooms_url_roundtrip_unconditional sw dw skip allow :
  sw_comb sw = Rooms skip allow -> wrappers_consistent sw dw ->
  forall h w rs, 1 <= h -> 1 <= w -> valid_rooms h w rs ->
  exists body rs',
    run_ser_sized no_custom sw h w (rooms_to_pv rs) = Ok (make_url default_prefix (sw_puzzle sw) h w body) /\
    canonical_rooms h w rs' /\ rooms_equiv rs rs' /\
    run_de no_custom dw (make_url default_prefix (sw_puzzle sw) h w body) = Ok (Some (sized dw h w (rooms_to_pv rs'))).
Proof. exact (rooms_url_roundtrip_given sw dw skip allow rooms_roundtrip_proof). Qed.

(* PuzzleProofs.valued_rooms_url_roundtrip_given without its first hypothesis *)
Theorem valued_rooms_url_roundtrip_unconditional sw dw vc skip allow :
  sw_comb sw = ValuedRooms vc skip allow -> wrappers_consistent sw dw ->
  wf (ValuedRooms vc skip allow) = true -> rooms_free vc = true -> cell_comb vc = true -> nl_free vc = true ->
  forall h w rs vs body, 1 <= h -> 1 <= w -> valid_rooms h w rs -> length vs = length rs ->
  serialize_problem_cu no_custom (sw_comb sw) (VTup [rooms_to_pv rs; VList vs]) h w = Ok body ->
  exists ps rs',
    Permutation ps (combine rs vs) /\ Forall2 (fun p r' => Permutation (fst p) r') ps rs' /\ canonical_rooms h w rs' /\
    run_ser_sized no_custom sw h w (VTup [rooms_to_pv rs; VList vs]) = Ok (make_url default_prefix (sw_puzzle sw) h w body) /\
    run_de no_custom dw (make_url default_prefix (sw_puzzle sw) h w body)
    = Ok (Some (sized dw h w (VTup [rooms_to_pv rs'; VList (map snd ps)]))).
Proof. exact (valued_rooms_url_roundtrip_given sw dw vc skip allow valued_rooms_roundtrip_proof). Qed.

(* ------------------------------------------------------------------ the generated wrappers of lits, norinori, heyawake *)
Lemma room_wrappers_consistent :
  wrappers_consistent serialize_lits_w deserialize_lits_w /\
  wrappers_consistent serialize_norinori_w deserialize_norinori_w /\
  wrappers_consistent serialize_heyawake_w deserialize_heyawake_w.
Proof. repeat split; try reflexivity; try discriminate; vm_compute; repeat constructor. Qed.

(* Props/C16.rooms_codecs_roundtrip_given_rooms without its premise: serialize_lits / serialize_norinori
   succeed on EVERY partition of every h x w board (h, w >= 1) into connected rooms, listed in any
   order; the URL is prefix name/w/h/body and deserialize_<p> returns (h, w, canonical listing) *)
Theorem rooms_codecs_roundtrip_unconditional :
  forall sw dw, (sw = serialize_lits_w /\ dw = deserialize_lits_w) \/ (sw = serialize_norinori_w /\ dw = deserialize_norinori_w) ->
  forall h w rs, 1 <= h -> 1 <= w -> valid_rooms h w rs ->
  exists body rs',
    run_ser_sized no_custom sw h w (rooms_to_pv rs) = Ok (make_url default_prefix (sw_puzzle sw) h w body) /\
    canonical_rooms h w rs' /\ rooms_equiv rs rs' /\
    run_de no_custom dw (make_url default_prefix (sw_puzzle sw) h w body) = Ok (Some (VTup [VInt h; VInt w; rooms_to_pv rs'])).
Proof.
  intros sw dw Hsw. destruct room_wrappers_consistent as (H8 & H9 & _).
  destruct Hsw as [[-> ->]|[-> ->]].
  - exact (rooms_url_roundtrip_unconditional serialize_lits_w deserialize_lits_w false false eq_refl H8).
  - exact (rooms_url_roundtrip_unconditional serialize_norinori_w deserialize_norinori_w false false eq_refl H9).
Qed.

(* Props/C16.heyawake_roundtrip_given_rooms without its premise: rooms (and cells) in any order,
   the clues come back with their rooms *)
Theorem heyawake_roundtrip_unconditional :
  forall h w rs vs body, 1 <= h -> 1 <= w -> valid_rooms h w rs -> length vs = length rs ->
  serialize_problem_cu no_custom HEYAWAKE_COMBINATOR (VTup [rooms_to_pv rs; VList vs]) h w = Ok body ->
  exists ps rs',
    Permutation ps (combine rs vs) /\ Forall2 (fun p r' => Permutation (fst p) r') ps rs' /\ canonical_rooms h w rs' /\
    run_ser_sized no_custom serialize_heyawake_w h w (VTup [rooms_to_pv rs; VList vs])
      = Ok (make_url default_prefix (sw_puzzle serialize_heyawake_w) h w body) /\
    run_de no_custom deserialize_heyawake_w (make_url default_prefix (sw_puzzle serialize_heyawake_w) h w body)
      = Ok (Some (VTup [VInt h; VInt w; VTup [rooms_to_pv rs'; VList (map snd ps)]])).
Proof.
  destruct room_wrappers_consistent as (_ & _ & H7).
  exact (valued_rooms_url_roundtrip_unconditional serialize_heyawake_w deserialize_heyawake_w _ true false eq_refl H7
           ltac:(vm_compute; reflexivity) eq_refl eq_refl eq_refl).
Qed.

(* the hypotheses are satisfiable: a 1 x 3 heyawake board, rooms listed right to left, clues 7 and none *)
Example heyawake_any_order_instance :
  let rs := [[(0, 2)]; [(0, 1); (0, 0)]]%nat in
  let vs := [VInt 7; VInt (-1)] in
  match serialize_problem_cu no_custom HEYAWAKE_COMBINATOR (VTup [rooms_to_pv rs; VList vs]) 1 3 with
  | Ok body =>
      run_de no_custom deserialize_heyawake_w (make_url default_prefix (sw_puzzle serialize_heyawake_w) 1 3 body)
      = Ok (Some (VTup [VInt 1; VInt 3; VTup [rooms_to_pv [[(0, 0); (0, 1)]; [(0, 2)]]%nat; VList [VInt (-1); VInt 7]]]))
  | Err _ => False
  end.
Proof. vm_compute. reflexivity. Qed.
