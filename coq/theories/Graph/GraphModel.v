(* Mirror of cspuz/graph.py::Graph, _grid_graph; and the graph-theoretic
   vocabulary (executable, boolean) that the specifications of C04-C10 share.
   No proofs here. *)
From Coq Require Import ZArith List Bool Arith.
Import ListNotations.

Record graph := { nv : nat; edges : list (nat * nat) }.

(* Graph.incident_edges[i] : (neighbour, edge id) in insertion order; a
   self-loop (i, i) is listed twice, parallel edges are kept *)
Fixpoint incident_from (i : nat) (k : nat) (es : list (nat * nat)) : list (nat * nat) :=
  match es with
  | [] => []
  | (a, b) :: r =>
      (if Nat.eqb a i then [(b, k)] else []) ++ (if Nat.eqb b i then [(a, k)] else [])
      ++ incident_from i (S k) r
  end.
Definition incident (g : graph) (i : nat) : list (nat * nat) := incident_from i 0 (edges g).

(* graph.py::_grid_graph : vertex y*w+x; for each cell, first the edge to the
   right neighbour, then the edge to the lower neighbour *)
Definition grid_edges (h w : nat) : list (nat * nat) :=
  flat_map (fun y => flat_map (fun x =>
      (if Nat.ltb (S x) w then [(y * w + x, y * w + S x)] else []) ++
      (if Nat.ltb (S y) h then [(y * w + x, S y * w + x)] else []))
    (seq 0 w)) (seq 0 h).
Definition grid_graph (h w : nat) : graph := {| nv := h * w; edges := grid_edges h w |}.

Definition wf_graph (g : graph) : bool :=
  forallb (fun '(a, b) => Nat.ltb a (nv g) && Nat.ltb b (nv g)) (edges g).
Definition loop_free (g : graph) : bool :=
  forallb (fun '(a, b) => negb (Nat.eqb a b)) (edges g).

(* ------------------------------------------------------------------------ *)
(* Reachability inside a vertex set, executable: flood fill with fuel.       *)

Definition mem (x : nat) (l : list nat) : bool := existsb (Nat.eqb x) l.

(* neighbours of v through the edges selected by [eok] (edge id -> bool) *)
Definition nbrs (g : graph) (eok : nat -> bool) (v : nat) : list nat :=
  map fst (filter (fun '(_, k) => eok k) (incident g v)).

(* one sweep: add every allowed neighbour of the visited vertices, keeping
   discovery order (append-only) *)
Fixpoint add_new (vok : nat -> bool) (cand : list nat) (seen : list nat) : list nat :=
  match cand with
  | [] => seen
  | c :: r => if vok c && negb (mem c seen) then add_new vok r (seen ++ [c]) else add_new vok r seen
  end.
Definition sweep (g : graph) (vok eok : nat -> bool) (seen : list nat) : list nat :=
  fold_left (fun acc v => add_new vok (nbrs g eok v) acc) seen seen.
Fixpoint grow (fuel : nat) (g : graph) (vok eok : nat -> bool) (seen : list nat) : list nat :=
  match fuel with
  | O => seen
  | S f => let s' := sweep g vok eok seen in
           if Nat.eqb (length s') (length seen) then seen else grow f g vok eok s'
  end.
(* the vertices reachable from [s] by walks through allowed vertices and edges *)
Definition component (g : graph) (vok eok : nat -> bool) (s : nat) : list nat :=
  if vok s then grow (nv g) g vok eok [s] else [].

Definition all_edges_ok : nat -> bool := fun _ => true.

(* all vertices satisfying [act] are mutually reachable through [act] vertices
   (vacuously true for the empty set) *)
Definition connected_b (g : graph) (act : nat -> bool) : bool :=
  match filter act (seq 0 (nv g)) with
  | [] => true
  | s :: _ as l => let c := component g act all_edges_ok s in forallb (fun v => mem v c) l
  end.

(* relational versions (the specification proper) *)
Inductive reach (g : graph) (vok eok : nat -> bool) : nat -> nat -> Prop :=
  | reach_refl v : vok v = true -> reach g vok eok v v
  | reach_step u v w : reach g vok eok u v -> In w (nbrs g eok v) -> vok w = true ->
                       reach g vok eok u w.
Definition connected (g : graph) (act : nat -> bool) : Prop :=
  forall u v, (u < nv g)%nat -> (v < nv g)%nat -> act u = true -> act v = true ->
              reach g act all_edges_ok u v.

(* edge-subset vocabulary *)
Definition degree (g : graph) (eact : nat -> bool) (v : nat) : nat :=
  length (filter (fun '(_, k) => eact k) (incident g v)).
Definition count_b (l : list bool) : nat := length (filter (fun b => b) l).
