(* Z3Backend.solve with z3's three-valued answer: Solver.check() may say sat,
   unsat or unknown (time limit, resource limit, interrupt -- e.g. a global
   z3.set_param("timeout" / "rlimit", n) or an option set on the solver object).
   Which answers make solve() return False is read from the Python source
   (Gen/Z3SolveTable.v); on every other answer solve() goes on to
   solver.model(), which raises Z3Exception unless the answer was sat.
   Definitions only. *)
From Coq Require Import ZArith List Bool.
From Cspuz Require Import Lib.PyErr Core.Expr Core.Program Backend.Z3Call Gen.Z3Table Backend.Z3
  Backend.Z3Check Gen.Z3SolveTable.
Import ListNotations.
Open Scope res_scope.

Inductive verdict := VSat (m : zmodel) | VUnsat | VUnknown.

Definition kind_of (v : verdict) : check_result :=
  match v with VSat _ => CSat | VUnsat => CUnsat | VUnknown => CUnknown end.

Section Solve3.
  (* Solver.check() and, after sat, Solver.model() on the asserted terms *)
  Variable o3 : list zterm -> verdict.

  Definition z3_solve3 (vs : list vdecl) (b : backend) : res (option (list value)) :=
    let* ts := mapM top_cast b in
    let v := o3 (bound_terms vs ++ ts) in
    if solve_returns_false_on (kind_of v) then Ok None
    else match v with
         | VSat m => let* s := readback m vs in Ok (Some s)
         | VUnsat | VUnknown => Err OtherError      (* Z3Exception: model is not available *)
         end.

  Definition find_answer3 (st : state) : res (option (list value)) :=
    let* b := z3_add_list (vars st) [] (cons st) in z3_solve3 (vars st) b.
End Solve3.

(* a solver that always answers (the two-valued oracle of Backend/Z3.v) *)
Definition lift_oracle (o : list zterm -> option zmodel) (ts : list zterm) : verdict :=
  match o ts with Some m => VSat m | None => VUnsat end.

(* a solver that gives up on every query *)
Definition gives_up (ts : list zterm) : verdict := VUnknown.
