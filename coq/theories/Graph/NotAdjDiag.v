(* C08, level S for the grid specialisation: the diagonal neighbours of a grid
   satisfy the hypotheses of NotAdjForest.v; the rank read off the executable
   order is a certificate within the declared range (h*w-1)//2; hence
   diag_cert (certificate exists <-> spec_diag) and the decision procedure
   spec_diag_b. *)
From Coq Require Import ZArith List Bool Arith Lia.
From Cspuz Require Import Graph.GraphModel Graph.ReachProofs Graph.NotAdj Graph.NotAdjForest.
Import ListNotations.
Local Open Scope nat_scope.

(* ------------------------------------------------------------------------ *)
(* coordinates                                                               *)

Lemma cell_of_coords w yn xn : xn < w -> cell_y w (yn * w + xn) = yn /\ cell_x w (yn * w + xn) = xn.
Proof.
  intros Hx. unfold cell_y, cell_x. split.
  - symmetry. apply (Nat.div_unique _ w yn xn); [exact Hx|lia].
  - symmetry. apply (Nat.mod_unique _ w yn xn); [exact Hx|lia].
Qed.

Lemma coords_of_cell h w v : v < h * w -> cell_y w v < h /\ cell_x w v < w /\ v = cell_y w v * w + cell_x w v.
Proof.
  intros Hv. assert (Hw : w <> 0) by (intros ->; lia). unfold cell_y, cell_x.
  split; [apply Nat.div_lt_upper_bound; [exact Hw|lia]|].
  split; [apply Nat.mod_upper_bound; exact Hw|].
  pose proof (Nat.div_mod v w Hw). lia.
Qed.

(* diagonal adjacency of two cell numbers *)
Definition dadj (w v u : nat) : Prop :=
  (cell_y w u = cell_y w v + 1 \/ cell_y w v = cell_y w u + 1) /\
  (cell_x w u = cell_x w v + 1 \/ cell_x w v = cell_x w u + 1).

Lemma dadj_sym w v u : dadj w v u -> dadj w u v.
Proof. unfold dadj. tauto. Qed.

Lemma in_dirs d : In d dirs <-> (fst d = -1 \/ fst d = 1)%Z /\ (snd d = -1 \/ snd d = 1)%Z.
Proof.
  unfold dirs. simpl. destruct d as [dy dx]. simpl. split.
  - intros [H|[H|[H|[H|[]]]]]; inversion H; subst; lia.
  - intros [[->| ->] [->| ->]]; auto.
Qed.

Lemma in_grid_iff h w y x :
  in_grid (Z.of_nat h) (Z.of_nat w) y x = true <->
  (0 <= y < Z.of_nat h /\ 0 <= x < Z.of_nat w)%Z.
Proof. unfold in_grid. rewrite !andb_true_iff, !Z.leb_le, !Z.ltb_lt. lia. Qed.

Lemma idx_nat h w y2 x2 :
  in_grid (Z.of_nat h) (Z.of_nat w) y2 x2 = true ->
  exists yn xn, y2 = Z.of_nat yn /\ x2 = Z.of_nat xn /\ yn < h /\ xn < w /\
                Z.to_nat (y2 * Z.of_nat w + x2) = yn * w + xn.
Proof.
  intros H. apply in_grid_iff in H. exists (Z.to_nat y2), (Z.to_nat x2).
  split; [lia|]. split; [lia|]. split; [lia|]. split; [lia|].
  rewrite Z2Nat.inj_add by nia. rewrite Z2Nat.inj_mul by lia.
  rewrite Nat2Z.id. reflexivity.
Qed.

Lemma diag_nbrs_spec h w v u :
  v < h * w -> (In u (diag_nbrs h w v) <-> u < h * w /\ dadj w v u).
Proof.
  intros Hv. destruct (coords_of_cell h w v Hv) as [Hy [Hx Hvd]].
  unfold diag_nbrs. rewrite in_map_iff. split.
  - intros [d [Hu Hd]]. apply filter_In in Hd. destruct Hd as [Hd Hg].
    destruct (idx_nat h w _ _ Hg) as [yn [xn [E1 [E2 [Hyn [Hxn E3]]]]]].
    rewrite E3 in Hu. subst u. destruct (cell_of_coords w yn xn Hxn) as [C1 C2].
    split; [nia|]. unfold dadj. rewrite C1, C2. apply in_dirs in Hd. lia.
  - intros [Hu Hadj]. destruct (coords_of_cell h w u Hu) as [Hyu [Hxu Hud]]. unfold dadj in Hadj.
    exists ((Z.of_nat (cell_y w u) - Z.of_nat (cell_y w v))%Z, (Z.of_nat (cell_x w u) - Z.of_nat (cell_x w v))%Z).
    split.
    + simpl. replace (Z.of_nat (cell_y w v) + (Z.of_nat (cell_y w u) - Z.of_nat (cell_y w v)))%Z
        with (Z.of_nat (cell_y w u)) by lia.
      replace (Z.of_nat (cell_x w v) + (Z.of_nat (cell_x w u) - Z.of_nat (cell_x w v)))%Z
        with (Z.of_nat (cell_x w u)) by lia.
      rewrite <- Nat2Z.inj_mul, <- Nat2Z.inj_add, Nat2Z.id. lia.
    + apply filter_In. split; [apply in_dirs; simpl; lia|]. simpl. apply in_grid_iff. lia.
Qed.

Lemma diag_nbrs_lt h w v u : v < h * w -> In u (diag_nbrs h w v) -> u < h * w.
Proof. intros Hv H. apply (diag_nbrs_spec h w v u Hv) in H. tauto. Qed.

Lemma diag_nbrs_sym h w v u : v < h * w -> In u (diag_nbrs h w v) -> In v (diag_nbrs h w u).
Proof.
  intros Hv H. apply (diag_nbrs_spec h w v u Hv) in H. destruct H as [Hu Ha].
  apply (diag_nbrs_spec h w u v Hu). split; [exact Hv|apply dadj_sym; exact Ha].
Qed.

Lemma diag_nbrs_all_lt h w v u : In u (diag_nbrs h w v) -> u < h * w.
Proof.
  unfold diag_nbrs. rewrite in_map_iff. intros [d [Hu Hd]]. apply filter_In in Hd. destruct Hd as [_ Hg].
  destruct (idx_nat h w _ _ Hg) as [yn [xn [E1 [E2 [Hyn [Hxn E3]]]]]]. rewrite E3 in Hu. subst u. nia.
Qed.

Lemma diag_nbrs_irrefl h w v : ~ In v (diag_nbrs h w v).
Proof.
  intros H. pose proof (diag_nbrs_all_lt h w v v H) as Hv.
  apply (diag_nbrs_spec h w v v Hv) in H. unfold dadj in H. lia.
Qed.

Lemma NoDup_map_filter_inj {A B} (f : A -> B) (p : A -> bool) l :
  NoDup l -> (forall a b, In a l -> In b l -> p a = true -> p b = true -> f a = f b -> a = b) ->
  NoDup (map f (filter p l)).
Proof.
  induction l as [|a l IH]; intros Hnd Hinj; simpl; [constructor|].
  inversion Hnd as [|? ? Hna Hnd']; subst.
  assert (IH' : NoDup (map f (filter p l))).
  { apply IH; [exact Hnd'|]. intros x y Hx Hy. apply Hinj; right; assumption. }
  destruct (p a) eqn:Ea; [|exact IH']. simpl. constructor; [|exact IH'].
  intros Hin. apply in_map_iff in Hin. destruct Hin as [b [Hfb Hb]]. apply filter_In in Hb. destruct Hb as [Hb Hpb].
  assert (a = b) by (apply Hinj; [left; reflexivity|right; exact Hb|exact Ea|exact Hpb|symmetry; exact Hfb]).
  subst b. contradiction.
Qed.

Lemma diag_nbrs_nodup h w v : NoDup (diag_nbrs h w v).
Proof.
  unfold diag_nbrs. apply NoDup_map_filter_inj.
  - unfold dirs. repeat constructor; simpl; intros H; repeat (destruct H as [H|H]; [inversion H|]); exact H.
  - intros a b _ _ Ha Hb E.
    destruct (idx_nat h w _ _ Ha) as [ya [xa [A1 [A2 [A3 [A4 A5]]]]]].
    destruct (idx_nat h w _ _ Hb) as [yb [xb [B1 [B2 [B3 [B4 B5]]]]]].
    rewrite A5, B5 in E.
    destruct (cell_of_coords w ya xa A4) as [C1 C2]. destruct (cell_of_coords w yb xb B4) as [D1 D2].
    rewrite E in C1, C2. rewrite D1 in C1. rewrite D2 in C2. subst ya xa.
    destruct a as [a1 a2], b as [b1 b2]. simpl in *. f_equal; lia.
Qed.

(* diagonal neighbours have the same colour *)
Lemma even_plus2 a : Nat.even (a + 2) = Nat.even a.
Proof. replace (a + 2) with (S (S a)) by lia. reflexivity. Qed.

Lemma dadj_colour w v u : dadj w v u -> colour w u = colour w v.
Proof.
  unfold dadj, colour. intros [[Hy|Hy] [Hx|Hx]].
  - rewrite Hy, Hx. replace (cell_y w v + 1 + (cell_x w v + 1)) with (cell_y w v + cell_x w v + 2) by lia.
    apply even_plus2.
  - rewrite Hy, Hx. f_equal. lia.
  - rewrite Hy, Hx. f_equal. lia.
  - rewrite Hy, Hx. replace (cell_y w u + 1 + (cell_x w u + 1)) with (cell_y w u + cell_x w u + 2) by lia.
    symmetry. apply even_plus2.
Qed.

Lemma diag_nbrs_colour h w v u : v < h * w -> In u (diag_nbrs h w v) -> colour w u = colour w v.
Proof. intros Hv H. apply (diag_nbrs_spec h w v u Hv) in H. apply dadj_colour. tauto. Qed.

(* ------------------------------------------------------------------------ *)
(* the boolean certificate checker is the generic certificate                *)

Lemma cert_diag_iff h w act rank :
  cert_diag h w act rank = true <-> g_cert (h * w) (diag_nbrs h w) act (on_border h w) rank.
Proof.
  unfold cert_diag, g_cert. rewrite forallb_forall. split.
  - intros H. split.
    + intros v u Hv Hu. assert (Hun : u < h * w) by apply (diag_nbrs_lt h w v u Hv Hu).
      destruct (Nat.lt_trichotomy u v) as [Hlt|[Heq|Hgt]].
      * assert (Hc := H v). rewrite in_seq in Hc. specialize (Hc ltac:(lia)).
        unfold diag_cell_ok in Hc. apply andb_true_iff in Hc. destruct Hc as [Hc _].
        rewrite forallb_forall in Hc. specialize (Hc u).
        assert (In u (filter (fun u0 => Nat.ltb u0 v) (diag_nbrs h w v))).
        { apply filter_In. split; [exact Hu|apply Nat.ltb_lt; exact Hlt]. }
        apply Hc in H0. apply negb_true_iff, Z.eqb_neq in H0. exact H0.
      * subst u. exfalso. apply (diag_nbrs_irrefl h w v Hu).
      * assert (Hc := H u). rewrite in_seq in Hc. specialize (Hc ltac:(lia)).
        unfold diag_cell_ok in Hc. apply andb_true_iff in Hc. destruct Hc as [Hc _].
        rewrite forallb_forall in Hc. specialize (Hc v).
        assert (In v (filter (fun u0 => Nat.ltb u0 u) (diag_nbrs h w u))).
        { apply filter_In. split; [apply diag_nbrs_sym; assumption|apply Nat.ltb_lt; exact Hgt]. }
        apply Hc in H0. apply negb_true_iff, Z.eqb_neq in H0. congruence.
    + intros v Hv Ha. assert (Hc := H v). rewrite in_seq in Hc. specialize (Hc ltac:(lia)).
      unfold diag_cell_ok in Hc. apply andb_true_iff in Hc. destruct Hc as [_ Hc].
      rewrite Ha in Hc. simpl in Hc. apply Nat.leb_le in Hc. unfold lowers, cap. exact Hc.
  - intros [H1 H2] v Hv. apply in_seq in Hv. unfold diag_cell_ok. apply andb_true_iff. split.
    + apply forallb_forall. intros u Hu. apply filter_In in Hu. destruct Hu as [Hu _].
      apply negb_true_iff, Z.eqb_neq. apply (H1 v u); [lia|exact Hu].
    + destruct (act v) eqn:Ha; [|reflexivity]. simpl. apply Nat.leb_le. apply (H2 v); [lia|exact Ha].
Qed.

(* ------------------------------------------------------------------------ *)
(* ranks read off an order                                                   *)

Definition same_col (w v : nat) : nat -> bool := fun x => Bool.eqb (colour w x) (colour w v).

Lemma rank_in_split w v : forall pre post,
  ~ In v pre -> rank_in w (pre ++ v :: post) v = length (filter (same_col w v) pre).
Proof.
  induction pre as [|x pre IH]; intros post Hn; simpl.
  - rewrite Nat.eqb_refl. reflexivity.
  - destruct (Nat.eqb_spec x v) as [->|Hne]; [exfalso; apply Hn; left; reflexivity|].
    rewrite IH by (intros H; apply Hn; right; exact H).
    unfold same_col at 2. destruct (Bool.eqb (colour w x) (colour w v)); simpl; reflexivity.
Qed.

Lemma NoDup_two_split {A} (l : list A) u v :
  NoDup l -> In u l -> In v l -> u <> v ->
  (exists p m q, l = p ++ u :: m ++ v :: q) \/ (exists p m q, l = p ++ v :: m ++ u :: q).
Proof.
  intros Hnd Hu Hv Hne. apply in_split in Hu. destruct Hu as [p [q E]]. subst l.
  apply in_app_or in Hv. destruct Hv as [Hv|[Hv|Hv]]; [|congruence|].
  - right. apply in_split in Hv. destruct Hv as [p1 [p2 E]]. subst p.
    exists p1, p2, q. rewrite <- app_assoc. reflexivity.
  - left. apply in_split in Hv. destruct Hv as [q1 [q2 E]]. subst q.
    exists p, q1, q2. reflexivity.
Qed.

Lemma NoDup_app_l_notin {A} (p q : list A) v : NoDup (p ++ v :: q) -> ~ In v p.
Proof. intros H Hin. apply NoDup_remove_2 in H. apply H. apply in_or_app. left. exact Hin. Qed.

Section Order.
  Variables (h w : nat) (act : nat -> bool).
  Variable L : list nat.
  Hypothesis L_nodup : NoDup L.
  Hypothesis L_in : forall v, In v L <-> v < h * w.
  Hypothesis L_ok : forall pre v post, L = pre ++ v :: post -> act v = true ->
    length (filter (fun u => act u && mem u pre) (diag_nbrs h w v)) <=
    (if on_border h w v then 0 else 1).

  Definition rk (v : nat) : Z := Z.of_nat (rank_in w L v).

  (* for two cells of one colour, the earlier one has the smaller rank *)
  Lemma rk_before p u m v q :
    L = p ++ u :: m ++ v :: q -> colour w u = colour w v -> (rk u < rk v)%Z.
  Proof.
    intros E Hc. unfold rk.
    assert (Hu : ~ In u p) by (apply NoDup_app_l_notin with (m ++ v :: q); rewrite <- E; exact L_nodup).
    assert (E' : L = (p ++ u :: m) ++ v :: q) by (rewrite E, <- app_assoc; reflexivity).
    assert (Hv : ~ In v (p ++ u :: m)) by (apply NoDup_app_l_notin with q; rewrite <- E'; exact L_nodup).
    rewrite E at 1. rewrite (rank_in_split w u p _ Hu).
    rewrite E'. rewrite (rank_in_split w v _ q Hv).
    rewrite filter_app, app_length. simpl.
    assert (Hs : same_col w v u = true) by (unfold same_col; rewrite Hc; apply eqb_reflx).
    rewrite Hs. simpl.
    assert (Hf : filter (same_col w u) p = filter (same_col w v) p).
    { apply filter_ext. intros x. unfold same_col. rewrite Hc. reflexivity. }
    rewrite Hf. lia.
  Qed.

  Lemma rk_lt_iff pre v post u :
    L = pre ++ v :: post -> In u (diag_nbrs h w v) -> ((rk u <? rk v)%Z = mem u pre) /\ rk u <> rk v.
  Proof.
    intros E Hu.
    assert (Hvn : v < h * w) by (apply L_in; rewrite E; apply in_or_app; right; left; reflexivity).
    assert (Hun : u < h * w) by apply (diag_nbrs_lt h w v u Hvn Hu).
    assert (Hc : colour w u = colour w v) by apply (diag_nbrs_colour h w v u Hvn Hu).
    assert (Hne : u <> v) by (intros ->; apply (diag_nbrs_irrefl h w v Hu)).
    assert (HuL : In u L) by (apply L_in; exact Hun).
    assert (HvL : In v L) by (apply L_in; exact Hvn).
    destruct (NoDup_two_split L u v L_nodup HuL HvL Hne) as [[p [m [q E2]]]|[p [m [q E2]]]].
    - pose proof (rk_before p u m v q E2 Hc) as Hlt.
      assert (E3 : L = (p ++ u :: m) ++ v :: q) by (rewrite E2, <- app_assoc; reflexivity).
      destruct (NoDup_split_unique L _ _ _ _ v L_nodup E E3) as [-> _].
      split; [|lia]. apply Z.ltb_lt in Hlt. rewrite Hlt. symmetry. apply mem_In.
      apply in_or_app. right. left. reflexivity.
    - pose proof (rk_before p v m u q E2 (eq_sym Hc)) as Hlt.
      destruct (NoDup_split_unique L _ _ _ _ v L_nodup E E2) as [-> _].
      split; [|lia]. assert (Hn : ~ In u p).
      { assert (E3 : L = (p ++ v :: m) ++ u :: q) by (rewrite E2, <- app_assoc; reflexivity).
        intros Hin. apply (NoDup_app_l_notin (p ++ v :: m) q u); [rewrite <- E3; exact L_nodup|].
        apply in_or_app. left. exact Hin. }
      apply mem_not_In in Hn. rewrite Hn. apply Z.ltb_ge. lia.
  Qed.

  Lemma rk_cert : g_cert (h * w) (diag_nbrs h w) act (on_border h w) rk.
  Proof.
    split.
    - intros v u Hv Hu. assert (HvL : In v L) by (apply L_in; exact Hv).
      apply in_split in HvL. destruct HvL as [pre [post E]].
      apply (rk_lt_iff pre v post u E Hu).
    - intros v Hv Ha. assert (HvL : In v L) by (apply L_in; exact Hv).
      apply in_split in HvL. destruct HvL as [pre [post E]].
      unfold lowers, cap. eapply Nat.le_trans; [|apply (L_ok pre v post E Ha)].
      rewrite (filter_ext_in' (fun u => (rk u <? rk v)%Z && act u) (fun u => act u && mem u pre)); [lia|].
      intros u Hu. destruct (rk_lt_iff pre v post u E Hu) as [-> _]. apply andb_comm.
  Qed.

  (* the rank is below the size of the colour class *)
  Lemma rk_bound v : v < h * w ->
    rank_in w L v < length (filter (same_col w v) (seq 0 (h * w))).
  Proof.
    intros Hv. assert (HvL : In v L) by (apply L_in; exact Hv).
    apply in_split in HvL. destruct HvL as [pre [post E]].
    assert (Hn : ~ In v pre) by (apply NoDup_app_l_notin with post; rewrite <- E; exact L_nodup).
    rewrite E at 1. rewrite (rank_in_split w v pre post Hn).
    assert (Hnd : NoDup (filter (same_col w v) L)) by (apply NoDup_filter; exact L_nodup).
    assert (Hincl : incl (filter (same_col w v) L) (filter (same_col w v) (seq 0 (h * w)))).
    { intros x Hx. apply filter_In in Hx. destruct Hx as [Hx Hs]. apply filter_In. split; [|exact Hs].
      apply in_seq. apply L_in in Hx. lia. }
    pose proof (NoDup_incl_length Hnd Hincl) as Hlen.
    rewrite E in Hlen at 1. rewrite filter_app, app_length in Hlen. simpl in Hlen.
    assert (Hs : same_col w v v = true) by (unfold same_col; apply eqb_reflx).
    rewrite Hs in Hlen. simpl in Hlen. lia.
  Qed.
End Order.

(* ------------------------------------------------------------------------ *)
(* the size of a colour class: at most ceil(h*w/2)                           *)

Definition row_cnt (y w : nat) (c : bool) : nat :=
  length (filter (fun j => Bool.eqb (Nat.even (y + j)) c) (seq 0 w)).

Lemma row_cnt_S y w c :
  row_cnt y (S w) c = row_cnt y w c + (if Bool.eqb (Nat.even (y + w)) c then 1 else 0).
Proof.
  unfold row_cnt. rewrite seq_S, filter_app, app_length. simpl.
  destruct (Bool.eqb (Nat.even (y + w)) c); reflexivity.
Qed.

Lemma row_cnt_rel y w :
  (Nat.even w = true -> row_cnt y w true = row_cnt y w false) /\
  (Nat.even w = false ->
     (Nat.even y = true -> row_cnt y w true = row_cnt y w false + 1) /\
     (Nat.even y = false -> row_cnt y w false = row_cnt y w true + 1)).
Proof.
  induction w as [|w IH].
  - split; [reflexivity|discriminate].
  - rewrite !row_cnt_S. rewrite Nat.even_succ, <- Nat.negb_even. rewrite Nat.even_add.
    destruct IH as [IH1 IH2]. destruct (Nat.even w) eqn:Ew; simpl.
    + specialize (IH1 eq_refl). split; [discriminate|]. intros _.
      destruct (Nat.even y); simpl; split; intros; try discriminate; lia.
    + destruct (IH2 eq_refl) as [IH3 IH4]. split; [|discriminate]. intros _.
      destruct (Nat.even y); simpl; [specialize (IH3 eq_refl)|specialize (IH4 eq_refl)]; lia.
Qed.

Definition col_cnt (h w : nat) (c : bool) : nat :=
  length (filter (fun x => Bool.eqb (colour w x) c) (seq 0 (h * w))).

Lemma seq_shift_map a n : seq a n = map (fun j => a + j) (seq 0 n).
Proof.
  revert a. induction n as [|n IH]; intros a; [reflexivity|].
  cbn [seq map]. rewrite Nat.add_0_r. f_equal. rewrite (IH (S a)), <- seq_shift, map_map.
  apply map_ext. intros j. lia.
Qed.

Lemma col_cnt_S h w c : col_cnt (S h) w c = col_cnt h w c + row_cnt h w c.
Proof.
  unfold col_cnt. replace (S h * w) with (h * w + w) by lia.
  rewrite seq_app, filter_app, app_length. f_equal. simpl.
  rewrite (seq_shift_map (h * w) w). unfold row_cnt.
  assert (Hgen : forall l, (forall j, In j l -> j < w) ->
            length (filter (fun x => Bool.eqb (colour w x) c) (map (fun j => h * w + j) l)) =
            length (filter (fun j => Bool.eqb (Nat.even (h + j)) c) l)).
  { induction l as [|j l IH]; intros Hl; [reflexivity|].
    assert (Hj : j < w) by (apply Hl; left; reflexivity).
    assert (Hcol : colour w (h * w + j) = Nat.even (h + j)).
    { unfold colour. destruct (cell_of_coords w h j Hj) as [-> ->]. reflexivity. }
    assert (IH' := IH (fun x Hx => Hl x (or_intror Hx))).
    cbn [map filter]. rewrite Hcol.
    destruct (Bool.eqb (Nat.even (h + j)) c); cbn [length]; rewrite IH'; reflexivity. }
  apply Hgen. intros j Hj. apply in_seq in Hj. lia.
Qed.

Lemma col_cnt_rel h w :
  col_cnt h w true = col_cnt h w false + (if Nat.odd h && Nat.odd w then 1 else 0).
Proof.
  induction h as [|h IH]; [reflexivity|].
  rewrite !col_cnt_S, IH. rewrite Nat.odd_succ. rewrite <- !Nat.negb_even.
  destruct (row_cnt_rel h w) as [R1 R2].
  destruct (Nat.even w) eqn:Ew; simpl.
  - rewrite (R1 eq_refl). rewrite !andb_false_r. lia.
  - destruct (R2 eq_refl) as [R3 R4]. rewrite !andb_true_r.
    destruct (Nat.even h) eqn:Eh; simpl; [rewrite (R3 eq_refl)|specialize (R4 eq_refl)]; lia.
Qed.

Lemma col_cnt_total h w : col_cnt h w true + col_cnt h w false = h * w.
Proof.
  unfold col_cnt. rewrite <- (seq_length (h * w) 0) at 3.
  induction (seq 0 (h * w)) as [|x l IH]; [reflexivity|]. simpl.
  destruct (colour w x); simpl; lia.
Qed.

Lemma col_cnt_bound h w c : 2 * col_cnt h w c <= h * w + 1.
Proof.
  pose proof (col_cnt_rel h w). pose proof (col_cnt_total h w).
  destruct c; destruct (Nat.odd h && Nat.odd w); lia.
Qed.

Lemma same_col_cnt h w v : length (filter (same_col w v) (seq 0 (h * w))) = col_cnt h w (colour w v).
Proof. reflexivity. Qed.

(* ------------------------------------------------------------------------ *)
(* the certificate theorem                                                   *)

Section Diag.
  Variables (h w : nat) (act : nat -> bool).
  Let n := h * w.
  Let nb := diag_nbrs h w.
  Let pin := on_border h w.

  Lemma nb_lt' : forall v u, v < n -> In u (nb v) -> u < n.
  Proof. exact (diag_nbrs_lt h w). Qed.
  Lemma nb_sym' : forall v u, v < n -> In u (nb v) -> In v (nb u).
  Proof. exact (diag_nbrs_sym h w). Qed.

  Theorem diag_cert_sound rank :
    (forall v, v < n -> (0 <= rank v)%Z) -> cert_diag h w act rank = true -> spec_diag h w act.
  Proof.
    intros Hnn Hc. apply cert_diag_iff in Hc. split.
    - apply (cert_sound_forest n nb act pin nb_lt' nb_sym' rank Hc Hnn).
    - apply (cert_sound_pins n nb act pin nb_lt' nb_sym' rank Hc Hnn).
  Qed.

  Theorem diag_rank_complete :
    spec_diag h w act ->
    cert_diag h w act (diag_rank h w act) = true /\ diag_ranks_in_range h w (diag_rank h w act).
  Proof.
    intros [Hf Hp].
    pose proof (full_nodup n nb act pin nb_lt' nb_sym' (diag_nbrs_irrefl h w) (diag_nbrs_nodup h w) Hf Hp) as Lnd.
    pose proof (full_in n nb act pin nb_lt' nb_sym' (diag_nbrs_irrefl h w) (diag_nbrs_nodup h w) Hf Hp) as Lin.
    pose proof (full_ok n nb act pin nb_lt' nb_sym' (diag_nbrs_irrefl h w) (diag_nbrs_nodup h w) Hf Hp) as Lok.
    split.
    - apply cert_diag_iff. apply (rk_cert h w act _ Lnd Lin). intros pre v post E Ha.
      apply (Lok pre v post E Ha).
    - intros v Hv. unfold diag_rank. split; [lia|].
      pose proof (rk_bound h w _ Lnd Lin v Hv) as Hb. rewrite same_col_cnt in Hb.
      pose proof (col_cnt_bound h w (colour w v)) as Hc.
      unfold diag_order. fold n nb pin. unfold full_order in Hb.
      apply Z.div_le_lower_bound; [lia|]. fold n in Hc. lia.
  Qed.

  (* a rank assignment within the declared range satisfies the block exactly
     when the diagonal graph on the active cells is a forest whose trees
     contain at most one border cell each *)
  Theorem diag_cert :
    (exists rank, diag_ranks_in_range h w rank /\ cert_diag h w act rank = true) <-> spec_diag h w act.
  Proof.
    split.
    - intros [rank [Hr Hc]]. apply (diag_cert_sound rank); [|exact Hc].
      intros v Hv. apply (Hr v Hv).
    - intros Hs. exists (diag_rank h w act). destruct (diag_rank_complete Hs) as [H1 H2]. tauto.
  Qed.

  (* the executable decision procedure *)
  Theorem spec_diag_b_spec : spec_diag_b h w act = true <-> spec_diag h w act.
  Proof.
    unfold spec_diag_b. split.
    - apply diag_cert_sound. intros v _. unfold diag_rank. lia.
    - intros Hs. apply (diag_rank_complete Hs).
  Qed.
End Diag.
