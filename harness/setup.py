"""setup_cmd: build the whole Coq development (full .vo) and every extracted runner."""
import glob
import importlib
import os
import sys
import time

sys.path.insert(0, os.path.dirname(os.path.abspath(__file__)))
import vlib  # noqa: E402

t0 = time.time()
mods = sorted(os.path.basename(p)[:-3] for p in glob.glob(os.path.join(vlib.ROOT, "harness", "pC*.py")))
for m in mods:
    mod = importlib.import_module(m)
    if hasattr(mod, "translate"):
        try:
            mod.translate(vlib.Ctx(m[1:], "quick", 0))
        except Exception as ex:  # a broken translator is reported by the check itself
            print("translate %s: %r" % (m, ex))
with vlib.Lock():
    vlib.ensure_makefile()
    # everything except the long kernel-computation re-checks that no Props file depends on (the thorough tier of
    # C08 / C11 builds them on demand): NotAdjBounded20 (~7 min single-threaded), YinyangBounded (~2 min)
    heavy = ("theories/Graph/NotAdjBounded20.v", "theories/Puzzle/YinyangBounded.v")
    targets = [f[:-2] + ".vo" for f in vlib.all_v_files() if f not in heavy]
    open(os.path.join(vlib.COQ, ".setup_targets"), "w").write("\n".join(targets) + "\n")
    rc, out = vlib.sh("timeout 3400 xargs make -k -j16 < .setup_targets", cwd=vlib.COQ, timeout=3500)
print(out[-3000:])
print("coq build rc=%d (%.0fs)" % (rc, time.time() - t0))
for d in sorted(os.listdir(vlib.EXTRACT)):
    if os.path.isdir(os.path.join(vlib.EXTRACT, d)) and os.path.exists(os.path.join(vlib.EXTRACT, d, "Extract.v")):
        try:
            vlib.build_runner(d)
            print("runner", d, "ok")
        except Exception as ex:
            print("runner", d, "FAILED", str(ex)[-1500:])
            rc = rc or 1
print("setup done in %.0fs" % (time.time() - t0))
# a file that fails to build is reported by the check that needs it (each check rebuilds
# its own closure); setup itself only fails when nothing could be built at all
sys.exit(0 if os.path.exists(os.path.join(vlib.COQ, "theories", "Lib", "PyErr.vo")) else 1)
