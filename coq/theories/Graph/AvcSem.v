(* C04, level E -> level S: what post_avc adds to the solver state, and that the
   added constraints evaluate to the certificate checker (avc_eval). *)
From Coq Require Import ZArith List Bool Arith Lia.
From Cspuz Require Import Lib.PyErr Core.Expr Core.Program Core.Build
  Graph.GraphModel Graph.ReachProofs Graph.Avc Graph.AvcCert.
Import ListNotations.
Local Open Scope nat_scope.

(* ------------------------------------------------------------------------ *)
(* induction over expression trees (nested lists)                             *)

Section ExprInd.
  Variable P : expr -> Prop.
  Hypothesis HB : forall b, P (PyBool b).
  Hypothesis HI : forall z, P (PyInt z).
  Hypothesis HN : P PyNone.
  Hypothesis HV : forall i, P (BVar i).
  Hypothesis HIV : forall i lo hi, P (IVar i lo hi).
  Hypothesis HBN : forall o args, Forall P args -> P (BNode o args).
  Hypothesis HIN : forall o args, Forall P args -> P (INode o args).

  Fixpoint expr_ind2 (e : expr) : P e :=
    match e with
    | PyBool b => HB b
    | PyInt z => HI z
    | PyNone => HN
    | BVar i => HV i
    | IVar i lo hi => HIV i lo hi
    | BNode o args =>
        HBN o args ((fix go (l : list expr) : Forall P l :=
                       match l with
                       | [] => Forall_nil P
                       | x :: r => Forall_cons x (expr_ind2 x) (go r)
                       end) args)
    | INode o args =>
        HIN o args ((fix go (l : list expr) : Forall P l :=
                       match l with
                       | [] => Forall_nil P
                       | x :: r => Forall_cons x (expr_ind2 x) (go r)
                       end) args)
    end.
End ExprInd.

Lemma max_id_le_fold x args :
  In x args -> (max_id x <= fold_right (fun a m => Nat.max (max_id a) m) O args)%nat.
Proof.
  induction args as [|a args IH]; intros H; [destruct H|]. simpl.
  destruct H as [->|H]; [lia|]. specialize (IH H). lia.
Qed.

(* an expression mentioning only ids < k evaluates the same in two assignments
   that agree below k: the formal content of "the caller's variables are not
   touched" *)
Lemma eval_agree gsem k e1 e2 a :
  agree_below k e1 e2 -> (max_id a <= k)%nat -> eval gsem e1 a = eval gsem e2 a.
Proof.
  intros Hag. induction a using expr_ind2; intros Hm; simpl in *; try reflexivity.
  - destruct (Hag i) as [H1 _]; [lia|]. rewrite H1. reflexivity.
  - destruct (Hag i) as [_ H2]; [lia|]. rewrite H2. reflexivity.
  - f_equal. apply map_ext_in. intros x Hx. rewrite Forall_forall in H. apply H; [exact Hx|].
    pose proof (max_id_le_fold x args Hx). lia.
  - f_equal. apply map_ext_in. intros x Hx. rewrite Forall_forall in H. apply H; [exact Hx|].
    pose proof (max_id_le_fold x args Hx). lia.
Qed.

Lemma holds_agree gsem k e1 e2 a :
  agree_below k e1 e2 -> (max_id a <= k)%nat -> holds gsem e1 a = holds gsem e2 a.
Proof. intros H1 H2. unfold holds. rewrite (eval_agree gsem k e1 e2 a H1 H2). reflexivity. Qed.

(* ------------------------------------------------------------------------ *)
(* evaluation of the pieces the helper builds                                 *)

Lemma all_some_map_Some {A} (l : list A) : all_some (map Some l) = Some l.
Proof. induction l as [|a l IH]; [reflexivity|]. simpl. rewrite IH. reflexivity. Qed.

Lemma as_ints_map_VI l : as_ints (map VI l) = Some l.
Proof. induction l as [|a l IH]; [reflexivity|]. simpl. rewrite IH. reflexivity. Qed.

Lemma eval_add_ints zs :
  zs <> [] -> eval_iop ADD (map (fun z => Some (VI z)) zs) = Some (VI (zsum zs)).
Proof.
  intros Hne. unfold eval_iop.
  replace (map (fun z => Some (VI z)) zs) with (map Some (map VI zs)) by (rewrite map_map; reflexivity).
  rewrite all_some_map_Some. destruct zs as [|z zs]; [congruence|].
  simpl. rewrite (as_ints_map_VI zs). reflexivity.
Qed.

Section Eval.
  Variable en : env.
  Notation ev := (eval gsem_avc en).

  Lemma eval_cond x c : ev x = Some (VB c) -> ev (i_cond x (PyInt 1) (PyInt 0)) = Some (VI (b2z c)).
  Proof. intros H. simpl. rewrite H. destruct c; reflexivity. Qed.

  Lemma eval_add_node ops zs :
    zs <> [] -> map ev ops = map (fun z => Some (VI z)) zs -> ev (INode ADD ops) = Some (VI (zsum zs)).
  Proof. intros Hne H. simpl. rewrite H. apply eval_add_ints; exact Hne. Qed.

  Lemma count_true_go_eval l : forall bs ops zs c ops' c',
    map ev l = map (fun b => Some (VB b)) bs ->
    map ev ops = map (fun z => Some (VI z)) zs ->
    count_true_go l ops c = Ok (ops', c') ->
    exists zs', map ev ops' = map (fun z => Some (VI z)) zs' /\
                (zsum zs' + c' = zsum zs + c + zsum (map b2z bs))%Z /\ (c <= c')%Z.
  Proof.
    induction l as [|x l IH]; intros bs ops zs c ops' c' Hl Hops Hgo.
    - destruct bs; [|discriminate]. simpl in Hgo. inversion Hgo; subst.
      exists zs. split; [exact Hops|]. split; [change (zsum (map b2z [])) with 0%Z; lia|lia].
    - destruct bs as [|b bs]; [discriminate|]. simpl map in Hl. inversion Hl as [[Hx Hrest]].
      assert (Hsum : zsum (map b2z (b :: bs)) = (b2z b + zsum (map b2z bs))%Z) by reflexivity.
      rewrite Hsum.
      destruct x; simpl in Hgo; try discriminate.
      + simpl in Hx. inversion Hx; subst b0.
        destruct (IH bs ops zs _ ops' c' Hrest Hops Hgo) as [zs' [H1 [H2 H3]]].
        exists zs'. split; [exact H1|]. destruct b; simpl b2z; lia.
      + apply (IH bs _ (zs ++ [b2z b]) c ops' c') in Hgo; [|exact Hrest|].
        * destruct Hgo as [zs' [H1 [H2 H3]]]. exists zs'. split; [exact H1|].
          rewrite zsum_app in H2. rewrite zsum_cons in H2. change (zsum []) with 0%Z in H2. lia.
        * rewrite !map_app, Hops. cbn [map]. rewrite (eval_cond _ _ Hx). reflexivity.
      + apply (IH bs _ (zs ++ [b2z b]) c ops' c') in Hgo; [|exact Hrest|].
        * destruct Hgo as [zs' [H1 [H2 H3]]]. exists zs'. split; [exact H1|].
          rewrite zsum_app in H2. rewrite zsum_cons in H2. change (zsum []) with 0%Z in H2. lia.
        * rewrite !map_app, Hops. cbn [map]. rewrite (eval_cond _ _ Hx). reflexivity.
  Qed.

  (* constraints.py::count_true evaluates to the number of true operands *)
  Lemma count_true_eval l bs ct :
    map ev l = map (fun b => Some (VB b)) bs -> count_true l = Ok ct ->
    ev ct = Some (VI (zsum (map b2z bs))).
  Proof.
    intros Hl H. unfold count_true in H.
    destruct (count_true_go l [] 0%Z) as [[ops c]|e] eqn:Hgo; [|discriminate].
    destruct (count_true_go_eval l bs [] [] 0%Z ops c Hl eq_refl Hgo) as [zs' [H1 [H2 H3]]].
    change (zsum []) with 0%Z in H2.
    destruct (0 <? c)%Z eqn:Hc.
    - destruct (ops ++ [PyInt c]) as [|o1 ol] eqn:He; [destruct ops; discriminate|].
      inversion H; subst ct. rewrite <- He.
      rewrite (eval_add_node (ops ++ [PyInt c]) (zs' ++ [c])).
      + rewrite zsum_app, zsum_cons. change (zsum []) with 0%Z. f_equal. f_equal. lia.
      + destruct zs'; discriminate.
      + rewrite !map_app, H1. reflexivity.
    - apply Z.ltb_ge in Hc. assert (c = 0%Z) by lia. subst c.
      destruct ops as [|o1 ol].
      + inversion H; subst ct. destruct zs'; [|discriminate]. change (zsum []) with 0%Z in H2.
        assert (Hz : zsum (map b2z bs) = 0%Z) by lia. rewrite Hz. reflexivity.
      + inversion H; subst ct. rewrite (eval_add_node (o1 :: ol) zs' ); [|destruct zs'; discriminate|exact H1].
        f_equal. f_equal. lia.
  Qed.

  Lemma holds_imp a x ca cx :
    ev a = Some (VB ca) -> ev x = Some (VB cx) -> holds gsem_avc en (b_imp a x) = implb ca cx.
  Proof. intros Ha Hx. unfold holds. simpl. rewrite Ha, Hx. simpl. destruct (implb ca cx); reflexivity. Qed.
End Eval.

(* ------------------------------------------------------------------------ *)
(* the declarations                                                           *)

Lemma int_vars_spec n : forall st lo hi st' l,
  int_vars st n lo hi = (st', l) ->
  l = map (fun k => IVar (next_id st + k) lo hi) (seq 0 n) /\
  vars st' = vars st ++ repeat (DInt lo hi) n /\ cons st' = cons st /\
  keys st' = keys st ++ repeat false n.
Proof.
  induction n as [|n IH]; intros st lo hi st' l H; simpl in H.
  - inversion H; subst. simpl. rewrite !app_nil_r. auto.
  - destruct (int_vars _ n lo hi) as [st2 vs] eqn:E. inversion H; subst. apply IH in E.
    destruct E as [E1 [E2 [E3 E4]]]. simpl in E2, E3, E4. split; [|split; [|split]].
    + cbn [seq]. rewrite <- seq_shift. cbn [map]. rewrite map_map. f_equal; [f_equal; lia|].
      rewrite E1. apply map_ext. intros k. f_equal. unfold next_id. simpl. rewrite app_length. simpl. lia.
    + rewrite E2. rewrite <- app_assoc. reflexivity.
    + exact E3.
    + rewrite E4. rewrite <- app_assoc. reflexivity.
Qed.

Lemma bool_vars_spec n : forall st st' l,
  bool_vars st n = (st', l) ->
  l = map (fun k => BVar (next_id st + k)) (seq 0 n) /\
  vars st' = vars st ++ repeat DBool n /\ cons st' = cons st /\
  keys st' = keys st ++ repeat false n.
Proof.
  induction n as [|n IH]; intros st st' l H; simpl in H.
  - inversion H; subst. simpl. rewrite !app_nil_r. auto.
  - destruct (bool_vars _ n) as [st2 vs] eqn:E. inversion H; subst. apply IH in E.
    destruct E as [E1 [E2 [E3 E4]]]. simpl in E2, E3, E4. split; [|split; [|split]].
    + cbn [seq]. rewrite <- seq_shift. cbn [map]. rewrite map_map. f_equal; [f_equal; lia|].
      rewrite E1. apply map_ext. intros k. f_equal. unfold next_id. simpl. rewrite app_length. simpl. lia.
    + rewrite E2. rewrite <- app_assoc. reflexivity.
    + exact E3.
    + rewrite E4. rewrite <- app_assoc. reflexivity.
Qed.

Lemma nth_error_seq0 n : forall s j, nth_error (seq s n) j = if Nat.ltb j n then Some (s + j) else None.
Proof.
  induction n as [|n IH]; intros s j; simpl.
  - destruct j; reflexivity.
  - destruct j as [|j]; simpl; [f_equal; lia|]. rewrite IH.
    change (Nat.ltb (S j) (S n)) with (Nat.ltb j n). destruct (Nat.ltb j n); [f_equal; lia|reflexivity].
Qed.

Lemma nth_res_map_seq {A} (f : nat -> A) n j x :
  nth_res (map f (seq 0 n)) j = Ok x -> x = f j /\ j < n.
Proof.
  unfold nth_res. rewrite nth_error_map, nth_error_seq0.
  destruct (Nat.ltb_spec j n) as [Hlt|Hge]; simpl; intros H; inversion H. split; [reflexivity|exact Hlt].
Qed.

(* ------------------------------------------------------------------------ *)
(* the loop body                                                              *)

Section Body.
  Variables (b b' n : nat) (lo hi : Z) (acts : list expr) (g : graph).
  Let ranks := map (fun k => IVar (b + k) lo hi) (seq 0 n).
  Let roots := map (fun k => BVar (b' + k)) (seq 0 n).

  Definition rk (en : env) (j : nat) : Z := ei en (b + j).
  Definition rt (en : env) (j : nat) : bool := eb en (b' + j).

  Lemma acts_nth en j aj :
    acts_defined en acts -> nth_res acts j = Ok aj ->
    eval gsem_avc en aj = Some (VB (pattern en acts j)).
  Proof.
    intros Hdef H. unfold nth_res in H. destruct (nth_error acts j) eqn:E; inversion H; subst.
    destruct (Hdef aj (nth_error_In _ _ E)) as [c Hc].
    unfold pattern, holds. rewrite (nth_error_nth _ _ _ E). rewrite Hc. destruct c; reflexivity.
  Qed.

  Definition lt_act (en : env) (i : nat) (jk : nat * nat) : bool :=
    (rk en (fst jk) <? rk en i)%Z && pattern en acts (fst jk).

  Lemma less_rank_eval en i jk e :
    acts_defined en acts -> less_rank ranks acts i jk = Ok e ->
    eval gsem_avc en e = Some (VB (lt_act en i jk)).
  Proof.
    intros Hdef H. unfold less_rank, bind in H.
    destruct (nth_res ranks (fst jk)) as [rj|] eqn:E1; [|discriminate].
    destruct (nth_res ranks i) as [ri|] eqn:E2; [|discriminate].
    destruct (nth_res acts (fst jk)) as [aj|] eqn:E3; [|discriminate].
    unfold py_and in H. destruct (is_bool_expr_like aj); inversion H; subst.
    apply nth_res_map_seq in E1. apply nth_res_map_seq in E2. destruct E1 as [-> _]. destruct E2 as [-> _].
    simpl. rewrite (acts_nth en _ _ Hdef E3). simpl. unfold lt_act, rk. rewrite andb_true_r. reflexivity.
  Qed.

  Lemma less_ranks_eval en i inc : forall less,
    acts_defined en acts -> mapM (less_rank ranks acts i) inc = Ok less ->
    map (eval gsem_avc en) less = map (fun jk => Some (VB (lt_act en i jk))) inc.
  Proof.
    induction inc as [|jk inc IH]; intros less Hdef H; simpl in H.
    - inversion H; reflexivity.
    - unfold bind in H. destruct (less_rank ranks acts i jk) as [e|] eqn:E1; [|discriminate].
      destruct (mapM (less_rank ranks acts i) inc) as [es|] eqn:E2; [|discriminate].
      inversion H; subst. simpl. rewrite (less_rank_eval en i jk e Hdef E1). f_equal. apply IH; auto.
  Qed.

  Lemma post_ne_spec i inc : forall st st',
    post_ne st ranks i inc = Ok st' ->
    vars st' = vars st /\ keys st' = keys st /\
    exists cs, cons st' = cons st ++ cs /\
      forall en, forallb (holds gsem_avc en) cs =
                 forallb (fun jk : nat * nat => negb (rk en (fst jk) =? rk en i)%Z)
                         (filter (fun jk : nat * nat => Nat.ltb i (fst jk)) inc).
  Proof.
    induction inc as [|[j k] inc IH]; intros st st' H; simpl in H.
    - inversion H; subst. repeat split. exists []. rewrite app_nil_r. split; reflexivity.
    - simpl filter. destruct (Nat.ltb i j).
      + unfold bind in H. destruct (nth_res ranks j) as [rj|] eqn:E1; [|discriminate].
        destruct (nth_res ranks i) as [ri|] eqn:E2; [|discriminate].
        apply IH in H. destruct H as [H1 [H2 [cs [H3 H4]]]]. simpl in H1, H2, H3.
        split; [exact H1|]. split; [exact H2|].
        exists (i_ne rj ri :: cs). split; [rewrite H3, <- app_assoc; reflexivity|].
        intros en. simpl forallb. rewrite H4. f_equal.
        apply nth_res_map_seq in E1. apply nth_res_map_seq in E2. destruct E1 as [-> _]. destruct E2 as [-> _].
        unfold holds. simpl. unfold rk. destruct (ei en (b + j) =? ei en (b + i))%Z; reflexivity.
      + apply IH. exact H.
  Qed.

  Lemma post_vertex_spec acyclic st i st' :
    post_vertex acyclic ranks roots acts g st i = Ok st' ->
    vars st' = vars st /\ keys st' = keys st /\
    exists cs, cons st' = cons st ++ cs /\
      forall en, acts_defined en acts ->
        forallb (holds gsem_avc en) cs = vertex_ok g acyclic (pattern en acts) (rk en) (rt en) i.
  Proof.
    intros H. unfold post_vertex, bind in H.
    destruct (mapM (less_rank ranks acts i) (incident g i)) as [less|] eqn:E1; [|discriminate].
    destruct (if acyclic then post_ne st ranks i (incident g i) else Ok st) as [st1|] eqn:E2; [|discriminate].
    destruct (nth_res acts i) as [ai|] eqn:E3; [|discriminate].
    destruct (nth_res roots i) as [ri|] eqn:E4; [|discriminate].
    destruct (count_true (less ++ [ri])) as [ct|] eqn:E5; [|discriminate].
    unfold py_then in H.
    destruct (is_bool_expr_like ai && is_bool_expr_like ((if acyclic then i_eq else i_ge) ct (PyInt 1)));
      [|discriminate].
    inversion H; subst st'. clear H. simpl.
    apply nth_res_map_seq in E4. destruct E4 as [-> _].
    (* the count *)
    assert (Hct : forall en, acts_defined en acts ->
              eval gsem_avc en ct = Some (VI (lower_cnt g (pattern en acts) (rk en) i + b2z (rt en i)))).
    { intros en Hdef.
      rewrite (count_true_eval en (less ++ [BVar (b' + i)]) (map (lt_act en i) (incident g i) ++ [rt en i]) ct).
      - rewrite map_app, zsum_app. simpl map. rewrite zsum_cons. change (zsum []) with 0%Z.
        unfold lower_cnt. rewrite map_map. f_equal. f_equal. unfold lt_act. lia.
      - rewrite !map_app. rewrite (less_ranks_eval en i _ less Hdef E1). rewrite map_map. reflexivity.
      - exact E5. }
    (* the implication *)
    assert (Himp : forall en, acts_defined en acts ->
              holds gsem_avc en (b_imp ai ((if acyclic then i_eq else i_ge) ct (PyInt 1))) =
              implb (pattern en acts i)
                    (if acyclic then (lower_cnt g (pattern en acts) (rk en) i + b2z (rt en i) =? 1)%Z
                     else (1 <=? lower_cnt g (pattern en acts) (rk en) i + b2z (rt en i))%Z)).
    { intros en Hdef. apply holds_imp; [apply acts_nth; assumption|].
      destruct acyclic; simpl; rewrite (Hct en Hdef); reflexivity. }
    destruct acyclic.
    - apply post_ne_spec in E2. destruct E2 as [H1 [H2 [cs [H3 H4]]]].
      split; [exact H1|]. split; [exact H2|].
      exists (cs ++ [b_imp ai (i_eq ct (PyInt 1))]). split; [rewrite H3, app_assoc; reflexivity|].
      intros en Hdef. rewrite forallb_app. simpl forallb. rewrite H4, (Himp en Hdef), andb_true_r.
      unfold vertex_ok. reflexivity.
    - inversion E2; subst st1. repeat split.
      exists [b_imp ai (i_ge ct (PyInt 1))]. split; [reflexivity|].
      intros en Hdef. simpl forallb. rewrite (Himp en Hdef), andb_true_r. unfold vertex_ok. reflexivity.
  Qed.

  Lemma fold_vertex_spec acyclic l : forall st st',
    foldM (post_vertex acyclic ranks roots acts g) st l = Ok st' ->
    vars st' = vars st /\ keys st' = keys st /\
    exists cs, cons st' = cons st ++ cs /\
      forall en, acts_defined en acts ->
        forallb (holds gsem_avc en) cs =
        forallb (vertex_ok g acyclic (pattern en acts) (rk en) (rt en)) l.
  Proof.
    induction l as [|i l IH]; intros st st' H; simpl in H.
    - inversion H; subst. repeat split. exists []. rewrite app_nil_r. split; reflexivity.
    - unfold bind in H. destruct (post_vertex acyclic ranks roots acts g st i) as [st1|] eqn:E; [|discriminate].
      apply post_vertex_spec in E. destruct E as [A1 [A2 [cs1 [A3 A4]]]].
      apply IH in H. destruct H as [B1 [B2 [cs2 [B3 B4]]]].
      split; [congruence|]. split; [congruence|].
      exists (cs1 ++ cs2). split; [rewrite B3, A3, app_assoc; reflexivity|].
      intros en Hdef. rewrite forallb_app, (A4 en Hdef), (B4 en Hdef). reflexivity.
  Qed.

  Lemma roots_count_eval en ct :
    count_true roots = Ok ct ->
    holds gsem_avc en (i_le ct (PyInt 1)) = (zsum (map (fun j => b2z (rt en j)) (seq 0 n)) <=? 1)%Z.
  Proof.
    intros H.
    assert (Hct : eval gsem_avc en ct = Some (VI (zsum (map b2z (map (rt en) (seq 0 n)))))).
    { apply (count_true_eval en roots); [|exact H]. unfold roots. rewrite !map_map. reflexivity. }
    unfold holds. simpl. rewrite Hct. simpl. rewrite map_map.
    destruct (zsum (map (fun x => b2z (rt en x)) (seq 0 n)) <=? 1)%Z; reflexivity.
  Qed.
End Body.

(* ------------------------------------------------------------------------ *)
(* avc_eval: the auxiliary-variable encoding declares n ranks in [0, n-1] and n
   root flags, leaves everything else alone, and the constraints it adds
   evaluate, under any assignment, to the certificate checker                 *)

Theorem avc_eval st acts g acyclic st' :
  post_avc st acts g acyclic false = Ok st' ->
  vars st' = vars st ++ repeat (DInt 0 (Z.of_nat (nv g) - 1)) (nv g) ++ repeat DBool (nv g) /\
  keys st' = keys st ++ repeat false (nv g) ++ repeat false (nv g) /\
  exists cs, cons st' = cons st ++ cs /\
    forall en, acts_defined en acts ->
      forallb (holds gsem_avc en) cs =
      cert_avc g acyclic (pattern en acts)
               (fun j => ei en (next_id st + j)) (fun j => eb en (next_id st + nv g + j)).
Proof.
  intros H. unfold post_avc in H. simpl andb in H. cbv iota in H. unfold bind in H.
  unfold int_array in H. destruct (Z.of_nat (nv g) - 1 <? 0)%Z; [discriminate|].
  destruct (int_vars st (nv g) 0 (Z.of_nat (nv g) - 1)) as [st1 ranks] eqn:E1.
  unfold bool_array in H. destruct (bool_vars st1 (nv g)) as [st2 roots] eqn:E2.
  apply int_vars_spec in E1. destruct E1 as [-> [A2 [A3 A4]]].
  apply bool_vars_spec in E2. destruct E2 as [-> [B2 [B3 B4]]].
  destruct (foldM _ st2 (seq 0 (nv g))) as [st3|] eqn:E3; [|discriminate].
  destruct (count_true _) as [ct|] eqn:E4; [|discriminate].
  inversion H; subst st'. clear H. simpl.
  apply fold_vertex_spec in E3. destruct E3 as [C1 [C2 [cs [C3 C4]]]].
  assert (Hb' : next_id st1 = next_id st + nv g).
  { unfold next_id. rewrite A2, app_length, repeat_length. reflexivity. }
  split; [rewrite C1, B2, A2, <- app_assoc; reflexivity|].
  split; [rewrite C2, B4, A4, <- app_assoc; reflexivity|].
  exists (cs ++ [i_le ct (PyInt 1)]). split; [rewrite C3, B3, A3, app_assoc; reflexivity|].
  intros en Hdef. rewrite forallb_app. simpl forallb. rewrite (C4 en Hdef), andb_true_r.
  rewrite (roots_count_eval (next_id st1) (nv g) en ct E4).
  unfold cert_avc, rk, rt. rewrite Hb'. reflexivity.
Qed.

(* bounds of the new variables *)
Lemma in_bounds_from_app en vs1 vs2 : forall i,
  in_bounds_from en i (vs1 ++ vs2) = in_bounds_from en i vs1 && in_bounds_from en (i + length vs1) vs2.
Proof.
  induction vs1 as [|d vs1 IH]; intros i; simpl.
  - rewrite Nat.add_0_r. reflexivity.
  - destruct d; rewrite IH; replace (S i + length vs1) with (i + S (length vs1)) by lia;
      [reflexivity|rewrite andb_assoc; reflexivity].
Qed.

Lemma in_bounds_from_bools en n : forall i, in_bounds_from en i (repeat DBool n) = true.
Proof. induction n as [|n IH]; intros i; simpl; [reflexivity|apply IH]. Qed.

Lemma in_bounds_from_ints en lo hi n : forall i,
  in_bounds_from en i (repeat (DInt lo hi) n) = true <->
  (forall j, j < n -> (lo <= ei en (i + j) <= hi)%Z).
Proof.
  induction n as [|n IH]; intros i; simpl.
  - split; [intros _ j Hj; lia|reflexivity].
  - rewrite !andb_true_iff, IH, Z.leb_le, Z.leb_le. split.
    + intros [[H1 H2] H3] j Hj. destruct j as [|j]; [rewrite Nat.add_0_r; lia|].
      replace (i + S j) with (S i + j) by lia. apply H3. lia.
    + intros H. split; [specialize (H 0); rewrite Nat.add_0_r in H; apply H; lia|].
      intros j Hj. replace (S i + j) with (i + S j) by lia. apply H. lia.
Qed.

Lemma in_bounds_from_agree e1 e2 vs : forall i,
  (forall j, j < length vs -> ei e1 (i + j) = ei e2 (i + j)) ->
  in_bounds_from e1 i vs = in_bounds_from e2 i vs.
Proof.
  induction vs as [|d vs IH]; intros i H; simpl; [reflexivity|].
  assert (Ht : in_bounds_from e1 (S i) vs = in_bounds_from e2 (S i) vs).
  { apply IH. intros j Hj. replace (S i + j) with (i + S j) by lia. apply H. simpl. lia. }
  destruct d; [exact Ht|]. rewrite Ht. specialize (H 0). rewrite Nat.add_0_r in H.
  rewrite H by (simpl; lia). reflexivity.
Qed.
