#!/bin/bash
cd "$(dirname "$0")"
export PYTHONPATH=/repo PYTHONHASHSEED=0 PYTHONDONTWRITEBYTECODE=1
ulimit -s unlimited 2>/dev/null || true
exec /venv/bin/python harness/setup.py
