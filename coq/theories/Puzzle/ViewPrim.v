(* C11 Tier 1, native-operator route - view: cspuz/puzzle/view.py::solve_view with cspuz.config.use_graph_primitive ON
   (the default of the csugar / enigma_csp / cspuz_core backends).  graph.active_vertices_connected(solver, has_number)
   then posts ONE node GRAPH_ACTIVE_VERTICES_CONNECTED (model Graph/Avc.v::post_avc .. false true) and declares no
   auxiliary variable, so every later variable id is smaller by 2*h*w than on the other route:
       has_number 0 .. n-1, nums n .. 2n-1, to_up 2n .., to_down 3n .., to_left 4n .., to_right 5n .. 6n-1  (n = h*w).
   Everything else solve_view posts is unchanged (same shapes as Puzzle/View.v, over the shifted ids).
   On a board without cells the helper does not raise on this route (it posts a node over no vertex); the ValueError
   the Python raises there comes from the empty domain 0 .. -1 of to_up (height 0) or to_left (width 0): int_array.
     solve_view_model_prim : the model (tied to the Python by program capture, kind program-native:view)
     view_exact_prim       : the Tier-1 theorem on this route, w.r.t. the native semantics gsem_avc
   Proof: the constraints posted after the helper are the constraints of the other route with the ids renamed
   (viewp_extra_rn), so their meaning is given by the lemmas of ViewProofs.v under the renamed assignment
   (AvcPrimCompose2.v::forallb_holds_rn); the helper's node means connectivity (C04's avc_primitive through
   AvcPrimCompose2.v::avc_prim_model). *)
From Coq Require Import ZArith List Bool Arith Lia.
From Cspuz Require Import Lib.PyErr Core.Expr Core.Program Graph.GraphModel Graph.ReachProofs
     Graph.Avc Graph.AvcSem Graph.AvcProofs
     Puzzle.PuzzleBase Puzzle.SatAbs Puzzle.ModelBase Puzzle.ModelLemmas Puzzle.AkariLemmas Puzzle.CreekProofs
     Puzzle.Rules_view Puzzle.View Puzzle.ViewLemmas Puzzle.ViewProofs Puzzle.AvcPrimCompose2.
Import ListNotations.
Local Open Scope nat_scope.

Notation b2z := PuzzleBase.b2z.

(* ------------------------------------------------------------------ the model *)
Definition vwp_num (h w : nat) (c : nat * nat) : expr := IVar (1 * (h * w) + cidx w c) 0 (Z.of_nat (h + w)).
Definition vwp_up (h w : nat) (c : nat * nat) : expr := IVar (2 * (h * w) + cidx w c) 0 (Z.of_nat h - 1).
Definition vwp_down (h w : nat) (c : nat * nat) : expr := IVar (3 * (h * w) + cidx w c) 0 (Z.of_nat h - 1).
Definition vwp_left (h w : nat) (c : nat * nat) : expr := IVar (4 * (h * w) + cidx w c) 0 (Z.of_nat w - 1).
Definition vwp_right (h w : nat) (c : nat * nat) : expr := IVar (5 * (h * w) + cidx w c) 0 (Z.of_nat w - 1).

Definition viewp_up (h w : nat) : list expr :=
  map (fun x => vw_zero (vwp_up h w (0, x))) (seq 0 w) ++
  map (fun '(y, x) => vw_step (vwp_up h w (S y, x)) (vw_has w (y, x)) (vwp_up h w (y, x))) (cells (h - 1) w).
Definition viewp_down (h w : nat) : list expr :=
  map (fun x => vw_zero (vwp_down h w (h - 1, x))) (seq 0 w) ++
  map (fun '(y, x) => vw_step (vwp_down h w (y, x)) (vw_has w (S y, x)) (vwp_down h w (S y, x))) (cells (h - 1) w).
Definition viewp_left (h w : nat) : list expr :=
  map (fun y => vw_zero (vwp_left h w (y, 0))) (seq 0 h) ++
  map (fun '(y, x) => vw_step (vwp_left h w (y, S x)) (vw_has w (y, x)) (vwp_left h w (y, x))) (cells h (w - 1)).
Definition viewp_right (h w : nat) : list expr :=
  map (fun y => vw_zero (vwp_right h w (y, w - 1))) (seq 0 h) ++
  map (fun '(y, x) => vw_step (vwp_right h w (y, x)) (vw_has w (y, S x)) (vwp_right h w (y, S x))) (cells h (w - 1)).

Definition viewp_sum (h w : nat) (c : nat * nat) : expr :=
  BNode IMP [vw_has w c;
             BNode EQ [vwp_num h w c;
                       INode ADD [INode ADD [INode ADD [vwp_up h w c; vwp_left h w c]; vwp_down h w c]; vwp_right h w c]]].
Definition viewp_ne (h w : nat) (a b : nat * nat) : expr :=
  BNode IMP [BNode AND [vw_has w a; vw_has w b]; BNode NE [vwp_num h w a; vwp_num h w b]].
Definition viewp_blank (h w : nat) (c : nat * nat) : expr :=
  BNode IMP [BNode NOT [vw_has w c]; BNode EQ [vwp_num h w c; PyInt 0]].
Definition viewp_clue (h w : nat) (grid : list Z) (c : nat * nat) : list expr :=
  let v := at2 grid w (fst c) (snd c) in
  if (0 <=? v)%Z then [BNode EQ [vwp_num h w c; PyInt v]; vw_has w c] else [].

Definition viewp_local (h w : nat) (grid : list Z) : list expr :=
  map (viewp_sum h w) (cells h w) ++
  map (fun '(y, x) => viewp_ne h w (y, x) (S y, x)) (cells (h - 1) w) ++
  map (fun '(y, x) => viewp_ne h w (y, x) (y, S x)) (cells h (w - 1)) ++
  map (viewp_blank h w) (cells h w) ++
  flat_map (viewp_clue h w grid) (cells h w).

(* the body of View.v::solve_view_model with use_graph_primitive on in the helper call *)
Definition solve_view_model_prim (pb : problem) : res state :=
  let h := dim pb 0 in let w := dim pb 1 in let n := h * w in
  let '(st0, has) := bool_array empty_state n in
  match post_avc st0 has (grid_graph h w) false true with
  | Err e => Err e
  | Ok st1 =>
  match int_array st1 n 0 (Z.of_nat (h + w)) with
  | Err e => Err e
  | Ok (st2, nums) =>
  match foldM add_answer_key st2 nums with
  | Err e => Err e
  | Ok st3 =>
  match foldM add_answer_key st3 has with
  | Err e => Err e
  | Ok st4 =>
  match int_array st4 n 0 (Z.of_nat h - 1) with
  | Err e => Err e
  | Ok (st5, _) =>
  match int_array (ensure st5 (viewp_up h w)) n 0 (Z.of_nat h - 1) with
  | Err e => Err e
  | Ok (st6, _) =>
  match int_array (ensure st6 (viewp_down h w)) n 0 (Z.of_nat w - 1) with
  | Err e => Err e
  | Ok (st7, _) =>
  match int_array (ensure st7 (viewp_left h w)) n 0 (Z.of_nat w - 1) with
  | Err e => Err e
  | Ok (st8, _) =>
      if Nat.ltb (length (sec pb 1)) n then Err IndexError
      else Ok (ensure (ensure st8 (viewp_right h w)) (viewp_local h w (sec pb 1)))
  end end end end end end end end.

Definition viewp_extra (h w : nat) (grid : list Z) : list expr :=
  viewp_up h w ++ viewp_down h w ++ viewp_left h w ++ viewp_right h w ++ viewp_local h w grid.

(* ------------------------------------------------------------------ the renaming between the two routes *)
(* id on the other route -> id on this route (the auxiliary ids n .. 3n-1 of the other route are not used after the call) *)
Definition vsig (n i : nat) : nat := if Nat.ltb i (3 * n) then i else i - 2 * n.
(* id on this route -> id on the other route *)
Definition vtau (n i : nat) : nat := if Nat.ltb i n then i else i + 2 * n.

Lemma vsig_low n i : i < 3 * n -> vsig n i = i.
Proof. intros H. unfold vsig. destruct (Nat.ltb_spec i (3 * n)); [reflexivity|lia]. Qed.
Lemma vsig_high n i : 3 * n <= i -> vsig n i = i - 2 * n.
Proof. intros H. unfold vsig. destruct (Nat.ltb_spec i (3 * n)); [lia|reflexivity]. Qed.
Lemma vtau_low n i : i < n -> vtau n i = i.
Proof. intros H. unfold vtau. destruct (Nat.ltb_spec i n); [reflexivity|lia]. Qed.
Lemma vtau_high n i : n <= i -> vtau n i = i + 2 * n.
Proof. intros H. unfold vtau. destruct (Nat.ltb_spec i n); [lia|reflexivity]. Qed.
Lemma vtau_vsig n i : i < n \/ 3 * n <= i -> vtau n (vsig n i) = i.
Proof.
  intros [H|H].
  - rewrite vsig_low by lia. apply vtau_low. exact H.
  - rewrite vsig_high by exact H. rewrite vtau_high by lia. lia.
Qed.

Lemma flat_map_map_in {A} (r : expr -> expr) (f g : A -> list expr) l :
  (forall c, In c l -> map r (f c) = g c) -> flat_map g l = map r (flat_map f l).
Proof.
  induction l as [|a l IH]; intros H; [reflexivity|]. cbn [flat_map].
  rewrite map_app, <- IH by (intros c Hc; apply H; right; exact Hc).
  rewrite (H a (or_introl eq_refl)). reflexivity.
Qed.

Section Rename.
  Variables h w : nat.
  Notation n := (h * w).
  Notation r := (rn (vsig n)).

  Lemma rn_has c : fst c < h -> snd c < w -> r (vw_has w c) = vw_has w c.
  Proof.
    intros Hy Hx. destruct c as [y x]. cbn [fst snd] in *. unfold vw_has. cbn [rn].
    rewrite vsig_low; [reflexivity|]. pose proof (cidx_lt h w y x Hy Hx). lia.
  Qed.
  Lemma rn_num c : r (vw_num h w c) = vwp_num h w c.
  Proof. unfold vw_num, vwp_num. cbn [rn]. rewrite vsig_high by lia. f_equal. lia. Qed.
  Lemma rn_up c : r (vw_up h w c) = vwp_up h w c.
  Proof. unfold vw_up, vwp_up. cbn [rn]. rewrite vsig_high by lia. f_equal. lia. Qed.
  Lemma rn_down c : r (vw_down h w c) = vwp_down h w c.
  Proof. unfold vw_down, vwp_down. cbn [rn]. rewrite vsig_high by lia. f_equal. lia. Qed.
  Lemma rn_left c : r (vw_left h w c) = vwp_left h w c.
  Proof. unfold vw_left, vwp_left. cbn [rn]. rewrite vsig_high by lia. f_equal. lia. Qed.
  Lemma rn_right c : r (vw_right h w c) = vwp_right h w c.
  Proof. unfold vw_right, vwp_right. cbn [rn]. rewrite vsig_high by lia. f_equal. lia. Qed.

  Lemma rn_zero a : r (vw_zero a) = vw_zero (r a).
  Proof. reflexivity. Qed.
  Lemma rn_step a b p : r (vw_step a b p) = vw_step (r a) (r b) (r p).
  Proof. reflexivity. Qed.

  Lemma viewp_up_rn : viewp_up h w = map r (view_up h w).
  Proof.
    unfold viewp_up, view_up. rewrite map_app, !map_map. f_equal.
    - apply map_ext. intros x. rewrite rn_zero, rn_up. reflexivity.
    - apply map_ext_in. intros [y x] Hc. apply cells_in in Hc.
      rewrite rn_step, !rn_up, rn_has by (cbn [fst snd]; lia). reflexivity.
  Qed.
  Lemma viewp_down_rn : viewp_down h w = map r (view_down h w).
  Proof.
    unfold viewp_down, view_down. rewrite map_app, !map_map. f_equal.
    - apply map_ext. intros x. rewrite rn_zero, rn_down. reflexivity.
    - apply map_ext_in. intros [y x] Hc. apply cells_in in Hc.
      rewrite rn_step, !rn_down, rn_has by (cbn [fst snd]; lia). reflexivity.
  Qed.
  Lemma viewp_left_rn : viewp_left h w = map r (view_left h w).
  Proof.
    unfold viewp_left, view_left. rewrite map_app, !map_map. f_equal.
    - apply map_ext. intros x. rewrite rn_zero, rn_left. reflexivity.
    - apply map_ext_in. intros [y x] Hc. apply cells_in in Hc.
      rewrite rn_step, !rn_left, rn_has by (cbn [fst snd]; lia). reflexivity.
  Qed.
  Lemma viewp_right_rn : viewp_right h w = map r (view_right h w).
  Proof.
    unfold viewp_right, view_right. rewrite map_app, !map_map. f_equal.
    - apply map_ext. intros x. rewrite rn_zero, rn_right. reflexivity.
    - apply map_ext_in. intros [y x] Hc. apply cells_in in Hc.
      rewrite rn_step, !rn_right, rn_has by (cbn [fst snd]; lia). reflexivity.
  Qed.

  Lemma rn_sum c : fst c < h -> snd c < w -> r (view_sum h w c) = viewp_sum h w c.
  Proof.
    intros Hy Hx. unfold view_sum, viewp_sum. cbn [rn map].
    rewrite rn_has, rn_num, rn_up, rn_left, rn_down, rn_right by assumption. reflexivity.
  Qed.
  Lemma rn_ne a b : fst a < h -> snd a < w -> fst b < h -> snd b < w -> r (view_ne h w a b) = viewp_ne h w a b.
  Proof.
    intros. unfold view_ne, viewp_ne. cbn [rn map]. rewrite !rn_has, !rn_num by assumption. reflexivity.
  Qed.
  Lemma rn_blank c : fst c < h -> snd c < w -> r (view_blank h w c) = viewp_blank h w c.
  Proof. intros. unfold view_blank, viewp_blank. cbn [rn map]. rewrite rn_has, rn_num by assumption. reflexivity. Qed.
  Lemma rn_clue grid c : fst c < h -> snd c < w -> map r (view_clue h w grid c) = viewp_clue h w grid c.
  Proof.
    intros. unfold view_clue, viewp_clue. cbv zeta. destruct (0 <=? at2 grid w (fst c) (snd c))%Z; [|reflexivity].
    cbn [rn map]. rewrite rn_has, rn_num by assumption. reflexivity.
  Qed.

  Lemma viewp_local_rn grid : viewp_local h w grid = map r (view_local h w grid).
  Proof.
    unfold viewp_local, view_local. rewrite !map_app, !map_map. f_equal; [|f_equal; [|f_equal; [|f_equal]]].
    - apply map_ext_in. intros [y x] Hc. apply cells_in in Hc. symmetry. apply rn_sum; cbn [fst snd]; lia.
    - apply map_ext_in. intros [y x] Hc. apply cells_in in Hc. symmetry. apply rn_ne; cbn [fst snd]; lia.
    - apply map_ext_in. intros [y x] Hc. apply cells_in in Hc. symmetry. apply rn_ne; cbn [fst snd]; lia.
    - apply map_ext_in. intros [y x] Hc. apply cells_in in Hc. symmetry. apply rn_blank; cbn [fst snd]; lia.
    - apply flat_map_map_in. intros [y x] Hc. apply cells_in in Hc. apply rn_clue; cbn [fst snd]; lia.
  Qed.
End Rename.

Lemma viewp_extra_rn h w grid : viewp_extra h w grid = map (rn (vsig (h * w))) (view_extra h w grid).
Proof.
  unfold viewp_extra, view_extra. rewrite !map_app.
  rewrite viewp_up_rn, viewp_down_rn, viewp_left_rn, viewp_right_rn, viewp_local_rn. reflexivity.
Qed.

(* ------------------------------------------------------------------ what the model declares and posts *)
Lemma int_array_nonneg st k lo hi r : int_array st k lo hi = Ok r -> (lo <= hi)%Z.
Proof. unfold int_array. destruct (Z.ltb_spec hi lo); [discriminate|]. intros _. assumption. Qed.

Lemma view_prim_shape h w grid st :
  solve_view_model_prim [[Z.of_nat h; Z.of_nat w]; grid] = Ok st ->
  1 <= h /\ 1 <= w /\
  exists st0 st1,
    vars st0 = repeat DBool (h * w) /\ Program.cons st0 = [] /\
    post_avc st0 (map BVar (seq 0 (h * w))) (grid_graph h w) false true = Ok st1 /\
    vars st = vars st1 ++ view_more h w /\
    Program.cons st = Program.cons st1 ++ viewp_extra h w grid.
Proof.
  unfold solve_view_model_prim. destruct (dims2c h w [grid]) as [-> ->].
  change (sec [[Z.of_nat h; Z.of_nat w]; grid] 1) with grid.
  destruct (bool_array empty_state (h * w)) as [st0 has] eqn:E0. unfold bool_array in E0.
  apply bool_vars_spec in E0. destruct E0 as [Ehas [V0 [C0 _]]].
  assert (Ehas' : has = map BVar (seq 0 (h * w))) by (rewrite Ehas; reflexivity).
  destruct (post_avc st0 has (grid_graph h w) false true) as [st1|] eqn:Hp; [|discriminate].
  destruct (int_array st1 (h * w) 0 (Z.of_nat (h + w))) as [[st2 nums]|] eqn:E2; [|discriminate].
  destruct (foldM add_answer_key st2 nums) as [st3|] eqn:E3; [|discriminate].
  destruct (foldM add_answer_key st3 has) as [st4|] eqn:E4; [|discriminate].
  destruct (int_array st4 (h * w) 0 (Z.of_nat h - 1)) as [[st5 l5]|] eqn:E5; [|discriminate].
  destruct (int_array (ensure st5 (viewp_up h w)) (h * w) 0 (Z.of_nat h - 1)) as [[st6 l6]|] eqn:E6; [|discriminate].
  destruct (int_array (ensure st6 (viewp_down h w)) (h * w) 0 (Z.of_nat w - 1)) as [[st7 l7]|] eqn:E7; [|discriminate].
  destruct (int_array (ensure st7 (viewp_left h w)) (h * w) 0 (Z.of_nat w - 1)) as [[st8 l8]|] eqn:E8; [|discriminate].
  destruct (Nat.ltb (length grid) (h * w)); [discriminate|].
  intros H. inversion H; subst st; clear H.
  pose proof (int_array_nonneg _ _ _ _ _ E5) as Hh. pose proof (int_array_nonneg _ _ _ _ _ E7) as Hw.
  apply int_array_spec in E2, E5, E6, E7, E8. apply foldM_add_key in E3, E4.
  destruct E2 as [V2 C2], E3 as [V3 C3], E4 as [V4 C4], E5 as [V5 C5], E6 as [V6 C6], E7 as [V7 C7], E8 as [V8 C8].
  cbn [vars Program.cons ensure] in *.
  split; [lia|]. split; [lia|].
  exists st0, st1. split; [exact V0|]. split; [exact C0|]. split; [rewrite <- Ehas'; exact Hp|]. split.
  - unfold view_more. rewrite V8, V7, V6, V5, V4, V3, V2. rewrite <- !app_assoc. reflexivity.
  - unfold viewp_extra. rewrite C8, C7, C6, C5, C4, C3, C2. rewrite <- !app_assoc. reflexivity.
Qed.

(* ------------------------------------------------------------------ the theorem *)
Theorem view_exact_prim h w grid st ans :
  solve_view_model_prim [[Z.of_nat h; Z.of_nat w]; grid] = Ok st ->
  ((exists en, model_of gsem_avc en st /\
               reads st en (seq (h * w) (h * w) ++ seq 0 (h * w)) = ans)
   <-> rules_view [[Z.of_nat h; Z.of_nat w]; grid] ans = true).
Proof.
  intros Hm. destruct (view_prim_shape _ _ _ _ Hm) as [Hh [Hw [st0 [st1 [V0 [C0 [Hp [Hv Hc]]]]]]]].
  set (n := h * w) in *.
  assert (Hn0 : next_id st0 = n) by (unfold next_id; rewrite V0; apply repeat_length).
  pose proof (avc_prim_model (grid_graph h w) n st0 st1 st (map BVar (seq 0 n)) (view_more h w) (viewp_extra h w grid)
                             Hn0 Hp Hv Hc (acts_def n) (grid_wf h w)) as CM.
  pose proof (avc_prim_vars _ _ _ _ Hp) as Hv1.
  assert (Hm0 : forall en, model_of gsem_avc en st0).
  { intros en. unfold model_of, in_bounds, satisfies. rewrite V0, C0. split; [apply AvcSem.in_bounds_from_bools|reflexivity]. }
  assert (Hreads : forall en, reads st en (seq n n ++ seq 0 n) =
                              map (fun j => ei en (n + j)) (seq 0 n) ++ map (fun i => b2z (eb en i)) (seq 0 n)).
  { intros en. unfold reads. rewrite map_app. f_equal.
    - rewrite <- map_seq_from.
      apply (reads_ints_at st en (repeat DBool n) 0%Z (Z.of_nat (h + w)) n
                           (repeat (DInt 0 (Z.of_nat h - 1)) n ++ repeat (DInt 0 (Z.of_nat h - 1)) n ++
                            repeat (DInt 0 (Z.of_nat w - 1)) n ++ repeat (DInt 0 (Z.of_nat w - 1)) n)).
      + rewrite Hv, Hv1, V0. unfold view_more. fold n. reflexivity.
      + apply repeat_length.
    - apply (reads_bool_prefix st en n (view_more h w)). rewrite Hv, Hv1, V0. reflexivity. }
  assert (Hcell : forall y x, y < h -> x < w -> cidx w (y, x) < n).
  { intros y x Hy Hx. apply (cidx_lt h w y x); assumption. }
  assert (Hbnd : forall en, in_bounds_from en n (view_more h w) = true <->
            ((forall j, j < n -> (0 <= ei en (n + j) <= Z.of_nat (h + w))%Z) /\
             (forall j, j < n -> (0 <= ei en (2 * n + j) <= Z.of_nat h - 1)%Z) /\
             (forall j, j < n -> (0 <= ei en (3 * n + j) <= Z.of_nat h - 1)%Z) /\
             (forall j, j < n -> (0 <= ei en (4 * n + j) <= Z.of_nat w - 1)%Z) /\
             (forall j, j < n -> (0 <= ei en (5 * n + j) <= Z.of_nat w - 1)%Z))).
  { intros en. unfold view_more. fold n. rewrite !in_bounds_from_app, !repeat_length, !andb_true_iff, !in_bounds_from_ints.
    replace (n + n) with (2 * n) by lia. replace (2 * n + n) with (3 * n) by lia.
    replace (3 * n + n) with (4 * n) by lia. replace (4 * n + n) with (5 * n) by lia. tauto. }
  (* the later constraints under an assignment = the constraints of the other route under the renamed assignment *)
  assert (Hext : forall en, forallb (holds gsem_avc en) (viewp_extra h w grid) = true <->
            (let en2 := cmap (vsig n) en in
             forallb (holds gsem_avc en2) (view_up h w) = true /\ forallb (holds gsem_avc en2) (view_down h w) = true /\
             forallb (holds gsem_avc en2) (view_left h w) = true /\ forallb (holds gsem_avc en2) (view_right h w) = true /\
             forallb (holds gsem_avc en2) (view_local h w grid) = true)).
  { intros en. rewrite viewp_extra_rn. fold n. rewrite forallb_holds_rn. cbv zeta.
    unfold view_extra. rewrite !forallb_app, !andb_true_iff. tauto. }
  split.
  - (* a model reads as an answer obeying the rules *)
    intros [en [Hmod Hr]]. rewrite Hreads in Hr. subst ans.
    apply CM in Hmod. destruct Hmod as [_ [Hcn [Hbd Hex]]].
    apply Hbnd in Hbd. destruct Hbd as [Bn _].
    apply Hext in Hex. cbv zeta in Hex. set (en2 := cmap (vsig n) en) in *. destruct Hex as [Eu [Ed [El [Er Eloc]]]].
    set (A := map (fun j => ei en (n + j)) (seq 0 n)).
    set (B := map (fun i => b2z (eb en i)) (seq 0 n)).
    assert (La : length A = n) by (unfold A; rewrite map_length, seq_length; reflexivity).
    assert (Lb : length B = n) by (unfold B; rewrite map_length, seq_length; reflexivity).
    rewrite (rules_view_ab h w grid A B La Lb). fold n.
    assert (Hhas : forall y x, y < h -> x < w ->
              isb (getz (A ++ B) (n + y * w + x)) = eb en2 (cidx w (y, x))).
    { intros y x Hy Hx. rewrite <- Nat.add_assoc. rewrite (getz_ab A B n _ La).
      unfold B. change (y * w + x) with (cidx w (y, x)). rewrite getz_map_seq by (apply Hcell; assumption).
      unfold en2. cbn [eb cmap]. rewrite vsig_low by (specialize (Hcell y x Hy Hx); lia). apply b2z_isb. }
    assert (Hnum : forall y x, y < h -> x < w -> at2 (A ++ B) w y x = ei en2 (3 * n + cidx w (y, x))).
    { intros y x Hy Hx. unfold at2. change (y * w + x) with (cidx w (y, x)).
      rewrite getz_app1 by (rewrite La; apply Hcell; assumption).
      unfold A. rewrite getz_map_seq by (apply Hcell; assumption).
      unfold en2. cbn [ei cmap]. rewrite vsig_high by lia. f_equal. lia. }
    repeat (apply andb_true_iff; split).
    + unfold A. rewrite forallb_map. apply forallb_forall. intros j Hj. apply in_seq in Hj.
      apply andb_true_iff. split; [apply Z.leb_le|apply Z.leb_le]; apply (Bn j); lia.
    + unfold B. rewrite forallb_map. apply forallb_forall. intros; apply is01_b2z.
    + unfold cells_connected, board.
      rewrite (connected_b_ext _ _ (pattern en (map BVar (seq 0 n))) (grid_wf h w)); [exact Hcn|].
      intros v. rewrite pattern_acts. destruct (Nat.ltb_spec v n) as [L|L].
      * rewrite (getz_ab A B n v La). unfold B. rewrite getz_map_seq by exact L. cbn [andb]. apply b2z_isb.
      * rewrite getz_overflow by (rewrite app_length, La, Lb; lia). reflexivity.
    + apply (view_local_sem gsem_avc en2 h w (fun '(y, x) => isb (getz (A ++ B) (n + y * w + x))) Hhas
                            (fun '(y, x) => at2 (A ++ B) w y x) Hnum grid).
      * apply (view_up_sem gsem_avc en2 h w _ Hhas Hh). exact Eu.
      * apply (view_down_sem gsem_avc en2 h w _ Hhas Hh). exact Ed.
      * apply (view_left_sem gsem_avc en2 h w _ Hhas Hw). exact El.
      * apply (view_right_sem gsem_avc en2 h w _ Hhas Hw). exact Er.
      * exact Eloc.
  - (* an answer obeying the rules is the reading of a model *)
    intros Hr. pose proof (rules_view_length _ _ _ _ Hr) as Hlen. fold n in Hlen.
    pose proof (firstn_skipn n ans) as Hsp.
    assert (La : length (firstn n ans) = n) by (rewrite firstn_length; lia).
    assert (Lb : length (skipn n ans) = n) by (rewrite skipn_length; lia).
    set (a := firstn n ans) in *. set (b := skipn n ans) in *. clearbody a b. subst ans. clear Hlen.
    rewrite (rules_view_ab h w grid a b La Lb) in Hr. fold n in Hr.
    apply andb_true_iff in Hr. destruct Hr as [Hr Rcell].
    apply andb_true_iff in Hr. destruct Hr as [Hr Rconn].
    apply andb_true_iff in Hr. destruct Hr as [Rrng R01].
    set (has := fun '(y, x) => isb (getz (a ++ b) (n + y * w + x))) in *.
    set (num := fun '(y, x) => at2 (a ++ b) w y x) in *.
    set (U := fun k => Z.of_nat (run_up has (k / w) (k mod w))).
    set (D := fun k => Z.of_nat (run_down h has (k / w) (k mod w))).
    set (L := fun k => Z.of_nat (run_left has (k / w) (k mod w))).
    set (R := fun k => Z.of_nat (run_right w has (k / w) (k mod w))).
    (* the assignment of ViewProofs.v (ids of the other route), read through the renaming *)
    set (E := view_env0 n a b U D L R).
    set (en := cmap (vtau n) E).
    set (en2 := cmap (vsig n) en).
    assert (Hen2b : forall i, i < n -> eb en2 i = eb E i).
    { intros i Hi. unfold en2, en. cbn [eb cmap]. rewrite vtau_vsig by lia. reflexivity. }
    assert (Hen2i : forall i, 3 * n <= i -> ei en2 i = ei E i).
    { intros i Hi. unfold en2, en. cbn [ei cmap]. rewrite vtau_vsig by lia. reflexivity. }
    assert (Heni : forall k j, 1 <= k -> ei en (k * n + j) = ei E ((k + 2) * n + j)).
    { intros k j Hk. unfold en. cbn [ei cmap]. rewrite vtau_high by nia. f_equal. lia. }
    assert (Henb : forall i, i < n -> eb en i = isb (getz b i)).
    { intros i Hi. unfold en. cbn [eb cmap]. rewrite vtau_low by exact Hi. reflexivity. }
    assert (Hpat : forall v, isb (getz (a ++ b) (n + v)) = pattern en (map BVar (seq 0 n)) v).
    { intros v. rewrite pattern_acts. destruct (Nat.ltb_spec v n) as [Lt|Ge].
      - rewrite (getz_ab a b n v La), Henb by exact Lt. reflexivity.
      - rewrite getz_overflow by (rewrite app_length, La, Lb; lia). reflexivity. }
    unfold cells_connected, board in Rconn.
    rewrite (connected_b_ext _ _ _ (grid_wf h w) Hpat) in Rconn.
    assert (Hhas : forall y x, y < h -> x < w -> has (y, x) = eb en2 (cidx w (y, x))).
    { intros y x Hy Hx. unfold has. rewrite Hen2b by (apply Hcell; assumption).
      rewrite <- Nat.add_assoc. rewrite (getz_ab a b n _ La). reflexivity. }
    assert (Hnum : forall y x, y < h -> x < w -> num (y, x) = ei en2 (3 * n + cidx w (y, x))).
    { intros y x Hy Hx. unfold num, at2. change (y * w + x) with (cidx w (y, x)).
      rewrite Hen2i by lia. unfold E. rewrite env0_num by (apply Hcell; assumption).
      apply getz_app1. rewrite La. apply Hcell; assumption. }
    assert (Hdm : forall j, j < n -> j / w < h /\ j mod w < w).
    { intros j Hj. split; [apply Nat.div_lt_upper_bound; [lia|]; unfold n in Hj; lia|apply Nat.mod_upper_bound; lia]. }
    assert (HU : forall y x, y < h -> x < w -> ei en2 (4 * n + cidx w (y, x)) = Z.of_nat (run_up has y x)).
    { intros y x Hy Hx. rewrite Hen2i by lia. unfold E.
      rewrite env0_up by (apply Hcell; assumption). unfold U. rewrite cidx_div, cidx_mod by exact Hx. reflexivity. }
    assert (HD : forall y x, y < h -> x < w -> ei en2 (5 * n + cidx w (y, x)) = Z.of_nat (run_down h has y x)).
    { intros y x Hy Hx. rewrite Hen2i by lia. unfold E.
      rewrite env0_down by (apply Hcell; assumption). unfold D. rewrite cidx_div, cidx_mod by exact Hx. reflexivity. }
    assert (HL : forall y x, y < h -> x < w -> ei en2 (6 * n + cidx w (y, x)) = Z.of_nat (run_left has y x)).
    { intros y x Hy Hx. rewrite Hen2i by lia. unfold E.
      rewrite env0_left by (apply Hcell; assumption). unfold L. rewrite cidx_div, cidx_mod by exact Hx. reflexivity. }
    assert (HR : forall y x, y < h -> x < w -> ei en2 (7 * n + cidx w (y, x)) = Z.of_nat (run_right w has y x)).
    { intros y x Hy Hx. rewrite Hen2i by lia. unfold E.
      rewrite env0_right by (apply Hcell; assumption). unfold R. rewrite cidx_div, cidx_mod by exact Hx. reflexivity. }
    assert (Hnj : forall j, j < n -> ei en (n + j) = getz a j).
    { intros j Hj. replace (n + j) with (1 * n + j) by lia. rewrite Heni by lia. unfold E. cbn [Nat.add]. apply env0_num. exact Hj. }
    exists en. split.
    + apply CM. split; [apply Hm0|]. split; [exact Rconn|]. split.
      * apply Hbnd. repeat split.
        -- rewrite Hnj by assumption.
           rewrite forallb_forall in Rrng. specialize (Rrng (getz a j) ltac:(apply nth_In; lia)).
           apply andb_true_iff in Rrng. destruct Rrng as [R1 _]. apply Z.leb_le in R1. exact R1.
        -- rewrite Hnj by assumption.
           rewrite forallb_forall in Rrng. specialize (Rrng (getz a j) ltac:(apply nth_In; lia)).
           apply andb_true_iff in Rrng. destruct Rrng as [_ R2]. apply Z.leb_le in R2. exact R2.
        -- rewrite Heni by lia. unfold E. cbn [Nat.add]. rewrite env0_up by assumption. unfold U. lia.
        -- rewrite Heni by lia. unfold E. cbn [Nat.add]. rewrite env0_up by assumption. unfold U.
           destruct (Hdm j ltac:(assumption)). pose proof (run_up_le has (j / w) (j mod w)). lia.
        -- rewrite Heni by lia. unfold E. cbn [Nat.add]. rewrite env0_down by assumption. unfold D. lia.
        -- rewrite Heni by lia. unfold E. cbn [Nat.add]. rewrite env0_down by assumption. unfold D.
           destruct (Hdm j ltac:(assumption)). pose proof (run_down_le h has (j / w) (j mod w)). lia.
        -- rewrite Heni by lia. unfold E. cbn [Nat.add]. rewrite env0_left by assumption. unfold L. lia.
        -- rewrite Heni by lia. unfold E. cbn [Nat.add]. rewrite env0_left by assumption. unfold L.
           destruct (Hdm j ltac:(assumption)). pose proof (run_left_le has (j / w) (j mod w)). lia.
        -- rewrite Heni by lia. unfold E. cbn [Nat.add]. rewrite env0_right by assumption. unfold R. lia.
        -- rewrite Heni by lia. unfold E. cbn [Nat.add]. rewrite env0_right by assumption. unfold R.
           destruct (Hdm j ltac:(assumption)). pose proof (run_right_le w has (j / w) (j mod w)). lia.
      * apply Hext. cbv zeta. fold en2. split; [|split; [|split; [|split]]].
        -- apply (view_up_sem gsem_avc en2 h w has Hhas Hh). exact HU.
        -- apply (view_down_sem gsem_avc en2 h w has Hhas Hh). exact HD.
        -- apply (view_left_sem gsem_avc en2 h w has Hhas Hw). exact HL.
        -- apply (view_right_sem gsem_avc en2 h w has Hhas Hw). exact HR.
        -- apply (view_local_sem gsem_avc en2 h w has Hhas num Hnum grid HU HD HL HR). exact Rcell.
    + rewrite Hreads. f_equal.
      * rewrite <- (map_getz_seq a) at 1. rewrite La. apply map_ext_in. intros j Hj. apply in_seq in Hj.
        apply Hnj. lia.
      * rewrite <- (map_getz_seq b) at 1. rewrite Lb. apply map_ext_in. intros j Hj. apply in_seq in Hj.
        rewrite Henb by lia. apply isb_is01.
        rewrite forallb_forall in R01. apply R01. apply nth_In. lia.
Qed.

(* the premise is satisfiable: the model succeeds on every board with at least one cell, e.g. 2 x 3 *)
Example view_model_prim_ok : exists st, solve_view_model_prim [[2; 3]; [-1; 2; -1; 0; -1; 7]]%Z = Ok st.
Proof. vm_compute. eexists. reflexivity. Qed.
