Require Extraction.
Require Import ExtrOcamlBasic.
From Coq Require Import ZArith List Ascii.
Require Import Cspuz.Lib.PyErr Cspuz.Codec.Comb Cspuz.Codec.CombWf.
Extraction "model.ml" Z.add Nat.add pyerr_code mk_env ser de de_at serialize_problem deserialize_problem
  serialize_problem_as_url get_puzzle_info_from_url deserialize_problem_as_url py_int py_str_int isdigit_c comb_ok
  wf nullable first cont.
