(* Proofs about Codec/Url.v: the URL written by make_url is read back by the regular
   expression (as read by Comb.url_match) with the same name, width, height and body. *)
From Coq Require Import ZArith List Ascii Bool NArith Lia.
From Cspuz Require Import Lib.PyErr Codec.Comb Codec.CombWf Codec.CombBasics Codec.Legacy Codec.Url.
Import ListNotations.
Local Open Scope Z_scope.

Lemma strip_prefix_app p r : strip_prefix p (p ++ r) = Some r.
Proof. induction p as [|x p IH]; simpl; auto. rewrite ascii_eqb_refl. exact IH. Qed.

Lemma span_until_stop stop a x r :
  Forall (fun c => stop c = false) a -> stop x = true ->
  span_until stop (a ++ x :: r) = (a, x :: r).
Proof.
  intros Ha Hx. induction Ha as [|c a Hc Ha IH]; simpl.
  - rewrite Hx. reflexivity.
  - rewrite Hc, IH. reflexivity.
Qed.

Lemma span_until_all stop a :
  Forall (fun c => stop c = false) a -> span_until stop a = (a, []).
Proof.
  intros Ha. induction Ha as [|c a Hc Ha IH]; simpl; auto. rewrite Hc, IH. reflexivity.
Qed.

(* decimal digits *)
Lemma clean10_digit ch : cleanb 10 ch = true -> is_ascii_digit ch = true /\ is_slash ch = false.
Proof.
  revert ch.
  assert (H : forall ch, (negb (cleanb 10 ch) || (is_ascii_digit ch && negb (is_slash ch))) = true).
  { apply forall_chars. vm_compute. reflexivity. }
  intros ch Hc. specialize (H ch). rewrite Hc in H. simpl in H.
  apply andb_true_iff in H as [H1 H2]. apply negb_true_iff in H2. auto.
Qed.

Lemma str_nat_digits n : 0 <= n ->
  py_str_int n <> [] /\ Forall (fun c => negb (is_ascii_digit c) = false) (py_str_int n) /\
  py_int (py_str_int n) 10 = Ok n.
Proof.
  intros Hn. unfold py_str_int. destruct (Z.ltb_spec n 0); [lia|].
  destruct (to_base_spec 10 n) as (Hne & Hc & _); [lia|lia|].
  split; [exact Hne|]. split.
  - rewrite forallb_forall in Hc. apply Forall_forall. intros c Hin.
    destruct (clean10_digit c (Hc c Hin)) as [Hd _]. rewrite Hd. reflexivity.
  - apply py_int_to_base; lia.
Qed.

Lemma slash_not_digit : negb (is_ascii_digit "/"%char) = true.
Proof. reflexivity. Qed.

(* the part of the regular expression after the question mark *)
Definition url_tail (r6 : str) : option (str * str * str * str) :=
  let '(name, r7) := span_until is_slash r6 in
  match name, r7 with
  | _ :: _, _ :: r8 =>
      let '(wd, r9) := span_until (fun c => negb (is_ascii_digit c)) r8 in
      match wd, r9 with
      | _ :: _, c9 :: r10 =>
          if negb (is_slash c9) then None else
          let '(hd, r11) := span_until (fun c => negb (is_ascii_digit c)) r10 in
          match hd, r11 with
          | _ :: _, c11 :: r12 =>
              if negb (is_slash c11) then None else
              Some (name, wd, hd, fst (span_until is_newline r12))
          | _, _ => None
          end
      | _, _ => None
      end
  | _, _ => None
  end.

Lemma url_tail_make nm h w body :
  valid_name nm -> valid_body body -> 0 <= h -> 0 <= w ->
  url_tail (nm ++ slash ++ py_str_int w ++ slash ++ py_str_int h ++ slash ++ body)
  = Some (nm, py_str_int w, py_str_int h, body).
Proof.
  intros [Hne Hnm] Hb Hh Hw. unfold url_tail, slash.
  destruct (str_nat_digits w Hw) as (Hwne & Hwd & _).
  destruct (str_nat_digits h Hh) as (Hhne & Hhd & _).
  simpl app.
  rewrite (span_until_stop is_slash nm "/"%char _ Hnm eq_refl).
  destruct nm as [|n0 nm']; [congruence|].
  rewrite (span_until_stop _ (py_str_int w) "/"%char _ Hwd slash_not_digit).
  destruct (py_str_int w) as [|w0 ws] eqn:Ew; [congruence|].
  change (negb (is_slash "/"%char)) with false. cbv iota.
  rewrite (span_until_stop _ (py_str_int h) "/"%char _ Hhd slash_not_digit).
  destruct (py_str_int h) as [|h0 hs] eqn:Eh; [congruence|].
  change (negb (is_slash "/"%char)) with false. cbv iota.
  rewrite (span_until_all is_newline body Hb). reflexivity.
Qed.

(* url_match on any accepted prefix followed by a tail *)
Lemma s_slash_p_cons : s_slash_p = "/"%char :: ["p"%char].
Proof. reflexivity. Qed.

Lemma url_match_prefix p r6 : valid_prefix p -> url_match (p ++ r6) = url_tail r6.
Proof.
  intros (tls & html & host & Hne & Hhost & ->).
  unfold url_match. repeat rewrite <- app_assoc.
  rewrite strip_prefix_app.
  assert (E1 : forall rest,
    match strip_prefix s_colon_slashes
            (match (if tls then ["s"%char] else []) ++ s_colon_slashes ++ rest with
             | c :: t => if ascii_eqb c "s"%char
                         then match strip_prefix s_colon_slashes t with Some _ => t
                              | None => (if tls then ["s"%char] else []) ++ s_colon_slashes ++ rest end
                         else (if tls then ["s"%char] else []) ++ s_colon_slashes ++ rest
             | [] => (if tls then ["s"%char] else []) ++ s_colon_slashes ++ rest
             end) with
    | Some r2 => Some r2 | None => None end = Some rest).
  { intros rest. destruct tls.
    - change (["s"%char] ++ s_colon_slashes ++ rest) with ("s"%char :: (s_colon_slashes ++ rest)).
      cbv iota. rewrite ascii_eqb_refl. rewrite strip_prefix_app. rewrite strip_prefix_app. reflexivity.
    - change ([] ++ s_colon_slashes ++ rest) with (":"%char :: "/"%char :: "/"%char :: rest).
      cbv beta iota. change (ascii_eqb ":"%char "s"%char) with false. cbv iota.
      change (":"%char :: "/"%char :: "/"%char :: rest) with (s_colon_slashes ++ rest).
      rewrite strip_prefix_app. reflexivity. }
  set (rest := host ++ s_slash_p ++ (if html then s_dot_html else []) ++ ["?"%char] ++ r6).
  specialize (E1 rest).
  match goal with
  | |- match strip_prefix s_colon_slashes ?X with _ => _ end = _ =>
      destruct (strip_prefix s_colon_slashes X) as [r2|] eqn:E2
  end; [|discriminate E1].
  inversion E1; subst r2. clear E1 E2.
  unfold rest. rewrite s_slash_p_cons. simpl app.
  rewrite (span_until_stop is_slash host "/"%char _ Hhost eq_refl).
  destruct host as [|h0 host']; [congruence|].
  change (strip_prefix ("/"%char :: ["p"%char]) ("/"%char :: "p"%char :: ?x)) with (Some x).
  change (strip_prefix ("/"%char :: ["p"%char])
            ("/"%char :: "p"%char :: (if html then s_dot_html else []) ++ "?"%char :: r6))
    with (Some ((if html then s_dot_html else []) ++ "?"%char :: r6)).
  cbv iota.
  destruct html.
  - rewrite strip_prefix_app. rewrite ascii_eqb_refl. cbv iota.
    change (negb (ascii_eqb "?"%char "?"%char)) with false. cbv iota. reflexivity.
  - simpl app. change (strip_prefix s_dot_html ("?"%char :: r6)) with (@None str). cbv iota.
    change (negb (ascii_eqb "?"%char "?"%char)) with false. cbv iota. reflexivity.
Qed.

Lemma default_prefix_valid : valid_prefix default_prefix.
Proof.
  exists true, false, (firstn 9 (skipn 8 default_prefix)). split; [discriminate|]. split.
  - vm_compute. repeat constructor.
  - reflexivity.
Qed.

Lemma pzv_prefix_valid : valid_prefix pzv_prefix.
Proof.
  exists false, true, (firstn 6 (skipn 7 pzv_prefix)). split; [discriminate|]. split.
  - vm_compute. repeat constructor.
  - reflexivity.
Qed.

Lemma url_match_make p nm h w body :
  valid_prefix p -> valid_name nm -> valid_body body -> 0 <= h -> 0 <= w ->
  url_match (make_url p nm h w body) = Some (nm, py_str_int w, py_str_int h, body).
Proof.
  intros Hp Hn Hb Hh Hw. unfold make_url. rewrite (url_match_prefix p _ Hp).
  apply url_tail_make; assumption.
Qed.

Theorem url_roundtrip_gen p nm h w body :
  valid_prefix p -> valid_name nm -> valid_body body -> 0 <= h -> 0 <= w ->
  parse_url (make_url p nm h w body) = Ok (Some (nm, w, h, body)).
Proof.
  intros Hp Hn Hb Hh Hw. unfold parse_url. rewrite (url_match_make p nm h w body Hp Hn Hb Hh Hw).
  destruct (str_nat_digits w Hw) as (_ & _ & Ew). destruct (str_nat_digits h Hh) as (_ & _ & Eh).
  rewrite Ew, Eh. reflexivity.
Qed.
