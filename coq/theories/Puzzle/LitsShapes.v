(* C11 Tier 1 - lits: the combinatorial core.  A finite set of cells given as a list [L]; the four "neighbour in L"
   tests; the three conditions the solver posts on the black cells of a room (every cell has a neighbour, exactly three
   adjacent pairs, four cells) characterise the translates of the 18 fixed tetrominoes other than the square
   ([classify], [tets_check]); the two auxiliary quantities (number of cells in the middle of a straight triple, a cell
   with three neighbours) separate the four shapes L, I, T, S. *)
From Coq Require Import ZArith List Bool Arith Lia.
From Cspuz Require Import Puzzle.PuzzleBase Puzzle.ModelLemmas Puzzle.Rules_lits.
Import ListNotations.
Local Open Scope nat_scope.

Notation cell := (nat * nat)%type.
Definition ceqb (p q : cell) : bool := Nat.eqb (fst p) (fst q) && Nat.eqb (snd p) (snd q).
Definition has (L : list cell) (p : cell) : bool := existsb (ceqb p) L.
(* q is the cell below / to the right of p *)
Definition Dn (p q : cell) : bool := ceqb (S (fst p), snd p) q.
Definition Rt (p q : cell) : bool := ceqb (fst p, S (snd p)) q.
Definition upN (L : list cell) (p : cell) : bool := Nat.ltb 0 (fst p) && has L (fst p - 1, snd p).
Definition downN (L : list cell) (p : cell) : bool := existsb (Dn p) L.
Definition leftN (L : list cell) (p : cell) : bool := Nat.ltb 0 (snd p) && has L (fst p, snd p - 1).
Definition rightN (L : list cell) (p : cell) : bool := existsb (Rt p) L.
Definition b2n (b : bool) : nat := if b then 1 else 0.
Definition nbcount (L : list cell) (p : cell) : nat :=
  b2n (upN L p) + b2n (downN L p) + b2n (leftN L p) + b2n (rightN L p).
Definition straightN (L : list cell) (p : cell) : bool := (upN L p && downN L p) || (leftN L p && rightN L p).
Definition t_at (L : list cell) (p : cell) : bool := Nat.leb 3 (nbcount L p).
Definition sumn (l : list nat) : nat := fold_right Nat.add 0 l.

Definition cond_b (L : list cell) : bool := forallb (fun p => Nat.leb 1 (nbcount L p)) L.
Definition pairs_n (L : list cell) : nat := sumn (map (fun p => b2n (downN L p) + b2n (rightN L p)) L).
Definition straight_n (L : list cell) : nat := count (straightN L) L.

Definition shift (a b : nat) (p : cell) : cell := (a + fst p, b + snd p).

(* num_straight / has_t of the four shapes (0 = I, 1 = L, 2 = T, 3 = S) *)
Definition ns_of (s : nat) : nat := match s with 0 => 2 | 1 => 1 | 2 => 1 | _ => 0 end.
Definition ht_of (s : nat) : bool := Nat.eqb s 2.

(* ------------------------------------------------------------------ basics *)
Lemma ceqb_eq p q : ceqb p q = true <-> p = q.
Proof.
  destruct p as [a b], q as [c d]. unfold ceqb. simpl. rewrite andb_true_iff, !Nat.eqb_eq.
  split; [intros [-> ->]; reflexivity|intros E; inversion E; auto].
Qed.
Lemma ceqb_refl p : ceqb p p = true.
Proof. apply ceqb_eq. reflexivity. Qed.
Lemma has_In L p : has L p = true <-> In p L.
Proof.
  unfold has. rewrite existsb_exists. split.
  - intros [q [Hq E]]. apply ceqb_eq in E. subst. exact Hq.
  - intros H. exists p. split; [exact H|apply ceqb_refl].
Qed.
Lemma existsb_map {A B} (f : B -> bool) (g : A -> B) l : existsb f (map g l) = existsb (fun x => f (g x)) l.
Proof. induction l; simpl; congruence. Qed.
Lemma existsb_ext {A} (f g : A -> bool) l : (forall x, f x = g x) -> existsb f l = existsb g l.
Proof. intros E. induction l; simpl; congruence. Qed.

Lemma upN_D L p : upN L p = existsb (fun q => Dn q p) L.
Proof.
  unfold upN, has. induction L as [|a r IH]; simpl; [apply andb_false_r|]. rewrite <- IH.
  destruct p as [y x], a as [ay ax]. unfold Dn, ceqb. simpl.
  destruct y as [|y]; simpl; [reflexivity|]. rewrite Nat.sub_0_r, (Nat.eqb_sym ay y), (Nat.eqb_sym ax x). reflexivity.
Qed.
Lemma leftN_R L p : leftN L p = existsb (fun q => Rt q p) L.
Proof.
  unfold leftN, has. induction L as [|a r IH]; simpl; [apply andb_false_r|]. rewrite <- IH.
  destruct p as [y x], a as [ay ax]. unfold Rt, ceqb. simpl.
  destruct x as [|x]; simpl.
  - rewrite !andb_false_r. reflexivity.
  - rewrite Nat.sub_0_r, (Nat.eqb_sym ay y), (Nat.eqb_sym ax x). reflexivity.
Qed.

(* ------------------------------------------------------------------ translation *)
Lemma eqb_add_l a u v : Nat.eqb (a + u) (a + v) = Nat.eqb u v.
Proof. destruct (Nat.eqb_spec u v) as [->|N]; [apply Nat.eqb_refl|]. apply Nat.eqb_neq. lia. Qed.
Lemma ceqb_shift a b p q : ceqb (shift a b p) (shift a b q) = ceqb p q.
Proof. unfold ceqb, shift. cbn [fst snd]. rewrite !eqb_add_l. reflexivity. Qed.
Lemma Dn_shift a b p q : Dn (shift a b p) (shift a b q) = Dn p q.
Proof. unfold Dn, ceqb, shift. cbn [fst snd]. rewrite <- Nat.add_succ_r, !eqb_add_l. reflexivity. Qed.
Lemma Rt_shift a b p q : Rt (shift a b p) (shift a b q) = Rt p q.
Proof. unfold Rt, ceqb, shift. cbn [fst snd]. rewrite <- Nat.add_succ_r, !eqb_add_l. reflexivity. Qed.

Section Shift.
  Variables (a b : nat) (L : list cell).
  Let L' := map (shift a b) L.
  Lemma has_shift p : has L' (shift a b p) = has L p.
  Proof. unfold has, L'. rewrite existsb_map. apply existsb_ext. intros q. apply ceqb_shift. Qed.
  Lemma upN_shift p : upN L' (shift a b p) = upN L p.
  Proof. rewrite !upN_D. unfold L'. rewrite existsb_map. apply existsb_ext. intros q. apply Dn_shift. Qed.
  Lemma downN_shift p : downN L' (shift a b p) = downN L p.
  Proof. unfold downN, L'. rewrite existsb_map. apply existsb_ext. intros q. apply Dn_shift. Qed.
  Lemma leftN_shift p : leftN L' (shift a b p) = leftN L p.
  Proof. rewrite !leftN_R. unfold L'. rewrite existsb_map. apply existsb_ext. intros q. apply Rt_shift. Qed.
  Lemma rightN_shift p : rightN L' (shift a b p) = rightN L p.
  Proof. unfold rightN, L'. rewrite existsb_map. apply existsb_ext. intros q. apply Rt_shift. Qed.
  Lemma nbcount_shift p : nbcount L' (shift a b p) = nbcount L p.
  Proof. unfold nbcount. rewrite upN_shift, downN_shift, leftN_shift, rightN_shift. reflexivity. Qed.
  Lemma straightN_shift p : straightN L' (shift a b p) = straightN L p.
  Proof. unfold straightN. rewrite upN_shift, downN_shift, leftN_shift, rightN_shift. reflexivity. Qed.
  Lemma t_at_shift p : t_at L' (shift a b p) = t_at L p.
  Proof. unfold t_at. rewrite nbcount_shift. reflexivity. Qed.
  Lemma cond_b_shift : cond_b L' = cond_b L.
  Proof. unfold cond_b. fold L'. unfold L' at 2. rewrite forallb_map. apply forallb_ext_in. intros p _. rewrite nbcount_shift. reflexivity. Qed.
  Lemma pairs_n_shift : pairs_n L' = pairs_n L.
  Proof.
    unfold pairs_n. fold L'. unfold L' at 3. rewrite map_map. f_equal. apply map_ext. intros p.
    rewrite downN_shift, rightN_shift. reflexivity.
  Qed.
  Lemma straight_n_shift : straight_n L' = straight_n L.
  Proof.
    unfold straight_n. fold L'. unfold L' at 2. rewrite count_map. apply count_ext_in. intros p _. apply straightN_shift.
  Qed.
End Shift.

Lemma shift_down a b p : (S (fst (shift a b p)), snd (shift a b p)) = shift a b (S (fst p), snd p).
Proof. unfold shift. simpl. rewrite Nat.add_succ_r. reflexivity. Qed.
Lemma shift_right a b p : (fst (shift a b p), S (snd (shift a b p))) = shift a b (fst p, S (snd p)).
Proof. unfold shift. simpl. rewrite Nat.add_succ_r. reflexivity. Qed.

(* a cell with three neighbours in L lies below or to the right of a cell of L *)
Lemma t_at_near L c : t_at L c = true ->
  exists p, In p L /\ (c = (S (fst p), snd p) \/ c = (fst p, S (snd p))).
Proof.
  unfold t_at, nbcount. intros H.
  assert (HU : upN L c = true \/ leftN L c = true).
  { destruct (upN L c), (leftN L c); auto. destruct (downN L c), (rightN L c); simpl in H; discriminate. }
  destruct HU as [HU|HU].
  - rewrite upN_D in HU. apply existsb_exists in HU. destruct HU as [p [Hp E]]. exists p. split; [exact Hp|].
    left. symmetry. apply ceqb_eq. exact E.
  - rewrite leftN_R in HU. apply existsb_exists in HU. destruct HU as [p [Hp E]]. exists p. split; [exact Hp|].
    right. symmetry. apply ceqb_eq. exact E.
Qed.

(* ------------------------------------------------------------------ the table of tetrominoes *)
Definition tet_ok (ts : list cell * nat) : bool :=
  let t := fst ts in let s := snd ts in
  Nat.eqb (length t) 4 &&
  (if Nat.eqb s 4 then negb (Nat.eqb (pairs_n t) 3) && has t (0, 0) && has t (0, 1) && has t (1, 0) && has t (1, 1)
   else
   cond_b t && Nat.eqb (pairs_n t) 3 && Nat.eqb (straight_n t) (ns_of s) && Nat.leb s 3 &&
   Bool.eqb (existsb (t_at t) t) (ht_of s) &&
   forallb (fun p => implb (t_at t (S (fst p), snd p)) (ht_of s) && implb (t_at t (fst p, S (snd p))) (ht_of s)) t).
Lemma tets_check : forallb tet_ok tetrominoes = true.
Proof. vm_compute. reflexivity. Qed.

Lemma tet_ok_in ts : In ts tetrominoes -> tet_ok ts = true.
Proof. intros H. pose proof tets_check as C. rewrite forallb_forall in C. apply C. exact H. Qed.

(* the kind of a translated tetromino *)
Lemma tet_facts a b ts : In ts tetrominoes -> snd ts <> 4 ->
  let L := map (shift a b) (fst ts) in
  length L = 4 /\ cond_b L = true /\ pairs_n L = 3 /\ straight_n L = ns_of (snd ts) /\ snd ts <= 3 /\
  (forall c, t_at L c = true -> ht_of (snd ts) = true) /\
  (ht_of (snd ts) = true -> exists c, In c L /\ t_at L c = true).
Proof.
  intros Hin Hs L. pose proof (tet_ok_in ts Hin) as C. unfold tet_ok in C.
  apply andb_true_iff in C. destruct C as [Cl C]. apply Nat.eqb_eq in Cl.
  revert C. destruct (Nat.eqb_spec (snd ts) 4) as [E|_]; [contradiction|]. intros C.
  apply andb_true_iff in C. destruct C as [C K6]. apply andb_true_iff in C. destruct C as [C K5].
  apply andb_true_iff in C. destruct C as [C K4]. apply andb_true_iff in C. destruct C as [C K3].
  apply andb_true_iff in C. destruct C as [K1 K2].
  split; [unfold L; rewrite map_length; exact Cl|].
  split; [unfold L; rewrite cond_b_shift; exact K1|].
  split; [unfold L; rewrite pairs_n_shift; apply Nat.eqb_eq; exact K2|].
  split; [unfold L; rewrite straight_n_shift; apply Nat.eqb_eq; exact K3|].
  split; [apply Nat.leb_le; exact K4|].
  split.
  - intros c Hc. destruct (t_at_near L c Hc) as [p [Hp Hcp]]. unfold L in Hp. apply in_map_iff in Hp.
    destruct Hp as [q [<- Hq]]. rewrite forallb_forall in K6. specialize (K6 q Hq).
    apply andb_true_iff in K6. destruct K6 as [I1 I2].
    destruct Hcp as [-> | ->].
    + rewrite shift_down in Hc. unfold L in Hc. rewrite t_at_shift in Hc. rewrite Hc in I1. exact I1.
    + rewrite shift_right in Hc. unfold L in Hc. rewrite t_at_shift in Hc. rewrite Hc in I2. exact I2.
  - intros Ht. rewrite Ht in K5. apply eqb_prop in K5. apply existsb_exists in K5. destruct K5 as [q [Hq Tq]].
    exists (shift a b q). split; [unfold L; apply in_map; exact Hq|]. unfold L. rewrite t_at_shift. exact Tq.
Qed.

(* the square *)
Lemma tet_square a b ts : In ts tetrominoes -> snd ts = 4 ->
  let L := map (shift a b) (fst ts) in
  In (a, b) L /\ In (a, S b) L /\ In (S a, b) L /\ In (S a, S b) L.
Proof.
  intros Hin Hs L. pose proof (tet_ok_in ts Hin) as C. unfold tet_ok in C.
  apply andb_true_iff in C. destruct C as [_ C]. rewrite Hs in C. cbn [Nat.eqb] in C.
  apply andb_true_iff in C. destruct C as [C C3]. apply andb_true_iff in C. destruct C as [C C0].
  apply andb_true_iff in C. destruct C as [C C1]. apply andb_true_iff in C. destruct C as [_ C2].
  assert (F : forall u v, has (fst ts) (u, v) = true -> In (a + u, b + v) L).
  { intros u v H. apply has_In in H. unfold L. apply (in_map (shift a b)) in H. exact H. }
  repeat split.
  - replace (a, b) with (a + 0, b + 0) by (f_equal; lia). apply F. exact C2.
  - replace (a, S b) with (a + 0, b + 1) by (f_equal; lia). apply F. exact C1.
  - replace (S a, b) with (a + 1, b + 0) by (f_equal; lia). apply F. exact C0.
  - replace (S a, S b) with (a + 1, b + 1) by (f_equal; lia). apply F. exact C3.
Qed.

(* ------------------------------------------------------------------ shape_of *)
Definition least (l : list nat) : nat := match l with [] => 0 | a :: r => fold_right Nat.min a r end.
Definition norm_cells (cs : list cell) : list cell :=
  let my := least (map fst cs) in let mx := least (map snd cs) in map (fun '(y, x) => (y - my, x - mx)) cs.
Lemma shape_of_unfold cs :
  shape_of cs = match filter (fun '(t, _) => cells_eqb t (norm_cells cs)) tetrominoes with
                | (_, s) :: _ => Some s
                | [] => None
                end.
Proof. reflexivity. Qed.

Lemma least_add a l : l <> [] -> least (map (Nat.add a) l) = a + least l.
Proof.
  destruct l as [|x r]; [contradiction|]. intros _. simpl. revert x.
  induction r as [|y r IH]; intros x; simpl; [reflexivity|]. rewrite IH. apply Nat.add_min_distr_l.
Qed.
Lemma least_le l x : In x l -> least l <= x.
Proof.
  destruct l as [|a r]; [contradiction|]. simpl. revert a.
  induction r as [|y r IH]; intros a H; simpl.
  - destruct H as [->|[]]. lia.
  - destruct H as [->|[->|H]].
    + specialize (IH x (or_introl eq_refl)). lia.
    + lia.
    + specialize (IH a (or_intror H)). lia.
Qed.

Lemma norm_shift a b t : norm_cells (map (shift a b) t) = norm_cells t.
Proof.
  destruct t as [|p r]; [reflexivity|]. set (t := p :: r). assert (Hne : t <> []) by discriminate. clearbody t.
  unfold norm_cells. rewrite !map_map.
  assert (E1 : map (fun x => fst (shift a b x)) t = map (Nat.add a) (map fst t)) by (rewrite map_map; reflexivity).
  assert (E2 : map (fun x => snd (shift a b x)) t = map (Nat.add b) (map snd t)) by (rewrite map_map; reflexivity).
  rewrite E1, E2, !least_add by (destruct t; [contradiction|discriminate]).
  apply map_ext. intros [y x]. unfold shift. simpl. f_equal; lia.
Qed.
Lemma shape_of_shift a b t : shape_of (map (shift a b) t) = shape_of t.
Proof. rewrite !shape_of_unfold, norm_shift. reflexivity. Qed.

Lemma cells_eqb_eq a : forall b, cells_eqb a b = true -> a = b.
Proof.
  induction a as [|[y x] r IH]; intros [|[y' x'] s]; simpl; try discriminate; [reflexivity|].
  intros H. apply andb_true_iff in H. destruct H as [H H3]. apply andb_true_iff in H. destruct H as [H1 H2].
  apply Nat.eqb_eq in H1. apply Nat.eqb_eq in H2. subst. f_equal. apply IH. exact H3.
Qed.

Lemma tets_shape : forallb (fun ts => match shape_of (fst ts) with Some s => Nat.eqb s (snd ts) | None => false end)
                           tetrominoes = true.
Proof. vm_compute. reflexivity. Qed.
Lemma shape_of_tet a b ts : In ts tetrominoes -> shape_of (map (shift a b) (fst ts)) = Some (snd ts).
Proof.
  intros H. rewrite shape_of_shift. pose proof tets_shape as C. rewrite forallb_forall in C. specialize (C ts H).
  destruct (shape_of (fst ts)) as [s|]; [|discriminate]. apply Nat.eqb_eq in C. subst. reflexivity.
Qed.

Lemma norm_restore cs : map (shift (least (map fst cs)) (least (map snd cs))) (norm_cells cs) = cs.
Proof.
  unfold norm_cells. rewrite map_map. etransitivity; [|apply map_id]. apply map_ext_in. intros [y x] Hin.
  unfold shift. simpl.
  pose proof (least_le (map fst cs) y (in_map fst _ _ Hin)).
  pose proof (least_le (map snd cs) x (in_map snd _ _ Hin)). f_equal; lia.
Qed.

Lemma shape_of_inv cs s : shape_of cs = Some s ->
  exists a b ts, In ts tetrominoes /\ snd ts = s /\ cs = map (shift a b) (fst ts).
Proof.
  rewrite shape_of_unfold.
  destruct (filter (fun '(t, _) => cells_eqb t (norm_cells cs)) tetrominoes) as [|[t s'] r] eqn:F; [discriminate|].
  intros H. inversion H; subst s'. clear H.
  assert (Hin : In (t, s) (filter (fun '(t, _) => cells_eqb t (norm_cells cs)) tetrominoes)) by (rewrite F; left; reflexivity).
  apply filter_In in Hin. destruct Hin as [Hin E]. apply cells_eqb_eq in E.
  exists (least (map fst cs)), (least (map snd cs)), (t, s). split; [exact Hin|]. split; [reflexivity|].
  simpl. rewrite E. symmetry. apply norm_restore.
Qed.

(* ------------------------------------------------------------------ row-major order *)
Definition lt_rm (p q : cell) : Prop := fst p < fst q \/ (fst p = fst q /\ snd p < snd q).
Fixpoint sorted_rm (l : list cell) : Prop :=
  match l with [] => True | p :: r => (forall q, In q r -> lt_rm p q) /\ sorted_rm r end.

Lemma sorted_app l1 l2 : sorted_rm l1 -> sorted_rm l2 -> (forall p q, In p l1 -> In q l2 -> lt_rm p q) -> sorted_rm (l1 ++ l2).
Proof.
  induction l1 as [|a r IH]; simpl; intros H1 H2 H; [exact H2|]. destruct H1 as [Ha Hr]. split.
  - intros q Hq. apply in_app_iff in Hq. destruct Hq as [Hq|Hq]; [apply Ha; exact Hq|apply H; [left; reflexivity|exact Hq]].
  - apply IH; [exact Hr|exact H2|]. intros p q Hp Hq. apply H; [right; exact Hp|exact Hq].
Qed.
Lemma sorted_filter (f : cell -> bool) l : sorted_rm l -> sorted_rm (filter f l).
Proof.
  induction l as [|a r IH]; simpl; intros H; [exact I|]. destruct H as [Ha Hr].
  destruct (f a); simpl; [|apply IH; exact Hr]. split; [|apply IH; exact Hr].
  intros q Hq. apply filter_In in Hq. apply Ha. apply Hq.
Qed.
Lemma sorted_row y w : forall a, sorted_rm (map (fun x => (y, x)) (seq a w)).
Proof.
  induction w as [|w IH]; intros a; simpl; [exact I|]. split; [|apply IH].
  intros q Hq. apply in_map_iff in Hq. destruct Hq as [x [<- Hx]]. apply in_seq in Hx. right. simpl. lia.
Qed.
Lemma sorted_cells_from w h : forall a, sorted_rm (flat_map (fun y => map (fun x => (y, x)) (seq 0 w)) (seq a h)).
Proof.
  induction h as [|h IH]; intros a; simpl; [exact I|]. apply sorted_app; [apply sorted_row|apply IH|].
  intros p q Hp Hq. apply in_map_iff in Hp. destruct Hp as [x [<- _]].
  apply in_flat_map in Hq. destruct Hq as [y [Hy Hq]]. apply in_map_iff in Hq. destruct Hq as [x' [<- _]].
  apply in_seq in Hy. left. simpl. lia.
Qed.
Lemma sorted_cells h w : sorted_rm (cells h w).
Proof. apply sorted_cells_from. Qed.
