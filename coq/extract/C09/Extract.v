(* deps (scanned by harness/vlib.py::build_runner): Cspuz.Lib.PyErr Cspuz.Core.Expr Cspuz.Core.Program Cspuz.Core.Build Cspuz.Graph.GraphModel Cspuz.Graph.Acyclic *)
Require Extraction.
Require Import ExtrOcamlBasic.
From Coq Require Import ZArith List.
From Cspuz Require Import Lib.PyErr Core.Expr Core.Program Core.Build Graph.GraphModel Graph.Acyclic.
Extraction "model.ml" Z.add Nat.add pyerr_code post_acyclic cert_acyclic ranks_in_range forest_b uf_forest
  order_rank discovery_order.
