(* C06 -- Graph.line_graph: the flagged vertices of the line graph are connected
   iff the flagged edges of the graph are edge-connected.  The model lists the
   Python set of pairs in a canonical order; everything here is about
   membership only. *)
From Coq Require Import List Bool Arith Lia.
From Cspuz Require Import Graph.GraphModel Graph.ReachProofs Graph.Cycle Graph.CycleLemmas Graph.CycleCert.
Import ListNotations.
Open Scope nat_scope.

(* ------------------------------------------------------------------------ *)
(* the set of pairs                                                          *)

Lemma pair_eqb_eq p q : pair_eqb p q = true -> p = q.
Proof.
  destruct p as [a b], q as [c d]. unfold pair_eqb. simpl. rewrite andb_true_iff.
  intros [H1 H2]. apply Nat.eqb_eq in H1. apply Nat.eqb_eq in H2. subst. reflexivity.
Qed.

Lemma set_insert_In p l q : In q (set_insert p l) <-> q = p \/ In q l.
Proof.
  induction l as [|x l IH]; simpl.
  - split; [intros [H|[]]; left; symmetry; exact H|intros [H|[]]; left; symmetry; exact H].
  - destruct (pair_eqb p x) eqn:He.
    + apply pair_eqb_eq in He. subst x. simpl. split; [intros H; right; exact H|].
      intros [H|H]; [left; symmetry; exact H|exact H].
    + destruct (pair_ltb p x); simpl.
      * split; [intros [H|H]; [left; symmetry; exact H|right; exact H]|].
        intros [H|H]; [left; symmetry; exact H|right; exact H].
      * rewrite IH. tauto.
Qed.

Lemma to_set_In l q : In q (to_set l) <-> In q l.
Proof.
  unfold to_set.
  assert (H : forall acc, In q (fold_left (fun acc p => set_insert p acc) l acc) <-> In q l \/ In q acc).
  { induction l as [|x l IH]; intros acc; simpl.
    - tauto.
    - rewrite IH, set_insert_In. split; [intros [H|[H|H]]|intros [[H|H]|H]]; auto. }
  rewrite H. simpl. tauto.
Qed.

Definition norm_pair (a b : nat) : nat * nat := if a <? b then (a, b) else (b, a).

Lemma norm_pair_sym a b : a <> b -> norm_pair a b = norm_pair b a.
Proof.
  intros H. unfold norm_pair. destruct (Nat.ltb_spec a b), (Nat.ltb_spec b a); try reflexivity; lia.
Qed.

Lemma lg_pairs_go_sound prev rest p :
  In p (lg_pairs_go prev rest) ->
  exists x y, In x (prev ++ rest) /\ In y (prev ++ rest) /\ (p = (x, y) \/ p = (y, x)).
Proof.
  revert prev. induction rest as [|x r IH]; intros prev; simpl; [intros []|].
  rewrite in_app_iff. intros [H|H].
  - apply in_map_iff in H. destruct H as [y [Hp Hy]].
    exists x, y. split; [apply in_or_app; right; left; reflexivity|].
    split; [apply in_or_app; left; exact Hy|].
    destruct (x <? y); [left|right]; symmetry; exact Hp.
  - destruct (IH _ H) as [a [b [Ha [Hb Hp]]]]. rewrite <- app_assoc in Ha, Hb. simpl in Ha, Hb.
    exists a, b. auto.
Qed.

Lemma lg_pairs_go_complete prev rest a b :
  a <> b ->
  (In a prev /\ In b rest) \/ (In b prev /\ In a rest) \/ (In a rest /\ In b rest) ->
  In (norm_pair a b) (lg_pairs_go prev rest).
Proof.
  intros Hab. revert prev. induction rest as [|x r IH]; intros prev H; simpl.
  - simpl in H. exfalso. tauto.
  - apply in_or_app.
    destruct H as [[Ha [Hb|Hb]]|[[Hb [Ha|Ha]]|[[Ha|Ha] [Hb|Hb]]]].
    + subst x. left. apply in_map_iff. exists a. split; [|exact Ha].
      fold (norm_pair b a). symmetry. apply norm_pair_sym. exact Hab.
    + right. apply IH. left. split; [apply in_or_app; left; exact Ha|exact Hb].
    + subst x. left. apply in_map_iff. exists b. split; [|exact Hb]. reflexivity.
    + right. apply IH. right; left. split; [apply in_or_app; left; exact Hb|exact Ha].
    + congruence.
    + subst x. right. apply IH. left. split; [apply in_or_app; right; left; reflexivity|exact Hb].
    + subst x. right. apply IH. right; left. split; [apply in_or_app; right; left; reflexivity|exact Ha].
    + right. apply IH. right; right. split; assumption.
Qed.

(* ------------------------------------------------------------------------ *)
(* adjacency in the line graph                                               *)

Lemma lg_nbrs g e f :
  In f (nbrs (line_graph g) all_edges_ok e) <-> In (e, f) (lg_pairs g) \/ In (f, e) (lg_pairs g).
Proof.
  rewrite nbrs_spec. unfold line_graph. simpl. split.
  - intros [k [_ [H|H]]]; apply nth_error_In in H; apply (proj1 (to_set_In _ _)) in H; auto.
  - intros [H|H]; apply (proj2 (to_set_In _ _)) in H; apply In_nth_error in H; destruct H as [k Hk];
      exists k; (split; [reflexivity|]); auto.
Qed.

Lemma lg_adj_intro g v w1 w2 e f :
  v < nv g -> In (w1, e) (incident g v) -> In (w2, f) (incident g v) -> e <> f ->
  In f (nbrs (line_graph g) all_edges_ok e).
Proof.
  intros Hv He Hf Hne. apply lg_nbrs.
  assert (Hin : In (norm_pair e f) (lg_pairs g)).
  { unfold lg_pairs. apply in_flat_map. exists v. split; [apply in_seq; lia|].
    apply lg_pairs_go_complete; [exact Hne|]. right; right.
    split; apply in_map_iff; [exists (w1, e)|exists (w2, f)]; auto. }
  unfold norm_pair in Hin. destruct (e <? f); auto.
Qed.

Lemma lg_adj_elim g e f :
  In f (nbrs (line_graph g) all_edges_ok e) ->
  exists v w1 w2, v < nv g /\ In (w1, e) (incident g v) /\ In (w2, f) (incident g v).
Proof.
  intros H. apply lg_nbrs in H.
  assert (Hex : exists p, (p = (e, f) \/ p = (f, e)) /\ In p (lg_pairs g)).
  { destruct H as [H|H]; eexists; split; try exact H; auto. }
  destruct Hex as [p [Hp Hin]]. unfold lg_pairs in Hin. apply in_flat_map in Hin.
  destruct Hin as [v [Hv Hin]]. apply in_seq in Hv.
  destruct (lg_pairs_go_sound _ _ _ Hin) as [x [y [Hx [Hy Hxy]]]]. simpl in Hx, Hy.
  apply in_map_iff in Hx. destruct Hx as [[wx x'] [Ex Hx]]. simpl in Ex. subst x'.
  apply in_map_iff in Hy. destruct Hy as [[wy y'] [Ey Hy]]. simpl in Ey. subst y'.
  assert (Hc : (x = e /\ y = f) \/ (x = f /\ y = e)).
  { destruct Hp as [->| ->], Hxy as [Hxy|Hxy]; inversion Hxy; auto. }
  destruct Hc as [[-> ->]|[-> ->]].
  - exists v, wx, wy. split; [lia|]. split; assumption.
  - exists v, wy, wx. split; [lia|]. split; assumption.
Qed.

Lemma line_graph_wf g : wf_graph (line_graph g) = true.
Proof.
  unfold wf_graph. apply forallb_forall. intros [a b] Hin. simpl in Hin.
  apply (proj1 (to_set_In _ _)) in Hin. unfold lg_pairs in Hin. apply in_flat_map in Hin.
  destruct Hin as [v [_ Hin]].
  destruct (lg_pairs_go_sound _ _ _ Hin) as [x [y [Hx [Hy Hxy]]]]. simpl in Hx, Hy.
  apply in_map_iff in Hx. destruct Hx as [[wx x'] [Ex Hx]]. simpl in Ex. subst x'.
  apply in_map_iff in Hy. destruct Hy as [[wy y'] [Ey Hy]]. simpl in Ey. subst y'.
  apply incident_edge_lt in Hx. apply incident_edge_lt in Hy. simpl.
  apply andb_true_iff. split; apply Nat.ltb_lt; destruct Hxy as [H|H]; inversion H; subst; assumption.
Qed.

(* ------------------------------------------------------------------------ *)
(* walks                                                                     *)

(* two endpoints of one active edge are joined *)
Lemma same_edge_reach g A x y w w' e :
  In (w, e) (incident g x) -> In (w', e) (incident g y) -> A e = true ->
  reach g all_vertices_ok A x y.
Proof.
  intros Hx Hy Ha.
  assert (Hc : x = y \/ In (y, e) (incident g x)).
  { apply incident_spec in Hx. apply incident_spec in Hy.
    destruct Hx as [Hx|Hx], Hy as [Hy|Hy]; rewrite Hx in Hy; inversion Hy; subst; auto;
      right; apply incident_spec; auto. }
  destruct Hc as [->|Hin].
  - apply reach_refl. reflexivity.
  - eapply reach_step; [apply reach_refl; reflexivity| |reflexivity].
    apply nbrs_incident. exists e. split; assumption.
Qed.

Lemma lg_walk_to_g g A e f :
  reach (line_graph g) A all_edges_ok e f ->
  forall x y w w', In (w, e) (incident g x) -> In (w', f) (incident g y) ->
                   reach g all_vertices_ok A x y.
Proof.
  induction 1 as [e He|e f' f Hr IH Hn Hf]; intros x y w w' Hx Hy.
  - eapply same_edge_reach; eassumption.
  - destruct (lg_adj_elim g f' f Hn) as [v [w1 [w2 [_ [H1 H2]]]]].
    apply reach_trans with v.
    + eapply IH; eassumption.
    + eapply same_edge_reach; eassumption.
Qed.

Lemma g_walk_to_lg g A a x :
  wf_graph g = true ->
  reach g all_vertices_ok A a x ->
  forall e f w w', In (w, e) (incident g a) -> A e = true ->
                   In (w', f) (incident g x) -> A f = true ->
                   reach (line_graph g) A all_edges_ok e f.
Proof.
  intros Hwf. induction 1 as [a _|a x z Hr IH Hn _]; intros e f w w' He Hae Hf Haf.
  - destruct (Nat.eq_dec e f) as [->|Hne]; [apply reach_refl; exact Hae|].
    eapply reach_step; [apply reach_refl; exact Hae| |exact Haf].
    destruct (incident_vertex_lt g a w e Hwf He) as [Ha _].
    eapply lg_adj_intro; eassumption.
  - apply nbrs_incident in Hn. destruct Hn as [k [Hak Hk]].
    assert (Hrk : reach (line_graph g) A all_edges_ok e k) by (eapply IH; eassumption).
    destruct (Nat.eq_dec k f) as [->|Hne]; [exact Hrk|].
    eapply reach_step; [exact Hrk| |exact Haf].
    destruct (incident_vertex_lt g x z k Hwf Hk) as [_ Hz].
    apply (lg_adj_intro g z x w' k f Hz); [apply incident_sym; exact Hk|exact Hf|exact Hne].
Qed.

Theorem line_graph_connected g A :
  wf_graph g = true ->
  (connected (line_graph g) A <-> edge_connected g A).
Proof.
  intros Hwf. split.
  - intros Hc u v Hu Hv Hdu Hdv.
    destruct (degree_pos_elim g A u Hdu) as [w [k [Hk Hak]]].
    destruct (degree_pos_elim g A v Hdv) as [w' [k' [Hk' Hak']]].
    apply (lg_walk_to_g g A k k') with (w := w) (w' := w'); [|assumption|assumption].
    apply Hc; try assumption; simpl; eapply incident_edge_lt; eassumption.
  - intros Hc e f He Hf Hae Haf. simpl in He, Hf.
    destruct (nth_error (edges g) e) as [[a b]|] eqn:Ee; [|apply nth_error_None in Ee; lia].
    destruct (nth_error (edges g) f) as [[c d]|] eqn:Ef; [|apply nth_error_None in Ef; lia].
    destruct (wf_graph_edge g e a b Hwf Ee) as [Ha _].
    destruct (wf_graph_edge g f c d Hwf Ef) as [Hcv _].
    assert (Hia : In (b, e) (incident g a)) by (apply incident_spec; left; exact Ee).
    assert (Hic : In (d, f) (incident g c)) by (apply incident_spec; left; exact Ef).
    apply (g_walk_to_lg g A a c Hwf) with (w := b) (w' := d); try assumption.
    apply Hc; try assumption.
    + eapply degree_pos_intro; eassumption.
    + eapply degree_pos_intro; eassumption.
Qed.
