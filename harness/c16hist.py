"""Helpers of the C16 hardening round: object identity, call histories and one-shot iterables.

fresh(x)      deep copy in which every int / str / tuple / list is a newly created object
              (ints outside CPython's small-int cache are distinct objects from any constant in
              the code under test; strings of length >= 2 are not interned) -- a `==` turned into
              `is` in the code under test is then visible.
snapshot(x)   deep copy used as the reference value of an argument BEFORE a call.
same(a, b)    strict structural equality (types of containers included).
Calls         runs a function several times on the SAME argument objects and reports
              (first result, later results, arguments changed?).
forms_*       alternative container forms of one problem (tuples, generators, iterators, map,
              reversed, nested one-shot objects) as zero-argument factories: a one-shot object
              can be consumed only once, so every call needs a newly made one.
"""
import copy


def fresh(x):
    if x is None or isinstance(x, bool):
        return x
    if isinstance(x, int):
        return int(str(x))
    if isinstance(x, str):
        return "".join(list(x)) if len(x) > 1 else x
    if isinstance(x, list):
        return [fresh(v) for v in x]
    if isinstance(x, tuple):
        return tuple([fresh(v) for v in x])
    return copy.deepcopy(x)


def snapshot(x):
    return copy.deepcopy(x)


def same(a, b):
    if type(a) is not type(b):
        return False
    if isinstance(a, (list, tuple)):
        return len(a) == len(b) and all(same(x, y) for x, y in zip(a, b))
    return a == b


def list_ids(x, acc=None):
    """ids of all list objects nested in x (aliasing check of decoded problems)"""
    if acc is None:
        acc = []
    if isinstance(x, list):
        acc.append(id(x))
    if isinstance(x, (list, tuple)):
        for v in x:
            list_ids(v, acc)
    return acc


def aliased(x):
    ids = list_ids(x)
    return len(ids) != len(set(ids))


def scramble(x):
    """destroy a returned value in place (every nested list is emptied after its items are scrambled)"""
    if isinstance(x, (list, tuple)):
        for v in x:
            scramble(v)
    if isinstance(x, list):
        del x[:]


# ---------------------------------------------------------------- alternative container forms

def gen(xs):
    return (x for x in xs)


def forms_grid(g):
    """grid problems: the wrappers take len(problem), len(problem[0]); rows may be tuples"""
    return [("rows-as-tuples", lambda: [tuple(r) for r in g]),
            ("mixed-rows", lambda: [tuple(r) if i % 2 else list(r) for i, r in enumerate(g)])]


def forms_pairs(rooms, clues):
    """heyawake (rooms, clues): the two sequences are only zipped, so any iterable is accepted; a
    room itself must be a list of tuples.  The last forms list the rooms in another order: the
    URL does not depend on the order in which the caller lists the rooms."""
    n = len(rooms)
    rev = list(range(n - 1, -1, -1))
    rot = list(range(n // 2, n)) + list(range(n // 2))
    return [
        ("tuples", lambda: (tuple(rooms), tuple(clues))),
        ("generators", lambda: (gen(rooms), gen(clues))),
        ("iter+map", lambda: (iter(rooms), map(int, clues))),
        ("list+generator", lambda: (list(rooms), gen(clues))),
        ("reversed", lambda: (reversed(rooms), reversed(clues))),
        ("reversed-lists", lambda: ([rooms[i] for i in rev], [clues[i] for i in rev])),
        ("rotated-zip", lambda: tuple(zip(*[(rooms[i], clues[i]) for i in rot])) if n else ([], [])),
    ]


def forms_rect(rect):
    return [
        ("list", lambda: list(rect)),
        ("tuple", lambda: tuple(rect)),
        ("generator", lambda: gen(rect)),
        ("iter", lambda: iter(rect)),
        ("map-lists", lambda: map(list, rect)),
        ("reversed", lambda: reversed(rect)),
        ("generator-of-generators", lambda: (gen(r) for r in rect)),
    ]


def forms_compass(pos):
    return [
        ("tuple", lambda: tuple(pos)),
        ("generator", lambda: gen(pos)),
        ("iter", lambda: iter(pos)),
        ("clues-as-lists", lambda: [list(c) for c in pos]),
        ("map-lists", lambda: map(list, pos)),
        ("reversed", lambda: reversed(pos)),
        ("generators-in-list", lambda: [gen(c) for c in pos]),
        ("zip", lambda: zip(*[[c[i] for c in pos] for i in range(6)]) if pos else iter(())),
    ]


def forms_aquarium(blocks, rows, cols):
    return [
        ("tuples", lambda: (tuple(tuple(b) for b in blocks), tuple(rows), tuple(cols))),
        ("generator-blocks", lambda: (gen(blocks), list(rows), list(cols))),
        ("generators-nested", lambda: ((gen(b) for b in blocks), list(rows), list(cols))),
        ("cells-as-lists", lambda: ([[list(c) for c in b] for b in blocks], list(rows), list(cols))),
        ("iter-in-list", lambda: ([iter(b) for b in blocks], list(rows), list(cols))),
    ]


def forms_ids(ids):
    return [("tuple-rows", lambda: [tuple(r) for r in ids]),
            ("tuple-of-tuples", lambda: tuple(tuple(r) for r in ids)),
            ("tuple-of-lists", lambda: tuple(list(r) for r in ids))]
