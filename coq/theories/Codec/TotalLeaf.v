(* C17: totality of the leaf combinators' decoders and of the generic loops (OneOf, Tupl, Seq, Grid). *)
From Coq Require Import ZArith List Ascii Bool NArith Lia.
From Cspuz Require Import Lib.PyErr Codec.Comb Codec.TotalModel.
Import ListNotations.
Local Open Scope Z_scope.

(* ------------------------------------------------------------------ what is proved of every decoder *)
(* [dec] never fails with anything but ValueError, never reports more characters than there
   are, is productive when [prod], returns one item when [sing], and its items satisfy Q *)
Definition gooddec (dec : str -> dres) (prod sing : bool) (Q : pv -> Prop) : Prop :=
  forall s, safe (dec s) /\
    forall k l, dec s = Ok (Some (k, l)) ->
      (k <= length s)%nat /\
      (prod = true -> (0 < k)%nat \/ l <> []) /\
      (sing = true -> length l = 1%nat) /\
      Forall Q l.

Definition anyv (_ : pv) : Prop := True.

Lemma Forall_anyv l : Forall anyv l.
Proof. induction l; constructor; unfold anyv; auto. Qed.

Definition good (e : env) (c : comb) : Prop := gooddec (de e c) (productive c) (single c) anyv.

Lemma safe_ok {A} (a : A) : safe (Ok a).
Proof. exact I. Qed.

Lemma safe_value_error {A} : safe (@Err A ValueError).
Proof. reflexivity. Qed.

(* ------------------------------------------------------------------ int() only ever raises ValueError *)
Lemma py_int_safe s b : safe (py_int s b).
Proof.
  unfold py_int, int_body.
  destruct (int_prefix b (snd (int_sign (rstrip (lstrip s))))) as [|c t]; [reflexivity|].
  destruct (ascii_eqb c "_"%char); [reflexivity|].
  destruct (parse_digits b (c :: t) false 0); [exact I|reflexivity].
Qed.

Lemma is_prefix_length a : forall s, is_prefix a s = true -> (length a <= length s)%nat.
Proof.
  induction a as [|x a IH]; intros [|y s] H; simpl in *; try lia; try discriminate.
  apply andb_true_iff in H as [_ H]. apply IH in H. lia.
Qed.

(* ------------------------------------------------------------------ leaves *)
Ltac split_good := intros s; split; [|intros k l Hk].

Lemma fixstr_good t Q : gooddec (fixstr_de t) (match t with [] => false | _ => true end) false Q.
Proof.
  split_good; unfold fixstr_de in *.
  - destruct (Nat.ltb (length s) (length t)); [exact I|].
    destruct (str_eqb (firstn (length t) s) t); exact I.
  - destruct (Nat.ltb (length s) (length t)) eqn:E; [discriminate|].
    destruct (str_eqb (firstn (length t) s) t); [|discriminate].
    inversion Hk; subst. apply Nat.ltb_ge in E.
    repeat split; auto; try discriminate.
    intros Hp. left. destruct t; [discriminate|simpl; lia].
Qed.

Lemma dict_de_good s : forall before after, length before = length after ->
  safe (dict_de s before after) /\
  forall k l, dict_de s before after = Ok (Some (k, l)) -> (k <= length s)%nat /\ length l = 1%nat.
Proof.
  induction before as [|b before IH]; intros [|a after] Hl; simpl in *; try discriminate.
  - split; [exact I|discriminate].
  - destruct (is_prefix a s) eqn:E.
    + split; [exact I|]. intros k l H. inversion H; subst. split; auto. apply is_prefix_length; auto.
    + apply IH. lia.
Qed.

Lemma dict_good before after : Nat.eqb (length before) (length after) = true ->
  gooddec (dict_de_at before after) true true anyv.
Proof.
  intros Hl. apply Nat.eqb_eq in Hl. split_good; unfold dict_de_at in *.
  - destruct s; [exact I|]. apply dict_de_good; auto.
  - destruct s as [|c s]; [discriminate|].
    destruct (dict_de_good (c :: s) before after Hl) as [_ H]. destruct (H k l Hk) as [H1 H2].
    repeat split; auto using Forall_anyv. intros _. right. destruct l; [discriminate|congruence].
Qed.

Lemma repeat_nonempty {A} (x : A) n : (0 < n)%nat -> repeat x n <> [].
Proof. destruct n; [lia|simpl; congruence]. Qed.

Lemma spaces_good sp sm : gooddec (spaces_de sp sm) true false anyv.
Proof.
  split_good; unfold spaces_de in *; destruct s as [|c s]; try exact I; try discriminate.
  - destruct (negb (is_alnum_lower [c])); [exact I|].
    unfold from_base36. pose proof (py_int_safe [c] 36) as Hs. destruct (py_int [c] 36); [|exact Hs].
    destruct (spaces_offset sm <? a); exact I.
  - destruct (negb (is_alnum_lower [c])); [discriminate|].
    unfold from_base36 in Hk. destruct (py_int [c] 36); [|discriminate].
    destruct (spaces_offset sm <? a) eqn:E; [|discriminate]. inversion Hk; subst.
    repeat split; simpl; auto using Forall_anyv; try lia; try discriminate.
Qed.

Lemma span_digits_le s : (span_digits s <= length s)%nat.
Proof. induction s as [|c s IH]; simpl; [lia|]. destruct (isdigit_c c); simpl; lia. Qed.

Lemma decint_good : gooddec decint_de true true (fun v => is_int v = true).
Proof.
  split_good; unfold decint_de in *; destruct s as [|c s]; try exact I; try discriminate.
  - destruct (span_digits (c :: s)); [exact I|].
    pose proof (py_int_safe (firstn (S n) (c :: s)) 10) as Hs.
    destruct (py_int (firstn (S n) (c :: s)) 10); [exact I|exact Hs].
  - destruct (span_digits (c :: s)) eqn:E; [discriminate|].
    destruct (py_int (firstn (S n) (c :: s)) 10); [|discriminate]. inversion Hk; subst.
    pose proof (span_digits_le (c :: s)). rewrite E in H.
    repeat split; auto; try lia; try (intros _; right; discriminate).
Qed.

Lemma hexint_good : gooddec hexint_de true true (fun v => is_int v = true).
Proof.
  split_good; unfold hexint_de in *; destruct s as [|c s]; try exact I; try discriminate.
  - unfold from_base16.
    destruct (ascii_eqb c "-"%char).
    { destruct (Nat.ltb (length (c :: s)) 3); [exact I|].
      destruct (negb (is_hex (firstn 2 s))); [exact I|].
      pose proof (py_int_safe (firstn 2 s) 16) as Hs. destruct (py_int (firstn 2 s) 16); [exact I|exact Hs]. }
    destruct (ascii_eqb c "+"%char).
    { destruct (Nat.ltb (length (c :: s)) 4); [exact I|].
      destruct (negb (is_hex (firstn 3 s))); [exact I|].
      pose proof (py_int_safe (firstn 3 s) 16) as Hs. destruct (py_int (firstn 3 s) 16); [exact I|exact Hs]. }
    destruct (is_hex [c]); [|exact I].
    pose proof (py_int_safe [c] 16) as Hs. destruct (py_int [c] 16); [exact I|exact Hs].
  - unfold from_base16 in Hk.
    destruct (ascii_eqb c "-"%char).
    { destruct (Nat.ltb (length (c :: s)) 3) eqn:E; [discriminate|].
      destruct (negb (is_hex (firstn 2 s))); [discriminate|].
      destruct (py_int (firstn 2 s) 16); [|discriminate]. inversion Hk; subst.
      apply Nat.ltb_ge in E. repeat split; auto; try (intros _; right; discriminate). }
    destruct (ascii_eqb c "+"%char).
    { destruct (Nat.ltb (length (c :: s)) 4) eqn:E; [discriminate|].
      destruct (negb (is_hex (firstn 3 s))); [discriminate|].
      destruct (py_int (firstn 3 s) 16); [|discriminate]. inversion Hk; subst.
      apply Nat.ltb_ge in E. repeat split; auto; try (intros _; right; discriminate). }
    destruct (is_hex [c]); [|discriminate].
    destruct (py_int [c] 16); [|discriminate]. inversion Hk; subst.
    repeat split; simpl; auto; try lia; try (intros _; right; discriminate).
Qed.

Lemma intspaces_good sp mi ms : gooddec (intspaces_de sp mi ms) true false anyv.
Proof.
  split_good; unfold intspaces_de in *; destruct s as [|c s]; try exact I; try discriminate.
  - destruct (negb (is_alnum_lower [c])); [exact I|].
    unfold from_base36. pose proof (py_int_safe [c] 36) as Hs. destruct (py_int [c] 36); [|exact Hs].
    destruct (negb ((0 <=? a) && (a <? (mi + 1) * (ms + 1)))); exact I.
  - destruct (negb (is_alnum_lower [c])); [discriminate|].
    unfold from_base36 in Hk. destruct (py_int [c] 36); [|discriminate].
    destruct (negb ((0 <=? a) && (a <? (mi + 1) * (ms + 1)))); [discriminate|]. inversion Hk; subst.
    repeat split; simpl; auto using Forall_anyv; try lia; try discriminate.
Qed.

Lemma md_unpack_ints b : forall d v acc, Forall (fun v => is_int v = true) acc ->
  Forall (fun v => is_int v = true) (md_unpack b d v acc).
Proof. induction d; simpl; intros; auto. Qed.

Lemma md_good b d : gooddec (md_de b d) true false (fun v => is_int v = true).
Proof.
  split_good; unfold md_de in *; destruct s as [|c s]; try exact I; try discriminate.
  - destruct (negb (is_alnum_lower [c])); [exact I|].
    unfold from_base36. pose proof (py_int_safe [c] 36) as Hs. destruct (py_int [c] 36); [|exact Hs].
    destruct (negb ((0 <=? a) && (a <? b ^ Z.of_nat d))); exact I.
  - destruct (negb (is_alnum_lower [c])); [discriminate|].
    unfold from_base36 in Hk. destruct (py_int [c] 36); [|discriminate].
    destruct (negb ((0 <=? a) && (a <? b ^ Z.of_nat d))); [discriminate|]. inversion Hk; subst.
    repeat split; simpl; auto; try lia; try discriminate. apply md_unpack_ints. constructor.
Qed.

Lemma gooddec_weaken dec p sg (Q Q' : pv -> Prop) : (forall v, Q v -> Q' v) ->
  gooddec dec p sg Q -> gooddec dec p sg Q'.
Proof.
  intros HQ H s. destruct (H s) as [H1 H2]. split; auto.
  intros k l Hk. destruct (H2 k l Hk) as (A & B & C & D). repeat split; auto.
  eapply Forall_impl; eauto.
Qed.

(* ------------------------------------------------------------------ OneOf *)
Fixpoint oneof_deT (e : env) (s : str) (l : list comb) : dres :=
  match l with
  | [] => Ok None
  | c1 :: l' => match de e c1 s with
                | Err e' => Err e'
                | Ok (Some r) => Ok (Some r)
                | Ok None => oneof_deT e s l'
                end
  end.

Lemma de_oneofT e l s : de e (OneOf l) s = oneof_deT e s l.
Proof. simpl. induction l as [|c1 l IH]; simpl; auto. destruct (de e c1 s) as [[r|]|]; auto. Qed.

Lemma oneof_good e l : Forall (good e) l -> good e (OneOf l).
Proof.
  intros HF. unfold good. intros s. rewrite de_oneofT.
  induction HF as [|c1 l H1 HF IH]; simpl.
  - split; [exact I|discriminate].
  - destruct (H1 s) as [Hs Hr]. destruct (de e c1 s) as [[[k0 l0]|]|] eqn:E.
    + split; [exact I|]. intros k l' Hk. inversion Hk; subst.
      destruct (Hr k l' eq_refl) as (A & B & C & D). repeat split; auto.
      * intros Hp. apply andb_true_iff in Hp as [Hp _]. auto.
      * intros Hp. apply andb_true_iff in Hp as [Hp _]. auto.
    + destruct IH as [IH1 IH2]. split; auto. intros k l' Hk.
      destruct (IH2 k l' Hk) as (A & B & C & D). repeat split; auto.
      * intros Hp. apply andb_true_iff in Hp as [_ Hp]. auto.
      * intros Hp. apply andb_true_iff in Hp as [_ Hp]. auto.
    + split; [exact Hs|discriminate].
Qed.

(* ------------------------------------------------------------------ Tupl *)
Fixpoint tupl_deT (e : env) (l : list comb) (s' : str) (ofs : nat) (parts : list pv) : dres :=
  match l with
  | [] => Ok (Some (ofs, [VTup parts]))
  | c1 :: l' =>
      match de e c1 s' with
      | Err e' => Err e'
      | Ok None => Ok None
      | Ok (Some (n_read, val)) => tupl_deT e l' (skipn n_read s') (ofs + n_read)%nat (parts ++ [VList val])
      end
  end.

Lemma tupl_fix_eq e l : forall s ofs parts,
  (fix tupl (l : list comb) (s' : str) (ofs : nat) (parts : list pv) : dres :=
     match l with
     | [] => Ok (Some (ofs, [VTup parts]))
     | c1 :: l' =>
         match de e c1 s' with
         | Err e' => Err e'
         | Ok None => Ok None
         | Ok (Some (n_read, val)) => tupl l' (skipn n_read s') (ofs + n_read)%nat (parts ++ [VList val])
         end
     end) l s ofs parts = tupl_deT e l s ofs parts.
Proof.
  induction l as [|c1 l IH]; intros s ofs parts; [reflexivity|].
  cbn [tupl_deT]. destruct (de e c1 s) as [[[k v]|]|]; auto.
Qed.

Lemma de_tuplT e l s : de e (Tupl l) s = tupl_deT e l s 0%nat [].
Proof. simpl. apply tupl_fix_eq. Qed.

Lemma tupl_loop_good e l : Forall (good e) l -> forall s ofs parts,
  safe (tupl_deT e l s ofs parts) /\
  forall k r, tupl_deT e l s ofs parts = Ok (Some (k, r)) -> (k <= ofs + length s)%nat /\ length r = 1%nat.
Proof.
  intros HF; induction HF as [|c1 l H1 HF IH]; intros s ofs parts; simpl.
  - split; [exact I|]. intros k r H. inversion H; subst. split; simpl; lia.
  - destruct (H1 s) as [Hs Hr]. destruct (de e c1 s) as [[[k0 l0]|]|] eqn:E.
    + destruct (Hr k0 l0 eq_refl) as (A & _).
      destruct (IH (skipn k0 s) (ofs + k0)%nat (parts ++ [VList l0])) as [I1 I2]. split; auto.
      intros k r Hk. destruct (I2 k r Hk) as [B C]. split; auto.
      rewrite skipn_length in B. lia.
    + split; [exact I|discriminate].
    + split; [exact Hs|discriminate].
Qed.

Lemma tupl_good e l : Forall (good e) l -> good e (Tupl l).
Proof.
  intros HF s. rewrite de_tuplT. destruct (tupl_loop_good e l HF s 0%nat []) as [H1 H2].
  split; auto. intros k r Hk. destruct (H2 k r Hk) as [A B].
  repeat split; auto using Forall_anyv; try lia. intros _. right. destruct r; [discriminate|congruence].
Qed.

(* ------------------------------------------------------------------ Seq *)
Lemma Forall_firstn {A} (P : A -> Prop) n : forall l, Forall P l -> Forall P (firstn n l).
Proof. induction n; intros [|x l] H; simpl; auto. inversion H; subst. constructor; auto. Qed.

Section SeqLoop.
  Variable dec : str -> dres.
  Variable sg : bool.
  Variable Q : pv -> Prop.
  Hypothesis Hdec : gooddec dec true sg Q.
  Variable n : Z.

  Lemma seq_loop_good : forall fuel s n_read ret,
    (length s + Z.to_nat (n - Z.of_nat (length ret)) < fuel)%nat -> Forall Q ret ->
    safe (seq_de_loop dec n fuel s n_read ret) /\
    forall k r, seq_de_loop dec n fuel s n_read ret = Ok (Some (k, r)) ->
      (k <= n_read + length s)%nat /\ n <= Z.of_nat (length r) /\ Forall Q r.
  Proof.
    induction fuel as [|f IH]; intros s n_read ret Hm HQ; [lia|].
    cbn [seq_de_loop]. destruct (Z.ltb_spec (Z.of_nat (length ret)) n) as [Hlt|Hge].
    2:{ split; [exact I|]. intros k r H. inversion H; subst. repeat split; auto; lia. }
    destruct (Hdec s) as [Hs Hr]. destruct (dec s) as [[[ofs d]|]|] eqn:E.
    - destruct (Hr ofs d eq_refl) as (A & B & _ & D). specialize (B eq_refl).
      assert (Hstep : safe (seq_de_loop dec n f (skipn ofs s) (n_read + ofs) (ret ++ d)) /\
                forall k r, seq_de_loop dec n f (skipn ofs s) (n_read + ofs) (ret ++ d) = Ok (Some (k, r)) ->
                  (k <= n_read + length s)%nat /\ n <= Z.of_nat (length r) /\ Forall Q r).
      { destruct (IH (skipn ofs s) (n_read + ofs)%nat (ret ++ d)) as [I1 I2].
        - rewrite skipn_length, app_length.
          destruct B as [B|B]; [lia|]. destruct d; [congruence|]. simpl length. lia.
        - apply Forall_app; auto.
        - split; auto. intros k r Hk. destruct (I2 k r Hk) as (X & Y & Z0). repeat split; auto.
          rewrite skipn_length in X. lia. }
      destruct ofs as [|ofs]; destruct d as [|d0 d]; auto.
      destruct B as [B|B]; [lia|congruence].
    - split; [exact I|discriminate].
    - split; [exact Hs|discriminate].
  Qed.

  Lemma seq_de_good : forall s,
    safe (seq_de dec n s) /\
    forall k l, seq_de dec n s = Ok (Some (k, l)) ->
      (k <= length s)%nat /\
      exists ret, l = [VList ret] /\ (0 <= n -> Z.of_nat (length ret) = n) /\ Forall Q ret.
  Proof.
    intros s. unfold seq_de.
    destruct (seq_loop_good (length s + Z.to_nat n + 1) s 0 []) as [H1 H2]; [simpl; lia|constructor|].
    destruct (seq_de_loop dec n (length s + Z.to_nat n + 1) s 0 []) as [[[k0 r0]|]|] eqn:E.
    - split; [exact I|]. intros k l H. inversion H; subst.
      destruct (H2 k r0 eq_refl) as (A & B & C). split; [lia|].
      exists (py_take r0 n). split; auto. unfold py_take. split.
      + intros Hn. destruct (Z.leb_spec 0 n); [|lia]. rewrite firstn_length. lia.
      + destruct (0 <=? n); apply Forall_firstn; auto.
    - split; [exact I|discriminate].
    - split; [exact H1|discriminate].
  Qed.
End SeqLoop.

(* ------------------------------------------------------------------ Grid *)
Lemma grid_de_good dec sg Q e hw : gooddec dec true sg Q ->
  0 <= fst (grid_dims e hw) * snd (grid_dims e hw) ->
  forall s, safe (grid_de dec e hw s) /\
    forall k l, grid_de dec e hw s = Ok (Some (k, l)) ->
      (k <= length s)%nat /\
      exists d2, l = [VList (grid_rows d2 (Z.to_nat (fst (grid_dims e hw))) (Z.to_nat (snd (grid_dims e hw))))]
                 /\ Z.of_nat (length d2) = fst (grid_dims e hw) * snd (grid_dims e hw) /\ Forall Q d2.
Proof.
  intros Hdec Hn s. unfold grid_de. destruct (grid_dims e hw) as [h w]. simpl in *.
  destruct (seq_de_good dec sg Q Hdec (h * w) s) as [H1 H2].
  destruct (seq_de dec (h * w) s) as [[[k0 l0]|]|] eqn:E.
  - destruct (H2 k0 l0 eq_refl) as (A & ret & -> & B & C). specialize (B Hn).
    rewrite B, Z.eqb_refl. split; [exact I|]. intros k l H. inversion H; subst.
    split; auto. exists ret. auto.
  - split; [exact I|discriminate].
  - split; [exact H1|discriminate].
Qed.
