(* Model of cspuz/problem_serializer.py (definitions only, no proofs).

   Text is [str = list ascii]; an [ascii] stands for a Latin-1 code point.
   Python values are [pv].  Every partial Python primitive carries the
   exception class it raises ([res] / [pyerr] of Lib/PyErr.v).
   Non-termination of a Python loop is reported as [Err OtherError].

   Reading guide (Python name -> model name)
     Combinator.serialize(env, data, idx)    ser  e c data idx : res (option (nat * str))
     Combinator.deserialize(env, data, idx)  de   e c (skipn idx data) : res (option (nat * list pv))
                                             (de never looks before idx; de_at is the idx form)
     serialize_problem / deserialize_problem / serialize_problem_as_url /
     get_puzzle_info_from_url / deserialize_problem_as_url: same names.            *)
From Coq Require Import ZArith List Ascii Bool NArith.
From Cspuz Require Import Lib.PyErr.
Import ListNotations.
Local Open Scope Z_scope.

Definition str := list ascii.

(* ------------------------------------------------------------------ values *)
Inductive pv :=
  | VInt (z : Z)
  | VStr (s : str)
  | VNone
  | VList (l : list pv)
  | VTup (l : list pv).

Definition ascii_eqb (a b : ascii) : bool := N.eqb (N_of_ascii a) (N_of_ascii b).

Fixpoint str_eqb (a b : str) : bool :=
  match a, b with
  | [], [] => true
  | x :: a', y :: b' => ascii_eqb x y && str_eqb a' b'
  | _, _ => false
  end.

(* Python == on the value universe *)
Fixpoint pv_eqb (a b : pv) {struct a} : bool :=
  let fix list_eqb (l m : list pv) {struct l} : bool :=
    match l, m with
    | [], [] => true
    | x :: l', y :: m' => pv_eqb x y && list_eqb l' m'
    | _, _ => false
    end in
  match a, b with
  | VInt x, VInt y => Z.eqb x y
  | VStr s, VStr t => str_eqb s t
  | VNone, VNone => true
  | VList l, VList m => list_eqb l m
  | VTup l, VTup m => list_eqb l m
  | _, _ => false
  end.

Fixpoint str_ltb (a b : str) : bool :=
  match a, b with
  | [], [] => false
  | [], _ :: _ => true
  | _ :: _, [] => false
  | x :: a', y :: b' =>
      if N.ltb (N_of_ascii x) (N_of_ascii y) then true
      else if N.ltb (N_of_ascii y) (N_of_ascii x) then false
      else str_ltb a' b'
  end.

(* Python < : ints, strs, and lexicographic on lists / tuples; TypeError otherwise *)
Fixpoint py_lt (a b : pv) {struct a} : res bool :=
  let fix lex (l m : list pv) {struct l} : res bool :=
    match l, m with
    | [], [] => Ok false
    | [], _ :: _ => Ok true
    | _ :: _, [] => Ok false
    | x :: l', y :: m' => if pv_eqb x y then lex l' m' else py_lt x y
    end in
  match a, b with
  | VInt x, VInt y => Ok (Z.ltb x y)
  | VStr s, VStr t => Ok (str_ltb s t)
  | VList l, VList m => lex l m
  | VTup l, VTup m => lex l m
  | _, _ => Err TypeError
  end.

(* iteration / len / indexing of a value used as `data` *)
Definition py_items (v : pv) : res (list pv) :=
  match v with
  | VList l => Ok l
  | VTup l => Ok l
  | VStr s => Ok (map (fun c => VStr [c]) s)
  | _ => Err TypeError
  end.

Definition nth_res {A} (l : list A) (i : nat) : res A :=
  match nth_error l i with Some x => Ok x | None => Err IndexError end.

(* l[i] for a Python int i (negative indices wrap) *)
Definition py_index {A} (l : list A) (i : Z) : res A :=
  let n := Z.of_nat (length l) in
  if (0 <=? i) && (i <? n) then nth_res l (Z.to_nat i)
  else if (- n <=? i) && (i <? 0) then nth_res l (Z.to_nat (i + n))
  else Err IndexError.

Fixpoint set_nth {A} (l : list A) (i : nat) (x : A) : list A :=
  match l, i with
  | [], _ => []
  | _ :: t, O => x :: t
  | a :: t, S j => a :: set_nth t j x
  end.

Definition wrap_index {A} (l : list A) (i : Z) : res nat :=
  let n := Z.of_nat (length l) in
  if (0 <=? i) && (i <? n) then Ok (Z.to_nat i)
  else if (- n <=? i) && (i <? 0) then Ok (Z.to_nat (i + n))
  else Err IndexError.

(* ------------------------------------------------------------------ characters *)
Definition ord (c : ascii) : Z := Z.of_N (N_of_ascii c).
Definition chr (z : Z) : ascii := ascii_of_N (Z.to_N z).

Definition in_range (lo hi x : Z) : bool := (lo <=? x) && (x <=? hi).

Definition is_alnum_lower_c (c : ascii) : bool :=
  let i := ord c in in_range 48 57 i || in_range 97 122 i.
Definition is_alnum_lower (s : str) : bool := forallb is_alnum_lower_c s.
Definition is_hex_c (c : ascii) : bool :=
  let i := ord c in in_range 48 57 i || in_range 97 102 i.
Definition is_hex (s : str) : bool := forallb is_hex_c s.

(* str.isdigit on one Latin-1 character: 0-9 and the superscripts 2, 3, 1 *)
Definition isdigit_c (c : ascii) : bool :=
  let i := ord c in in_range 48 57 i || (i =? 178) || (i =? 179) || (i =? 185).

(* whitespace stripped by int(): \t \n \v \f \r space, U+0085, U+00A0 *)
Definition is_space_c (c : ascii) : bool :=
  let i := ord c in in_range 9 13 i || (i =? 32) || (i =? 133) || (i =? 160).

(* value of a digit character in int(s, base): 0-9, a-z, A-Z *)
Definition digit_val (c : ascii) : option Z :=
  let i := ord c in
  if in_range 48 57 i then Some (i - 48)
  else if in_range 97 122 i then Some (i - 87)
  else if in_range 65 90 i then Some (i - 55)
  else None.

(* _BASE36_CHARS[d] *)
Definition base36_char (d : Z) : ascii := if d <? 10 then chr (48 + d) else chr (87 + d).

Fixpoint to_base_go (b : Z) (fuel : nat) (n : Z) (acc : str) : str :=
  match fuel with
  | O => acc
  | S f => if n <=? 0 then acc else to_base_go b f (n / b) (base36_char (n mod b) :: acc)
  end.

Definition digits_fuel (n : Z) : nat := S (Z.to_nat (Z.log2 n)).

(* digits of n >= 0 in base b (2 <= b <= 36), most significant first; "0" for 0 *)
Definition to_base (b n : Z) : str :=
  if n =? 0 then ["0"%char] else to_base_go b (digits_fuel n) n [].

Definition to_base36 (n : Z) : res str :=
  if n <? 0 then Err ValueError else Ok (to_base 36 n).

(* hex(n)[2:] *)
Definition to_base16 (n : Z) : str :=
  if n <? 0 then "x"%char :: to_base 16 (- n) else to_base 16 n.

(* str(n) *)
Definition py_str_int (n : Z) : str :=
  if n <? 0 then "-"%char :: to_base 10 (- n) else to_base 10 n.

Fixpoint lstrip (s : str) : str :=
  match s with
  | c :: t => if is_space_c c then lstrip t else s
  | [] => []
  end.
Definition rstrip (s : str) : str := rev (lstrip (rev s)).

(* digits with single underscores between them; [prev_us]: the previous character was '_' *)
Fixpoint parse_digits (base : Z) (s : str) (prev_us : bool) (acc : Z) : option Z :=
  match s with
  | [] => if prev_us then None else Some acc
  | c :: t =>
      if ascii_eqb c "_"%char then
        if prev_us then None else parse_digits base t true acc
      else match digit_val c with
           | Some d => if d <? base then parse_digits base t false (acc * base + d) else None
           | None => None
           end
  end.

(* int(s, base) for base in {10, 16, 36} on Latin-1 text *)
Definition int_sign (s : str) : bool * str :=
  match s with
  | c :: t => if ascii_eqb c "+"%char then (false, t)
              else if ascii_eqb c "-"%char then (true, t) else (false, s)
  | [] => (false, s)
  end.

(* "0x" / "0X" (and one underscore after it) is skipped for base 16 *)
Definition int_prefix (base : Z) (s : str) : str :=
  if base =? 16 then
    match s with
    | c0 :: c1 :: t =>
        if ascii_eqb c0 "0"%char && (ascii_eqb c1 "x"%char || ascii_eqb c1 "X"%char) then
          match t with
          | c2 :: t' => if ascii_eqb c2 "_"%char then t' else t
          | [] => t
          end
        else s
    | _ => s
    end
  else s.

Definition int_body (base : Z) (neg : bool) (s : str) : res Z :=
  match s with
  | [] => Err ValueError
  | c :: _ =>
      if ascii_eqb c "_"%char then Err ValueError
      else match parse_digits base s false 0 with
           | Some v => Ok (if neg then - v else v)
           | None => Err ValueError
           end
  end.

Definition py_int (s : str) (base : Z) : res Z :=
  int_body base (fst (int_sign (rstrip (lstrip s)))) (int_prefix base (snd (int_sign (rstrip (lstrip s))))).

Definition from_base16 (s : str) : res Z := py_int s 16.
Definition from_base36 (s : str) : res Z := py_int s 36.

Fixpoint is_prefix (p s : str) : bool :=
  match p, s with
  | [], _ => true
  | x :: p', y :: s' => ascii_eqb x y && is_prefix p' s'
  | _ :: _, [] => false
  end.

(* ------------------------------------------------------------------ combinator terms *)
Inductive comb :=
  | FixStr (s : str)
  | Dict (before : list pv) (after : list str)
  | Spaces (space : pv) (smallest : ascii)
  | DecInt
  | HexInt
  | IntSpaces (space : pv) (max_int max_num_spaces : Z)
  | MultiDigit (base : Z) (digits : nat)
  | OneOf (choices : list comb)
  | Tupl (elements : list comb)
  | Seq (base : comb) (n : Z)
  | Grid (base : comb) (hw : option (Z * Z))
  | Rooms (skip_on_error allow_redundant_border : bool)
  | ValuedRooms (value_combinator : comb) (skip_on_error allow_redundant_border : bool)
  | Custom (id : nat).

(* hook for puzzle-specific Combinator subclasses (e.g. yajilin.YajilinClue) *)
Record custom := {
  cu_ser : nat -> pv -> nat -> res (option (nat * str));
  cu_de : nat -> str -> res (option (nat * list pv))
}.

Definition no_custom : custom :=
  {| cu_ser := fun _ _ _ => Err NotImplementedErr; cu_de := fun _ _ => Err NotImplementedErr |}.

Record env := { height : Z; width : Z; cust : custom }.
Definition mk_env (h w : Z) : env := {| height := h; width := w; cust := no_custom |}.

(* Spaces.__init__: self._offset = _from_base36(smallest) - 1 *)
Definition spaces_offset (smallest : ascii) : Z :=
  match digit_val smallest with Some v => v - 1 | None => 0 end.
Definition spaces_max (smallest : ascii) : Z := 35 - spaces_offset smallest.

(* the ValueErrors raised by the constructors *)
Fixpoint comb_ok (c : comb) : bool :=
  match c with
  | FixStr _ | DecInt | HexInt | Rooms _ _ | Custom _ => true
  | Dict b a => Nat.eqb (length b) (length a)
  | Spaces _ sm => match digit_val sm with Some _ => true | None => false end
  | IntSpaces _ mi ms => (mi + 1) * (ms + 1) <=? 36
  | MultiDigit b d => b ^ Z.of_nat d <=? 36
  | OneOf l | Tupl l => forallb comb_ok l
  | Seq c _ | Grid c _ | ValuedRooms c _ _ => comb_ok c
  end.

Definition is_int (v : pv) : bool := match v with VInt _ => true | _ => false end.

(* number of leading items of l equal (Python ==) to sp, at most [limit] *)
Fixpoint run_eq (sp : pv) (l : list pv) (limit : nat) : nat :=
  match limit, l with
  | S k, x :: t => if pv_eqb x sp then S (run_eq sp t k) else O
  | _, _ => O
  end.

(* Dict.serialize's loop *)
Fixpoint dict_ser (v : pv) (before : list pv) (after : list str) : res (option (nat * str)) :=
  match before with
  | [] => Ok None
  | b :: before' =>
      if pv_eqb v b then
        match after with a :: _ => Ok (Some (1%nat, a)) | [] => Err IndexError end
      else dict_ser v before' (tl after)
  end.

(* Dict.deserialize's loop (s is non-empty here) *)
Fixpoint dict_de (s : str) (before : list pv) (after : list str) : res (option (nat * list pv)) :=
  match before with
  | [] => Ok None
  | b :: before' =>
      match after with
      | [] => Err IndexError
      | a :: after' =>
          if is_prefix a s then Ok (Some (length a, [b])) else dict_de s before' after'
      end
  end.

(* MultiDigit.serialize's loop: i-th of [digits] iterations, l = data[idx+i:] *)
Fixpoint md_ser_loop (base : Z) (digits : nat) (l : list pv) (value : Z) : res (option Z) :=
  match digits with
  | O => Ok (Some value)
  | S d =>
      let value := value * base in
      match l with
      | [] => md_ser_loop base d [] value
      | x :: t =>
          match x with
          | VInt z => if (0 <=? z) && (z <? base) then md_ser_loop base d t (value + z) else Ok None
          | _ => Ok None                               (* not isinstance(data[idx + i], int) *)
          end
      end
  end.

(* MultiDigit.deserialize's loop, result already reversed *)
Fixpoint md_unpack (base : Z) (digits : nat) (value : Z) (acc : list pv) : list pv :=
  match digits with
  | O => acc
  | S d => md_unpack base d (value / base) (VInt (value mod base) :: acc)
  end.

(* Seq.serialize's while loop: d = data[idx] (as a value), n_read items done *)
Fixpoint seq_ser_loop (serc : pv -> nat -> res (option (nat * str))) (n : Z) (d : pv)
         (fuel : nat) (n_read : nat) (ret : str) : res (option str) :=
  if Z.of_nat n_read <? n then
    match fuel with
    | O => Err OtherError
    | S f =>
        match serc d n_read with
        | Err e => Err e
        | Ok None => Ok None
        | Ok (Some (ofs, d2)) =>
            match ofs with
            | O => Err OtherError                      (* the Python loop never ends *)
            | _ => seq_ser_loop serc n d f (n_read + ofs)%nat (ret ++ d2)
            end
        end
    end
  else if Z.of_nat n_read =? n then Ok (Some ret) else Err AssertionError.

Definition seq_ser (serc : pv -> nat -> res (option (nat * str))) (n : Z) (data : pv) (idx : nat)
  : res (option (nat * str)) :=
  match py_items data with
  | Err e => Err e
  | Ok l =>
      if Nat.eqb idx (length l) then Ok None
      else match nth_res l idx with
           | Err e => Err e
           | Ok (VList d) =>
               match seq_ser_loop serc n (VList d) (Z.to_nat n) 0 [] with
               | Err e => Err e
               | Ok None => Ok None
               | Ok (Some s) => Ok (Some (1%nat, s))
               end
           | Ok _ => Ok None
           end
  end.

(* Seq.deserialize's while loop: s = data[idx + n_read:] *)
Fixpoint seq_de_loop (dec : str -> res (option (nat * list pv))) (n : Z) (fuel : nat)
         (s : str) (n_read : nat) (ret : list pv) : res (option (nat * list pv)) :=
  if Z.of_nat (length ret) <? n then
    match fuel with
    | O => Err OtherError
    | S f =>
        match dec s with
        | Err e => Err e
        | Ok None => Ok None
        | Ok (Some (ofs, d)) =>
            match ofs, d with
            | O, [] => Err OtherError                  (* the Python loop never ends *)
            | _, _ => seq_de_loop dec n f (skipn ofs s) (n_read + ofs)%nat (ret ++ d)
            end
        end
    end
  else Ok (Some (n_read, ret)).

(* ret[: n] for a Python int n (negative n counts from the end) *)
Definition py_take (l : list pv) (n : Z) : list pv :=
  if 0 <=? n then firstn (Z.to_nat n) l
  else firstn (Z.to_nat (Z.of_nat (length l) + n)) l.

Definition seq_de (dec : str -> res (option (nat * list pv))) (n : Z) (s : str)
  : res (option (nat * list pv)) :=
  match seq_de_loop dec n (length s + Z.to_nat n + 1) s 0 [] with
  | Err e => Err e
  | Ok None => Ok None
  | Ok (Some (n_read, ret)) => Ok (Some (n_read, [VList (py_take ret n)]))
  end.

Definition grid_dims (e : env) (hw : option (Z * Z)) : Z * Z :=
  match hw with Some p => p | None => (height e, width e) end.

(* d_flat += d[y] for y in range(height) *)
Fixpoint grid_flatten (d : list pv) (h : nat) (y : nat) : res (list pv) :=
  match h with
  | O => Ok []
  | S h' =>
      match nth_res d y with
      | Err e => Err e
      | Ok row =>
          match py_items row with
          | Err e => Err e
          | Ok r => match grid_flatten d h' (S y) with Err e => Err e | Ok rest => Ok (r ++ rest) end
          end
      end
  end.

Definition grid_ser (serc : pv -> nat -> res (option (nat * str))) (e : env) (hw : option (Z * Z))
           (data : pv) (idx : nat) : res (option (nat * str)) :=
  match py_items data with
  | Err e' => Err e'
  | Ok l =>
      if Nat.eqb idx (length l) then Ok None
      else match nth_res l idx with
           | Err e' => Err e'
           | Ok (VList d) =>
               let '(h, w) := grid_dims e hw in
               match grid_flatten d (Z.to_nat h) 0 with
               | Err e' => Err e'
               | Ok d_flat => seq_ser serc (h * w) (VList [VList d_flat]) 0
               end
           | Ok _ => Ok None
           end
  end.

(* rows i*width .. i*width+width-1 of d2, for i in range(height) *)
Fixpoint grid_rows (d2 : list pv) (h : nat) (w : nat) : list pv :=
  match h with
  | O => []
  | S h' => VList (firstn w d2) :: grid_rows (skipn w d2) h' w
  end.

Definition grid_de (dec : str -> res (option (nat * list pv))) (e : env) (hw : option (Z * Z)) (s : str)
  : res (option (nat * list pv)) :=
  let '(h, w) := grid_dims e hw in
  match seq_de dec (h * w) s with
  | Err e' => Err e'
  | Ok None => Ok None
  | Ok (Some (ofs, d)) =>
      match d with
      | [VList d2] =>
          if Z.of_nat (length d2) =? h * w then
            Ok (Some (ofs, [VList (grid_rows d2 (Z.to_nat h) (Z.to_nat w))]))
          else Err AssertionError
      | _ => Err AssertionError
      end
  end.

(* ------------------------------------------------------------------ Rooms: border bitmaps *)
Definition MD25 : comb := MultiDigit 2 5.

(* the two grids of border flags, as the pv handed to / returned by the Tupl *)
Definition grid_get (g : list (list Z)) (y x : nat) : res Z :=
  match nth_res g y with Err e => Err e | Ok row => nth_res row x end.

Definition grid_set (g : list (list Z)) (y x : nat) (v : Z) : list (list Z) :=
  match nth_error g y with Some row => set_nth g y (set_nth row x v) | None => g end.

Definition cell_pv (y x : nat) : pv := VTup [VInt (Z.of_nat y); VInt (Z.of_nat x)].

(* Rooms._serialize: the loop that assigns room ids; i = index of the room *)
Fixpoint rooms_assign_cells (h w : Z) (room_id : list (list Z)) (i : Z) (cells : list pv)
  : res (list (list Z)) :=
  match cells with
  | [] => Ok room_id
  | p :: rest =>
      match p with
      | VTup [py; px] =>
          match py with
          | VInt y =>
              if (0 <=? y) && (y <? h) then
                match px with
                | VInt x =>
                    if (0 <=? x) && (x <? w) then
                      match grid_get room_id (Z.to_nat y) (Z.to_nat x) with
                      | Err e => Err e
                      | Ok v =>
                          if v =? -1 then
                            rooms_assign_cells h w (grid_set room_id (Z.to_nat y) (Z.to_nat x) i) i rest
                          else Err ValueError           (* belongs to multiple rooms *)
                      end
                    else Err ValueError                 (* out of bounds *)
                | _ => Err TypeError                    (* 0 <= x on a non-int *)
                end
              else Err ValueError                       (* out of bounds ('and' short-circuits) *)
          | _ => Err TypeError                          (* 0 <= y on a non-int *)
          end
      | _ => Err ValueError                             (* not a pair *)
      end
  end.

Fixpoint rooms_assign (h w : Z) (room_id : list (list Z)) (i : Z) (rooms : list pv)
  : res (list (list Z)) :=
  match rooms with
  | [] => Ok room_id
  | r :: rest =>
      match r with
      | VList cells =>
          match rooms_assign_cells h w room_id i cells with
          | Err e => Err e
          | Ok room_id' => rooms_assign h w room_id' (i + 1) rest
          end
      | _ => Err ValueError
      end
  end.

Definition all_assigned (room_id : list (list Z)) : bool :=
  forallb (fun row => forallb (fun v => negb (v =? -1)) row) room_id.

Fixpoint adj_diff (row : list Z) : list pv :=
  match row with
  | a :: ((b :: _) as t) => VInt (if a =? b then 0 else 1) :: adj_diff t
  | _ => []
  end.

Fixpoint zip_diff (r1 r2 : list Z) : list pv :=
  match r1, r2 with
  | a :: t1, b :: t2 => VInt (if a =? b then 0 else 1) :: zip_diff t1 t2
  | _, _ => []
  end.

Fixpoint rows_diff (g : list (list Z)) : list pv :=
  match g with
  | r1 :: ((r2 :: _) as t) => VList (zip_diff r1 r2) :: rows_diff t
  | _ => []
  end.

Definition borders_pv (room_id : list (list Z)) : pv :=
  VList [VTup [VList [VList (map (fun row => VList (adj_diff row)) room_id)];
               VList [VList (rows_diff room_id)]]].

Definition rooms_tupl (h w : Z) : comb :=
  Tupl [Grid MD25 (Some (h, w - 1)); Grid MD25 (Some (h - 1, w))].

(* decoded borders back to integer grids; every index is checked *)
Definition as_int_grid (v : pv) : res (list (list Z)) :=
  match v with
  | VList rows =>
      mapM (fun r => match r with
                     | VList cells => mapM (fun c => match c with VInt z => Ok z | _ => Err TypeError end) cells
                     | _ => Err TypeError
                     end) rows
  | _ => Err TypeError
  end.

(* the fill's while loop; stack top = head of the list *)
Fixpoint fill_loop (fuel : nat) (h w : Z) (vertical horizontal : list (list Z))
         (room_id : list (list Z)) (stack : list (nat * nat)) (id : Z) : res (list (list Z)) :=
  match stack with
  | [] => Ok room_id
  | (y, x) :: stack' =>
      match fuel with
      | O => Err OtherError
      | S f =>
          match grid_get room_id y x with
          | Err e => Err e
          | Ok v =>
              if negb (v =? -1) then fill_loop f h w vertical horizontal room_id stack' id
              else
                let room_id' := grid_set room_id y x id in
                let zy := Z.of_nat y in let zx := Z.of_nat x in
                match (if 0 <? zy then
                         match grid_get horizontal (y - 1) x with
                         | Err e => Err e | Ok b => Ok (if b =? 0 then (y - 1, x)%nat :: stack' else stack') end
                       else Ok stack') with
                | Err e => Err e
                | Ok st1 =>
                match (if zy <? h - 1 then
                         match grid_get horizontal y x with
                         | Err e => Err e | Ok b => Ok (if b =? 0 then (y + 1, x)%nat :: st1 else st1) end
                       else Ok st1) with
                | Err e => Err e
                | Ok st2 =>
                match (if 0 <? zx then
                         match grid_get vertical y (x - 1) with
                         | Err e => Err e | Ok b => Ok (if b =? 0 then (y, x - 1)%nat :: st2 else st2) end
                       else Ok st2) with
                | Err e => Err e
                | Ok st3 =>
                match (if zx <? w - 1 then
                         match grid_get vertical y x with
                         | Err e => Err e | Ok b => Ok (if b =? 0 then (y, x + 1)%nat :: st3 else st3) end
                       else Ok st3) with
                | Err e => Err e
                | Ok st4 => fill_loop f h w vertical horizontal room_id' st4 id
                end end end end
          end
      end
  end.

(* every cell is pushed at most once per neighbour plus once as a seed *)
Definition fill_fuel (h w : Z) : nat := (5 * (Z.to_nat h * Z.to_nat w) + 2)%nat.

Definition cells_of (h w : Z) : list (nat * nat) :=
  flat_map (fun y => map (fun x => (y, x)) (seq 0 (Z.to_nat w))) (seq 0 (Z.to_nat h)).

(* for y.. for x..: if room_id[y][x] == -1: fill(y, x, last_id); last_id += 1 *)
Fixpoint fill_all (h w : Z) (vertical horizontal : list (list Z)) (cells : list (nat * nat))
         (room_id : list (list Z)) (last_id : Z) : res (list (list Z) * Z) :=
  match cells with
  | [] => Ok (room_id, last_id)
  | (y, x) :: rest =>
      match grid_get room_id y x with
      | Err e => Err e
      | Ok v =>
          if v =? -1 then
            match fill_loop (fill_fuel h w) h w vertical horizontal room_id [(y, x)] last_id with
            | Err e => Err e
            | Ok room_id' => fill_all h w vertical horizontal rest room_id' (last_id + 1)
            end
          else fill_all h w vertical horizontal rest room_id last_id
      end
  end.

Fixpoint redundant_check (h w : Z) (vertical horizontal room_id : list (list Z)) (cells : list (nat * nat))
  : res unit :=
  match cells with
  | [] => Ok tt
  | (y, x) :: rest =>
      let zy := Z.of_nat y in let zx := Z.of_nat x in
      match (if zy <? h - 1 then
               match grid_get horizontal y x with
               | Err e => Err e
               | Ok b => if b =? 0 then Ok tt else
                   match grid_get room_id y x with
                   | Err e => Err e
                   | Ok a => match grid_get room_id (y + 1) x with
                             | Err e => Err e
                             | Ok a' => if a =? a' then Err ValueError else Ok tt
                             end
                   end
               end
             else Ok tt) with
      | Err e => Err e
      | Ok _ =>
      match (if zx <? w - 1 then
               match grid_get vertical y x with
               | Err e => Err e
               | Ok b => if b =? 0 then Ok tt else
                   match grid_get room_id y x with
                   | Err e => Err e
                   | Ok a => match grid_get room_id y (x + 1) with
                             | Err e => Err e
                             | Ok a' => if a =? a' then Err ValueError else Ok tt
                             end
                   end
               end
             else Ok tt) with
      | Err e => Err e
      | Ok _ => redundant_check h w vertical horizontal room_id rest
      end end
  end.

(* rooms[room_id[y][x]].append((y, x)) in row-major order *)
Fixpoint collect_rooms (room_id : list (list Z)) (cells : list (nat * nat)) (rooms : list (list pv))
  : res (list (list pv)) :=
  match cells with
  | [] => Ok rooms
  | (y, x) :: rest =>
      match grid_get room_id y x with
      | Err e => Err e
      | Ok v =>
          if v =? -1 then Err AssertionError
          else match wrap_index rooms v with
               | Err e => Err e
               | Ok i => collect_rooms room_id rest
                           (set_nth rooms i (nth i rooms [] ++ [cell_pv y x]))
               end
      end
  end.

Definition neg_grid (h w : Z) : list (list Z) := repeat (repeat (-1) (Z.to_nat w)) (Z.to_nat h).

(* the part of Rooms._deserialize after the borders have been read *)
Definition rooms_of_borders (h w : Z) (allow_redundant : bool) (vertical horizontal : list (list Z))
  : res pv :=
  let cells := cells_of h w in
  match fill_all h w vertical horizontal cells (neg_grid h w) 0 with
  | Err e => Err e
  | Ok (room_id, last_id) =>
      match (if allow_redundant then Ok tt else redundant_check h w vertical horizontal room_id cells) with
      | Err e => Err e
      | Ok _ =>
          match collect_rooms room_id cells (repeat [] (Z.to_nat last_id)) with
          | Err e => Err e
          | Ok rooms => Ok (VList (map VList rooms))
          end
      end
  end.

(* except ValueError: return None *)
Definition skip_value_error {A} (skip : bool) (r : res (option A)) : res (option A) :=
  match r with
  | Err ValueError => if skip then Ok None else r
  | _ => r
  end.

(* ------------------------------------------------------------------ ValuedRooms: the pairs of zip(rooms, values) sorted with key = min(room) *)
Fixpoint py_min_go (m : pv) (l : list pv) : res pv :=
  match l with
  | [] => Ok m
  | x :: t => match py_lt x m with
              | Err e => Err e
              | Ok b => py_min_go (if b then x else m) t
              end
  end.

(* min(v): TypeError if not iterable, ValueError if empty *)
Definition py_min (v : pv) : res pv :=
  match py_items v with
  | Err e => Err e
  | Ok [] => Err ValueError
  | Ok (x :: t) => py_min_go x t
  end.

(* stable insertion of (key, item) after every element whose key is not greater *)
Fixpoint insert_by_key {A} (k : pv) (a : A) (l : list (pv * A)) : res (list (pv * A)) :=
  match l with
  | [] => Ok [(k, a)]
  | (k', a') :: t =>
      match py_lt k k' with
      | Err e => Err e
      | Ok true => Ok ((k, a) :: l)
      | Ok false => match insert_by_key k a t with Err e => Err e | Ok t' => Ok ((k', a') :: t') end
      end
  end.

(* stable sort: fold from the right so that equal keys keep their order *)
Fixpoint sort_by_key {A} (l : list (pv * A)) : res (list (pv * A)) :=
  match l with
  | [] => Ok []
  | (k, a) :: t => match sort_by_key t with Err e => Err e | Ok t' => insert_by_key k a t' end
  end.

(* zip(rooms, values) *)
Fixpoint zip_pv (a b : list pv) : list (pv * pv) :=
  match a, b with
  | x :: a', y :: b' => (x, y) :: zip_pv a' b'
  | _, _ => []
  end.

(* keys are computed for all pairs first (list.sort(key=...)), then the pairs are sorted *)
Definition vr_sorted (rooms values : list pv) : res (list (pv * pv)) :=
  match mapM (fun rv : pv * pv => match py_min (fst rv) with Err e => Err e | Ok k => Ok (k, rv) end)
             (zip_pv rooms values) with
  | Err e => Err e
  | Ok keyed => match sort_by_key keyed with Err e => Err e | Ok s => Ok (map snd s) end
  end.

(* ------------------------------------------------------------------ serialize *)
Definition sres := res (option (nat * str)).

(* if idx == len(data): return None;  v = data[idx] *)
Definition with_item (data : pv) (idx : nat) (k : list pv -> pv -> sres) : sres :=
  match py_items data with
  | Err e => Err e                                     (* len(data) on a non-sequence *)
  | Ok l =>
      if Nat.eqb idx (length l) then Ok None
      else match nth_res l idx with Err e => Err e | Ok v => k l v end
  end.

Definition dict_ser_at (before : list pv) (after : list str) (data : pv) (idx : nat) : sres :=
  with_item data idx (fun _ v => dict_ser v before after).

Definition spaces_ser (sp : pv) (sm : ascii) (data : pv) (idx : nat) : sres :=
  with_item data idx (fun l v =>
    if negb (pv_eqb v sp) then Ok None
    else
      let i := S (run_eq sp (skipn (S idx) l) (Z.to_nat (spaces_max sm - 1))) in
      match to_base36 (spaces_offset sm + Z.of_nat i) with
      | Err e => Err e
      | Ok s => Ok (Some (i, s))
      end).

Definition decint_ser (data : pv) (idx : nat) : sres :=
  with_item data idx (fun _ v =>
    match v with
    | VInt z => if z <? 0 then Ok None else Ok (Some (1%nat, py_str_int z))
    | _ => Ok None
    end).

Definition hex_prefix (z : Z) : str :=
  if (16 <=? z) && (z <? 256) then ["-"%char] else if 256 <=? z then ["+"%char] else [].

Definition hexint_ser (data : pv) (idx : nat) : sres :=
  with_item data idx (fun _ v =>
    match v with
    | VInt z =>
        if negb ((0 <=? z) && (z <=? 4095)) then Ok None
        else Ok (Some (1%nat, hex_prefix z ++ to_base16 z))
    | _ => Ok None
    end).

Definition intspaces_ser (sp : pv) (mi ms : Z) (data : pv) (idx : nat) : sres :=
  with_item data idx (fun l v =>
    match v with
    | VInt z =>
        if negb ((0 <=? z) && (z <=? mi)) then Ok None
        else
          let ns := run_eq sp (skipn (S idx) l) (Z.to_nat ms) in
          match to_base36 (Z.of_nat ns * (mi + 1) + z) with
          | Err e => Err e
          | Ok s => Ok (Some (S ns, s))
          end
    | _ => Ok None
    end).

Definition md_ser (b : Z) (d : nat) (data : pv) (idx : nat) : sres :=
  with_item data idx (fun l _ =>
    match md_ser_loop b d (skipn idx l) 0 with
    | Err e => Err e
    | Ok None => Ok None
    | Ok (Some value) =>
        match to_base36 value with
        | Err e => Err e
        | Ok s => Ok (Some (Nat.min (length l - idx) d, s))
        end
    end).

(* Rooms._serialize; the final Tupl(Grid(MD25,h,w-1), Grid(MD25,h-1,w)).serialize is unfolded *)
Definition rooms_ser_raw (e : env) (data : pv) (idx : nat) : sres :=
  match py_items data with
  | Err e' => Err e'
  | Ok l =>
      if Nat.eqb idx (length l) then Err ValueError else
      match nth_res l idx with
      | Err e' => Err e'
      | Ok (VList d) =>
          let h := height e in let w := width e in
          match rooms_assign h w (neg_grid h w) 0 d with
          | Err e' => Err e'
          | Ok room_id =>
              if all_assigned room_id then
                match grid_ser (md_ser 2 5) e (Some (h, w - 1))
                        (VList [VList (map (fun row => VList (adj_diff row)) room_id)]) 0 with
                | Err e' => Err e'
                | Ok None => Ok None
                | Ok (Some (_, s1)) =>
                    match grid_ser (md_ser 2 5) e (Some (h - 1, w)) (VList [VList (rows_diff room_id)]) 0 with
                    | Err e' => Err e'
                    | Ok None => Ok None
                    | Ok (Some (_, s2)) => Ok (Some (1%nat, s1 ++ s2))
                    end
                end
              else Err ValueError
          end
      | Ok _ => Err ValueError
      end
  end.

Definition rooms_ser (e : env) (skip : bool) (data : pv) (idx : nat) : sres :=
  skip_value_error skip (rooms_ser_raw e data idx).

(* ValuedRooms.serialize; the Tupl(room_combinator, Seq(vc, len(rooms))).serialize is unfolded *)
Definition vrooms_ser (servc : pv -> nat -> sres) (e : env) (skip : bool) (data : pv) (idx : nat) : sres :=
  with_item data idx (fun _ v =>
    match v with
    | VTup [d0; d1] =>
        match py_items d0 with
        | Err e' => Err e'
        | Ok rooms0 =>
        match py_items d1 with
        | Err e' => Err e'
        | Ok values0 =>
        match vr_sorted rooms0 values0 with
        | Err e' => Err e'
        | Ok [] => Err ValueError                      (* rooms, values = [] *)
        | Ok sorted =>
            let rooms := map fst sorted in
            let values := map snd sorted in
            match rooms_ser e skip (VList [VList rooms]) 0 with
            | Err e' => Err e'
            | Ok None => Ok None
            | Ok (Some (_, s1)) =>
                match seq_ser servc (Z.of_nat (length rooms)) (VList [VList values]) 0 with
                | Err e' => Err e'
                | Ok None => Ok None
                | Ok (Some (_, s2)) => Ok (Some (1%nat, s1 ++ s2))
                end
            end
        end end end
    | _ => Ok None
    end).

Fixpoint ser (e : env) (c : comb) (data : pv) (idx : nat) {struct c} : sres :=
  match c with
  | FixStr s => Ok (Some (0%nat, s))
  | Dict before after => dict_ser_at before after data idx
  | Spaces sp sm => spaces_ser sp sm data idx
  | DecInt => decint_ser data idx
  | HexInt => hexint_ser data idx
  | IntSpaces sp mi ms => intspaces_ser sp mi ms data idx
  | MultiDigit b d => md_ser b d data idx
  | OneOf choices =>
      (fix oneof (l : list comb) : sres :=
         match l with
         | [] => Ok None
         | c1 :: l' => match ser e c1 data idx with
                       | Err e' => Err e'
                       | Ok (Some r) => Ok (Some r)
                       | Ok None => oneof l'
                       end
         end) choices
  | Tupl elements =>
      with_item data idx (fun _ v =>
        match v with
        | VTup d =>
            if negb (Nat.eqb (length d) (length elements)) then Ok None
            else (fix tupl (l : list comb) (d : list pv) (parts : str) : sres :=
                    match l, d with
                    | [], _ => Ok (Some (1%nat, parts))
                    | c1 :: l', di :: d' =>
                        match ser e c1 di 0 with
                        | Err e' => Err e'
                        | Ok None => Ok None
                        | Ok (Some (_, s)) => tupl l' d' (parts ++ s)
                        end
                    | _ :: _, [] => Err IndexError
                    end) elements d []
        | _ => Ok None
        end)
  | Seq c1 n => seq_ser (ser e c1) n data idx
  | Grid c1 hw => grid_ser (ser e c1) e hw data idx
  | Rooms skip _ => rooms_ser e skip data idx
  | ValuedRooms vc skip _ => vrooms_ser (ser e vc) e skip data idx
  | Custom k => cu_ser (cust e) k data idx
  end.

(* ------------------------------------------------------------------ deserialize (s = data[idx:]) *)
Definition dres := res (option (nat * list pv)).

Definition fixstr_de (t s : str) : dres :=
  if Nat.ltb (length s) (length t) then Ok None
  else if str_eqb (firstn (length t) s) t then Ok (Some (length t, [])) else Ok None.

Definition dict_de_at (before : list pv) (after : list str) (s : str) : dres :=
  match s with [] => Ok None | _ => dict_de s before after end.

Definition spaces_de (sp : pv) (sm : ascii) (s : str) : dres :=
  match s with
  | [] => Ok None
  | c :: _ =>
      if negb (is_alnum_lower [c]) then Ok None
      else match from_base36 [c] with
           | Err e => Err e
           | Ok i => if spaces_offset sm <? i then Ok (Some (1%nat, repeat sp (Z.to_nat (i - spaces_offset sm))))
                     else Ok None
           end
  end.

Fixpoint span_digits (s : str) : nat :=
  match s with
  | c :: t => if isdigit_c c then S (span_digits t) else O
  | [] => O
  end.

Definition decint_de (s : str) : dres :=
  match s with
  | [] => Ok None
  | _ =>
      let n := span_digits s in
      match n with
      | O => Ok None
      | _ => match py_int (firstn n s) 10 with Err e => Err e | Ok v => Ok (Some (n, [VInt v])) end
      end
  end.

Definition hexint_de (s : str) : dres :=
  match s with
  | [] => Ok None
  | c :: t =>
      if ascii_eqb c "-"%char then
        if Nat.ltb (length s) 3 then Ok None
        else if negb (is_hex (firstn 2 t)) then Ok None
        else match from_base16 (firstn 2 t) with Err e => Err e | Ok v => Ok (Some (3%nat, [VInt v])) end
      else if ascii_eqb c "+"%char then
        if Nat.ltb (length s) 4 then Ok None
        else if negb (is_hex (firstn 3 t)) then Ok None
        else match from_base16 (firstn 3 t) with Err e => Err e | Ok v => Ok (Some (4%nat, [VInt v])) end
      else if is_hex [c] then
        match from_base16 [c] with Err e => Err e | Ok v => Ok (Some (1%nat, [VInt v])) end
      else Ok None
  end.

Definition intspaces_de (sp : pv) (mi ms : Z) (s : str) : dres :=
  match s with
  | [] => Ok None
  | c :: _ =>
      if negb (is_alnum_lower [c]) then Ok None
      else match from_base36 [c] with
           | Err e => Err e
           | Ok n =>
               if negb ((0 <=? n) && (n <? (mi + 1) * (ms + 1))) then Ok None
               else Ok (Some (1%nat, VInt (n mod (mi + 1)) :: repeat sp (Z.to_nat (n / (mi + 1)))))
           end
  end.

Definition md_de (b : Z) (d : nat) (s : str) : dres :=
  match s with
  | [] => Ok None
  | c :: _ =>
      if negb (is_alnum_lower [c]) then Ok None
      else match from_base36 [c] with
           | Err e => Err e
           | Ok value =>
               if negb ((0 <=? value) && (value <? b ^ Z.of_nat d)) then Ok None
               else Ok (Some (1%nat, md_unpack b d value []))
           end
  end.

(* Rooms._deserialize; the Tupl(Grid, Grid).deserialize is unfolded *)
Definition rooms_de_raw (e : env) (allow : bool) (s : str) : dres :=
  let h := height e in let w := width e in
  if (h <=? 0) || (w <=? 0) then Err ValueError else   (* a board without cells has no rooms *)
  match grid_de (md_de 2 5) e (Some (h, w - 1)) s with
  | Err e' => Err e'
  | Ok None => Err ValueError                          (* border data could not be deserialized *)
  | Ok (Some (n1, v1)) =>
      match grid_de (md_de 2 5) e (Some (h - 1, w)) (skipn n1 s) with
      | Err e' => Err e'
      | Ok None => Err ValueError
      | Ok (Some (n2, v2)) =>
          match v1, v2 with
          | [vertical], [horizontal] =>
              match as_int_grid vertical with
              | Err e' => Err e'
              | Ok vg =>
              match as_int_grid horizontal with
              | Err e' => Err e'
              | Ok hg =>
                  match rooms_of_borders h w allow vg hg with
                  | Err e' => Err e'
                  | Ok rooms => Ok (Some ((n1 + n2)%nat, [rooms]))
                  end
              end end
          | _, _ => Err ValueError                     (* unpacking [([vertical], [horizontal])] *)
          end
      end
  end.

Definition rooms_de (e : env) (skip allow : bool) (s : str) : dres :=
  skip_value_error skip (rooms_de_raw e allow s).

Definition vrooms_de (devc : str -> dres) (e : env) (skip allow : bool) (s : str) : dres :=
  match rooms_de e skip allow s with
  | Err e' => Err e'
  | Ok None => Ok None
  | Ok (Some (ofs, rooms)) =>
      match nth_res rooms 0 with
      | Err e' => Err e'
      | Ok rooms0 =>
          match py_items rooms0 with
          | Err e' => Err e'
          | Ok rl =>
              match seq_de devc (Z.of_nat (length rl)) (skipn ofs s) with
              | Err e' => Err e'
              | Ok None => Ok None
              | Ok (Some (ofs2, values)) =>
                  match nth_res values 0 with
                  | Err e' => Err e'
                  | Ok values0 => Ok (Some ((ofs + ofs2)%nat, [VTup [rooms0; values0]]))
                  end
              end
          end
      end
  end.

Fixpoint de (e : env) (c : comb) (s : str) {struct c} : dres :=
  match c with
  | FixStr t => fixstr_de t s
  | Dict before after => dict_de_at before after s
  | Spaces sp sm => spaces_de sp sm s
  | DecInt => decint_de s
  | HexInt => hexint_de s
  | IntSpaces sp mi ms => intspaces_de sp mi ms s
  | MultiDigit b d => md_de b d s
  | OneOf choices =>
      (fix oneof (l : list comb) : dres :=
         match l with
         | [] => Ok None
         | c1 :: l' => match de e c1 s with
                       | Err e' => Err e'
                       | Ok (Some r) => Ok (Some r)
                       | Ok None => oneof l'
                       end
         end) choices
  | Tupl elements =>
      (fix tupl (l : list comb) (s' : str) (ofs : nat) (parts : list pv) : dres :=
         match l with
         | [] => Ok (Some (ofs, [VTup parts]))
         | c1 :: l' =>
             match de e c1 s' with
             | Err e' => Err e'
             | Ok None => Ok None
             | Ok (Some (n_read, val)) => tupl l' (skipn n_read s') (ofs + n_read)%nat (parts ++ [VList val])
             end
         end) elements s 0%nat []
  | Seq c1 n => seq_de (de e c1) n s
  | Grid c1 hw => grid_de (de e c1) e hw s
  | Rooms skip allow => rooms_de e skip allow s
  | ValuedRooms vc skip allow => vrooms_de (de e vc) e skip allow s
  | Custom k => cu_de (cust e) k s
  end.

(* deserialize(env, data, idx) for 0 <= idx <= len(data) *)
Definition de_at (e : env) (c : comb) (data : str) (idx : nat) : dres := de e c (skipn idx data).

(* ------------------------------------------------------------------ problem / URL level *)
Definition serialize_problem (c : comb) (problem : pv) (h w : Z) : res str :=
  match ser (mk_env h w) c (VList [problem]) 0 with
  | Err e => Err e
  | Ok None => Err AssertionError
  | Ok (Some (_, s)) => Ok s
  end.

Definition deserialize_problem (c : comb) (s : str) (h w : Z) : res (option pv) :=
  match de (mk_env h w) c s with
  | Err e => Err e
  | Ok None => Ok None
  | Ok (Some (_, [p])) => Ok (Some p)
  | Ok (Some _) => Err AssertionError
  end.

Definition slash : str := ["/"%char].

Definition serialize_problem_as_url (c : comb) (puzzle : str) (h w : Z) (problem : pv) (prefix : str) : res str :=
  match serialize_problem c problem h w with
  | Err e => Err e
  | Ok body => Ok (prefix ++ puzzle ++ slash ++ py_str_int w ++ slash ++ py_str_int h ++ slash ++ body)
  end.

(* --- _DESERIALIZE_URL_REG.match(url): "http", optional "s", "://", one or more non-slash
   characters, "/p", optional ".html", "?", name (non-slash, non-empty), "/", digits, "/",
   digits, "/", then the rest of the line (dot does not match a newline).  Read
   deterministically: no alternative needs backtracking once the text is split at slashes. *)
Fixpoint strip_prefix (p s : str) : option str :=
  match p, s with
  | [], _ => Some s
  | x :: p', y :: s' => if ascii_eqb x y then strip_prefix p' s' else None
  | _ :: _, [] => None
  end.

Fixpoint span_until (stop : ascii -> bool) (s : str) : str * str :=
  match s with
  | c :: t => if stop c then ([], s) else let '(a, b) := span_until stop t in (c :: a, b)
  | [] => ([], [])
  end.

Definition is_slash (c : ascii) : bool := ascii_eqb c "/"%char.
Definition is_ascii_digit (c : ascii) : bool := in_range 48 57 (ord c).
Definition is_newline (c : ascii) : bool := ascii_eqb c "010"%char.

Definition lit (s : list nat) : str := map ascii_of_nat s.
Definition s_http : str := lit [104; 116; 116; 112]%nat.              (* "http" *)
Definition s_colon_slashes : str := lit [58; 47; 47]%nat.             (* "://" *)
Definition s_slash_p : str := lit [47; 112]%nat.                      (* "/p" *)
Definition s_dot_html : str := lit [46; 104; 116; 109; 108]%nat.      (* ".html" *)

(* (name, width digits, height digits, body) *)
Definition url_match (url : str) : option (str * str * str * str) :=
  match strip_prefix s_http url with
  | None => None
  | Some r0 =>
      let r1 := match r0 with c :: t => if ascii_eqb c "s"%char then
                                          match strip_prefix s_colon_slashes t with Some _ => t | None => r0 end
                                        else r0
                | [] => r0 end in
      match strip_prefix s_colon_slashes r1 with
      | None => None
      | Some r2 =>
          let '(host, r3) := span_until is_slash r2 in
          match host with
          | [] => None
          | _ =>
              match strip_prefix s_slash_p r3 with
              | None => None
              | Some r4 =>
                  let r5 := match strip_prefix s_dot_html r4 with
                            | Some t => match t with c :: _ => if ascii_eqb c "?"%char then t else r4 | [] => r4 end
                            | None => r4 end in
                  match r5 with
                  | q :: r6 =>
                      if negb (ascii_eqb q "?"%char) then None else
                      let '(name, r7) := span_until is_slash r6 in
                      match name, r7 with
                      | _ :: _, _ :: r8 =>
                          let '(wd, r9) := span_until (fun c => negb (is_ascii_digit c)) r8 in
                          match wd, r9 with
                          | _ :: _, c9 :: r10 =>
                              if negb (is_slash c9) then None else
                              let '(hd, r11) := span_until (fun c => negb (is_ascii_digit c)) r10 in
                              match hd, r11 with
                              | _ :: _, c11 :: r12 =>
                                  if negb (is_slash c11) then None else
                                  Some (name, wd, hd, fst (span_until is_newline r12))
                              | _, _ => None
                              end
                          | _, _ => None
                          end
                      | _, _ => None
                      end
                  | [] => None
                  end
              end
          end
      end
  end.

(* get_puzzle_info_from_url: (name, height, width) *)
Definition get_puzzle_info_from_url (url : str) : res (option (str * Z * Z)) :=
  match url_match url with
  | None => Ok None
  | Some (name, wd, hd, _) =>
      match py_int hd 10 with
      | Err e => Err e
      | Ok h => match py_int wd 10 with Err e => Err e | Ok w => Ok (Some (name, h, w)) end
      end
  end.

Inductive allowed := AllowAny | AllowOne (p : str) | AllowList (l : list str).

(* result: None | problem | (height, width, problem) as a pv *)
Definition deserialize_problem_as_url (c : comb) (url : str) (al : allowed)
           (allow_failure return_size : bool) : res (option pv) :=
  match url_match url with
  | None => if allow_failure then Ok None else Err ValueError
  | Some (puzzle, wd, hd, body) =>
      match py_int wd 10 with
      | Err e => Err e
      | Ok w =>
      match py_int hd 10 with
      | Err e => Err e
      | Ok h =>
          let ok := match al with
                    | AllowAny => true
                    | AllowOne p => str_eqb puzzle p
                    | AllowList l => existsb (str_eqb puzzle) l
                    end in
          if negb ok then Err ValueError else
          match deserialize_problem c body h w with
          | Err e => Err e
          | Ok None => Ok None
          | Ok (Some VNone) => Ok None                 (* `if problem is None: return None` *)
          | Ok (Some p) => Ok (Some (if return_size then VTup [VInt h; VInt w; p] else p))
          end
      end end
  end.
