"""C11 plug-in: yajilin (solve_yajilin(height, width, problem)); cells '..', '??', '^n', 'vn', '<n', '>n'."""
import itertools

import c11lib as L

NAME = "yajilin"
MODULE = "cspuz.puzzle.yajilin"
FUNC = "solve_yajilin"
LOOP = True
KIND = {"^": 1, "v": 2, "<": 3, ">": 4}


def call(mod, pb):
    return mod.solve_yajilin(pb["h"], pb["w"], pb["grid"])


def ncand(pb):
    return 2 ** (L.n_loop_edges(pb['h'], pb['w']) + pb['h'] * pb['w'])


def encode(pb):
    kind, num = [], []
    for row in pb["grid"]:
        for c in row:
            if c == "..":
                kind.append(0)
                num.append(0)
            elif c == "??":
                kind.append(5)
                num.append(0)
            else:
                kind.append(KIND[c[0]])
                num.append(int(c[1:]))
    return [[pb["h"], pb["w"]], kind, num]


def _cellvals(maxn):
    return ["..", "??"] + [d + str(n) for d in "^v<>" for n in range(0, maxn + 1)]


def families(tier, rng):
    th = tier == "thorough"
    for (h, w) in [(1, 1), (1, 2), (2, 1)]:
        for g in L.all_grids(h, w, _cellvals(2)):
            yield {"h": h, "w": w, "grid": g}
    # one clue anywhere (edge and interior, zero-valued included), rest plain
    for (h, w) in [(2, 2), (2, 3), (3, 2), (1, 4), (4, 1), (1, 5)] + ([(2, 4), (4, 2)] if th else []):
        one = []
        for y in range(h):
            for x in range(w):
                for c in _cellvals(2)[1:]:
                    g = [[".."] * w for _ in range(h)]
                    g[y][x] = c
                    one.append(g)
        for g in (one if th else L.sample(rng, one, 25)):
            yield {"h": h, "w": w, "grid": g}
        for _ in range(60 if th else 8):
            yield {"h": h, "w": w, "grid": L.random_grid(rng, h, w, _cellvals(2), 0.75)}




def tier2(tier, rng):
    for (h, w) in [(1, 1), (1, 2), (2, 1)]:
        for g in L.sample(rng, L.all_grids(h, w, _cellvals(1)), 40 if tier == "thorough" else 8):
            yield {"h": h, "w": w, "grid": g}


def big(tier, rng):
    """long single-row / single-column boards with a two-digit arrow clue: no loop fits, so every free cell is black;
    free cells and '??' cells alternate (black cells may not touch): exactly one solution"""
    th = tier == "thorough"
    for n in (L.LONG if th else L.sample(rng, L.LONG, 4) + [21]):
        for p, d in ((0, ">"), (n - 1, "<"), (rng.randrange(n), rng.choice("<>"))):
            row = [".."] * n
            for q in range(n):
                if q != p and abs(q - p) % 2 == 0:
                    row[q] = "??"
            cnt = sum(1 for q in range(n) if row[q] == ".." and q != p and ((q > p) if d == ">" else (q < p)))
            row[p] = d + str(cnt)
            black = [1 if (row[q] == "..") else 0 for q in range(n)]
            yield {"h": 1, "w": n, "grid": [row], "planted": [[0] * (n - 1) + black], "n_solutions": 1}
            col = [[{"<": "^", ">": "v"}.get(c[0], c[0]) + c[1:]] for c in row]
            yield {"h": n, "w": 1, "grid": col, "planted": [[0] * (n - 1) + black], "n_solutions": 1}
