open Model
open Zutil

let opt = function "_" -> None | s -> Some (z_of_int (int_of_string s))

(* key:  i N | s a b c *)
let parse_key toks = match toks with
  | "i" :: n :: rest -> (KInt (z_of_int (int_of_string n)), rest)
  | "s" :: a :: b :: c :: rest -> (KSlice (opt a, opt b, opt c), rest)
  | _ -> failwith "key"

let rec pairs = function
  | y :: x :: rest -> (z_of_int (int_of_string y), z_of_int (int_of_string x)) :: pairs rest
  | [] -> [] | _ -> failwith "pairs"

let parse_key2 toks = match toks with
  | "1" :: rest -> let (k, _) = parse_key rest in K1 k
  | "2" :: rest -> let (ky, r) = parse_key rest in let (kx, _) = parse_key r in K2 (ky, kx)
  | "L" :: rest -> KL (pairs rest)
  | _ -> failwith "key2"

let iota n = List.init n (fun i -> z_of_int i)
let rows h w = List.init h (fun y -> List.init w (fun x -> z_of_int (y * w + x)))

let show = function
  | Err e -> "E " ^ string_of_int (int_of_nat (pyerr_code e))
  | Ok (RScalar a) -> "S " ^ zs [a]
  | Ok (R1 l) -> "1 " ^ zs l
  | Ok (R2 (h, w, l)) -> "2 " ^ zs [h; w] ^ " : " ^ zs l

let handle toks = match toks with
  | "G2" :: h :: w :: rest ->
      let h = int_of_string h and w = int_of_string w in
      show (getitem2 (z_of_int h) (z_of_int w) (iota (h * w)) (parse_key2 rest))
  | "P2" :: h :: w :: rest ->
      let h = int_of_string h and w = int_of_string w in
      show (spec_getitem2 (z_of_int h) (z_of_int w) (rows h w) (parse_key2 rest))
  | "G1" :: n :: rest ->
      let (k, _) = parse_key rest in show (getitem1 (iota (int_of_string n)) k)
  | "RS" :: n :: h :: w :: _ ->
      show (reshape (iota (int_of_string n)) (z_of_int (int_of_string h)) (z_of_int (int_of_string w)))
  | _ -> "EXN bad request"

let () = main_loop handle
