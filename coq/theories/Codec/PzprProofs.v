(* The independent pzpr decoder decodeNumber16 (Codec/Pzpr.v) reads the text of
   Grid / Seq (OneOf [Spaces 0 "g"; HexInt]) -- sudoku's codec and util.encode_array(empty=0)
   -- back as the same cells, for every board. *)
From Coq Require Import ZArith List Ascii Bool NArith Lia.
From Cspuz Require Import Lib.PyErr Codec.Comb Codec.CombWf Codec.CombBasics Codec.CombLeaf Codec.Legacy
  Codec.LegacyProofs Codec.LegacyEq Codec.Pzpr.
Import ListNotations.
Local Open Scope Z_scope.

(* ------------------------------------------------------------------ characters, as the pzpr side sees them *)
Lemma code_ord c : code c = ord c.
Proof. reflexivity. Qed.

Lemma clean16_digit_in ch : cleanb 16 ch = true -> digit_in 16 ch = Some (dv ch).
Proof.
  revert ch.
  assert (H : forall ch, (negb (cleanb 16 ch) ||
            match digit_in 16 ch with Some v => v =? dv ch | None => false end) = true).
  { apply forall_chars. vm_compute. reflexivity. }
  intros ch Hc. specialize (H ch). rewrite Hc in H. simpl in H.
  destruct (digit_in 16 ch); [|discriminate]. apply Z.eqb_eq in H. subst. reflexivity.
Qed.

Lemma hexnum_clean ds : forallb (cleanb 16) ds = true -> forall acc, hexnum ds acc = Some (valacc 16 acc ds).
Proof.
  induction ds as [|c ds IH]; simpl; intros H acc; [reflexivity|].
  apply andb_true_iff in H as [Hc Hds]. rewrite (clean16_digit_in c Hc). rewrite IH by exact Hds. reflexivity.
Qed.

Lemma take_hex_to_base v rest : 0 <= v -> 
  take_hex (length (to_base 16 v)) (to_base 16 v ++ rest) = Some (v, rest).
Proof.
  intros Hv. destruct (to_base_spec 16 v) as (_ & Hc & Hval); [lia|lia|].
  unfold take_hex. rewrite app_length.
  destruct (Nat.ltb_spec (length (to_base 16 v) + length rest) (length (to_base 16 v))); [lia|].
  rewrite firstn_app_exact, skipn_app_exact. rewrite hexnum_clean by exact Hc. rewrite Hval. reflexivity.
Qed.

(* the separator characters are not hex digits *)
Lemma special_not_digit : digit_in 16 "-"%char = None /\ digit_in 16 "+"%char = None /\ digit_in 16 "."%char = None.
Proof. repeat split; reflexivity. Qed.

Lemma skip_char cnt : 1 <= cnt <= 20 ->
  digit_in 16 (base36_char (cnt + 15)) = None /\ is_ch "-" (base36_char (cnt + 15)) = false /\
  is_ch "+" (base36_char (cnt + 15)) = false /\ is_ch "." (base36_char (cnt + 15)) = false /\
  between "g" "z" (base36_char (cnt + 15)) = true /\ code (base36_char (cnt + 15)) - 87 - 16 = cnt - 1.
Proof.
  intros H.
  assert (A : forallb (fun cnt => let ch := base36_char (cnt + 15) in
              match digit_in 16 ch with None => true | Some _ => false end && negb (is_ch "-" ch) && negb (is_ch "+" ch)
              && negb (is_ch "." ch) && between "g" "z" ch && (code ch - 87 - 16 =? cnt - 1))
            (map Z.of_nat (seq 1 20)) = true) by (vm_compute; reflexivity).
  rewrite forallb_forall in A. specialize (A cnt).
  assert (Hin : In cnt (map Z.of_nat (seq 1 20))).
  { replace cnt with (Z.of_nat (Z.to_nat cnt)) by lia. apply in_map. apply in_seq. lia. }
  specialize (A Hin). cbv zeta in A.
  repeat (apply andb_true_iff in A as [A ?]).
  destruct (digit_in 16 (base36_char (cnt + 15))); [discriminate|].
  repeat match goal with H : negb _ = true |- _ => apply negb_true_iff in H end.
  apply Z.eqb_eq in H0. repeat split; auto.
Qed.

(* ------------------------------------------------------------------ the array *)
Lemma upd_app {A} (pre : list A) x t v : upd (pre ++ x :: t) (length pre) v = pre ++ v :: t.
Proof. induction pre as [|a pre IH]; simpl; [reflexivity|]. rewrite IH. reflexivity. Qed.

Definition qnum0 (v : Z) : Z := if v =? 0 then -1 else v.

(* one number token of HexInt read by decodeNumber16's dispatch *)
Lemma hexenc_shape v : 1 <= v <= 4095 ->
  (v <= 15 /\ exists c, hexenc v = [c] /\ digit_in 16 c = Some v) \/
  (16 <= v <= 255 /\ hexenc v = "-"%char :: to_base 16 v /\ length (to_base 16 v) = 2%nat) \/
  (256 <= v /\ hexenc v = "+"%char :: to_base 16 v /\ length (to_base 16 v) = 3%nat).
Proof.
  intros Hv. unfold hexenc, hex_prefix. rewrite to_base16_nonneg by lia.
  pose proof (hex_len v ltac:(lia)) as Hlen. unfold hex_len_of in Hlen.
  destruct (Z.leb_spec 16 v); destruct (Z.ltb_spec v 256); cbn [andb].
  - right; left. destruct (Z.ltb_spec v 16); [lia|]. repeat split; auto; lia.
  - right; right. destruct (Z.leb_spec 256 v); [|lia]. destruct (Z.ltb_spec v 16); [lia|]. repeat split; auto; lia.
  - left. destruct (Z.leb_spec 256 v); [lia|]. destruct (Z.ltb_spec v 16); [|lia]. split; [lia|].
    destruct (to_base 16 v) as [|c [|c2 t]] eqn:E; try discriminate.
    destruct (to_base_spec 16 v) as (_ & Hc & Hval); [lia|lia|]. rewrite E in Hc, Hval.
    simpl in Hc. rewrite andb_true_r in Hc. exists c. split; [reflexivity|].
    rewrite (clean16_digit_in c Hc). unfold valacc in Hval. simpl in Hval. unfold step in Hval. f_equal. lia.
  - lia.
Qed.

(* ------------------------------------------------------------------ decodeNumber16 on the text of the cells *)
Definition scell_ok (v : Z) : Prop := 0 <= v <= 4095.

Lemma num16_cells : forall l cnt pre fuel n,
  Forall scell_ok l -> 0 <= cnt <= 20 ->
  n = (length pre + Z.to_nat cnt + length l)%nat ->
  (length (enc_ints 0 l cnt) < fuel)%nat ->
  (0 < Z.to_nat cnt + length l)%nat ->
  num16 fuel n (length pre) (pre ++ repeat (-1) (Z.to_nat cnt + length l)) (enc_ints 0 l cnt)
  = Some (pre ++ repeat (-1) (Z.to_nat cnt) ++ map qnum0 l, []).
Proof.
  induction l as [|v t IH]; intros cnt pre fuel n Hall Hcnt Hn Hfuel Hpos.
  - (* only pending empty cells *)
    simpl in *. rewrite Nat.add_0_r in *. unfold enc_flush in *.
    destruct (Z.ltb_spec 0 cnt); [|lia].
    destruct fuel as [|fuel]; [simpl in Hfuel; lia|]. cbn [num16].
    destruct (Nat.leb_spec n (length pre)); [lia|].
    destruct (skip_char cnt ltac:(lia)) as (E1 & E2 & E3 & E4 & E5 & E6).
    rewrite E1, E2, E3, E4, E5, E6.
    destruct (Nat.leb_spec n (length pre + Z.to_nat (cnt - 1) + 1)); [|lia].
    rewrite app_nil_r. reflexivity.
  - inversion Hall as [|x0 xs0 Hv Ht]; subst x0 xs0.
    cbn [enc_ints] in *. destruct (Z.eqb_spec v 0) as [->|Hne].
    + (* an empty cell *)
      destruct (Z.leb_spec 20 cnt).
      * assert (cnt = 20) by lia. subst cnt.
        destruct fuel as [|fuel]; [simpl in Hfuel; lia|]. cbn [num16].
        destruct (Nat.leb_spec n (length pre)); [simpl in Hn; lia|].
        change (digit_in 16 "z"%char) with (@None Z). change (is_ch "-" "z"%char) with false.
        change (is_ch "+" "z"%char) with false. change (is_ch "." "z"%char) with false.
        change (between "g" "z" "z"%char) with true. cbv iota.
        change (Z.to_nat (code "z"%char - 87 - 16)) with 19%nat.
        destruct (Nat.leb_spec n (length pre + 19 + 1)); [simpl in Hn; lia|].
        change (Z.to_nat 20) with 20%nat in *. simpl length in *.
        replace (pre ++ repeat (-1) (20 + S (length t))) with ((pre ++ repeat (-1) 20) ++ repeat (-1) (Z.to_nat 1 + length t))
          by (rewrite <- app_assoc, <- repeat_app; f_equal; f_equal; simpl; lia).
        replace (length pre + 19 + 1)%nat with (length (pre ++ repeat (-1) 20)) by (rewrite app_length, repeat_length; lia).
        rewrite (IH 1 (pre ++ repeat (-1) 20) fuel n Ht) ; try lia.
        -- rewrite <- app_assoc. reflexivity.
        -- rewrite app_length, repeat_length. simpl in Hn. simpl. lia.
      * simpl length in *.
        replace (Z.to_nat cnt + S (length t))%nat with (Z.to_nat (cnt + 1) + length t)%nat by lia.
        rewrite (IH (cnt + 1) pre fuel n Ht); try lia.
        f_equal. f_equal. simpl. replace (Z.to_nat (cnt + 1)) with (Z.to_nat cnt + 1)%nat by lia.
        rewrite repeat_app. rewrite <- app_assoc. reflexivity.
    + (* a number *)
      assert (Hv1 : 1 <= v <= 4095) by (unfold scell_ok in Hv; lia).
      simpl length in *.
      (* first the pending empty cells, if any *)
      assert (Hskip : forall fuel', (length (hexenc v ++ enc_ints 0 t 0) < fuel')%nat ->
                num16 fuel' n (length pre + Z.to_nat cnt)
                      ((pre ++ repeat (-1) (Z.to_nat cnt)) ++ repeat (-1) (S (length t))) (hexenc v ++ enc_ints 0 t 0)
                = Some (pre ++ repeat (-1) (Z.to_nat cnt) ++ map qnum0 (v :: t), [])).
      { intros fuel' Hf'.
        set (pre' := pre ++ repeat (-1) (Z.to_nat cnt)).
        assert (Hlp : length pre' = (length pre + Z.to_nat cnt)%nat) by (unfold pre'; rewrite app_length, repeat_length; reflexivity).
        rewrite <- Hlp.
        destruct fuel' as [|fuel']; [lia|].
        assert (Hq : qnum0 v = v) by (unfold qnum0; destruct (Z.eqb_spec v 0); [lia|reflexivity]).
        assert (Hfin : forall rest arr', arr' = pre' ++ v :: repeat (-1) (length t) -> rest = enc_ints 0 t 0 ->
                  (length rest < fuel')%nat ->
                  (if Nat.leb n (S (length pre')) then Some (arr', rest) else num16 fuel' n (S (length pre')) arr' rest)
                  = Some (pre ++ repeat (-1) (Z.to_nat cnt) ++ map qnum0 (v :: t), [])).
        { intros rest arr' -> -> Hfr.
          destruct t as [|v2 t2].
          - destruct (Nat.leb_spec n (S (length pre'))); [|simpl in Hn; lia].
            simpl. unfold pre'. rewrite Hq. rewrite <- app_assoc. reflexivity.
          - destruct (Nat.leb_spec n (S (length pre'))); [simpl in Hn; lia|].
            replace (pre' ++ v :: repeat (-1) (length (v2 :: t2)))
              with ((pre' ++ [v]) ++ repeat (-1) (Z.to_nat 0 + length (v2 :: t2))) by (rewrite <- app_assoc; reflexivity).
            replace (S (length pre')) with (length (pre' ++ [v])) by (rewrite app_length; simpl; lia).
            rewrite (IH 0 (pre' ++ [v]) fuel' n Ht); try lia.
            + simpl. unfold pre'. rewrite Hq. repeat rewrite <- app_assoc. reflexivity.
            + rewrite app_length. simpl. simpl in Hn. lia. }
        cbn [num16 repeat].
        destruct (hexenc_shape v Hv1) as [(Hle & c & Ec & Ed)|[(Hr & Ec & El)|(Hr & Ec & El)]].
        - rewrite Ec. cbn [app]. destruct (Nat.leb_spec n (length pre')); [simpl in Hn; lia|].
          rewrite Ed. rewrite upd_app. apply Hfin; auto.
          rewrite Ec in Hf'. simpl in Hf'. lia.
        - rewrite Ec. cbn [app]. destruct (Nat.leb_spec n (length pre')); [simpl in Hn; lia|].
          destruct special_not_digit as (S1 & _). rewrite S1. change (is_ch "-" "-"%char) with true. cbv iota.
          rewrite <- El. rewrite take_hex_to_base by lia. rewrite upd_app. apply Hfin; auto.
          rewrite Ec in Hf'. simpl in Hf'. rewrite app_length in Hf'. lia.
        - rewrite Ec. cbn [app]. destruct (Nat.leb_spec n (length pre')); [simpl in Hn; lia|].
          destruct special_not_digit as (_ & S2 & _). rewrite S2. change (is_ch "-" "+"%char) with false.
          change (is_ch "+" "+"%char) with true. cbv iota.
          rewrite <- El. rewrite take_hex_to_base by lia. rewrite upd_app. apply Hfin; auto.
          rewrite Ec in Hf'. simpl in Hf'. rewrite app_length in Hf'. lia. }
      unfold enc_flush in *. destruct (Z.ltb_spec 0 cnt).
      * destruct fuel as [|fuel]; [simpl in Hfuel; lia|]. cbn [app num16].
        destruct (Nat.leb_spec n (length pre)); [lia|].
        destruct (skip_char cnt ltac:(lia)) as (E1 & E2 & E3 & E4 & E5 & E6).
        rewrite E1, E2, E3, E4, E5, E6.
        destruct (Nat.leb_spec n (length pre + Z.to_nat (cnt - 1) + 1)); [lia|].
        replace (length pre + Z.to_nat (cnt - 1) + 1)%nat with (length pre + Z.to_nat cnt)%nat by lia.
        replace (pre ++ repeat (-1) (Z.to_nat cnt + S (length t)))
          with ((pre ++ repeat (-1) (Z.to_nat cnt)) ++ repeat (-1) (S (length t)))
          by (rewrite <- app_assoc, <- repeat_app; reflexivity).
        apply Hskip. simpl in Hfuel. lia.
      * assert (cnt = 0) by lia. subst cnt. cbn [app].
        specialize (Hskip fuel). change (Z.to_nat 0) with 0%nat in *. rewrite Nat.add_0_r in Hskip.
        simpl repeat in Hskip. rewrite app_nil_r in Hskip. simpl app in Hskip |- *.
        apply Hskip. simpl in Hfuel. lia.
Qed.

Lemma decode_number16_cells l : Forall scell_ok l -> l <> [] ->
  decode_number16 (length l) (enc_ints 0 l 0) = Some (map qnum0 l, []).
Proof.
  intros Hall Hne. unfold decode_number16.
  destruct (length l) as [|n'] eqn:El; [destruct l; [congruence|discriminate]|]. rewrite <- El.
  pose proof (num16_cells l 0 [] (S (length (enc_ints 0 l 0))) (length l) Hall ltac:(lia)) as H.
  simpl in H. apply H; auto; lia.
Qed.

Lemma rows_of_concat {A} (w : nat) (rows : list (list A)) : Forall (fun r => length r = w) rows ->
  rows_of (length rows) w (concat rows) = rows.
Proof.
  induction 1 as [|r rows Hr _ IH]; simpl; [reflexivity|].
  rewrite <- Hr. rewrite firstn_app_exact, skipn_app_exact. rewrite Hr. rewrite IH. reflexivity.
Qed.

Lemma qnum0_not_q l : Forall scell_ok l -> existsb (fun q => q =? -2) (map qnum0 l) = false.
Proof.
  induction 1 as [|v l Hv _ IH]; simpl; [reflexivity|]. rewrite IH, orb_false_r.
  unfold qnum0, scell_ok in *. destruct (Z.eqb_spec v 0); [reflexivity|]. apply Z.eqb_neq. lia.
Qed.

(* decodeNumber16 + the sudoku reading of a pzpr board give back the rows *)
Theorem pzpr_sudoku_reads rows w : rows <> [] -> (0 < w)%nat ->
  Forall (fun r => length r = w) rows -> Forall (Forall scell_ok) rows ->
  pzpr_decode_sudoku (length rows) w (enc_ints 0 (concat rows) 0) = Some (VList (int_rows rows)).
Proof.
  intros Hne Hw Hrect Hall.
  assert (Hcells : Forall scell_ok (concat rows)) by (apply Forall_concat; exact Hall).
  assert (Hlen : length (concat rows) = (length rows * w)%nat).
  { clear -Hrect. induction Hrect as [|r rows Hr _ IH]; simpl; [reflexivity|]. rewrite app_length, IH, Hr. reflexivity. }
  assert (Hcne : concat rows <> []).
  { intros E. rewrite E in Hlen. simpl in Hlen. destruct rows; [congruence|]. simpl in Hlen. lia. }
  unfold pzpr_decode_sudoku. rewrite <- Hlen. rewrite (decode_number16_cells _ Hcells Hcne). cbn [whole].
  rewrite qnum0_not_q by exact Hcells.
  unfold grid_pv. f_equal. f_equal.
  replace (map qnum0 (concat rows)) with (concat (map (map qnum0) rows)) by (symmetry; apply concat_map).
  replace (length rows) with (length (map (map qnum0) rows)) by apply map_length.
  rewrite rows_of_concat.
  - unfold int_rows. rewrite map_map. apply map_ext_in. intros r Hr. f_equal. rewrite map_map.
    apply map_ext_in. intros v Hv. unfold sudoku_cell, qnum0.
    destruct (Z.eqb_spec v 0) as [->|Hn0]; [reflexivity|].
    assert (Hs : scell_ok v). { rewrite Forall_forall in Hall. specialize (Hall r Hr). rewrite Forall_forall in Hall. auto. }
    unfold scell_ok in Hs. destruct (Z.eqb_spec v (-1)); [lia|reflexivity].
  - apply Forall_forall. intros r Hr. apply in_map_iff in Hr as (r0 & <- & Hr0). rewrite map_length.
    rewrite Forall_forall in Hrect. auto.
Qed.
