(* C12 — the hypotheses of the theorems in Props/C12.v are satisfiable, on the
   boundary shapes too (empty, 1xN), and the formerly accepted ill-typed uses
   (DESIGN section 7, #4 and #5) are rejected by the model of the fixed code. *)
From Coq Require Import ZArith List Bool.
From Cspuz Require Import Lib.PyErr Core.Expr Core.Build Array.Slice Array.Elementwise Array.Helpers
  Array.ArraySpec.
Import ListNotations.
Open Scope Z_scope.

Definition ia12 := VA KI (S2 1 2) [IVar 0 0 3; IVar 1 0 3].
Definition ba03 := VA KB (S2 0 3) [].
Definition ba1 := VA KB (S1 1) [BVar 0].

(* s op A keeps the operand order: 5 - A *)
Example ex_rsub :
  operands_ok OSub KI (VE (PyInt 5)) ia12 = true /\ wf_val ia12 = true /\
  py_binop OSub false (VE (PyInt 5)) ia12 =
    Ok (VA KI (S2 1 2) [INode SUB [PyInt 5; IVar 0 0 3]; INode SUB [PyInt 5; IVar 1 0 3]]).
Proof. repeat split. Qed.

(* s < A is dispatched to A.__gt__(s) *)
Example ex_lt_reflected :
  py_binop OLt false (VE (IVar 7 0 3)) ia12 =
    Ok (VA KB (S2 1 2) [BNode GT [IVar 0 0 3; IVar 7 0 3]; BNode GT [IVar 1 0 3; IVar 7 0 3]]).
Proof. reflexivity. Qed.

Example ex_empty_shape :
  operands_ok OAnd KB ba03 ba03 = true /\ wf_val ba03 = true /\ shape_ok (S2 0 3) ba03 = true /\
  py_binop OAnd true ba03 ba03 = Ok (VA KB (S2 0 3) []).
Proof. repeat split. Qed.

Example ex_cond_hyps :
  has_kind KB ba1 && has_kind KI (VE (PyInt 1)) && has_kind KI (VE (IVar 3 0 2)) = true /\
  first_shape [ba1; VE (PyInt 1); VE (IVar 3 0 2)] = Some (S1 1) /\
  fn_cond ba1 (VE (PyInt 1)) (VE (IVar 3 0 2)) = Ok (VA KI (S1 1) [INode IF [BVar 0; PyInt 1; IVar 3 0 2]]).
Proof. repeat split. Qed.

(* formerly accepted (see KNOWN_FINDINGS.txt, fixed: property=C12) *)
Example ex_int_array_plus_true :
  py_binop OAdd false (VA KI (S1 1) [IVar 0 0 1]) (VE (PyBool true)) = Err TypeError.
Proof. reflexivity. Qed.
Example ex_cond_bool_branch :
  call_method (VE (BVar 0)) m_cond [VE (BVar 0); VE (PyInt 1)] = Err TypeError.
Proof. reflexivity. Qed.
Example ex_cond_int_condition : fn_cond (VE (IVar 0 0 1)) (VE (PyInt 1)) (VE (PyInt 2)) = Err TypeError.
Proof. reflexivity. Qed.
Example ex_then_int : fn_then (VE (IVar 0 0 1)) (VE (BVar 1)) = Err TypeError.
Proof. reflexivity. Qed.
Example ex_cond_array_bool_branch : fn_cond ba1 ba1 (VE (PyInt 0)) = Err TypeError.
Proof. reflexivity. Qed.

(* equality between a boolean and an integer array is not an operator form:
   CPython falls back to identity *)
Example ex_eq_fallback :
  py_binop OEq false ba1 (VA KI (S1 1) [IVar 0 0 1]) = Ok (VE (PyBool false)).
Proof. reflexivity. Qed.

Example ex_count_true_constants :
  h_count_true [NL [NV (VE (PyBool true)); NL [NV (VE (PyBool false))]]; NV (VE (PyBool true))]
    = Ok (INode ADD [PyInt 2]).
Proof. reflexivity. Qed.

Example ex_conv2d :
  conv2d 2 2 [BVar 0; BVar 1; BVar 2; BVar 3] 1 2 ConvAnd
    = Ok (VA KB (S2 2 1) [BNode AND [BVar 0; BVar 1]; BNode AND [BVar 2; BVar 3]]).
Proof. reflexivity. Qed.

Example ex_four_neighbors_1xN :
  four_neighbor_indices 1 5 (FNTwoInts 0 4) = Ok [(0, 3)].
Proof. reflexivity. Qed.
