(* Connectivity facts for the C18 proofs: walks inside a block, the level
   iteration [grow] is sound for walks, _is_connected justifies removing a
   cell, BFS-distance (dist) has the predecessor and 1-Lipschitz properties,
   the two Voronoi halves of split_block are connected, the full board is
   connected. *)
From Coq Require Import ZArith List Bool Arith Permutation Lia.
From Cspuz Require Import Lib.PyErr Generator.Segmentation Generator.SegLists.
Import ListNotations.

Lemma adjb_adj : forall a b, adjb a b = true <-> adj a b.
Proof. intros; unfold adjb, adj; apply Z.eqb_eq. Qed.

Lemma adj_sym : forall a b, adj a b -> adj b a.
Proof. intros [a1 a2] [b1 b2]; unfold adj; simpl; lia. Qed.

Lemma adj_neq : forall a b, adj a b -> a <> b.
Proof. intros [a1 a2] [b1 b2]; unfold adj; simpl; intros H E; inversion E; subst; lia. Qed.

(* ---------------------------------------------------------------- walks *)

Lemma reach_in_l : forall B u v, reach B u v -> In u B.
Proof. induction 1; assumption. Qed.

Lemma reach_in_r : forall B u v, reach B u v -> In v B.
Proof. induction 1; assumption. Qed.

Lemma reach_trans : forall B u v w, reach B u v -> reach B v w -> reach B u w.
Proof.
  intros B u v w H1 H2; induction H2.
  - exact H1.
  - eapply reach_step; [apply IHreach; exact H1 | assumption | assumption].
Qed.

Lemma reach_sym : forall B u v, reach B u v -> reach B v u.
Proof.
  induction 1 as [u Hu | u v w Huv IH Hw Hadj].
  - apply reach_refl; exact Hu.
  - apply reach_trans with v; [|exact IH].
    eapply reach_step; [apply reach_refl; exact Hw | apply (reach_in_r _ _ _ Huv) | apply adj_sym; exact Hadj].
Qed.

Lemma reach_mono : forall B B' u v, incl B B' -> reach B u v -> reach B' u v.
Proof.
  intros B B' u v Hi H; induction H.
  - apply reach_refl; apply Hi; assumption.
  - eapply reach_step; [eassumption | apply Hi; assumption | assumption].
Qed.

Lemma connected_from_root : forall B r,
  In r B -> (forall v, In v B -> reach B r v) -> connected_block B.
Proof.
  intros B r Hr H; split.
  - intros E; subst; contradiction.
  - intros u v Hu Hv. apply reach_trans with r; [apply reach_sym; apply H; exact Hu | apply H; exact Hv].
Qed.

Lemma connected_single : forall c, connected_block [c].
Proof.
  intros c; apply connected_from_root with c; [left; reflexivity|].
  intros v [<-|[]]; apply reach_refl; left; reflexivity.
Qed.

(* merging two connected blocks that touch *)
Lemma connected_merge : forall B1 B2 u v,
  connected_block B1 -> connected_block B2 -> In u B1 -> In v B2 -> adj u v ->
  connected_block (B1 ++ B2).
Proof.
  intros B1 B2 u v [_ C1] [_ C2] Hu Hv Hadj.
  apply connected_from_root with u; [apply in_or_app; left; exact Hu|].
  intros x Hx; apply in_app_or in Hx; destruct Hx as [Hx|Hx].
  - apply reach_mono with B1; [apply incl_appl, incl_refl | apply C1; assumption].
  - apply reach_trans with v.
    + eapply reach_step; [apply reach_refl; apply in_or_app; left; exact Hu | apply in_or_app; right; exact Hv | exact Hadj].
    + apply reach_mono with B2; [apply incl_appr, incl_refl | apply C2; assumption].
Qed.

Lemma connected_snoc : forall B v c, connected_block B -> In v B -> adj v c -> connected_block (B ++ [c]).
Proof.
  intros B v c HB Hv Hadj. apply connected_merge with v c; auto; [apply connected_single | left; reflexivity].
Qed.

(* ---------------------------------------------------------------- the level iteration *)

Lemma grow_In : forall B cur v,
  In v (grow B cur) <-> In v B /\ (In v cur \/ exists u, In u cur /\ adj v u).
Proof.
  intros B cur v; unfold grow; rewrite filter_In, orb_true_iff, memc_In, existsb_exists.
  split; intros [H1 H2]; (split; [exact H1|]); destruct H2 as [H2|[u [Hu Ha]]]; auto; right; exists u;
    (split; [exact Hu | apply adjb_adj; exact Ha]).
Qed.

Definition bk (B : block) (s : cell) (k : nat) : list cell := Nat.iter k (grow B) [s].

Lemma bk_S : forall B s k, bk B s (S k) = grow B (bk B s k).
Proof. reflexivity. Qed.

Lemma bk_sound : forall B s, In s B -> forall k v, In v (bk B s k) -> reach B s v.
Proof.
  intros B s Hs; induction k as [|k IH]; intros v Hv.
  - destruct Hv as [<-|[]]; apply reach_refl; exact Hs.
  - rewrite bk_S in Hv; apply grow_In in Hv. destruct Hv as [HvB [Hv|[u [Hu Ha]]]].
    + apply IH; exact Hv.
    + eapply reach_step; [apply IH; exact Hu | exact HvB | apply adj_sym; exact Ha].
Qed.

Lemma bk_subset : forall B s, In s B -> forall k v, In v (bk B s k) -> In v B.
Proof. intros B s Hs k v Hv; eapply reach_in_r; eapply bk_sound; eassumption. Qed.

Lemma bk_mono : forall B s, In s B -> forall k v, In v (bk B s k) -> In v (bk B s (S k)).
Proof.
  intros B s Hs k v Hv; rewrite bk_S; apply grow_In; split; [eapply bk_subset; eassumption | left; exact Hv].
Qed.

Lemma bk_adj : forall B s k u v, In u (bk B s k) -> In v B -> adj v u -> In v (bk B s (S k)).
Proof. intros; rewrite bk_S; apply grow_In; split; [assumption | right; exists u; split; assumption]. Qed.

(* ---------------------------------------------------------------- _is_connected *)

Lemma iter_grow_full : forall B s m,
  m <> 0 -> length (Nat.iter m (grow B) [s]) = length B ->
  forall x, In x B -> In x (Nat.iter m (grow B) [s]).
Proof.
  intros B s m Hm Hl x Hx. destruct m as [|m]; [congruence|].
  change (Nat.iter (S m) (grow B) [s]) with (grow B (Nat.iter m (grow B) [s])) in *.
  set (cur := Nat.iter m (grow B) [s]) in *.
  unfold grow in *. apply filter_In; split; [exact Hx|].
  exact (filter_length_full (fun v => memc v cur || existsb (adjb v) cur) B Hl x Hx).
Qed.

Lemma is_connected_remove : forall B c,
  NoDup B -> In c B -> is_connected B (Some c) = true -> connected_block (remove_cell c B).
Proof.
  intros B c ND Hc H. unfold is_connected in H.
  destruct (Nat.eqb (length B) 1) eqn:E1; [discriminate|]. apply Nat.eqb_neq in E1.
  rewrite (dedup_NoDup_id B ND) in H.
  assert (Hm : memc c B = true) by (apply memc_In; exact Hc). rewrite Hm in H.
  assert (Hlen : length B = S (length (remove_cell c B))).
  { pose proof (Permutation_length (remove_cell_perm c B ND Hc)) as HL. simpl in HL. exact HL. }
  apply Nat.eqb_eq in H.
  destruct (memc _ (remove_cell c B)) eqn:Es in H.
  - apply memc_In in Es.
    match type of Es with In ?st _ => set (start := st) in * end.
    apply connected_from_root with start; [exact Es|].
    intros v Hv. apply (bk_sound _ start Es (length (remove_cell c B))). unfold bk.
    apply iter_grow_full; [destruct (remove_cell c B); [contradiction | discriminate] | lia | exact Hv].
  - simpl in H. lia.
Qed.

(* ---------------------------------------------------------------- BFS distance *)

Lemma iter_succ_r {A} (f : A -> A) : forall n x, Nat.iter n f (f x) = f (Nat.iter n f x).
Proof. induction n as [|n IH]; simpl; intros x; [reflexivity | rewrite IH; reflexivity]. Qed.

Lemma balls_nth : forall B n cur j, j <= n -> nth_error (balls B cur n) j = Some (Nat.iter j (grow B) cur).
Proof.
  intros B; induction n as [|n IH]; intros cur j Hj.
  - assert (j = 0) by lia; subst; reflexivity.
  - destruct j as [|j]; [reflexivity|]. simpl balls. simpl nth_error. rewrite IH by lia.
    rewrite iter_succ_r. reflexivity.
Qed.

Lemma balls_length : forall B n cur, length (balls B cur n) = S n.
Proof. intros B; induction n as [|n IH]; intros cur; simpl; [reflexivity | rewrite IH; reflexivity]. Qed.

Lemma first_idx_some : forall v ls k0 k,
  first_idx v ls k0 = Some k ->
  exists j l, k = k0 + j /\ nth_error ls j = Some l /\ In v l /\
              (forall j' l', j' < j -> nth_error ls j' = Some l' -> ~ In v l').
Proof.
  intros v; induction ls as [|l ls IH]; simpl; intros k0 k H; [discriminate|].
  destruct (memc v l) eqn:E.
  - inversion H; subst. exists 0, l. split; [lia|]. split; [reflexivity|]. split; [apply memc_In; exact E|].
    intros j' l' Hlt; lia.
  - apply IH in H. destruct H as [j [l0 [Hk [Hn [Hin Hmin]]]]].
    exists (S j), l0. split; [lia|]. split; [exact Hn|]. split; [exact Hin|].
    intros j' l' Hlt Hn'. destruct j' as [|j'].
    + simpl in Hn'; inversion Hn'; subst. apply memc_false; exact E.
    + simpl in Hn'. apply (Hmin j' l'); [lia | exact Hn'].
Qed.

Lemma first_idx_complete : forall v ls k0 j l,
  nth_error ls j = Some l -> In v l -> exists k, first_idx v ls k0 = Some k /\ k <= k0 + j.
Proof.
  intros v; induction ls as [|l0 ls IH]; intros k0 j l Hn Hin; [destruct j; discriminate|].
  simpl. destruct (memc v l0) eqn:E.
  - exists k0; split; [reflexivity | lia].
  - destruct j as [|j].
    + simpl in Hn; inversion Hn; subst. apply memc_In in Hin. congruence.
    + simpl in Hn. destruct (IH (S k0) j l Hn Hin) as [k [Hk Hle]]. exists k; split; [exact Hk | lia].
Qed.

Definition D (B : block) (s v : cell) : option nat := dist (dist_map B s) v.

Lemma D_some : forall B s v k, D B s v = Some k ->
  k <= length B /\ In v (bk B s k) /\ forall j, j < k -> ~ In v (bk B s j).
Proof.
  intros B s v k H. unfold D, dist, dist_map in H. apply first_idx_some in H.
  destruct H as [j [l [Hk [Hn [Hin Hmin]]]]]. simpl in Hk; subst j.
  assert (Hlt : k < S (length B)).
  { rewrite <- (balls_length B (length B) [s]). apply nth_error_Some. congruence. }
  rewrite balls_nth in Hn by lia. inversion Hn; subst l.
  split; [lia|]. split; [exact Hin|].
  intros j Hj. apply (Hmin j (bk B s j)); [exact Hj | apply balls_nth; lia].
Qed.

Lemma D_complete : forall B s v k, k <= length B -> In v (bk B s k) -> exists k', D B s v = Some k' /\ k' <= k.
Proof.
  intros B s v k Hk Hin. unfold D, dist, dist_map.
  destruct (first_idx_complete v (balls B [s] (length B)) 0 k (bk B s k)) as [k' [H1 H2]];
    [apply balls_nth; exact Hk | exact Hin |]. exists k'; split; [exact H1 | lia].
Qed.

Lemma D_seed : forall B s, D B s s = Some 0.
Proof.
  intros B s. destruct (D_complete B s s 0) as [k' [H Hle]]; [lia | left; reflexivity |].
  assert (k' = 0) by lia; subst; exact H.
Qed.

Lemma D_zero : forall B s v, D B s v = Some 0 -> v = s.
Proof. intros B s v H; apply D_some in H. destruct H as [_ [[<-|[]] _]]; reflexivity. Qed.

(* a cell at distance k+1 has a neighbour at distance k *)
Lemma D_pred : forall B s v k, In s B -> D B s v = Some (S k) ->
  exists u, In u B /\ adj v u /\ D B s u = Some k.
Proof.
  intros B s v k Hs H. destruct (D_some _ _ _ _ H) as [Hle [Hin Hmin]].
  rewrite bk_S in Hin. apply grow_In in Hin. destruct Hin as [HvB [Hin|[u [Hu Ha]]]].
  - exfalso; apply (Hmin k); [lia | exact Hin].
  - exists u. split; [exact (bk_subset B s Hs k u Hu)|]. split; [exact Ha|].
    destruct (D_complete B s u k) as [k' [Hk' Hle']]; [lia | exact Hu |].
    destruct (Nat.eq_dec k' k) as [->|Hne]; [exact Hk'|].
    exfalso. destruct (D_some _ _ _ _ Hk') as [_ [Hu' _]].
    apply (Hmin (S k')); [lia|]. eapply bk_adj; eassumption.
Qed.

(* distances of neighbours differ by at most one *)
Lemma D_lip : forall B s u v k k', In s B ->
  D B s u = Some k -> In v B -> adj v u -> D B s v = Some k' -> k' <= S k.
Proof.
  intros B s u v k k' Hs Hu HvB Ha Hv.
  destruct (D_some _ _ _ _ Hu) as [Hle [Hin _]].
  destruct (D_some _ _ _ _ Hv) as [Hle' _].
  destruct (Nat.eq_dec k (length B)) as [E|E]; [lia|].
  destruct (D_complete B s v (S k)) as [k'' [Hk'' Hle'']]; [lia | eapply bk_adj; eassumption |].
  rewrite Hv in Hk''; inversion Hk''; subst; lia.
Qed.

(* ---------------------------------------------------------------- Voronoi halves *)

Lemma voronoi_ok : forall B sa sb A1 A2,
  In sa B -> In sb B -> sa <> sb -> voronoi B sa sb = Ok (A1, A2) ->
  connected_block A1 /\ connected_block A2 /\ Permutation B (A1 ++ A2).
Proof.
  intros B sa sb A1 A2 Hsa Hsb Hne H.
  change (voronoi B sa sb) with
    (if forallb (fun v => is_some (D B sa v) && is_some (D B sb v)) B
     then Ok (filter (fun v => le_opt (D B sa v) (D B sb v)) B,
              filter (fun v => negb (le_opt (D B sa v) (D B sb v))) B)
     else @Err (block * block) KeyError) in H.
  destruct (forallb (fun v => is_some (D B sa v) && is_some (D B sb v)) B) eqn:Hall; [|discriminate].
  set (p := fun v => le_opt (D B sa v) (D B sb v)) in *.
  inversion H; subst A1 A2; clear H.
  assert (Hdef : forall v, In v B -> exists x y, D B sa v = Some x /\ D B sb v = Some y).
  { intros v Hv. rewrite forallb_forall in Hall. specialize (Hall v Hv). apply andb_true_iff in Hall.
    destruct Hall as [H1 H2]. destruct (D B sa v) as [x|]; [|discriminate]. destruct (D B sb v) as [y|]; [|discriminate].
    exists x, y; split; reflexivity. }
  split; [|split; [|apply filter_split_perm]].
  - (* the cells at least as close to sa *)
    assert (Hk : forall k v, In v B -> D B sa v = Some k -> p v = true -> reach (filter p B) sa v).
    { induction k as [|k IH]; intros v HvB Hd Hp.
      - apply D_zero in Hd; subst v. apply reach_refl. apply filter_In; split; assumption.
      - destruct (D_pred B sa v k Hsa Hd) as [u [HuB [Ha Hdu]]].
        destruct (Hdef u HuB) as [x [m' [Hx Hm']]]. destruct (Hdef v HvB) as [x' [m [Hx' Hm]]].
        rewrite Hd in Hx'; inversion Hx'; subst x'. rewrite Hdu in Hx; inversion Hx; subst x.
        pose proof (D_lip B sb u v m' m Hsb Hm' HvB Ha Hm) as Hl.
        assert (Hpv : S k <= m). { unfold p in Hp. rewrite Hd, Hm in Hp. unfold le_opt in Hp. apply Nat.leb_le in Hp. exact Hp. }
        assert (Hpu : p u = true). { unfold p. rewrite Hdu, Hm'. unfold le_opt. apply Nat.leb_le. lia. }
        eapply reach_step; [apply IH; eassumption | apply filter_In; split; assumption | apply adj_sym; exact Ha]. }
    assert (Hpa : p sa = true).
    { unfold p. rewrite D_seed. destruct (Hdef sa Hsa) as [x [y [_ Hy]]]. rewrite Hy. reflexivity. }
    apply connected_from_root with sa; [apply filter_In; split; assumption|].
    intros v Hv. apply filter_In in Hv. destruct Hv as [HvB Hp].
    destruct (Hdef v HvB) as [x [y [Hx _]]]. eapply Hk; eassumption.
  - (* the cells strictly closer to sb *)
    set (q := fun v => negb (p v)).
    assert (Hk : forall m v, In v B -> D B sb v = Some m -> p v = false -> reach (filter q B) sb v).
    { induction m as [|m IH]; intros v HvB Hd Hp.
      - apply D_zero in Hd; subst v. apply reach_refl. apply filter_In; split; [assumption | unfold q; rewrite Hp; reflexivity].
      - destruct (D_pred B sb v m Hsb Hd) as [u [HuB [Ha Hdu]]].
        destruct (Hdef u HuB) as [k' [x [Hk' Hx]]]. destruct (Hdef v HvB) as [k [x' [Hkv Hx']]].
        rewrite Hd in Hx'; inversion Hx'; subst x'. rewrite Hdu in Hx; inversion Hx; subst x.
        pose proof (D_lip B sa u v k' k Hsa Hk' HvB Ha Hkv) as Hl.
        assert (Hpv : S m < k). { unfold p in Hp. rewrite Hd, Hkv in Hp. unfold le_opt in Hp. apply Nat.leb_gt in Hp. exact Hp. }
        assert (Hpu : p u = false). { unfold p. rewrite Hdu, Hk'. unfold le_opt. apply Nat.leb_gt. lia. }
        eapply reach_step; [apply IH; eassumption | apply filter_In; split; [assumption | unfold q; rewrite Hp; reflexivity]
                           | apply adj_sym; exact Ha]. }
    assert (Hpb : p sb = false).
    { unfold p. rewrite D_seed. destruct (Hdef sb Hsb) as [x [y [Hx _]]]. rewrite Hx. simpl.
      destruct x as [|x]; [apply D_zero in Hx; congruence | reflexivity]. }
    apply connected_from_root with sb; [apply filter_In; split; [assumption | change (negb (p sb) = true); rewrite Hpb; reflexivity]|].
    intros v Hv. apply filter_In in Hv. destruct Hv as [HvB Hq]. unfold q in Hq. apply negb_true_iff in Hq.
    destruct (Hdef v HvB) as [x [y [_ Hy]]]. eapply Hk; eassumption.
Qed.

Lemma pick_seeds_spec : forall n, n <> 0 -> forall draws,
  (forall ia ib rest, pick_seeds n draws = Ok (ia, ib, rest) -> ia < n /\ ib < n /\ ia <> ib) /\
  (forall a ia ib rest, pick_seeds n (a :: draws) = Ok (ia, ib, rest) -> ia < n /\ ib < n /\ ia <> ib).
Proof.
  intros n Hn; induction draws as [|b r [IH1 IH2]].
  - split; simpl; intros; discriminate.
  - split; [apply IH2|].
    intros a ia ib rest H. simpl in H.
    destruct (Nat.eqb (a mod n) (b mod n)) eqn:E.
    + eapply IH1; exact H.
    + inversion H; subst. apply Nat.eqb_neq in E.
      split; [apply Nat.mod_upper_bound; exact Hn | split; [apply Nat.mod_upper_bound; exact Hn | exact E]].
Qed.

Lemma split_block_ok : forall B draws A1 A2 rest,
  NoDup B -> split_block B draws = Ok (A1, A2, rest) ->
  connected_block A1 /\ connected_block A2 /\ Permutation B (A1 ++ A2).
Proof.
  intros B draws A1 A2 rest ND H. unfold split_block in H.
  destruct (Nat.ltb (length B) 2) eqn:E2; [discriminate|]. apply Nat.ltb_ge in E2.
  destruct (pick_seeds (length B) draws) as [[[ia ib] r]|] eqn:Ep; simpl in H; [|discriminate].
  destruct (voronoi B (nth ia B (0, 0)%Z) (nth ib B (0, 0)%Z)) as [[a b]|] eqn:Ev; simpl in H; [|discriminate].
  inversion H; subst a b r; clear H.
  destruct (pick_seeds_spec (length B) ltac:(lia) draws) as [Hp _].
  destruct (Hp _ _ _ Ep) as [Ha [Hb Hne]].
  eapply voronoi_ok; [apply nth_In; exact Ha | apply nth_In; exact Hb | | exact Ev].
  intros E. apply Hne. eapply (proj1 (NoDup_nth B (0, 0)%Z)); eassumption.
Qed.

(* ---------------------------------------------------------------- the full board *)

Lemma zrange_In : forall n z, In z (zrange n) <-> (0 <= z < n)%Z.
Proof.
  intros n z; unfold zrange; rewrite in_map_iff; split.
  - intros [i [<- Hi]]; apply in_seq in Hi; lia.
  - intros H; exists (Z.to_nat z); split; [lia | apply in_seq; lia].
Qed.

Lemma board_In : forall h w y x, In (y, x) (board_cells h w) <-> (0 <= y < h /\ 0 <= x < w)%Z.
Proof. intros; unfold board_cells; rewrite in_prod_iff, !zrange_In; tauto. Qed.

Lemma NoDup_app_intro {A} (l l' : list A) :
  NoDup l -> NoDup l' -> (forall x, In x l -> ~ In x l') -> NoDup (l ++ l').
Proof.
  induction l as [|a l IH]; simpl; intros H1 H2 Hd; [exact H2|].
  inversion H1; subst. constructor.
  - intros Hin; apply in_app_or in Hin; destruct Hin as [Hin|Hin]; [contradiction | apply (Hd a); [left; reflexivity | exact Hin]].
  - apply IH; auto.
Qed.

Lemma NoDup_list_prod {A B} (l : list A) (l' : list B) : NoDup l -> NoDup l' -> NoDup (list_prod l l').
Proof.
  induction l as [|a l IH]; simpl; intros H1 H2; [constructor|].
  inversion H1; subst. apply NoDup_app_intro.
  - apply FinFun.Injective_map_NoDup; [intros x y E; inversion E; reflexivity | exact H2].
  - apply IH; assumption.
  - intros [x y] Hx Hy. apply in_map_iff in Hx. destruct Hx as [y' [E _]]. inversion E; subst.
    apply in_prod_iff in Hy. destruct Hy; contradiction.
Qed.

Lemma board_NoDup : forall h w, NoDup (board_cells h w).
Proof.
  intros; unfold board_cells, zrange; apply NoDup_list_prod;
    (apply FinFun.Injective_map_NoDup; [intros x y E; apply Nat2Z.inj; exact E | apply seq_NoDup]).
Qed.

Lemma board_connected : forall h w, (0 < h)%Z -> (0 < w)%Z -> connected_block (board_cells h w).
Proof.
  intros h w Hh Hw. set (B := board_cells h w).
  assert (H00 : In (0, 0)%Z B) by (apply board_In; lia).
  assert (Hcol : forall i, (Z.of_nat i < h)%Z -> reach B (0, 0)%Z (Z.of_nat i, 0%Z)).
  { induction i as [|i IH]; intros Hi.
    - apply reach_refl; exact H00.
    - eapply reach_step; [apply IH; lia | apply board_In; lia | unfold adj; simpl fst; simpl snd; lia]. }
  assert (Hrow : forall y j, (0 <= y < h)%Z -> (Z.of_nat j < w)%Z -> reach B (0, 0)%Z (y, Z.of_nat j)).
  { intros y j Hy; induction j as [|j IH]; intros Hj.
    - replace y with (Z.of_nat (Z.to_nat y)) by lia. apply Hcol; lia.
    - eapply reach_step; [apply IH; lia | apply board_In; lia | unfold adj; simpl fst; simpl snd; lia]. }
  apply connected_from_root with (0, 0)%Z; [exact H00|].
  intros [y x] Hv. apply board_In in Hv. replace x with (Z.of_nat (Z.to_nat x)) by lia. apply Hrow; lia.
Qed.
