From Coq Require Import ZArith List.
From Cspuz Require Import Lib.PyErr Generator.XorShift.
Theorem random_num_is_next : forall s, random_num s = let '(x, s') := next s in Done x s'.
Proof. reflexivity. Qed.
Print Assumptions random_num_is_next.
