(* C11 Tier 1 - firefly, direction "a rule-obeying drawing is admitted", part 1: what Rules_firefly says about the
   darts of the beams of a drawing: every drawn segment carries exactly one beam dart (never its reverse), a point
   without firefly has at most one arriving and one leaving dart and as many of the one as of the other, a firefly
   emits exactly the dart of its dot. *)
From Coq Require Import ZArith List Bool Arith Lia.
From Cspuz Require Import Core.Expr Core.Program Graph.GraphModel Graph.ReachProofs Puzzle.PuzzleBase Puzzle.ModelLemmas Puzzle.CycleLattice Puzzle.CycleCompose Puzzle.SatAbs Puzzle.FireflyFun Puzzle.FireflySem
     Puzzle.Rules_firefly Puzzle.Firefly Puzzle.FireflyGeo Puzzle.FireflyNet Puzzle.FireflyWalk.
Import ListNotations.
Local Open Scope nat_scope.

Lemma count_le1_dirs (g : nat -> bool) :
  (forall a b, In a ff_dirs -> In b ff_dirs -> g a = true -> g b = true -> a = b) -> count g ff_dirs <= 1.
Proof.
  intros Hu. rewrite count_dirs.
  destruct (g 0) eqn:G0, (g 1) eqn:G1, (g 2) eqn:G2, (g 3) eqn:G3; simpl; try lia; exfalso.
  all: try (assert (X : 0 = 1) by (apply Hu; simpl; auto); discriminate).
  all: try (assert (X : 0 = 2) by (apply Hu; simpl; auto); discriminate).
  all: try (assert (X : 0 = 3) by (apply Hu; simpl; auto); discriminate).
  all: try (assert (X : 1 = 2) by (apply Hu; simpl; auto); discriminate).
  all: try (assert (X : 1 = 3) by (apply Hu; simpl; auto); discriminate).
  all: try (assert (X : 2 = 3) by (apply Hu; simpl; auto); discriminate).
Qed.

Lemma ff_num_le_max h w dir num (p : pt) :
  gvalid h w p -> FireflyNet.fly w dir p = true -> (0 <= at2 num (S w) (fst p) (snd p))%Z ->
  (at2 num (S w) (fst p) (snd p) <= ff_max_turn (S h) (S w) dir num)%Z.
Proof.
  intros [Hy Hx] Hf Hn. unfold ff_max_turn. apply fold_max_ge. left.
  apply in_map_iff. exists p. destruct p as [y x]. cbn [fst snd] in *. split.
  - unfold FireflyNet.fly in Hf. cbn [fst snd] in Hf. rewrite Hf.
    replace (0 <=? at2 num (S w) y x)%Z with true by (symmetry; apply Z.leb_le; exact Hn). reflexivity.
  - apply cells_in. split; [apply Nat.lt_succ_r; exact Hy|apply Nat.lt_succ_r; exact Hx].
Qed.

Lemma dirs_straight' i j : In i ff_dirs -> In j ff_dirs -> i <> j ->
  Nat.eqb (i / 2) (j / 2) = Nat.eqb j (opposite i).
Proof.
  intros Hi Hj N. destruct (ff_dirs_cases i Hi) as [->|[->|[->| ->]]];
    destruct (ff_dirs_cases j Hj) as [->|[->|[->| ->]]]; try reflexivity; exfalso; apply N; reflexivity.
Qed.

Lemma count_eqb_seq a : forall n s, count (fun e => Nat.eqb e a) (seq s n) = if Nat.leb s a && Nat.ltb a (s + n) then 1 else 0.
Proof.
  induction n as [|n IH]; intros s.
  - simpl. destruct (Nat.leb_spec s a), (Nat.ltb_spec a (s + 0)); simpl; try reflexivity; lia.
  - cbn [seq]. unfold count in *. cbn [filter]. destruct (Nat.eqb_spec s a) as [->|Ne].
    + cbn [length]. rewrite IH.
      replace (Nat.leb (S a) a) with false by (symmetry; apply Nat.leb_gt; lia). cbn [andb].
      replace (Nat.leb a a) with true by (symmetry; apply Nat.leb_le; lia).
      replace (Nat.ltb a (a + S n)) with true by (symmetry; apply Nat.ltb_lt; lia). reflexivity.
    + rewrite IH. destruct (Nat.leb_spec (S s) a), (Nat.leb_spec s a), (Nat.ltb_spec a (S s + n)), (Nat.ltb_spec a (s + S n));
        simpl; try reflexivity; lia.
Qed.

Section Beams.
  Variables (h w : nat) (dir num : list Z) (ans : answer).
  Notation H := (S h).
  Notation W := (S w).
  Notation N := (H * W).
  Notation NE := (ff_E H W).
  Notation valid := (gvalid h w).
  Notation ok := (gok h w).
  Notation sid := (gsid h w).
  Notation fly := (FireflyNet.fly w dir).
  Notation dot := (FireflyNet.dot w dir).
  Notation on := (onA ans).
  Notation g := (lattice H W).
  Notation flies := (filter (fun '(y, x) => ff_is dir W y x) (cells H W)).
  Notation beams := (map (fun '(y, x) => (y, x, ff_beam H W dir on y x)) flies).
  Notation walk := (fun fuel (p : pt) d t acc => ff_walk fuel H W dir on (fst p) (snd p) d t acc).
  Notation Bi := (FireflyWalk.Bi h w dir on).
  Notation cont := (FireflyWalk.cont h w on).
  Notation segp := (FireflyWalk.segp h w on).

  Hypothesis R2 :
    forallb (fun '(y, x) => ff_is dir W y x ||
               (let d := degree g on (y * W + x) in Nat.eqb d 0 || Nat.eqb d 2)) (cells H W) = true.
  Hypothesis R3 :
    forallb (fun '(y, x, b) =>
               match b with
               | Some (y', x', d, t, _) =>
                   negb (Nat.eqb (ff_dot dir W y' x') (opposite d)) &&
                   (let n := at2 num W y x in (n <? 0)%Z || (t =? n)%Z)
               | None => false
               end) beams = true.
  Hypothesis R4 :
    forallb (fun k => negb (on k) ||
               existsb (fun '(_, _, b) => match b with Some (_, _, _, _, segs) => mem k segs | None => false end) beams)
            (seq 0 (n_lattice_edges H W)) = true.

  Definition start (F : pt) : dart := (F, dot F).
  Definition rev (x : dart) : dart := (gstep (fst x) (snd x), opposite (snd x)).

  Lemma in_flies F : valid F -> fly F = true -> In F flies.
  Proof.
    intros [Hy Hx] Hf. destruct F as [y x]. cbn [fst snd] in *. apply filter_In. split; [|exact Hf].
    apply cells_in. lia.
  Qed.
  Lemma flies_in F : In F flies -> valid F /\ fly F = true.
  Proof.
    intros Hin. apply filter_In in Hin. destruct F as [y x]. destruct Hin as [Hc Hf]. apply cells_in in Hc.
    split; [split; cbn [fst snd]; lia|exact Hf].
  Qed.

  (* the beam of a firefly *)
  Lemma beam_data F : valid F -> fly F = true ->
    exists q dl t' segs,
      walk N F (dot F) 0%Z [] = Some (fst q, snd q, dl, t', segs) /\
      segp F (dot F) = true /\ dot q <> opposite dl /\
      ((at2 num W (fst F) (snd F) <? 0)%Z = true \/ t' = at2 num W (fst F) (snd F)).
  Proof.
    intros HF Hf. pose proof (in_flies F HF Hf) as Hin.
    rewrite forallb_map, forallb_forall in R3. specialize (R3 F Hin). destruct F as [y x]. cbn [fst snd] in *.
    unfold ff_beam in R3. fold (dot (y, x)) in R3. unfold FireflyWalk.segp. cbn [fst snd].
    change (ff_dot dir W y x) with (dot (y, x)) in R3.
    destruct (seg H W on y x (dot (y, x))); [|discriminate].
    destruct (ff_walk N H W dir on y x (dot (y, x)) 0%Z []) as [[[[[y' x'] dl] t'] segs]|]; [|discriminate].
    apply andb_true_iff in R3. destruct R3 as [A B]. apply negb_true_iff, Nat.eqb_neq in A.
    exists (y', x'), dl, t', segs. split; [reflexivity|]. split; [reflexivity|]. split; [exact A|].
    cbv zeta in B. apply orb_true_iff in B. destruct B as [B|B]; [left; exact B|right; apply Z.eqb_eq; exact B].
  Qed.

  Lemma beam_ends F : valid F -> fly F = true ->
    exists e, ends_at h w dir on N (start F) e /\ dot (fst e) <> opposite (snd e).
  Proof.
    intros HF Hf. destruct (beam_data F HF Hf) as [q [dl [t' [segs [Hw [_ [Ha _]]]]]]].
    exists (q, dl). split; [|exact Ha]. exists 0%Z, [], t', segs. exact Hw.
  Qed.

  (* ---- the darts on beams *)
  Definition B (x : dart) : Prop := exists F, valid F /\ fly F = true /\ Bi (start F) x.

  Lemma B_facts p d : B (p, d) -> valid p /\ In d ff_dirs /\ ok p d = true /\ on (sid p d) = true.
  Proof.
    intros [F [HF [Hf Hb]]]. remember (p, d) as x eqn:Ex. revert p d Ex.
    induction Hb as [|p0 d0 d' Hb IH Hfl Hc]; intros p d Ex.
    - unfold start in Ex. inversion Ex; subst p d.
      destruct (beam_data F HF Hf) as [_ [_ [_ [_ [_ [Hs _]]]]]].
      pose proof (FireflyNet.dot_in w dir F Hf) as Hd.
      rewrite (segp_spec h w on F (dot F) Hd) in Hs. apply andb_true_iff in Hs. tauto.
    - inversion Ex; subst p d. destruct (IH p0 d0 eq_refl) as [Hp0 [Hd0 [K0 _]]].
      destruct (cont_spec h w on p0 d0 d' Hc) as [Hd' [_ [Hs _]]].
      rewrite (segp_spec h w on _ d' Hd') in Hs. apply andb_true_iff in Hs.
      split; [apply gstep_valid; assumption|]. tauto.
  Qed.

  Lemma B_start F : valid F -> fly F = true -> B (start F).
  Proof. intros HF Hf. exists F. split; [exact HF|]. split; [exact Hf|]. apply Bi_start. Qed.

  Lemma B_forward p d : B (p, d) ->
    (fly (gstep p d) = true /\ dot (gstep p d) <> opposite d) \/
    (fly (gstep p d) = false /\ exists d', cont p d = Some d' /\ B (gstep p d, d')).
  Proof.
    intros [F [HF [Hf Hb]]]. destruct (beam_ends F HF Hf) as [e [He Ha]].
    destruct (Bi_forward h w dir on (start F) N e p d He Hb) as [[Hfl Ee]|[Hfl [d' [Hc Hb']]]].
    - left. split; [exact Hfl|]. rewrite Ee in Ha. exact Ha.
    - right. split; [exact Hfl|]. exists d'. split; [exact Hc|]. exists F. split; [exact HF|]. split; [exact Hf|exact Hb'].
  Qed.

  Lemma B_origin p d : B (p, d) ->
    (fly p = true /\ d = dot p) \/
    (fly p = false /\ exists p0 d0, B (p0, d0) /\ p = gstep p0 d0 /\ cont p0 d0 = Some d).
  Proof.
    intros [F [HF [Hf Hb]]]. inversion Hb as [E|p0 d0 d' Hb0 Hfl Hc E].
    - left. unfold start in E. inversion E; subst. split; [exact Hf|reflexivity].
    - right. split; [exact Hfl|]. exists p0, d0. split; [|split; [reflexivity|exact Hc]].
      exists F. split; [exact HF|]. split; [exact Hf|exact Hb0].
  Qed.

  Lemma rev_rev p d : valid p -> In d ff_dirs -> ok p d = true -> rev (rev (p, d)) = (p, d).
  Proof.
    intros Hp Hd K. unfold rev. cbn [fst snd]. destruct (grev h w p d Hp Hd K) as [_ [R2' _]].
    rewrite R2', (ff_opposite_invol d Hd). reflexivity.
  Qed.

  (* a beam never runs along a segment against another beam (or itself) *)
  Lemma B_no_reverse x : B x -> ~ B (rev x).
  Proof.
    intros [F [HF [Hf Hb]]]. induction Hb as [|p d d' Hb IH Hfl Hc].
    - (* the dart of the dot: a beam running against it would arrive at the dot *)
      intros Hr. unfold start, rev in Hr. cbn [fst snd] in Hr.
      destruct (B_facts _ _ (B_start F HF Hf)) as [_ [Hd [K _]]]. fold (start F) in K. cbn [start] in K.
      destruct (grev h w F (dot F) HF Hd K) as [_ [R2' _]].
      destruct (B_forward _ _ Hr) as [[_ Ha]|[Hfl _]].
      + rewrite R2' in Ha. rewrite (ff_opposite_invol _ Hd) in Ha. apply Ha. reflexivity.
      + rewrite R2' in Hfl. congruence.
    - intros Hr. unfold rev in Hr. cbn [fst snd] in Hr.
      assert (Hbx : B (p, d)) by (exists F; split; [exact HF|split; [exact Hf|exact Hb]]).
      destruct (B_facts _ _ Hbx) as [Hp [Hd [K _]]].
      destruct (cont_spec h w on p d d' Hc) as [Hd' [Nd' [Hs' Huniq]]].
      set (q := gstep p d) in *. assert (Hq : valid q) by (apply gstep_valid; assumption).
      assert (Kq : ok q d' = true).
      { rewrite (segp_spec h w on q d' Hd') in Hs'. apply andb_true_iff in Hs'. tauto. }
      destruct (grev h w q d' Hq Hd' Kq) as [_ [R2' _]].
      destruct (B_forward _ _ Hr) as [[Hfl' _]|[_ [d'' [Hc'' Hb'']]]].
      + rewrite R2' in Hfl'. congruence.
      + rewrite R2' in Hb''. destruct (cont_spec h w on _ _ d'' Hc'') as [Hd'' [Nd'' [Hs'' _]]].
        rewrite R2' in Hs''. rewrite (ff_opposite_invol _ Hd') in Nd''.
        (* d'' leaves q, is drawn, is not d': it must be the way back to p *)
        assert (E : d'' = opposite d).
        { destruct (Nat.eq_dec d'' (opposite d)) as [E|NE']; [exact E|]. exfalso. apply Nd''. apply Huniq; assumption. }
        subst d''. apply IH. exact Hb''.
  Qed.

  (* every drawn segment carries a beam dart *)
  Lemma B_cover e : e < NE -> on e = true -> exists p d, B (p, d) /\ sid p d = e.
  Proof.
    intros He Hon. rewrite forallb_forall in R4. specialize (R4 e ltac:(apply in_seq; unfold ff_E in He; lia)).
    rewrite Hon in R4. cbn [negb orb] in R4. apply existsb_exists in R4. destruct R4 as [[[y x] b] [Hin Hb]].
    apply in_map_iff in Hin. destruct Hin as [[y0 x0] [E Hin]]. injection E as E1 E2 E3. subst y0 x0.
    destruct (flies_in (y, x) Hin) as [HF Hf].
    destruct (beam_data (y, x) HF Hf) as [q [dl [t' [segs [Hw [Hs _]]]]]].
    unfold ff_beam in E3. unfold FireflyWalk.segp in Hs. cbn [fst snd] in Hs, Hw.
    change (ff_dot dir W y x) with (dot (y, x)) in E3. rewrite Hs, Hw in E3. subst b. apply mem_In in Hb.
    apply (walk_acc h w dir on N (y, x) (dot (y, x)) 0%Z [] _ _ _ _ _ Hw e) in Hb.
    destruct Hb as [[]|[[p d] [Hx Es]]]. cbn [fst snd] in Es. exists p, d. split; [|exact Es].
    exists (y, x). split; [exact HF|]. split; [exact Hf|].
    apply (wdarts_Bi h w dir on N (start (y, x)) (y, x) (dot (y, x))); [apply Bi_start|exact Hx].
  Qed.

  (* two beam darts on the same segment coincide *)
  Lemma B_same_segment p d q d' : B (p, d) -> B (q, d') -> sid p d = sid q d' -> (q, d') = (p, d).
  Proof.
    intros Hb Hb' E. destruct (B_facts _ _ Hb) as [Hp [Hd [K _]]]. destruct (B_facts _ _ Hb') as [Hq [Hd' [K' _]]].
    destruct (gsid_inj h w p d q d' Hp Hq Hd Hd' K K' E) as [[-> ->]|[-> ->]]; [reflexivity|exfalso].
    apply (B_no_reverse _ Hb). exact Hb'.
  Qed.

  (* ---- arriving and leaving darts at a point *)
  Definition Bout (p : pt) (d : nat) : Prop := B (p, d).
  Definition Bin (p : pt) (d : nat) : Prop := ok p d = true /\ B (gstep p d, opposite d).

  Lemma Bin_facts p d : valid p -> In d ff_dirs -> Bin p d -> on (sid p d) = true /\ gstep (gstep p d) (opposite d) = p.
  Proof.
    intros Hp Hd [K Hb]. destruct (grev h w p d Hp Hd K) as [_ [R2' R3']].
    destruct (B_facts _ _ Hb) as [_ [_ [_ Ho]]]. rewrite R3' in Ho. split; assumption.
  Qed.

  (* an arriving beam leaves a point without firefly again *)
  Lemma in_then_out p d : valid p -> In d ff_dirs -> fly p = false -> Bin p d ->
    exists d', In d' ff_dirs /\ d' <> d /\ Bout p d' /\
               (forall d'', In d'' ff_dirs -> d'' <> d -> segp p d'' = true -> d'' = d').
  Proof.
    intros Hp Hd Hf [K Hb]. destruct (grev h w p d Hp Hd K) as [_ [R2' _]].
    destruct (B_forward _ _ Hb) as [[Hfl _]|[_ [d' [Hc Hb']]]].
    - rewrite R2' in Hfl. congruence.
    - rewrite R2' in Hb'. destruct (cont_spec h w on _ _ d' Hc) as [Hd' [Nd' [_ Hu]]].
      rewrite R2' in Hu. rewrite (ff_opposite_invol d Hd) in Nd', Hu.
      exists d'. split; [exact Hd'|]. split; [exact Nd'|]. split; [exact Hb'|exact Hu].
  Qed.

  (* a leaving dart of a point without firefly continues an arriving one *)
  Lemma out_then_in p d : valid p -> fly p = false -> Bout p d ->
    exists i, In i ff_dirs /\ i <> d /\ Bin p i /\
              (forall d'', In d'' ff_dirs -> d'' <> i -> segp p d'' = true -> d'' = d).
  Proof.
    intros Hp Hf Hb. destruct (B_origin _ _ Hb) as [[Hfl _]|[_ [p0 [d0 [Hb0 [Ep Hc]]]]]]; [congruence|].
    destruct (B_facts _ _ Hb0) as [Hp0 [Hd0 [K0 _]]].
    destruct (grev h w p0 d0 Hp0 Hd0 K0) as [R1 [R2' _]]. rewrite <- Ep in R1, R2'.
    destruct (cont_spec h w on p0 d0 d Hc) as [Hd [Nd [_ Hu]]]. rewrite <- Ep in Hu.
    exists (opposite d0). split; [apply ff_opposite_in; exact Hd0|]. split; [intros E; apply Nd; symmetry; exact E|].
    split; [|exact Hu]. split; [exact R1|]. rewrite R2', (ff_opposite_invol d0 Hd0). exact Hb0.
  Qed.

  Lemma in_unique_B p d1 d2 : valid p -> fly p = false -> In d1 ff_dirs -> In d2 ff_dirs ->
    Bin p d1 -> Bin p d2 -> d1 = d2.
  Proof.
    intros Hp Hf H1 H2 B1 B2. destruct (Nat.eq_dec d1 d2) as [E|NE']; [exact E|exfalso].
    destruct (in_then_out p d1 Hp H1 Hf B1) as [d' [Hd' [_ [Hb' Hu]]]].
    destruct (Bin_facts p d2 Hp H2 B2) as [Ho2 _]. destruct B2 as [K2 B2].
    assert (E : d2 = d').
    { apply Hu; [exact H2|intros E; apply NE'; symmetry; exact E|].
      rewrite (segp_spec h w on p d2 H2), K2, Ho2. reflexivity. }
    subst d'. apply (B_no_reverse _ Hb'). exact B2.
  Qed.

  Lemma out_unique_B p d1 d2 : valid p -> fly p = false -> Bout p d1 -> Bout p d2 -> d1 = d2.
  Proof.
    intros Hp Hf B1 B2. destruct (Nat.eq_dec d1 d2) as [E|NE']; [exact E|exfalso].
    destruct (out_then_in p d1 Hp Hf B1) as [i [Hi [Ni [[Ki Bi'] Hu]]]].
    destruct (B_facts _ _ B2) as [_ [H2 [K2 Ho2]]].
    assert (E : d2 = i).
    { destruct (Nat.eq_dec d2 i) as [E|N2]; [exact E|exfalso]. apply NE'. symmetry. apply Hu; [exact H2|exact N2|].
      rewrite (segp_spec h w on p d2 H2), K2, Ho2. reflexivity. }
    subst i. apply (B_no_reverse _ B2). exact Bi'.
  Qed.

  Lemma fly_out F d : valid F -> fly F = true -> (Bout F d <-> d = dot F).
  Proof.
    intros HF Hf. split.
    - intros Hb. destruct (B_origin _ _ Hb) as [[_ E]|[Hfl _]]; [exact E|congruence].
    - intros ->. apply B_start; assumption.
  Qed.

  (* ---- the computable version *)
  Definition Bb (x : dart) : bool :=
    existsb (fun F => existsb (dart_eqb x) (wdarts h w dir on N F (dot F))) flies.

  Lemma Bb_spec x : Bb x = true <-> B x.
  Proof.
    unfold Bb. rewrite existsb_exists. split.
    - intros [F [Hin Hex]]. apply existsb_exists in Hex. destruct Hex as [x' [Hx' E]].
      apply dart_eqb_spec in E. subst x'. destruct (flies_in F Hin) as [HF Hf].
      exists F. split; [exact HF|]. split; [exact Hf|].
      apply (wdarts_Bi h w dir on N (start F) F (dot F)); [apply Bi_start|exact Hx'].
    - intros [F [HF [Hf Hb]]]. exists F. split; [apply in_flies; assumption|].
      apply existsb_exists. exists x. split; [|apply dart_eqb_spec; reflexivity].
      destruct (beam_ends F HF Hf) as [e [He _]].
      apply (Bi_in_wdarts h w dir on (start F) N e He x Hb).
  Qed.

  (* ---- beams of numbered and of unnumbered fireflies *)
  Notation M := (ff_max_turn H W dir num).
  Definition numbered (F : pt) : bool := (0 <=? at2 num W (fst F) (snd F))%Z.
  Definition Bn (x : dart) : Prop := exists F, valid F /\ fly F = true /\ numbered F = true /\ Bi (start F) x.
  Definition Bu (x : dart) : Prop := exists F, valid F /\ fly F = true /\ numbered F = false /\ Bi (start F) x.

  Lemma Bn_B x : Bn x -> B x.
  Proof. intros [F [A [B' [_ C]]]]. exists F. tauto. Qed.
  Lemma Bu_B x : Bu x -> B x.
  Proof. intros [F [A [B' [_ C]]]]. exists F. tauto. Qed.
  Lemma B_Bn_Bu x : B x -> Bn x \/ Bu x.
  Proof.
    intros [F [A [B' C]]]. destruct (numbered F) eqn:E; [left|right]; exists F; tauto.
  Qed.

  (* a dart into a point without firefly has a unique beam predecessor *)
  Lemma step_pred_unique p d p1 d1 : B (p, d) -> B (p1, d1) -> gstep p1 d1 = gstep p d -> fly (gstep p d) = false ->
    (p1, d1) = (p, d).
  Proof.
    intros Hb Hb1 E Hfl.
    destruct (B_facts _ _ Hb) as [Hp [Hd [K _]]]. destruct (B_facts _ _ Hb1) as [Hp1 [Hd1 [K1 _]]].
    destruct (grev h w p d Hp Hd K) as [R1 [R2' _]]. destruct (grev h w p1 d1 Hp1 Hd1 K1) as [S1 [S2 _]].
    set (q := gstep p d) in *. assert (Hq : valid q) by (apply gstep_valid; assumption).
    assert (Eo : opposite d1 = opposite d).
    { apply (in_unique_B q); try assumption; try (apply ff_opposite_in; assumption).
      - split; [rewrite <- E; exact S1|]. rewrite <- E at 1. rewrite S2, (ff_opposite_invol d1 Hd1). exact Hb1.
      - split; [exact R1|]. rewrite R2', (ff_opposite_invol d Hd). exact Hb. }
    apply ff_opposite_inj in Eo; [|assumption|assumption]. subst d1. f_equal.
    apply (gstep_inj h w p1 p d); assumption.
  Qed.

  Lemma Bn_Bu_disjoint x : Bn x -> Bu x -> False.
  Proof.
    intros [F [HF [Hf [Hn Hb]]]]. induction Hb as [|p d d' Hb IH Hfl Hc]; intros [F' [HF' [Hf' [Hn' Hb']]]].
    - inversion Hb' as [E|p0 d0 d0' Hb0 Hfl0 Hc0 E].
      + unfold start in E. inversion E; subst F'. congruence.
      + unfold start in E. inversion E; subst. congruence.
    - inversion Hb' as [E|p0 d0 d0' Hb0 Hfl0 Hc0 E].
      + unfold start in E. inversion E; subst. congruence.
      + assert (Hbx : B (p, d)) by (exists F; tauto). assert (Hbx0 : B (p0, d0)) by (exists F'; tauto).
        assert (Ex : (p0, d0) = (p, d)) by (apply step_pred_unique; assumption).
        inversion Ex; subst p0 d0. apply IH. exists F'. tauto.
  Qed.

  (* the continuation of a dart that is not on a numbered beam is not on one either *)
  Lemma Bn_back p d d' : B (p, d) -> fly (gstep p d) = false -> cont p d = Some d' -> Bn (gstep p d, d') -> Bn (p, d).
  Proof.
    intros Hb Hfl Hc [F [HF [Hf [Hn Hb']]]]. inversion Hb' as [E|p0 d0 d0' Hb0 Hfl0 Hc0 E].
    - unfold start in E. inversion E; subst. congruence.
    - assert (Hbx0 : B (p0, d0)) by (exists F; tauto).
      assert (Ex : (p0, d0) = (p, d)) by (apply step_pred_unique; assumption).
      inversion Ex; subst p0 d0. exists F. tauto.
  Qed.

  (* ---- turn labels *)
  Definition Bnb (x : dart) : bool :=
    existsb (fun F => numbered F && existsb (dart_eqb x) (wdarts h w dir on N F (dot F))) flies.
  Lemma Bnb_spec x : Bnb x = true <-> Bn x.
  Proof.
    unfold Bnb. rewrite existsb_exists. split.
    - intros [F [Hin Hex]]. apply andb_true_iff in Hex. destruct Hex as [Hn Hex].
      apply existsb_exists in Hex. destruct Hex as [x' [Hx' E]].
      apply dart_eqb_spec in E. subst x'. destruct (flies_in F Hin) as [HF Hf].
      exists F. split; [exact HF|]. split; [exact Hf|]. split; [exact Hn|].
      apply (wdarts_Bi h w dir on N (start F) F (dot F)); [apply Bi_start|exact Hx'].
    - intros [F [HF [Hf [Hn Hb]]]]. exists F. split; [apply in_flies; assumption|]. rewrite Hn. cbn [andb].
      apply existsb_exists. exists x. split; [|apply dart_eqb_spec; reflexivity].
      destruct (beam_ends F HF Hf) as [e [He _]].
      apply (Bi_in_wdarts h w dir on (start F) N e He x Hb).
  Qed.

  Definition unk : Z := (M + 1)%Z.
  Definition lab (x : dart) : Z := if Bnb x then remf h w dir on N (fst x) (snd x) else unk.

  (* the label of a numbered firefly's first dart is its number *)
  Lemma lab_start F : valid F -> fly F = true ->
    lab (start F) = (let n := at2 num W (fst F) (snd F) in if (n <? 0)%Z then unk else n).
  Proof.
    intros HF Hf. cbv zeta. unfold lab. destruct (at2 num W (fst F) (snd F) <? 0)%Z eqn:Hn.
    - destruct (Bnb (start F)) eqn:E; [|reflexivity]. exfalso. apply Bnb_spec in E.
      apply (Bn_Bu_disjoint _ E). exists F. split; [exact HF|]. split; [exact Hf|]. split; [|apply Bi_start].
      unfold numbered. apply Z.leb_gt. apply Z.ltb_lt. exact Hn.
    - assert (Hnum : numbered F = true) by (unfold numbered; apply Z.leb_le; apply Z.ltb_ge; exact Hn).
      replace (Bnb (start F)) with true by (symmetry; apply Bnb_spec; exists F; split; [exact HF|split; [exact Hf|split; [exact Hnum|apply Bi_start]]]).
      destruct (beam_data F HF Hf) as [q [dl [t' [segs [Hw [_ [_ Ht]]]]]]].
      destruct Ht as [Ht|Ht]; [congruence|].
      pose proof (walk_turns_remf h w dir on N F (dot F) 0%Z [] _ _ _ _ _ Hw) as E. unfold start. cbn [fst snd]. lia.
  Qed.

  Lemma lab_bounds x : B x -> (0 <= lab x <= unk)%Z.
  Proof.
    intros Hb. unfold lab. destruct (Bnb x) eqn:E.
    - apply Bnb_spec in E. destruct E as [F [HF [Hf [Hn Hbi]]]]. destruct x as [p d]. cbn [fst snd].
      split; [apply remf_nonneg|].
      destruct (beam_ends F HF Hf) as [e [He _]].
      assert (Hle : (remf h w dir on N p d <= remf h w dir on N F (dot F))%Z).
      { remember (p, d) as x eqn:Ex. revert p d Ex. induction Hbi as [|p0 d0 d' Hb0 IH Hfl Hc]; intros p d Ex.
        - unfold start in Ex. inversion Ex; subst. lia.
        - inversion Ex; subst p d. specialize (IH (ex_intro _ F (conj HF (conj Hf Hb0))) p0 d0 eq_refl).
          destruct (Bi_remf h w dir on (start F) N e He p0 d0 Hb0) as [_ Hstep].
          rewrite (Hstep d' Hfl Hc) in IH. destruct (Nat.eqb d' d0); lia. }
      destruct (beam_data F HF Hf) as [q [dl [t' [segs [Hw [_ [_ Ht]]]]]]].
      pose proof (walk_turns_remf h w dir on N F (dot F) 0%Z [] _ _ _ _ _ Hw) as Et.
      unfold numbered in Hn. apply Z.leb_le in Hn.
      destruct Ht as [Ht|Ht]; [apply Z.ltb_lt in Ht; lia|].
      pose proof (ff_num_le_max h w dir num F HF Hf Hn). unfold unk. lia.
    - unfold unk. assert (0 <= M)%Z; [|lia]. unfold ff_max_turn. apply fold_max_ge. right. reflexivity.
  Qed.

  (* a dart arriving at a firefly *)
  Lemma lab_last p d : B (p, d) -> fly (gstep p d) = true -> lab (p, d) = 0%Z \/ lab (p, d) = unk.
  Proof.
    intros Hb Hfl. unfold lab. destruct (Bnb (p, d)) eqn:E; [left|right; reflexivity].
    apply Bnb_spec in E. destruct E as [F [HF [Hf [_ Hbi]]]]. destruct (beam_ends F HF Hf) as [e [He _]].
    cbn [fst snd]. apply (Bi_remf h w dir on (start F) N e He p d Hbi). exact Hfl.
  Qed.

  (* a dart and its continuation *)
  Lemma lab_step p d d' : B (p, d) -> fly (gstep p d) = false -> cont p d = Some d' ->
    (lab (p, d) = unk /\ lab (gstep p d, d') = unk) \/
    lab (p, d) = (lab (gstep p d, d') + (if Nat.eqb d' d then 0 else 1))%Z.
  Proof.
    intros Hb Hfl Hc. unfold lab. destruct (Bnb (p, d)) eqn:E.
    - right. apply Bnb_spec in E. destruct E as [F [HF [Hf [Hn Hbi]]]].
      replace (Bnb (gstep p d, d')) with true
        by (symmetry; apply Bnb_spec; exists F; split; [exact HF|split; [exact Hf|split; [exact Hn|apply Bi_step; assumption]]]).
      destruct (beam_ends F HF Hf) as [e [He _]]. cbn [fst snd].
      apply (Bi_remf h w dir on (start F) N e He p d Hbi); assumption.
    - left. split; [reflexivity|]. destruct (Bnb (gstep p d, d')) eqn:E'; [|reflexivity]. exfalso.
      apply Bnb_spec in E'. apply (Bn_back p d d' Hb Hfl Hc) in E'. apply Bnb_spec in E'. congruence.
  Qed.

  (* ---- the functional graph of the beams *)
  Definition cod (p : pt) : nat := match find (fun d => Bb (p, d)) ff_dirs with Some d => d | None => 0 end.
  Definition cnxt (p : pt) : pt := match find (fun d => Bb (p, d)) ff_dirs with Some d => gstep p d | None => p end.
  Definition hasout (p : pt) : bool := existsb (fun d => Bb (p, d)) ff_dirs.
  Definition cL (p : pt) : Prop := valid p /\ exists d, B (p, d).

  Lemma B_out_unique p d d' : valid p -> B (p, d) -> B (p, d') -> d = d'.
  Proof.
    intros Hp B1 B2'. destruct (fly p) eqn:Hf.
    - apply (fly_out p d Hp Hf) in B1. apply (fly_out p d' Hp Hf) in B2'. congruence.
    - apply (out_unique_B p); assumption.
  Qed.

  Lemma cod_spec p d : valid p -> B (p, d) -> cod p = d /\ cnxt p = gstep p d /\ hasout p = true.
  Proof.
    intros Hp Hb. destruct (B_facts _ _ Hb) as [_ [Hd _]]. unfold cod, cnxt, hasout.
    destruct (find (fun d0 => Bb (p, d0)) ff_dirs) as [d'|] eqn:E.
    - apply find_some in E. destruct E as [Hd' Hb']. apply Bb_spec in Hb'.
      assert (d' = d) by (apply (B_out_unique p); assumption). subst d'.
      split; [reflexivity|]. split; [reflexivity|]. apply existsb_exists. exists d. split; [exact Hd|apply Bb_spec; exact Hb].
    - exfalso. pose proof (find_none _ _ E d Hd) as X. apply Bb_spec in Hb. cbv beta in X. congruence.
  Qed.

  Lemma hasout_cL p : valid p -> hasout p = true -> cL p.
  Proof.
    intros Hp Hh. apply existsb_exists in Hh. destruct Hh as [d [_ Hb]]. apply Bb_spec in Hb. split; [exact Hp|exists d; exact Hb].
  Qed.

  Lemma cL_closed p : cL p -> cL (cnxt p).
  Proof.
    intros [Hp [d Hb]]. destruct (cod_spec p d Hp Hb) as [_ [E _]]. rewrite E.
    destruct (B_facts _ _ Hb) as [_ [Hd [K _]]].
    assert (Hq : valid (gstep p d)) by (apply gstep_valid; assumption). split; [exact Hq|].
    destruct (B_forward _ _ Hb) as [[Hfl _]|[_ [d' [_ Hb']]]].
    - exists (dot (gstep p d)). apply B_start; assumption.
    - exists d'. exact Hb'.
  Qed.

  Notation iter := (ff_iter pt cnxt).
  Notation merge := (ff_merge pt cnxt).

  (* the two ends of a drawn segment merge *)
  Lemma dart_merge p d : valid p -> In d ff_dirs -> ok p d = true -> on (sid p d) = true ->
    merge p (gstep p d).
  Proof.
    intros Hp Hd K Ho. destruct (B_cover (sid p d) (gsid_lt h w p d Hp Hd K) Ho) as [p2 [d2 [Hb E]]].
    destruct (B_facts _ _ Hb) as [Hp2 [Hd2 [K2 _]]].
    destruct (gsid_inj h w p d p2 d2 Hp Hp2 Hd Hd2 K K2 (eq_sym E)) as [[-> ->]|[-> ->]].
    - destruct (cod_spec p d Hp Hb) as [_ [En _]]. rewrite <- En. apply ff_merge_step.
    - apply ff_merge_sym. assert (Hq : valid (gstep p d)) by (apply gstep_valid; assumption).
      destruct (cod_spec _ _ Hq Hb) as [_ [En _]]. destruct (grev h w p d Hp Hd K) as [_ [R2' _]].
      rewrite R2' in En. pose proof (ff_merge_step pt cnxt (gstep p d)) as X. rewrite En in X. exact X.
  Qed.

  Lemma reach_merge u v : reach g (fun _ => true) on u v ->
    forall p q, valid p -> valid q -> gidx w p = u -> gidx w q = v -> merge p q.
  Proof.
    intros Hr. induction Hr as [v _|u v x Hr IH Hn _]; intros p q Hp Hq Eu Ev.
    - assert (p = q) by (apply (gidx_inj h w); [assumption|assumption|congruence]). subst q. apply ff_merge_refl.
    - destruct (lattice_nbrs_inv h w on v x Hn) as [p' [d [Hp' [Hd [K [Ho [[E1 E2]|[E1 E2]]]]]]]].
      + assert (Hq' : valid (gstep p' d)) by (apply gstep_valid; assumption).
        assert (q = gstep p' d) by (apply (gidx_inj h w); [assumption|assumption|congruence]). subst q.
        apply ff_merge_trans with (b := p'); [apply IH; [exact Hp|exact Hp'|exact Eu|symmetry; exact E1]|].
        apply dart_merge; assumption.
      + assert (Hq' : valid (gstep p' d)) by (apply gstep_valid; assumption).
        assert (q = p') by (apply (gidx_inj h w); [assumption|assumption|congruence]). subst q.
        apply ff_merge_trans with (b := gstep p' d); [apply IH; [exact Hp|exact Hq'|exact Eu|symmetry; exact E2]|].
        apply ff_merge_sym. apply dart_merge; assumption.
  Qed.

  Hypothesis R5 :
    match filter (on_line g on) (seq 0 (nv g)) with
    | [] => true
    | s :: _ as l => let c := component g (fun _ => true) on s in forallb (fun v => mem v c) l
    end = true.

  Lemma cL_online p : cL p -> on_line g on (gidx w p) = true.
  Proof.
    intros [Hp [d Hb]]. destruct (B_facts _ _ Hb) as [_ [Hd [K Ho]]].
    unfold on_line. rewrite (lattice_degree_darts h w on p Hp). apply negb_true_iff, Nat.eqb_neq.
    destruct (ff_dirs_cases d Hd) as [->|[->|[->| ->]]]; rewrite K, Ho; cbn [andb b2n]; lia.
  Qed.

  Lemma all_merge a b : cL a -> cL b -> merge a b.
  Proof.
    intros La Lb. pose proof (cL_online a La) as Oa. pose proof (cL_online b Lb) as Ob.
    destruct La as [Ha _], Lb as [Hb _].
    pose proof (gidx_lt h w a Ha) as Ia. pose proof (gidx_lt h w b Hb) as Ib.
    assert (Fa : In (gidx w a) (filter (on_line g on) (seq 0 (nv g)))).
    { apply filter_In. split; [apply in_seq; cbn [nv lattice]; lia|exact Oa]. }
    assert (Fb : In (gidx w b) (filter (on_line g on) (seq 0 (nv g)))).
    { apply filter_In. split; [apply in_seq; cbn [nv lattice]; lia|exact Ob]. }
    destruct (filter (on_line g on) (seq 0 (nv g))) as [|s l] eqn:Hfil; [destruct Fa|].
    cbv zeta in R5. rewrite forallb_forall in R5.
    assert (Hreach : forall v, In v (s :: l) -> reach g (fun _ => true) on s v).
    { intros v [<-|Hv]; [apply reach_refl; reflexivity|]. apply component_sound. apply mem_In. apply R5. exact Hv. }
    apply (reach_merge (gidx w a) (gidx w b)); try assumption; try reflexivity.
    apply reach_trans with (v := s); [apply reach_sym; apply Hreach; exact Fa|apply Hreach; exact Fb].
  Qed.

  (* ---- a point on the cycle, reached by every orbit *)
  Variable F0 : pt.
  Hypothesis F0_valid : valid F0.
  Hypothesis F0_fly : fly F0 = true.

  Lemma cL_idx_lt p : cL p -> gidx w p < N.
  Proof. intros [Hp _]. apply (gidx_lt h w). exact Hp. Qed.
  Lemma cL_idx_inj a b : cL a -> cL b -> gidx w a = gidx w b -> a = b.
  Proof. intros [Ha _] [Hb _]. apply (gidx_inj h w); assumption. Qed.
  Lemma cL_F0 : cL F0.
  Proof. split; [exact F0_valid|]. exists (dot F0). apply B_start; assumption. Qed.

  Definition pt_eqb (a b : pt) : bool := Nat.eqb (fst a) (fst b) && Nat.eqb (snd a) (snd b).
  Lemma pt_eqb_spec a b : pt_eqb a b = true <-> a = b.
  Proof.
    destruct a as [y x], b as [y' x']. unfold pt_eqb. cbn [fst snd]. rewrite andb_true_iff, !Nat.eqb_eq. split.
    - intros [-> ->]. reflexivity.
    - intros E. inversion E. auto.
  Qed.

  (* a point c on a cycle: every orbit reaches it, within N - 1 steps *)
  Variable c : pt.
  Variable per : nat.
  Hypothesis c_L : cL c.
  Hypothesis per_pos : 1 <= per.
  Hypothesis c_per : iter per c = c.

  Lemma reach_c a : cL a -> exists k, k < N /\ iter k a = c.
  Proof.
    intros La. destruct (ff_merge_reach_periodic pt cnxt a c per per_pos c_per (all_merge a c La c_L)) as [k Hk].
    destruct (ff_dist_spec pt cnxt pt_eqb pt_eqb_spec c k a k (le_n k) Hk) as [A1 [A2 A3]].
    exists (ff_dist pt cnxt pt_eqb c k a). split; [|exact A1].
    apply (ff_first_hit_bound pt cnxt cL cL_closed (gidx w) N cL_idx_lt cL_idx_inj a c _ La A1 A3).
  Qed.

  Definition e0 : nat := sid c (cod c).
  Definition rankf (v : nat) : Z :=
    let p := gpt w v in if hasout p then Z.of_nat (ff_dist pt cnxt pt_eqb c N p) else 0%Z.

  Lemma rankf_bounds v : v < N -> (0 <= rankf v <= Z.of_nat N - 1)%Z.
  Proof.
    intros Hv. unfold rankf. cbv zeta. destruct (gpt_spec h w v Hv) as [Hp _].
    destruct (hasout (gpt w v)) eqn:Hh; [|lia].
    pose proof (hasout_cL _ Hp Hh) as Lp. destruct (reach_c _ Lp) as [k [Hk Ek]].
    pose proof (ff_dist_bound pt cnxt cL cL_closed (gidx w) N cL_idx_lt cL_idx_inj pt_eqb pt_eqb_spec c N _ k Lp ltac:(lia) Ek).
    lia.
  Qed.

  Lemma rankf_descends p d : valid p -> B (p, d) -> sid p d <> e0 ->
    (rankf (gidx w (gstep p d)) < rankf (gidx w p))%Z.
  Proof.
    intros Hp Hb Ne. destruct (cod_spec p d Hp Hb) as [Eod [Enx Hh]].
    assert (Lp : cL p) by (split; [exact Hp|exists d; exact Hb]).
    pose proof (cL_closed p Lp) as Lq. rewrite Enx in Lq. destruct Lq as [Hq [d' Hb']].
    destruct (cod_spec _ d' Hq Hb') as [_ [_ Hh']].
    unfold rankf. cbv zeta. rewrite (gpt_gidx h w p Hp), (gpt_gidx h w _ Hq), Hh, Hh'.
    assert (Npc : p <> c) by (intros E; apply Ne; unfold e0; rewrite <- E, Eod; reflexivity).
    destruct (reach_c p Lp) as [k [Hk Ek]].
    rewrite (ff_dist_step pt cnxt pt_eqb pt_eqb_spec c N p k ltac:(lia) Ek Npc), Enx. lia.
  Qed.

  (* ---- the assignment *)
  Definition all_darts : list dart := flat_map (fun F => wdarts h w dir on N F (dot F)) flies.
  Definition dsid (x : dart) : nat := sid (fst x) (snd x).
  Definition updir (d : nat) : bool := Nat.eqb d 0 || Nat.eqb d 2.
  Definition ulb (e : nat) : bool := existsb (fun x => Nat.eqb (dsid x) e && updir (snd x)) all_darts.
  Definition drb (e : nat) : bool := existsb (fun x => Nat.eqb (dsid x) e && negb (updir (snd x))) all_darts.
  Definition nte (e : nat) : Z :=
    match find (fun x => Nat.eqb (dsid x) e) all_darts with Some x => lab x | None => 0%Z end.

  Definition cen : env :=
    {| eb := fun i => if i <? NE then on i
                      else if i <? 2 * NE then ulb (i - NE)
                      else if i <? 3 * NE then drb (i - 2 * NE)
                      else Nat.eqb (i - 3 * NE) e0;
       ei := fun i => if i <? 4 * NE + N then rankf (i - 4 * NE) else nte (i - (4 * NE + N)) |}.

  Lemma all_darts_B x : In x all_darts <-> B x.
  Proof.
    rewrite <- Bb_spec. unfold all_darts, Bb. rewrite in_flat_map, existsb_exists.
    split; intros [F [Hin Hx]]; exists F; (split; [exact Hin|]).
    - apply existsb_exists. exists x. split; [exact Hx|apply dart_eqb_spec; reflexivity].
    - apply existsb_exists in Hx. destruct Hx as [x' [Hx' E]]. apply dart_eqb_spec in E. subst x'. exact Hx'.
  Qed.

  Lemma cen_line e : e < NE -> eb cen e = on e.
  Proof. intros He. cbn [cen eb]. replace (e <? NE) with true by (symmetry; apply Nat.ltb_lt; exact He). reflexivity. Qed.
  Lemma cen_ul e : e < NE -> eb cen (ff_ul H W e) = ulb e.
  Proof.
    intros He. unfold ff_ul. cbn [cen eb].
    replace (NE + e <? NE) with false by (symmetry; apply Nat.ltb_ge; lia).
    replace (NE + e <? 2 * NE) with true by (symmetry; apply Nat.ltb_lt; lia). f_equal. lia.
  Qed.
  Lemma cen_dr e : e < NE -> eb cen (ff_dr H W e) = drb e.
  Proof.
    intros He. unfold ff_dr. cbn [cen eb].
    replace (2 * NE + e <? NE) with false by (symmetry; apply Nat.ltb_ge; lia).
    replace (2 * NE + e <? 2 * NE) with false by (symmetry; apply Nat.ltb_ge; lia).
    replace (2 * NE + e <? 3 * NE) with true by (symmetry; apply Nat.ltb_lt; lia). f_equal. lia.
  Qed.
  Lemma cen_ig e : e < NE -> eb cen (ff_ig H W e) = Nat.eqb e e0.
  Proof.
    intros He. unfold ff_ig. cbn [cen eb].
    replace (3 * NE + e <? NE) with false by (symmetry; apply Nat.ltb_ge; lia).
    replace (3 * NE + e <? 2 * NE) with false by (symmetry; apply Nat.ltb_ge; lia).
    replace (3 * NE + e <? 3 * NE) with false by (symmetry; apply Nat.ltb_ge; lia). f_equal. lia.
  Qed.
  Lemma cen_rk v : v < N -> ei cen (ff_rk H W v) = rankf v.
  Proof.
    intros Hv. unfold ff_rk. cbn [cen ei].
    replace (4 * NE + v <? 4 * NE + N) with true by (symmetry; apply Nat.ltb_lt; lia). f_equal. lia.
  Qed.
  Lemma cen_nt e : ei cen (ff_nt H W e) = nte e.
  Proof.
    unfold ff_nt. cbn [cen ei].
    replace (4 * NE + N + e <? 4 * NE + N) with false by (symmetry; apply Nat.ltb_ge; lia). f_equal. lia.
  Qed.

  Lemma dsid_B_unique x y : B x -> B y -> dsid x = dsid y -> y = x.
  Proof. destruct x as [p d], y as [q d']. intros Hx Hy E. apply B_same_segment; assumption. Qed.

  (* the orientation flags of a segment that carries the beam dart (p, d) *)
  Lemma ulb_B p d : B (p, d) -> ulb (sid p d) = updir d /\ drb (sid p d) = negb (updir d).
  Proof.
    intros Hb. split.
    - destruct (ulb (sid p d)) eqn:E.
      + apply existsb_exists in E. destruct E as [x [Hx Hc]]. apply andb_true_iff in Hc. destruct Hc as [Es Hu].
        apply Nat.eqb_eq in Es. apply all_darts_B in Hx.
        assert (x = (p, d)) by (apply (dsid_B_unique (p, d) x Hb Hx); symmetry; exact Es). subst x. symmetry. exact Hu.
      + destruct (updir d) eqn:Hu; [|reflexivity]. exfalso.
        assert (X : ulb (sid p d) = true); [|congruence].
        apply existsb_exists. exists (p, d). split; [apply all_darts_B; exact Hb|].
        unfold dsid. cbn [fst snd]. rewrite Nat.eqb_refl, Hu. reflexivity.
    - destruct (drb (sid p d)) eqn:E.
      + apply existsb_exists in E. destruct E as [x [Hx Hc]]. apply andb_true_iff in Hc. destruct Hc as [Es Hu].
        apply Nat.eqb_eq in Es. apply all_darts_B in Hx.
        assert (x = (p, d)) by (apply (dsid_B_unique (p, d) x Hb Hx); symmetry; exact Es). subst x. symmetry. exact Hu.
      + destruct (updir d) eqn:Hu; [reflexivity|]. exfalso.
        assert (X : drb (sid p d) = true); [|congruence].
        apply existsb_exists. exists (p, d). split; [apply all_darts_B; exact Hb|].
        unfold dsid. cbn [fst snd]. rewrite Nat.eqb_refl, Hu. reflexivity.
  Qed.

  Lemma ulb_none e : (forall x, B x -> dsid x <> e) -> ulb e = false /\ drb e = false.
  Proof.
    intros Hno. split.
    - destruct (ulb e) eqn:E; [|reflexivity]. exfalso. apply existsb_exists in E. destruct E as [x [Hx Hc]].
      apply andb_true_iff in Hc. destruct Hc as [Es _]. apply Nat.eqb_eq in Es. apply all_darts_B in Hx. exact (Hno x Hx Es).
    - destruct (drb e) eqn:E; [|reflexivity]. exfalso. apply existsb_exists in E. destruct E as [x [Hx Hc]].
      apply andb_true_iff in Hc. destruct Hc as [Es _]. apply Nat.eqb_eq in Es. apply all_darts_B in Hx. exact (Hno x Hx Es).
  Qed.

  Lemma updir_opposite d : In d ff_dirs -> updir (opposite d) = negb (updir d).
  Proof. intros Hd. destruct (ff_dirs_cases d Hd) as [->|[->|[->| ->]]]; reflexivity. Qed.

  Lemma sOut_cen p d : valid p -> In d ff_dirs -> ok p d = true -> sOut h w cen p d = Bb (p, d).
  Proof.
    intros Hp Hd K. pose proof (gsid_lt h w p d Hp Hd K) as Hlt. change (ff_NE h w) with NE in Hlt.
    assert (Hflag : sOut h w cen p d = if updir d then ulb (sid p d) else drb (sid p d)).
    { unfold sOut, ff_out. fold (sid p d).
      destruct (ff_dirs_cases d Hd) as [->|[->|[->| ->]]]; cbn [updir Nat.eqb orb];
        [apply cen_ul|apply cen_dr|apply cen_ul|apply cen_dr]; exact Hlt. }
    rewrite Hflag. destruct (Bb (p, d)) eqn:Eb.
    - apply Bb_spec in Eb. destruct (ulb_B p d Eb) as [E1 E2]. rewrite E1, E2. destruct (updir d); reflexivity.
    - (* the only other beam dart this segment can carry is the reverse one, which has the other flag *)
      destruct (grev h w p d Hp Hd K) as [R1 [_ R3']].
      destruct (Bb (rev (p, d))) eqn:Er.
      + apply Bb_spec in Er. unfold rev in Er. cbn [fst snd] in Er.
        destruct (ulb_B _ _ Er) as [E1 E2]. rewrite R3' in E1, E2. rewrite (updir_opposite d Hd) in E1, E2.
        rewrite E1, E2. destruct (updir d); reflexivity.
      + destruct (ulb_none (sid p d)) as [E1 E2].
        { intros [q d'] Hx Es. destruct (B_facts _ _ Hx) as [Hq [Hd' [K' _]]]. unfold dsid in Es. cbn [fst snd] in Es.
          destruct (gsid_inj h w p d q d' Hp Hq Hd Hd' K K' (eq_sym Es)) as [[-> ->]|[-> ->]].
          - apply Bb_spec in Hx. congruence.
          - apply Bb_spec in Hx. unfold rev in Er. cbn [fst snd] in Er. congruence. }
        rewrite E1, E2. destruct (updir d); reflexivity.
  Qed.

  Lemma sIn_cen p d : valid p -> In d ff_dirs -> ok p d = true -> sIn h w cen p d = Bb (rev (p, d)).
  Proof.
    intros Hp Hd K. destruct (sOut_rev h w cen p d Hp Hd K) as [_ [S2 _]]. rewrite <- S2.
    destruct (grev h w p d Hp Hd K) as [R1 _].
    apply sOut_cen; [apply gstep_valid; assumption|apply ff_opposite_in; exact Hd|exact R1].
  Qed.

  Lemma sT_cen p d : B (p, d) -> sT h w cen p d = lab (p, d).
  Proof.
    intros Hb. unfold sT. rewrite cen_nt. unfold nte.
    destruct (find (fun x => Nat.eqb (dsid x) (sid p d)) all_darts) as [x|] eqn:E.
    - apply find_some in E. destruct E as [Hx Es]. apply Nat.eqb_eq in Es. apply all_darts_B in Hx.
      rewrite (dsid_B_unique (p, d) x Hb Hx (eq_sym Es)). reflexivity.
    - exfalso. pose proof (find_none _ _ E (p, d) (proj2 (all_darts_B _) Hb)) as X. cbv beta in X.
      unfold dsid in X. cbn [fst snd] in X. rewrite Nat.eqb_refl in X. discriminate.
  Qed.

  Lemma sT_cen_in p d : valid p -> In d ff_dirs -> Bin p d -> sT h w cen p d = lab (rev (p, d)).
  Proof.
    intros Hp Hd [K Hb]. destruct (sOut_rev h w cen p d Hp Hd K) as [_ [_ S3]]. rewrite <- S3.
    apply (sT_cen (gstep p d) (opposite d)). exact Hb.
  Qed.

  (* ---- the constraints hold *)
  Lemma cen_HA e : e < NE -> eb cen e = eb cen (ff_ul H W e) || eb cen (ff_dr H W e).
  Proof.
    intros He. rewrite cen_line, cen_ul, cen_dr by exact He. destruct (on e) eqn:Ho.
    - destruct (B_cover e He Ho) as [p [d [Hb Es]]]. destruct (ulb_B p d Hb) as [E1 E2]. rewrite Es in E1, E2.
      rewrite E1, E2. destruct (updir d); reflexivity.
    - destruct (ulb_none e) as [E1 E2]; [|rewrite E1, E2; reflexivity].
      intros [p d] Hx Es. destruct (B_facts _ _ Hx) as [_ [_ [_ Ho']]]. unfold dsid in Es. cbn [fst snd] in Es.
      rewrite Es in Ho'. congruence.
  Qed.

  Lemma cen_HB e : e < NE -> eb cen (ff_ul H W e) && eb cen (ff_dr H W e) = false.
  Proof.
    intros He. rewrite cen_ul, cen_dr by exact He. destruct (on e) eqn:Ho.
    - destruct (B_cover e He Ho) as [p [d [Hb Es]]]. destruct (ulb_B p d Hb) as [E1 E2]. rewrite Es in E1, E2.
      rewrite E1, E2. destruct (updir d); reflexivity.
    - destruct (ulb_none e) as [E1 E2]; [|rewrite E1, E2; reflexivity].
      intros [p d] Hx Es. destruct (B_facts _ _ Hx) as [_ [_ [_ Ho']]]. unfold dsid in Es. cbn [fst snd] in Es.
      rewrite Es in Ho'. congruence.
  Qed.

  Lemma e0_lt : e0 < NE.
  Proof.
    destruct c_L as [Hc [d Hb]]. destruct (cod_spec c d Hc Hb) as [E _]. unfold e0. rewrite E.
    destruct (B_facts _ _ Hb) as [_ [Hd [K _]]]. apply (gsid_lt h w c d Hc Hd K).
  Qed.

  Lemma cen_HC : count (sG h w cen) (seq 0 NE) = 1.
  Proof.
    rewrite (count_ext_in (sG h w cen) (fun e => Nat.eqb e e0)).
    - rewrite count_eqb_seq. pose proof e0_lt. cbn [Nat.leb Nat.add andb].
      replace (e0 <? NE) with true by (symmetry; apply Nat.ltb_lt; assumption). reflexivity.
    - intros e He. apply in_seq in He. unfold sG. apply cen_ig. lia.
  Qed.

  Lemma cen_rank : rank_sem h w cen.
  Proof.
    intros p d Hp Hd K Ho Hg. rewrite (sOut_cen p d Hp Hd K) in Ho. apply Bb_spec in Ho.
    pose proof (gsid_lt h w p d Hp Hd K) as Hlt. change (ff_NE h w) with NE in Hlt.
    unfold sG in Hg. rewrite (cen_ig _ Hlt) in Hg. apply Nat.eqb_neq in Hg.
    assert (Hq : valid (gstep p d)) by (apply gstep_valid; assumption).
    unfold sR. rewrite (cen_rk _ (gidx_lt h w p Hp)), (cen_rk _ (gidx_lt h w _ Hq)).
    apply rankf_descends; assumption.
  Qed.

  Lemma in_flag p d : valid p -> In d ff_dirs -> (ok p d && sIn h w cen p d = true <-> Bin p d).
  Proof.
    intros Hp Hd. unfold Bin. rewrite andb_true_iff. split.
    - intros [K Hi]. rewrite (sIn_cen p d Hp Hd K) in Hi. apply Bb_spec in Hi. split; [exact K|exact Hi].
    - intros [K Hb]. split; [exact K|]. rewrite (sIn_cen p d Hp Hd K). apply Bb_spec. exact Hb.
  Qed.
  Lemma out_flag p d : valid p -> In d ff_dirs -> (ok p d && sOut h w cen p d = true <-> Bout p d).
  Proof.
    intros Hp Hd. unfold Bout. rewrite andb_true_iff. split.
    - intros [K Ho]. rewrite (sOut_cen p d Hp Hd K) in Ho. apply Bb_spec in Ho. exact Ho.
    - intros Hb. destruct (B_facts _ _ Hb) as [_ [_ [K _]]]. split; [exact K|].
      rewrite (sOut_cen p d Hp Hd K). apply Bb_spec. exact Hb.
  Qed.

  Lemma cen_plain p : valid p -> fly p = false -> plain_b h w dir num cen p = true.
  Proof.
    intros Hp Hf. unfold plain_b.
    assert (Hin : n_in h w cen p <= 1).
    { apply count_le1_dirs. intros a b Ha Hb Ga Gb. apply (in_flag p a Hp Ha) in Ga. apply (in_flag p b Hp Hb) in Gb.
      apply (in_unique_B p); assumption. }
    assert (Hout : n_out h w cen p <= 1).
    { apply count_le1_dirs. intros a b Ha Hb Ga Gb. apply (out_flag p a Hp Ha) in Ga. apply (out_flag p b Hp Hb) in Gb.
      apply (out_unique_B p); assumption. }
    assert (Hio : 1 <= n_in h w cen p -> 1 <= n_out h w cen p).
    { intros Hpos. destruct (count_pos_ex _ _ Hpos) as [d [Hd Gd]]. apply (in_flag p d Hp Hd) in Gd.
      destruct (in_then_out p d Hp Hd Hf Gd) as [d' [Hd' [_ [Hb' _]]]].
      apply (count_pos_of _ ff_dirs d' Hd'). apply (out_flag p d' Hp Hd'). exact Hb'. }
    assert (Hoi : 1 <= n_out h w cen p -> 1 <= n_in h w cen p).
    { intros Hpos. destruct (count_pos_ex _ _ Hpos) as [d [Hd Gd]]. apply (out_flag p d Hp Hd) in Gd.
      destruct (out_then_in p d Hp Hf Gd) as [i [Hi [_ [Hb' _]]]].
      apply (count_pos_of _ ff_dirs i Hi). apply (in_flag p i Hp Hi). exact Hb'. }
    apply andb_true_iff. split; [apply andb_true_iff; split; [apply Nat.leb_le; exact Hin|apply Nat.eqb_eq; lia]|].
    apply forallb_forall. intros i Hi. apply forallb_forall. intros j Hj.
    destruct (ok p i && ok p j && negb (Nat.eqb i j)) eqn:Hg; [|reflexivity]. cbn [negb orb].
    apply andb_true_iff in Hg. destruct Hg as [Hg Nij]. apply andb_true_iff in Hg. destruct Hg as [Ki Kj].
    apply negb_true_iff, Nat.eqb_neq in Nij.
    destruct (sIn h w cen p i) eqn:Ii; [|reflexivity]. destruct (sOut h w cen p j) eqn:Oj; [|reflexivity]. cbn [andb implb].
    assert (Bi' : Bin p i) by (apply (in_flag p i Hp Hi); rewrite Ki, Ii; reflexivity).
    assert (Bo : Bout p j) by (apply (out_flag p j Hp Hj); rewrite Kj, Oj; reflexivity).
    (* (p, j) continues the dart that arrives by i *)
    destruct (grev h w p i Hp Hi Ki) as [_ [R2' _]]. destruct Bi' as [_ Hbx].
    destruct (B_forward _ _ Hbx) as [[Hfl _]|[Hfl [d' [Hc Hb']]]]; [rewrite R2' in Hfl; congruence|].
    rewrite R2' in Hb', Hfl. assert (d' = j) by (apply (out_unique_B p); assumption). subst d'.
    destruct (lab_step _ _ j Hbx ltac:(rewrite R2'; exact Hfl) Hc) as [[L1 L2]|L1]; rewrite R2' in *.
    - unfold pass_rel. rewrite (sT_cen_in p i Hp Hi (conj Ki Hbx)), (sT_cen p j Bo). unfold rev. cbn [fst snd].
      rewrite L1, L2. change (sUnk h w dir num) with unk. rewrite !Z.eqb_refl. destruct (Nat.eqb (i / 2) (j / 2)); reflexivity.
    - unfold pass_rel. rewrite (sT_cen_in p i Hp Hi (conj Ki Hbx)), (sT_cen p j Bo). unfold rev. cbn [fst snd].
      rewrite (dirs_straight' i j Hi Hj Nij), L1. destruct (Nat.eqb j (opposite i)).
      + apply Z.eqb_eq. lia.
      + apply orb_true_iff. right. apply Z.eqb_eq. reflexivity.
  Qed.

  Lemma cen_fly F : valid F -> fly F = true ->
    ok F (dot F) = true /\ fly_b h w dir num cen F (dot F) (at2 num W (fst F) (snd F)) = true.
  Proof.
    intros HF Hf. pose proof (B_start F HF Hf) as Hb. destruct (B_facts _ _ Hb) as [_ [Hd [K _]]]. cbn [start] in K.
    split; [exact K|]. unfold fly_b. apply andb_true_iff. split; [apply andb_true_iff; split|].
    - rewrite (sOut_cen F (dot F) HF Hd K). apply Bb_spec. exact Hb.
    - apply Z.eqb_eq. rewrite (sT_cen F (dot F) Hb). apply lab_start; assumption.
    - apply forallb_forall. intros i Hi. destruct (ok F i && negb (Nat.eqb i (dot F))) eqn:Hg; [|reflexivity]. cbn [negb orb].
      apply andb_true_iff in Hg. destruct Hg as [Ki Ni]. apply negb_true_iff, Nat.eqb_neq in Ni.
      apply andb_true_iff. split.
      + apply negb_true_iff. rewrite (sOut_cen F i HF Hi Ki). destruct (Bb (F, i)) eqn:E; [|reflexivity]. exfalso.
        apply Bb_spec in E. apply (fly_out F i HF Hf) in E. contradiction.
      + destruct (sIn h w cen F i) eqn:Ii; [|reflexivity]. cbn [implb].
        assert (Bi' : Bin F i) by (apply (in_flag F i HF Hi); rewrite Ki, Ii; reflexivity).
        rewrite (sT_cen_in F i HF Hi Bi'). destruct Bi' as [_ Hbx]. destruct (grev h w F i HF Hi Ki) as [_ [R2' _]].
        unfold rev. cbn [fst snd]. destruct (lab_last _ _ Hbx ltac:(rewrite R2'; exact Hf)) as [L|L]; rewrite L.
        * reflexivity.
        * change (sUnk h w dir num) with unk. rewrite Z.eqb_refl. apply orb_true_r.
  Qed.

  Lemma cen_points p : valid p -> point_b h w dir num cen p = true.
  Proof.
    intros Hp. unfold point_b. destruct (ff_is dir W (fst p) (snd p)) eqn:Hf.
    - destruct (cen_fly p Hp Hf) as [K Hb]. fold (dot p). rewrite K. exact Hb.
    - apply cen_plain; assumption.
  Qed.

  Lemma cen_model : model_of no_graph cen (firefly_state H W dir num).
  Proof.
    split.
    - apply ff_in_bounds_iff. split.
      + intros v Hv. unfold sR. rewrite (cen_rk v Hv). apply rankf_bounds. exact Hv.
      + intros e _. rewrite cen_nt. unfold nte.
        destruct (find (fun x => Nat.eqb (dsid x) e) all_darts) as [x|] eqn:E.
        * apply find_some in E. destruct E as [Hx _]. apply all_darts_B in Hx. apply lab_bounds. exact Hx.
        * assert (0 <= M)%Z; [|lia]. unfold ff_max_turn. apply fold_max_ge. right. reflexivity.
    - apply ff_satisfies_iff. split; [exact cen_HA|]. split; [exact cen_HB|]. split; [exact cen_HC|].
      split; [exact cen_rank|exact cen_points].
  Qed.

  Hypothesis Hlen : length ans = NE.
  Hypothesis H01 : forallb is01 ans = true.

  Lemma cen_reads : reads (firefly_state H W dir num) cen (seq 0 NE) = ans.
  Proof.
    transitivity (map (getz ans) (seq 0 NE)); [|rewrite <- Hlen; apply map_getz_seq].
    unfold reads. apply map_ext_in. intros i Hi. apply in_seq in Hi.
    unfold read_var, firefly_state. cbn [vars].
    rewrite nth_error_app1 by (rewrite repeat_length; lia).
    rewrite (nth_error_nth' _ DBool) by (rewrite repeat_length; lia). rewrite nth_repeat.
    rewrite cen_line by lia. unfold onA. apply isb_is01. rewrite forallb_forall in H01. apply H01.
    unfold getz. apply nth_In. lia.
  Qed.
End Beams.
