(* C08 runner: I/O only.
   gopt   :=  N  |  G n m a1 b1 ... am bm
   arg    :=  S [ exprs ]  |  1 [ exprs ]  |  2 h w [ exprs ]      (list / BoolArray1D / BoolArray2D)
   NA <gopt> <arg> <state>            -> OK <state> | E <code> <state>     (active_vertices_not_adjacent)
   NS <0|1> <gopt> <arg> <state>      -> OK <state> | E <code> <state>     (..._and_not_segmenting; 0|1 = config.use_graph_primitive)
   SG n m edges B bits                -> independent_b  connected_b(inactive)          on the given graph
   SP h w B bits                      -> independent_b  connected_b(inactive)  spec_diag_b    on the h x w grid
   RK h w B bits                      -> diag_rank of cells 0..h*w-1
   CD h w B bits R ranks              -> cert_diag with the given ranks *)
open Model
open Zutil

let rec take_pairs k toks = if k = 0 then ([], toks) else
  match toks with
  | a :: b :: r -> let (ps, r') = take_pairs (k - 1) r in
      ((nat_of_int (int_of_string a), nat_of_int (int_of_string b)) :: ps, r')
  | _ -> failwith "pairs"

let parse_graph toks = match toks with
  | n :: m :: r -> let (es, r') = take_pairs (int_of_string m) r in
      ({ nv = nat_of_int (int_of_string n); edges = es }, r')
  | _ -> failwith "graph"

let parse_gopt toks = match toks with
  | "N" :: r -> (None, r)
  | "G" :: r -> let (g, r') = parse_graph r in (Some g, r')
  | _ -> failwith "gopt"

let parse_arg toks = match toks with
  | "S" :: r -> let (l, r') = Exprio.parse_expr_list r in (ASeq l, r')
  | "1" :: r -> let (l, r') = Exprio.parse_expr_list r in (AArr1 l, r')
  | "2" :: h :: w :: r -> let (l, r') = Exprio.parse_expr_list r in
      (AArr2 (nat_of_int (int_of_string h), nat_of_int (int_of_string w), l), r')
  | _ -> failwith "arg"

let rec take_until stop toks = match toks with
  | [] -> ([], [])
  | t :: r when t = stop -> ([], r)
  | t :: r -> let (a, b) = take_until stop r in (t :: a, b)

let pattern bits = let arr = Array.of_list (List.map (fun t -> t = "1") bits) in
  fun k -> let i = int_of_nat k in i < Array.length arr && arr.(i)

let b01 b = if b then "1" else "0"

let show_post (st, e) = match e with
  | None -> "OK " ^ Exprio.show_state st
  | Some e -> "E " ^ string_of_int (int_of_nat (pyerr_code e)) ^ " " ^ Exprio.show_state st

let handle toks = match toks with
  | "NA" :: r ->
      let (g, r) = parse_gopt r in
      let (a, r) = parse_arg r in
      let (st, _) = Exprio.parse_state r in
      show_post (post_not_adjacent st a g)
  | "NS" :: p :: r ->
      let (g, r) = parse_gopt r in
      let (a, r) = parse_arg r in
      let (st, _) = Exprio.parse_state r in
      show_post (post_not_segmenting (p = "1") st a g)
  | "SG" :: r ->
      let (g, r) = parse_graph r in
      (match r with
       | "B" :: bits -> let a = pattern bits in
           b01 (independent_b g a) ^ " " ^ b01 (connected_b g (inactive a))
       | _ -> failwith "B")
  | "SP" :: h :: w :: "B" :: bits ->
      let h = nat_of_int (int_of_string h) and w = nat_of_int (int_of_string w) in
      let a = pattern bits in
      let g = grid_graph h w in
      b01 (independent_b g a) ^ " " ^ b01 (connected_b g (inactive a)) ^ " " ^ b01 (spec_diag_b h w a)
  | "RK" :: h :: w :: "B" :: bits ->
      let hn = int_of_string h and wn = int_of_string w in
      let h = nat_of_int hn and w = nat_of_int wn in
      let a = pattern bits in
      zs (List.init (hn * wn) (fun i -> diag_rank h w a (nat_of_int i)))
  | "CD" :: h :: w :: "B" :: r ->
      let h = nat_of_int (int_of_string h) and w = nat_of_int (int_of_string w) in
      let (bits, ranks) = take_until "R" r in
      let a = pattern bits in
      let arr = Array.of_list (List.map (fun t -> z_of_int (int_of_string t)) ranks) in
      let rk v = let i = int_of_nat v in if i < Array.length arr then arr.(i) else z_of_int 0 in
      b01 (cert_diag h w a rk)
  | _ -> "EXN bad request"

let () = main_loop handle
