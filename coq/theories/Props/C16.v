(* C16 — puzzle URL codecs round-trip and agree with the puzz.link / pzv format.
   Only final statements here; proofs are in Codec/UrlProofs.v, Codec/PuzzleProofs.v.
   Gen/Codecs.v is regenerated from cspuz/puzzle/*.py on every run (harness/c16trans.py):
   the statements about <P>_COMBINATOR / serialize_<p>_w / deserialize_<p>_w below are
   obligations about the code as it is now. *)
From Coq Require Import ZArith List Ascii Bool.
From Cspuz Require Import Lib.PyErr Codec.Comb Codec.CombWf Codec.CombRoundTrip Codec.Legacy Codec.Url Codec.UrlProofs
  Codec.Yajilin Codec.Puzzles Codec.PuzzleProofs Gen.Codecs.
Import ListNotations.
Local Open Scope Z_scope.

(* ------------------------------------------------------------------ URL assembly / regular expression *)
(* For every puzzle name without slash, all naturals h and w and every body without
   newline, the regular expression reads name, WIDTH, HEIGHT (in this order) and body back
   from the f-string serialize_problem_as_url writes; for every prefix the expression
   accepts (http/https, any host, /p or /p.html). *)
Theorem url_roundtrip :
  forall p nm h w body,
    valid_prefix p -> valid_name nm -> valid_body body -> 0 <= h -> 0 <= w ->
    parse_url (make_url p nm h w body) = Ok (Some (nm, w, h, body)).
Proof. exact url_roundtrip_gen. Qed.
Print Assumptions url_roundtrip.

Theorem known_prefixes_valid : valid_prefix default_prefix /\ valid_prefix pzv_prefix.
Proof. split; [exact default_prefix_valid | exact pzv_prefix_valid]. Qed.
Print Assumptions known_prefixes_valid.

(* ------------------------------------------------------------------ the generated codec table *)
(* every combinator term of the bundled modules (except yajilin's, which uses a Combinator
   subclass) satisfies C15's well-formedness predicate *)
Theorem generated_terms_wf :
  wf NURIKABE_COMBINATOR = true /\ wf MASYU_COMBINATOR = true /\ wf SLITHERLINK_COMBINATOR = true /\
  wf SUDOKU_COMBINATOR = true /\ wf NURIMISAKI_COMBINATOR = true /\ wf HEYAWAKE_COMBINATOR = true /\
  wf LITS_COMBINATOR = true /\ wf NORINORI_COMBINATOR = true.
Proof. vm_compute. repeat split; reflexivity. Qed.
Print Assumptions generated_terms_wf.

(* encoder and decoder of every module use the same term, the encoder's puzzle name can be
   read by the regular expression and is accepted by the decoder's allowed_puzzles *)
Theorem generated_wrappers_consistent :
  wrappers_consistent serialize_nurikabe_w deserialize_nurikabe_w /\
  wrappers_consistent serialize_masyu_w deserialize_masyu_w /\
  wrappers_consistent serialize_slitherlink_w deserialize_slitherlink_w /\
  wrappers_consistent serialize_sudoku_w deserialize_sudoku_w /\
  wrappers_consistent serialize_nurimisaki_w deserialize_nurimisaki_w /\
  wrappers_consistent serialize_yajilin_w deserialize_yajilin_w /\
  wrappers_consistent serialize_heyawake_w deserialize_heyawake_w /\
  wrappers_consistent serialize_lits_w deserialize_lits_w /\
  wrappers_consistent serialize_norinori_w deserialize_norinori_w.
Proof.
  repeat split; try reflexivity; try discriminate; vm_compute; repeat constructor.
Qed.
Print Assumptions generated_wrappers_consistent.

(* ------------------------------------------------------------------ URL level from body level (all nine modules) *)
(* For any module whose wrappers are consistent: if the body serialization of a problem
   round-trips (and has no newline), then serialize_<p> writes
   prefix name/width/height/body and deserialize_<p> returns the problem, with
   (height, width) when return_size is set — for all sizes, square or not. *)
Theorem url_from_body_roundtrip :
  forall cu sw dw h w pb pb' body,
    wrappers_consistent sw dw -> 0 <= h -> 0 <= w ->
    serialize_problem_cu cu (sw_comb sw) pb h w = Ok body -> valid_body body ->
    deserialize_problem_cu cu (sw_comb sw) body h w = Ok (Some pb') ->
    run_ser_sized cu sw h w pb = Ok (make_url default_prefix (sw_puzzle sw) h w body) /\
    run_de cu dw (make_url default_prefix (sw_puzzle sw) h w body) = Ok (Some (sized dw h w pb')).
Proof. exact url_level_roundtrip. Qed.
Print Assumptions url_from_body_roundtrip.

(* ------------------------------------------------------------------ cell-grid codecs: full round trip *)
(* nurikabe, masyu, slitherlink, sudoku, nurimisaki: for every board size h, w >= 1 and every
   h x w problem for which serialize_<p> produces a URL, that URL is
   https://puzz.link/p?<name>/<w>/<h>/<body> and deserialize_<p> returns the problem.
   (Body without newline is still a hypothesis here, see the report; serialization succeeds
   exactly on the cell values the text format can carry.) *)
Definition grid_codec_roundtrip_for (sw : ser_wrapper) (dw : de_wrapper) : Prop :=
  forall h w pb rows body,
    1 <= h -> 1 <= w -> grid_shape h w pb rows ->
    serialize_problem_cu no_custom (sw_comb sw) pb h w = Ok body -> valid_body body ->
    run_ser_problem no_custom sw pb = Ok (make_url default_prefix (sw_puzzle sw) h w body) /\
    run_de no_custom dw (make_url default_prefix (sw_puzzle sw) h w body) = Ok (Some pb).

Theorem grid_codecs_roundtrip :
  grid_codec_roundtrip_for serialize_nurikabe_w deserialize_nurikabe_w /\
  grid_codec_roundtrip_for serialize_masyu_w deserialize_masyu_w /\
  grid_codec_roundtrip_for serialize_slitherlink_w deserialize_slitherlink_w /\
  grid_codec_roundtrip_for serialize_sudoku_w deserialize_sudoku_w /\
  grid_codec_roundtrip_for serialize_nurimisaki_w deserialize_nurimisaki_w.
Proof.
  pose proof generated_wrappers_consistent as (H1 & H2 & H3 & H4 & H5 & _).
  assert (T : forall sw dw c1, sw_comb sw = Grid c1 None -> wf (Grid c1 None) = true -> rooms_free c1 = true ->
                cell_comb c1 = true -> wrappers_consistent sw dw -> dw_return_size dw = false ->
                grid_codec_roundtrip_for sw dw).
  { intros sw dw c1 E1 E2 E3 E4 E5 E6 h w pb rows body Hh Hw Hs Hser Hb.
    eapply grid_url_roundtrip; eauto. }
  split; [|split; [|split; [|split]]];
    (eapply T; [reflexivity | vm_compute; reflexivity | reflexivity | reflexivity | assumption | reflexivity]).
Qed.
Print Assumptions grid_codecs_roundtrip.

(* the hypotheses are satisfiable: a 1 x 3 nurikabe board with an empty cell, the clue 16 and "?" *)
Example nurikabe_instance :
  let pb := VList [VList [VInt 0; VInt 16; VInt (-1)]] in
  run_ser_problem no_custom serialize_nurikabe_w pb
    = Ok (make_url default_prefix (sw_puzzle serialize_nurikabe_w) 1 3 (lit [103; 45; 49; 48; 46]%nat)) /\
  run_de no_custom deserialize_nurikabe_w
    (make_url default_prefix (sw_puzzle serialize_nurikabe_w) 1 3 (lit [103; 45; 49; 48; 46]%nat)) = Ok (Some pb).
Proof. vm_compute. split; reflexivity. Qed.
