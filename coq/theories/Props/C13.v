From Coq Require Import ZArith List.
From Cspuz Require Import Lib.PyErr Array.Slice.
Theorem reshape_row_major : forall (A : Type) (data : list A) h w r,
  reshape data h w = Ok r -> r = R2 h w data /\ py_len data = h * w.
Proof. intros A data h w r; unfold reshape; destruct (Z.eqb_spec (py_len data) (h * w)); intros H; inversion H; auto. Qed.
Print Assumptions reshape_row_major.
