(* C04 - active_vertices_connected holds exactly for connected (or tree) active sets *)
From Coq Require Import ZArith List Bool Arith.
From Cspuz Require Import Lib.PyErr Core.Expr Core.Program Core.Build
  Graph.GraphModel Graph.ReachProofs Graph.Avc Graph.AvcCert Graph.AvcSem Graph.AvcProofs Graph.AvcTyping Graph.AvcTotal
  Graph.AvcTree Graph.AvcTreeExact.
From Cspuz Require Graph.Acyclic.
Import ListNotations.
Local Open Scope nat_scope.

(* the constraints the auxiliary-variable encoding adds evaluate, under any
   assignment, to the certificate checker; it declares n ranks in [0, n-1] and n
   root flags and nothing else *)
Theorem avc_eval : forall st acts g acyclic st',
  post_avc st acts g acyclic false = Ok st' ->
  vars st' = vars st ++ repeat (DInt 0 (Z.of_nat (nv g) - 1)) (nv g) ++ repeat DBool (nv g) /\
  keys st' = keys st ++ repeat false (nv g) ++ repeat false (nv g) /\
  exists cs, cons st' = cons st ++ cs /\
    forall en, acts_defined en acts ->
      forallb (holds gsem_avc en) cs =
      cert_avc g acyclic (pattern en acts)
               (fun j => ei en (next_id st + j)) (fun j => eb en (next_id st + nv g + j)).
Proof. exact AvcSem.avc_eval. Qed.
Print Assumptions avc_eval.

(* an in-range certificate exists exactly when the specification holds *)
Theorem avc_cert : forall g acyclic act,
  wf_graph g = true -> 1 <= nv g ->
  ((exists rank root, ranks_in_range g rank /\ cert_avc g acyclic act rank root = true)
   <-> spec_avc acyclic g act).
Proof. exact AvcCert.avc_cert. Qed.
Print Assumptions avc_cert.

(* non-acyclic: completable exactly for connected active sets, for every graph,
   every is_active expression list over the caller's variables and every
   assignment of those variables *)
Theorem avc_exact : forall st acts g st' en,
  wf_graph g = true -> fresh_below (next_id st) acts -> acts_defined en acts ->
  post_avc st acts g false false = Ok st' ->
  ((exists en', agree_below (next_id st) en en' /\
                in_bounds_from en' (next_id st) (new_vars st st') = true /\
                forallb (holds gsem_avc en') (new_cons st st') = true)
   <-> connected g (pattern en acts)).
Proof. exact avc_connected_exact. Qed.
Print Assumptions avc_exact.

(* acyclic=True: completable exactly when the active vertices induce a tree or are empty *)
Theorem avc_acyclic_exact : forall st acts g st' en,
  wf_graph g = true -> fresh_below (next_id st) acts -> acts_defined en acts ->
  post_avc st acts g true false = Ok st' ->
  ((exists en', agree_below (next_id st) en en' /\
                in_bounds_from en' (next_id st) (new_vars st st') = true /\
                forallb (holds gsem_avc en') (new_cons st st') = true)
   <-> (connected g (pattern en acts) /\
        (n_active g (pattern en acts) = 0 \/
         induced_edges g (pattern en acts) + 1 = n_active g (pattern en acts)))).
Proof. exact AvcProofs.avc_acyclic_exact. Qed.
Print Assumptions avc_acyclic_exact.

(* in terms of models of the whole solver state *)
Theorem avc_exact_models : forall acyclic st acts g st' en,
  wf_graph g = true ->
  fresh_below (next_id st) acts -> fresh_below (next_id st) (cons st) -> acts_defined en acts ->
  model_of gsem_avc en st ->
  post_avc st acts g acyclic false = Ok st' ->
  ((exists en', agree_below (next_id st) en en' /\ model_of gsem_avc en' st')
   <-> spec_avc acyclic g (pattern en acts)).
Proof. exact AvcProofs.avc_exact_models. Qed.
Print Assumptions avc_exact_models.

(* the array form = the graph form on the grid graph = orthogonal adjacency *)
Theorem avc_grid : forall cfg st h w l acyclic ugp,
  active_vertices_connected cfg st (AArr2 h w l) None acyclic ugp =
    post_avc st l (grid_graph h w) acyclic (match ugp with Some p => p | None => cfg end) /\
  wf_graph (grid_graph h w) = true /\ loop_free (grid_graph h w) = true /\
  nv (grid_graph h w) = h * w /\
  (forall a b, In b (nbrs (grid_graph h w) all_edges_ok a) <-> (grid_adj h w a b \/ grid_adj h w b a)).
Proof. exact AvcProofs.avc_grid. Qed.
Print Assumptions avc_grid.

(* the native-operator form: one node whose operands decode to the caller's
   graph and pattern; acyclic=True never takes this branch *)
Theorem avc_primitive : forall st acts g st',
  post_avc st acts g false true = Ok st' ->
  length acts = nv g /\ vars st' = vars st /\ keys st' = keys st /\
  exists e, cons st' = cons st ++ [e] /\
    e = BNode G_AVC ([PyInt (Z.of_nat (nv g)); PyInt (Z.of_nat (length (edges g)))] ++ acts ++ flat_edges g) /\
    forall en, acts_defined en acts ->
      eval gsem_avc en e = Some (VB (connected_b g (fun v => nth v (map (holds gsem_avc en) acts) false))) /\
      (wf_graph g = true -> (holds gsem_avc en e = true <-> connected g (pattern en acts))).
Proof. exact AvcProofs.avc_primitive. Qed.
Print Assumptions avc_primitive.

Theorem avc_acyclic_ignores_primitive : forall st acts g prim,
  post_avc st acts g true prim = post_avc st acts g true false.
Proof. exact AvcProofs.avc_acyclic_ignores_primitive. Qed.
Print Assumptions avc_acyclic_ignores_primitive.

(* the executable specification used by the search is the relational one *)
Theorem connected_b_decides : forall g act,
  wf_graph g = true -> (connected_b g act = true <-> connected g act).
Proof. exact connected_b_spec. Qed.
Print Assumptions connected_b_decides.

(* no well-formed call raises: graph endpoints in range, at least one vertex,
   one BoolExpr / Python bool per vertex *)
Theorem post_avc_succeeds : forall st acts g acyclic,
  wf_graph g = true -> 1 <= nv g -> nv g <= length acts ->
  (forall a, In a acts -> is_bool_expr_like a = true) ->
  exists st', post_avc st acts g acyclic false = Ok st'.
Proof. exact AvcTotal.post_avc_succeeds. Qed.
Print Assumptions post_avc_succeeds.

(* well-typed boolean trees (what the public constructors build) are defined
   under every assignment: the hypothesis acts_defined is a syntactic check *)
Theorem wt_acts_defined : forall en acts,
  forallb (wt true) acts = true -> acts_defined en acts.
Proof. exact AvcTyping.wt_acts_defined. Qed.
Print Assumptions wt_acts_defined.

(* the edge-count definition of "tree" used above is the usual one: connected
   and every induced edge between two distinct active vertices is a bridge of
   the induced subgraph (no cycle; parallel induced edges are a cycle).  For
   every well-formed multigraph; self-loops are ignored by both sides *)
Theorem tree_iff_bridges : forall g act, wf_graph g = true ->
  (tree g act <->
   (connected g act /\
    (forall e a b, nth_error (edges g) e = Some (a, b) -> act a = true -> act b = true -> a <> b ->
                   ~ reach g act (fun k => negb (Nat.eqb k e)) a b))).
Proof. exact AvcTree.tree_iff_bridges. Qed.
Print Assumptions tree_iff_bridges.

(* the former stretch-goal statement (loop-free graphs, no side condition) *)
Theorem tree_iff_no_cycle : forall g act, wf_graph g = true -> loop_free g = true ->
  (tree g act <->
   (connected g act /\
    (forall e a b, nth_error (edges g) e = Some (a, b) -> act a = true -> act b = true ->
                   ~ reach g act (fun k => negb (Nat.eqb k e)) a b))).
Proof. exact AvcTreeExact.tree_iff_no_cycle. Qed.
Print Assumptions tree_iff_no_cycle.

(* acyclic=True with the bridge definition *)
Theorem avc_acyclic_exact_bridges : forall st acts g st' en,
  wf_graph g = true -> fresh_below (next_id st) acts -> acts_defined en acts ->
  post_avc st acts g true false = Ok st' ->
  ((exists en', agree_below (next_id st) en en' /\
                in_bounds_from en' (next_id st) (new_vars st st') = true /\
                forallb (holds gsem_avc en') (new_cons st st') = true)
   <-> (connected g (pattern en acts) /\
        (forall e a b, nth_error (edges g) e = Some (a, b) ->
                       pattern en acts a = true -> pattern en acts b = true -> a <> b ->
                       ~ reach g (pattern en acts) (fun k => negb (Nat.eqb k e)) a b))).
Proof. exact AvcTreeExact.avc_acyclic_exact_bridges. Qed.
Print Assumptions avc_acyclic_exact_bridges.

(* the link with C09: a tree is a connected active set whose induced non-loop
   edges (as an edge pattern) form a forest in the sense of active_edges_acyclic *)
Theorem tree_iff_forest : forall g act, wf_graph g = true ->
  (tree g act <-> (connected g act /\ Acyclic.forest g (ind_edge g act))).
Proof. exact AvcTree.tree_iff_forest. Qed.
Print Assumptions tree_iff_forest.
