"""C08 hardening: targeted activity patterns on boards just beyond the exhaustive scope, and structured
graphs / graph input forms for the explicit-graph search.  Plain Python, independent of cspuz.

A pattern is a frozenset of cells (y, x).  Diagonal neighbours of a cell have its checkerboard colour, so
a diagonally connected set of cells never contains two orthogonally adjacent cells.
"""
import itertools

DIAG = [(-1, -1), (-1, 1), (1, -1), (1, 1)]


def on_border(h, w, c):
    return c[0] == 0 or c[1] == 0 or c[0] == h - 1 or c[1] == w - 1


def diag_nbrs(h, w, c):
    return [(c[0] + dy, c[1] + dx) for dy, dx in DIAG if 0 <= c[0] + dy < h and 0 <= c[1] + dx < w]


def to_bits(h, w, cells):
    return tuple((y, x) in cells for y in range(h) for x in range(w))


# ---------------------------------------------------------------- X shapes / stars

def stars(h, w, arm_len=1):
    """an inner centre with 3 or 4 diagonal arms of `arm_len` cells each (arms that leave the board are cut)"""
    out = []
    for y in range(1, h - 1):
        for x in range(1, w - 1):
            for k in (3, 4):
                for arms in itertools.combinations(DIAG, k):
                    cells = {(y, x)}
                    for dy, dx in arms:
                        for t in range(1, arm_len + 1):
                            c = (y + t * dy, x + t * dx)
                            if 0 <= c[0] < h and 0 <= c[1] < w:
                                cells.add(c)
                    out.append(("star%d-arm%d" % (k, arm_len), frozenset(cells)))
    return out


# ---------------------------------------------------------------- diagonal chains

def longest_chains(h, w, start_border, end_border=False, budget=200000, keep=3):
    """longest induced paths of the diagonal-neighbour graph whose first cell is on the border iff
    `start_border`, whose inner cells are not on the border, and whose last cell is on the border iff
    `end_border` (depth-first search with a node budget; exact on the boards used here).
    Returns up to `keep` chains (lists of cells) of the maximal length found."""
    best = []
    nodes = [0]

    def ext(path, pset, blocked):
        nodes[0] += 1
        if nodes[0] > budget:
            return
        last = path[-1]
        ok_end = (on_border(h, w, last) == end_border) if len(path) > 1 else (not end_border)
        if ok_end:
            if not best or len(path) > len(best[0]):
                best[:] = [list(path)]
            elif len(path) == len(best[0]) and len(best) < keep:
                best.append(list(path))
        if len(path) > 1 and on_border(h, w, last):
            return  # a border cell ends the chain
        for c in diag_nbrs(h, w, last):
            if c in pset or c in blocked:
                continue
            if on_border(h, w, c) and not end_border:
                continue
            # induced: c may touch the path only at `last`
            if any(d in pset and d != last for d in diag_nbrs(h, w, c)):
                continue
            nb = [d for d in diag_nbrs(h, w, last) if d != c and d not in pset]
            path.append(c)
            pset.add(c)
            ext(path, pset, blocked | set(nb))
            pset.discard(c)
            path.pop()

    starts = [(y, x) for y in range(h) for x in range(w) if on_border(h, w, (y, x)) == start_border]
    for s in starts:
        ext([s], {s}, frozenset())
    return best


def zigzag(h, w, y0, x0, n, vertical=False):
    """(y0,x0), (y0+1,x0+1), (y0,x0+2), ... : a zig-zag of up to n cells (transposed when vertical)"""
    cells = []
    for i in range(n):
        c = (y0 + i % 2, x0 + i) if not vertical else (y0 + i, x0 + i % 2)
        if not (0 <= c[0] < h and 0 <= c[1] < w):
            break
        cells.append(c)
    return cells


def staircase(h, w, y0, x0, dy, dx):
    cells = []
    y, x = y0, x0
    while 0 <= y < h and 0 <= x < w:
        cells.append((y, x))
        y, x = y + dy, x + dx
    return cells


def ring(cy, cx, r):
    """the diamond |y-cy| + |x-cx| = r (a closed diagonal chain for r >= 1)"""
    return [(cy + dy, cx + dx) for dy in range(-r, r + 1) for dx in range(-r, r + 1) if abs(dy) + abs(dx) == r]


def board_patterns(h, w, rng, n_random=16, star_cap=24, budget=200000):
    """the targeted patterns of one board: list of (family tag, frozenset of cells), without duplicates"""
    out = []

    def add(tag, cells):
        cells = frozenset(c for c in cells if 0 <= c[0] < h and 0 <= c[1] < w)
        out.append((tag, cells))

    # X shapes and stars with 3-4 arms (arms of 1 and 2 cells)
    for arm in (1, 2):
        st = stars(h, w, arm)
        if len(st) > star_cap:
            # stars with at most one border cell are the admissible ones (two border cells in one diagonal
            # component cut the board): every 4-armed one, a sample of the 3-armed ones, a few inadmissible
            good = [t for t in st if sum(1 for c in t[1] if on_border(h, w, c)) <= 1]
            bad = [t for t in st if t not in good]
            x4 = [t for t in good if t[0].startswith("star4")]
            x3 = [t for t in good if not t[0].startswith("star4")]
            x4 = x4 if len(x4) <= star_cap // 2 else rng.sample(x4, star_cap // 2)
            k3 = max(4, star_cap - len(x4) - 4)
            x3 = x3 if len(x3) <= k3 else rng.sample(x3, k3)
            st = x4 + x3 + (bad if len(bad) <= 4 else rng.sample(bad, 4))
        for tag, cells in st:
            add(tag, cells)
    # diagonal chains: hanging from the border (maximal length = the number of rank values the encoding
    # really needs), free-floating, and joining two border cells (must be rejected); plus prefixes
    for sb, eb, tag in ((True, False, "chain-border-once"), (False, False, "chain-free"), (True, True, "chain-border-twice")):
        for ch in longest_chains(h, w, sb, eb, budget=budget):
            add("%s-max%d" % (tag, len(ch)), ch)
            if tag == "chain-border-once":
                for k in sorted({len(ch) - 1, len(ch) - 2, max(h, w) + 2, max(h, w) + 1, max(h, w), (len(ch) + 1) // 2}):
                    if 2 <= k < len(ch):
                        add("%s-prefix%d" % (tag, k), ch[:k])
                # the chain hanging from its other end
                add("%s-reversed-max%d" % (tag, len(ch)), [(h - 1 - y, w - 1 - x) for (y, x) in ch])
                add("%s-transposed" % tag, [(x, y) for (y, x) in ch] if h == w else [(y, w - 1 - x) for (y, x) in ch])
    # zig-zags and staircases
    for y0 in range(0, h - 1):
        add("zigzag-row%d" % y0, zigzag(h, w, y0, 0, w))
        add("zigzag-row%d-inner" % y0, zigzag(h, w, y0, 1, w - 2))
    for x0 in range(0, w - 1):
        add("zigzag-col%d" % x0, zigzag(h, w, 0, x0, h, vertical=True))
        add("zigzag-col%d-inner" % x0, zigzag(h, w, 1, x0, h - 2, vertical=True))
    add("staircase-main", staircase(h, w, 0, 0, 1, 1))
    add("staircase-main-open", staircase(h, w, 0, 0, 1, 1)[:-1])
    add("staircase-anti", staircase(h, w, 0, w - 1, 1, -1))
    add("staircase-anti-open", staircase(h, w, 0, w - 1, 1, -1)[1:])
    add("staircase-inner", staircase(h, w, 1, 1, 1, 1)[:-1])
    # closed rings (the enclosed cells are cut off) and rings with one cell removed
    for r in (1, 2):
        for cy, cx in ((h // 2, w // 2), (r, r), (h - 1 - r, w - 1 - r)):
            rg = ring(cy, cx, r)
            if all(0 <= y < h and 0 <= x < w for y, x in rg):
                add("ring%d" % r, rg)
                add("ring%d-open" % r, rg[1:])
    # checkerboards, empty, full row, adjacent pair, corners
    add("checker0", [(y, x) for y in range(h) for x in range(w) if (y + x) % 2 == 0])
    add("checker1", [(y, x) for y in range(h) for x in range(w) if (y + x) % 2 == 1])
    add("empty", [])
    add("corners", [(0, 0), (0, w - 1), (h - 1, 0), (h - 1, w - 1)])
    add("adjacent-pair", [(h // 2, w // 2), (h // 2, w // 2 - 1)] + staircase(h, w, 0, 0, 1, 1)[:2])
    add("adjacent-pair-v", [(h // 2, w // 2), (h // 2 - 1, w // 2)])
    # random unions: sparse cells of one colour class (diagonal-rich), a few with cells of both colours
    cells = [(y, x) for y in range(h) for x in range(w)]
    for i in range(n_random):
        col = rng.randrange(2)
        p = rng.choice([0.25, 0.4, 0.55])
        pick = [c for c in cells if ((c[0] + c[1]) % 2 == col or (i % 4 == 3 and rng.random() < 0.3)) and rng.random() < p]
        if i % 2 == 0:
            pick = [c for c in pick if not on_border(h, w, c) or rng.random() < 0.3]
        add("random", pick)
    seen, uniq = set(), []
    for tag, cs in out:
        if cs not in seen:
            seen.add(cs)
            uniq.append((tag, cs))
    return uniq


# ---------------------------------------------------------------- structured graphs beyond the exhaustive scope

def structured_graphs():
    """(name, n, edges): 6-10 vertices"""
    out = []

    def cyc(vs):
        return [(vs[i], vs[(i + 1) % len(vs)]) for i in range(len(vs))]
    for n in (5, 6, 7):
        out.append(("K%d" % n, n, [(a, b) for a in range(n) for b in range(a + 1, n)]))
    for k in (5, 7):
        out.append(("wheel%d" % (k + 1), k + 1, cyc(list(range(1, k + 1))) + [(0, i) for i in range(1, k + 1)]))
    for k in (3, 4, 5):
        out.append(("prism%d" % k, 2 * k, cyc(list(range(k))) + cyc(list(range(k, 2 * k))) + [(i, i + k) for i in range(k)]))
    out.append(("path9", 9, [(i, i + 1) for i in range(8)]))
    out.append(("path10", 10, [(i, i + 1) for i in range(9)]))
    out.append(("cycle8", 8, cyc(list(range(8)))))
    out.append(("cycle9", 9, cyc(list(range(9)))))
    out.append(("two-cycles-4-5", 9, cyc([0, 1, 2, 3]) + cyc([4, 5, 6, 7, 8])))
    out.append(("two-cycles-bridged", 8, cyc([0, 1, 2, 3]) + cyc([4, 5, 6, 7]) + [(3, 4)]))
    out.append(("star8", 9, [(0, i) for i in range(1, 9)]))
    out.append(("K33", 6, [(a, b) for a in range(3) for b in range(3, 6)]))
    out.append(("K34", 7, [(a, b) for a in range(3) for b in range(3, 7)]))
    out.append(("petersen", 10, cyc([0, 1, 2, 3, 4]) + [(i, i + 5) for i in range(5)] + [(5 + i, 5 + (i + 2) % 5) for i in range(5)]))
    out.append(("binary-tree10", 10, [((i - 1) // 2, i) for i in range(1, 10)]))
    out.append(("isolated+cycle", 8, cyc([1, 2, 3, 4, 5])))
    return out


def edge_forms(n, edges, rng):
    """input forms of one graph: (form tag, edge list) -- same undirected graph unless the tag says +loop"""
    out = [("as-is", list(edges))]
    out.append(("reversed", [(b, a) for (a, b) in edges]))
    mixed = [(b, a) if i % 2 else (a, b) for i, (a, b) in enumerate(edges)]
    rng.shuffle(mixed)
    out.append(("mixed-shuffled", mixed))
    if edges:
        a, b = edges[rng.randrange(len(edges))]
        out.append(("parallel-reversed", list(edges) + [(b, a)]))
    v = rng.randrange(n)
    es = [(b, a) if rng.random() < 0.5 else (a, b) for (a, b) in edges]
    es.insert(rng.randrange(len(es) + 1), (v, v))
    out.append(("+loop", es))
    return out
