(* C17: the side condition [reenc_ok] of the re-encodability theorem cannot be dropped.  Each
   term below satisfies wf / tupl_single / dec_ok / single, decodes a text to a value, and that
   value is not serialized again (AssertionError: no alternative accepts it; TypeError; a loop
   that never ends, reported as OtherError) or is serialized to a text that decodes to another
   value.  Every witness has been replayed on cspuz/problem_serializer.py (harness/pC17.py,
   kind "reenc-witness"); none of these shapes occurs in a puzzle module. *)
From Coq Require Import ZArith List Ascii Bool.
From Cspuz Require Import Lib.PyErr Codec.Comb Codec.CombWf Codec.TotalModel Codec.TotalReencModel.
Import ListNotations.
Local Open Scope Z_scope.

Definition std_ok (c : comb) : bool := wf c && tupl_single c && dec_ok c && single c.
Definition tx (l : list nat) : str := map ascii_of_nat l.

(* an earlier alternative takes the head of an IntSpaces group; its spaces are then orphans:
   Seq(OneOf(Dict([0], ["."]), IntSpaces(-1, 4, 2)), 3) on "a" *)
Definition W_space : comb := Seq (OneOf [Dict [VInt 0] [tx [46]%nat]; IntSpaces (VInt (-1)) 4 2]) 3.
Example reenc_needs_space_cover :
  std_ok W_space = true /\ reenc_ok W_space = false /\
  deserialize_problem W_space (tx [97]%nat) 1 1 = Ok (Some (VList [VInt 0; VInt (-1); VInt (-1)])) /\
  serialize_problem W_space (VList [VInt 0; VInt (-1); VInt (-1)]) 1 1 = Err AssertionError.
Proof. repeat split; vm_compute; reflexivity. Qed.

(* MultiDigit among alternatives looks ahead into the items of the other alternatives:
   Seq(OneOf(Spaces(1, "g"), MultiDigit(2, 2), Dict([7], ["."])), 3) on "2." *)
Definition W_md : comb := Seq (OneOf [Spaces (VInt 1) "g"%char; MultiDigit 2 2; Dict [VInt 7] [tx [46]%nat]]) 3.
Example reenc_needs_md_alone :
  std_ok W_md = true /\ reenc_ok W_md = false /\
  deserialize_problem W_md (tx [50; 46]%nat) 1 1 = Ok (Some (VList [VInt 1; VInt 0; VInt 7])) /\
  serialize_problem W_md (VList [VInt 1; VInt 0; VInt 7]) 1 1 = Err AssertionError.
Proof. repeat split; vm_compute; reflexivity. Qed.

(* FixStr among the alternatives of a Seq base: Seq.serialize never ends
   (Seq(OneOf(FixStr("x"), HexInt()), 1) on "x5") *)
Definition W_fix : comb := Seq (OneOf [FixStr (tx [120]%nat); HexInt]) 1.
Example reenc_needs_item_base :
  std_ok W_fix = true /\ reenc_ok W_fix = false /\
  deserialize_problem W_fix (tx [120; 53]%nat) 1 1 = Ok (Some (VList [VInt 5])) /\
  serialize_problem W_fix (VList [VInt 5]) 1 1 = Err OtherError.
Proof. repeat split; vm_compute; reflexivity. Qed.

(* a negative Seq count / negative explicit Grid sizes *)
Definition W_neg : comb := Seq HexInt (-1).
Example reenc_needs_nonneg_count :
  std_ok W_neg = true /\ reenc_ok W_neg = false /\
  deserialize_problem W_neg [] 1 1 = Ok (Some (VList [])) /\
  serialize_problem W_neg (VList []) 1 1 = Err AssertionError.
Proof. repeat split; vm_compute; reflexivity. Qed.

Definition W_gneg : comb := Grid HexInt (Some (-1, -1)).
Example reenc_needs_nonneg_sizes :
  std_ok W_gneg = true /\ reenc_ok W_gneg = false /\
  deserialize_problem W_gneg (tx [53]%nat) 1 1 = Ok (Some (VList [])) /\
  serialize_problem W_gneg (VList []) 1 1 = Err AssertionError.
Proof. repeat split; vm_compute; reflexivity. Qed.

(* compound alternatives: the serializer of an earlier alternative fails on the value of a later one
   (OneOf(Tupl(FixStr("a"), Grid(HexInt(), 1, 2)), Tupl(FixStr("b"), Seq(HexInt(), 2))) on "b12") *)
Definition W_comp : comb :=
  OneOf [Tupl [FixStr (tx [97]%nat); Grid HexInt (Some (1, 2))]; Tupl [FixStr (tx [98]%nat); Seq HexInt 2]].
Example reenc_needs_leaf_alternatives :
  std_ok W_comp = true /\ reenc_ok W_comp = false /\
  deserialize_problem W_comp (tx [98; 49; 50]%nat) 1 1 = Ok (Some (VTup [VList []; VList [VList [VInt 1; VInt 2]]])) /\
  serialize_problem W_comp (VTup [VList []; VList [VList [VInt 1; VInt 2]]]) 1 1 = Err TypeError.
Proof. repeat split; vm_compute; reflexivity. Qed.

(* ... or accepts it and writes another value: OneOf(Seq(HexInt(), 2), Dict([[1, 2, 3]], ["x"])) on "x" *)
Definition W_val : comb := OneOf [Seq HexInt 2; Dict [VList [VInt 1; VInt 2; VInt 3]] [tx [120]%nat]].
Example reenc_needs_leaf_alternatives_value :
  std_ok W_val = true /\ reenc_ok W_val = false /\
  deserialize_problem W_val (tx [120]%nat) 1 1 = Ok (Some (VList [VInt 1; VInt 2; VInt 3])) /\
  serialize_problem W_val (VList [VInt 1; VInt 2; VInt 3]) 1 1 = Ok (tx [49; 50]%nat) /\
  deserialize_problem W_val (tx [49; 50]%nat) 1 1 = Ok (Some (VList [VInt 1; VInt 2])).
Proof. repeat split; vm_compute; reflexivity. Qed.

(* hence the unrestricted statement does not hold *)
Definition de_reencodable_unrestricted : Prop :=
  forall c h w s p, wf c = true -> tupl_single c = true -> dec_ok c = true -> single c = true -> 0 <= h -> 0 <= w ->
    deserialize_problem c s h w = Ok (Some p) ->
    exists t, serialize_problem c p h w = Ok t /\ deserialize_problem c t h w = Ok (Some p).

Lemma de_reencodable_unrestricted_false : ~ de_reencodable_unrestricted.
Proof.
  intros H.
  destruct (H W_space 1 1 (tx [97]%nat) (VList [VInt 0; VInt (-1); VInt (-1)])) as (t & Hs & _);
    try (vm_compute; reflexivity); try (vm_compute; discriminate).
Qed.
