(* C09: the hypothesis flags_denote instantiated for the flag forms callers
   use, and the whole-program form of acyclic_exact. *)
From Coq Require Import ZArith List Bool Arith Lia.
From Cspuz Require Import Lib.PyErr Core.Expr Core.Program Core.Build
  Graph.GraphModel Graph.Acyclic Graph.AcyclicProgram Graph.AcyclicExact.
Import ListNotations.
Local Open Scope nat_scope.

(* ------------------------------------------------------------------ expressions *)

Lemma acy_max_id_le_fold x args :
  In x args -> max_id x <= fold_right (fun a m => Nat.max (max_id a) m) O args.
Proof.
  induction args as [|a args IH]; intros H; [destruct H|]. simpl.
  destruct H as [->|H]; [lia|]. specialize (IH H). lia.
Qed.

(* an expression mentioning only ids < k has the same value in two assignments
   that agree below k *)
Lemma acy_eval_agree gsem k e1 e2 : agree_below k e1 e2 ->
  forall a, max_id a <= k -> eval gsem e1 a = eval gsem e2 a.
Proof.
  intros Hag. fix IH 1. intros [b|z| |i|i lo hi|o args|o args] Hm; simpl in *; try reflexivity.
  - destruct (Hag i) as [H1 _]; [lia|]. rewrite H1. reflexivity.
  - destruct (Hag i) as [_ H2]; [lia|]. rewrite H2. reflexivity.
  - f_equal. induction args as [|x args IHa]; [reflexivity|]. simpl in *. f_equal.
    + apply IH. lia.
    + apply IHa. lia.
  - f_equal. induction args as [|x args IHa]; [reflexivity|]. simpl in *. f_equal.
    + apply IH. lia.
    + apply IHa. lia.
Qed.

Lemma acy_holds_agree gsem k e1 e2 a :
  agree_below k e1 e2 -> max_id a <= k -> holds gsem e1 a = holds gsem e2 a.
Proof. intros H1 H2. unfold holds. rewrite (acy_eval_agree gsem k e1 e2 H1 a H2). reflexivity. Qed.

(* ------------------------------------------------------------------ flag forms *)

(* the pattern a list of flag expressions denotes under the caller's assignment *)
Definition pattern_of gsem (en : env) (flags : list expr) : nat -> bool :=
  fun e => holds gsem en (nth e flags (PyBool false)).

(* every flag (among the first m) is a BoolExpr-like object over the variables
   declared so far and has a boolean value *)
Definition flags_boolean gsem (k : nat) (en : env) (flags : list expr) (m : nat) : Prop :=
  forall e, e < m -> exists f, nth_error flags e = Some f /\ is_bool_expr_like f = true /\
    max_id f <= k /\ exists b, eval gsem en f = Some (VB b).

Lemma flags_boolean_denote gsem k en flags m :
  flags_boolean gsem k en flags m -> flags_denote gsem k en flags m (pattern_of gsem en flags).
Proof.
  intros H e He. destruct (H e He) as [f [Hn [Hb [Hm [b Hv]]]]].
  exists f. split; [exact Hn|]. split; [exact Hb|]. intros en' Hag.
  rewrite <- (acy_eval_agree gsem k en en' Hag f Hm). rewrite Hv.
  unfold pattern_of. rewrite (nth_error_nth _ _ _ Hn). unfold holds. rewrite Hv.
  destruct b; reflexivity.
Qed.

(* variables, negated variables, conjunctions of variables, Python constants *)
Inductive simple_flag (k : nat) : expr -> Prop :=
| sf_const b : simple_flag k (PyBool b)
| sf_var i : i < k -> simple_flag k (BVar i)
| sf_not i : i < k -> simple_flag k (b_not (BVar i))
| sf_and i j : i < k -> j < k -> simple_flag k (b_and (BVar i) (BVar j))
| sf_or i j : i < k -> j < k -> simple_flag k (b_or (BVar i) (BVar j)).

Lemma simple_flags_boolean gsem k en flags m :
  (forall e, e < m -> exists f, nth_error flags e = Some f /\ simple_flag k f) ->
  flags_boolean gsem k en flags m.
Proof.
  intros H e He. destruct (H e He) as [f [Hn Hs]]. exists f. split; [exact Hn|].
  destruct Hs; simpl; (split; [reflexivity|]); (split; [lia|]); eexists; reflexivity.
Qed.

(* ------------------------------------------------------------------ whole program *)

Lemma in_bounds_from_app en vs ws : forall i,
  in_bounds_from en i (vs ++ ws) = in_bounds_from en i vs && in_bounds_from en (i + length vs) ws.
Proof.
  induction vs as [|v vs IH]; intros i; simpl.
  - rewrite Nat.add_0_r. reflexivity.
  - replace (i + S (length vs)) with (S i + length vs) by lia.
    destruct v; rewrite IH; [reflexivity|]. rewrite andb_assoc. reflexivity.
Qed.

Lemma in_bounds_from_agree k e1 e2 vs : agree_below k e1 e2 -> forall i,
  i + length vs <= k -> in_bounds_from e1 i vs = in_bounds_from e2 i vs.
Proof.
  intros Hag. induction vs as [|v vs IH]; intros i Hi; simpl in *; [reflexivity|].
  destruct v; rewrite IH by lia; [reflexivity|].
  destruct (Hag i) as [_ H]; [lia|]. rewrite H. reflexivity.
Qed.

(* old constraints only mention variables that exist *)
Definition closed_state (st : state) : Prop := forall c, In c (cons st) -> max_id c <= next_id st.

Theorem acyclic_exact_program : forall gsem st flags g A en,
  wf_graph g = true -> loop_free g = true -> 1 <= nv g ->
  flags_denote gsem (next_id st) en flags (length (edges g)) A ->
  closed_state st -> model_of gsem en st ->
  exists st', post_acyclic st flags g = Ok st' /\
    ((exists en', agree_below (next_id st) en en' /\ model_of gsem en' st') <-> forest g A).
Proof.
  intros gsem st flags g A en Hwf Hlf Hn Hfl Hcl [Hb Hs].
  destruct (exact_for_posted_state gsem st flags g A en Hwf Hlf Hn Hfl) as [Hp Hiff].
  exists (posted_state st flags g). split; [exact Hp|]. rewrite <- Hiff. clear Hiff.
  assert (Hold : forall en', agree_below (next_id st) en en' ->
            in_bounds_from en' 0 (vars st) = true /\ forallb (holds gsem en') (cons st) = true).
  { intros en' Hag. split.
    - rewrite <- (in_bounds_from_agree (next_id st) en en' (vars st) Hag 0) by (unfold next_id; lia).
      exact Hb.
    - unfold satisfies in Hs. rewrite forallb_forall in *. intros c Hc.
      rewrite <- (acy_holds_agree gsem (next_id st) en en' c Hag (Hcl c Hc)). apply Hs. exact Hc. }
  split.
  - intros [en' [Hag [Hb' Hs']]]. exists en'. split; [exact Hag|].
    unfold in_bounds, posted_state in Hb'. simpl in Hb'. rewrite in_bounds_from_app in Hb'.
    apply andb_true_iff in Hb'. destruct Hb' as [_ Hb'].
    unfold satisfies, posted_state in Hs'. simpl in Hs'. rewrite forallb_app in Hs'.
    apply andb_true_iff in Hs'. destruct Hs' as [_ Hs']. split; assumption.
  - intros [en' [Hag [Hb' Hs']]]. exists en'. split; [exact Hag|].
    destruct (Hold en' Hag) as [Ho1 Ho2]. split.
    + unfold in_bounds, posted_state. simpl. rewrite in_bounds_from_app, Ho1. exact Hb'.
    + unfold satisfies, posted_state. simpl. rewrite forallb_app, Ho2. exact Hs'.
Qed.

(* the instance used by the harness: flags are variables / ~v / v & w / v | w /
   True / False over variables of the caller *)
Corollary acyclic_exact_simple_flags : forall gsem st flags g en,
  wf_graph g = true -> loop_free g = true -> 1 <= nv g ->
  (forall e, e < length (edges g) -> exists f, nth_error flags e = Some f /\ simple_flag (next_id st) f) ->
  closed_state st -> model_of gsem en st ->
  exists st', post_acyclic st flags g = Ok st' /\
    ((exists en', agree_below (next_id st) en en' /\ model_of gsem en' st')
     <-> forest g (pattern_of gsem en flags)).
Proof.
  intros gsem st flags g en Hwf Hlf Hn Hsf Hcl Hm.
  apply acyclic_exact_program; auto.
  apply flags_boolean_denote. apply simple_flags_boolean. exact Hsf.
Qed.
