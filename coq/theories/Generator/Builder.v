(* C19 — model of cspuz/generator/builder.py: Choice, ArrayBuilder2D
   (initial / candidates / copy_with_update, every combination of symmetry,
   disallow_adjacent, use_move) and build_neighbor_generator over nested
   list / tuple patterns (enumerate_variables, get, with_update, generator).
   No proofs in this file.

   Values: grid cells and Choice values are integers.  A problem is a nested
   value: an atom, a grid (list of rows, what ArrayBuilder2D produces), a list or
   a tuple.  SegmentationBuilder2D is not modelled here (C18 models it); a
   generator run over a pattern that contains one is observed by the harness,
   not proved. *)
From Coq Require Import ZArith List Bool.
From Cspuz Require Import Lib.PyErr Generator.XorShift.
Import ListNotations.
Open Scope Z_scope.
Open Scope rand_scope.

(* ------------------------------------------------------------------ values *)

Inductive prob :=
  | VAtom (z : Z)
  | VGrid (g : list (list Z))
  | VList (l : list prob)
  | VTuple (l : list prob).

Record acfg := mkacfg {
  a_height : Z;
  a_width : Z;
  a_choice : list Z;
  a_default : Z;
  a_disallow : list (Z * Z);          (* [] for False, the 4 neighbours for True, or a custom list *)
  a_symmetry : bool;
  a_initial : option (list (list Z));
  a_use_move : bool
}.

Inductive builder :=
  | BChoice (choice : list Z) (default : Z)
  | BArray (c : acfg).

Inductive pat :=
  | PB (b : builder)
  | PConst (z : Z)                     (* a non-builder, non-sequence leaf: kept as is *)
  | PList (l : list pat)
  | PTuple (l : list pat).

(* an update proposed by Builder.candidates *)
Inductive upd :=
  | UVal (v : Z)                       (* Choice: the new value *)
  | UCells (l : list (Z * Z * Z)).     (* ArrayBuilder2D: [(y, x, v), ...] *)

Definition FOUR : list (Z * Z) := [(-1, 0); (1, 0); (0, -1); (0, 1)].

(* ------------------------------------------------------------------ helpers *)

Definition range_z (n : Z) : list Z := map Z.of_nat (seq 0 (Z.to_nat n)).

(* current[y][x] with 0 <= y, 0 <= x (the code only uses such indices) *)
Definition cell (g : list (list Z)) (y x : Z) : option Z :=
  if (y <? 0) || (x <? 0) then None else
  match nth_error g (Z.to_nat y) with
  | Some row => nth_error row (Z.to_nat x)
  | None => None
  end.

Definition cellR (g : list (list Z)) (y x : Z) : R Z :=
  match cell g y x with Some v => retR v | None => raiseR IndexError end.

Definition pair_eqb (p q : Z * Z) : bool := (fst p =? fst q) && (snd p =? snd q).
Definition mem_pair (p : Z * Z) (l : list (Z * Z)) : bool := existsb (pair_eqb p) l.

(* concatenation of the lists produced by a loop body, threading the PRNG *)
Fixpoint concat_mapR {X U} (f : X -> R (list U)) (l : list X) : R (list U) :=
  match l with
  | [] => retR []
  | x :: t => do* us <- f x; do* vs <- concat_mapR f t; retR (us ++ vs)
  end.

(* ------------------------------------------------------------------ Choice *)

Definition choice_candidates (ch : list Z) (current : Z) : list Z :=
  filter (fun c => negb (c =? current)) ch.

(* ------------------------------------------------------------------ ArrayBuilder2D *)

Definition non_default (c : acfg) : list Z :=
  filter (fun v => negb (v =? a_default c)) (a_choice c).

Definition array_initial (c : acfg) : list (list Z) :=
  match a_initial c with
  | Some g => g
  | None => map (fun _ => map (fun _ => a_default c) (range_z (a_width c))) (range_z (a_height c))
  end.

(* one of the ten attempts of the use_move + symmetry loop, for the cell (y1, x1) *)
Definition move_sym_attempt (c : acfg) (cur : list (list Z)) (y1 x1 : Z) : R (list upd) :=
  let h := a_height c in let w := a_width c in
  do* y2 <- randint 0 (h - 1);
  do* x2 <- randint 0 (w - 1);
  if pair_eqb (y1, x1) (y2, x2) then retR [] else
  let y1b := h - 1 - y1 in let x1b := w - 1 - x1 in
  let y2b := h - 1 - y2 in let x2b := w - 1 - x2 in
  if pair_eqb (y1, x1) (y1b, x1b) then retR [] else
  if pair_eqb (y1, x1) (y2b, x2b) then retR [] else
  do* v1 <- cellR cur y1 x1;
  do* v2 <- cellR cur y2 x2;
  if negb (v1 =? v2) then
    do* v2b <- cellR cur y2b x2b;
    do* v1b <- cellR cur y1b x1b;
    retR [UCells [(y1, x1, v2); (y2, x2, v1); (y1b, x1b, v2b); (y2b, x2b, v1b)]]
  else retR [].

(* one of the ten attempts of the use_move loop without symmetry *)
Definition move_attempt (c : acfg) (cur : list (list Z)) (y x : Z) : R (list upd) :=
  let h := a_height c in let w := a_width c in
  do* y2 <- randint 0 (h - 1);
  do* x2 <- randint 0 (w - 1);
  if pair_eqb (y, x) (y2, x2) then retR [] else
  do* v1 <- cellR cur y x;
  do* v2 <- cellR cur y2 x2;
  if negb (v1 =? v2) then retR [UCells [(y, x, v2); (y2, x2, v1)]] else retR [].

Definition cells_of (c : acfg) : list (Z * Z) :=
  flat_map (fun y => map (fun x => (y, x)) (range_z (a_width c))) (range_z (a_height c)).

Definition move_candidates (c : acfg) (cur : list (list Z)) : R (list upd) :=
  if a_use_move c then
    concat_mapR (fun '(y, x) =>
      concat_mapR (fun _ : Z => if a_symmetry c then move_sym_attempt c cur y x
                                else move_attempt c cur y x) (range_z 10))
      (cells_of c)
  else retR [].

(* default_only after the loop over self.disallow_adjacent *)
Fixpoint adj_blocked (c : acfg) (cur : list (list Z)) (y x : Z) (ds : list (Z * Z)) (acc : bool) : R bool :=
  match ds with
  | [] => retR acc
  | (dy, dx) :: t =>
      let y2 := y + dy in let x2 := x + dx in
      if (0 <=? y2) && (y2 <? a_height c) && (0 <=? x2) && (x2 <? a_width c) then
        do* v <- cellR cur y2 x2;
        adj_blocked c cur y x t (if negb (v =? a_default c) then true else acc)
      else adj_blocked c cur y x t acc
  end.

(* the body of the value-setting loop for the cell (y, x) *)
Definition set_candidates_cell (c : acfg) (cur : list (list Z)) (y x : Z) : R (list upd) :=
  do* default_only0 <- adj_blocked c cur y x (a_disallow c) false;
  if a_symmetry c then
    let y2 := a_height c - 1 - y in let x2 := a_width c - 1 - x in
    let default_only := if mem_pair (y2 - y, x2 - x) (a_disallow c) then true else default_only0 in
    do* v0 <- cellR cur y x;
    let first := if negb (v0 =? a_default c)
                 then [UCells [(y, x, a_default c); (y2, x2, a_default c)]] else [] in
    if negb default_only then
      do* v0' <- cellR cur y x;
      if v0' =? a_default c then
        do* rest <- concat_mapR (fun v =>
                      do* v2 <- choice (non_default c);
                      do* c1 <- cellR cur y x;
                      if negb (c1 =? v) then retR [UCells [(y, x, v); (y2, x2, v2)]]
                      else do* c2 <- cellR cur y2 x2;
                           if negb (c2 =? v2) then retR [UCells [(y, x, v); (y2, x2, v2)]]
                           else retR []) (non_default c);
        retR (first ++ rest)
      else
        do* rest <- concat_mapR (fun v =>
                      do* c1 <- cellR cur y x;
                      if negb (v =? c1) then retR [UCells [(y, x, v)]] else retR []) (non_default c);
        retR (first ++ rest)
    else retR first
  else
    concat_mapR (fun v =>
      if default_only0 && negb (v =? a_default c) then retR [] else
      do* c1 <- cellR cur y x;
      if negb (v =? c1) then retR [UCells [(y, x, v)]] else retR []) (a_choice c).

Definition set_candidates (c : acfg) (cur : list (list Z)) : R (list upd) :=
  concat_mapR (fun '(y, x) => set_candidates_cell c cur y x) (cells_of c).

Definition array_candidates (c : acfg) (cur : list (list Z)) : R (list upd) :=
  do* mv <- move_candidates c cur;
  do* st <- set_candidates c cur;
  retR (mv ++ st).

(* ret[y][x] = v on a (deep-copied) grid; the candidates only name cells that
   were read successfully, so the out-of-range case (no change) is unreachable *)
Definition set_row (row : list Z) (x : Z) (v : Z) : list Z :=
  map (fun '(k, c) => if Z.of_nat k =? x then v else c) (combine (seq 0 (length row)) row).
Definition set_cell (g : list (list Z)) (y x v : Z) : list (list Z) :=
  map (fun '(k, row) => if Z.of_nat k =? y then set_row row x v else row) (combine (seq 0 (length g)) g).
Definition apply_cells (g : list (list Z)) (u : list (Z * Z * Z)) : list (list Z) :=
  fold_left (fun g '(y, x, v) => set_cell g y x v) u g.

(* ------------------------------------------------------------------ Builder interface *)

Definition b_initial (b : builder) : prob :=
  match b with
  | BChoice _ d => VAtom d
  | BArray c => VGrid (array_initial c)
  end.

Definition b_candidates (b : builder) (current : prob) : R (list upd) :=
  match b, current with
  | BChoice ch _, VAtom z => retR (map UVal (choice_candidates ch z))
  | BArray c, VGrid g => array_candidates c g
  | _, _ => raiseR TypeError            (* a value of the wrong kind: outside the modelled domain *)
  end.

Definition b_copy_with_update (b : builder) (previous : prob) (u : upd) : res prob :=
  match b, u, previous with
  | BChoice _ _, UVal v, _ => Ok (VAtom v)
  | BArray _, UCells l, VGrid g => Ok (VGrid (apply_cells g l))
  | _, _, _ => Err TypeError
  end.

(* ------------------------------------------------------------------ build_neighbor_generator *)

(* enumerate_variables: the (position, builder) list in depth-first order, and
   the initial problem *)
Fixpoint variables_at (pt : pat) (pos : list nat) : list (list nat * builder) :=
  match pt with
  | PB b => [(pos, b)]
  | PConst _ => []
  | PList ps | PTuple ps =>
      (fix go (ps : list pat) (i : nat) : list (list nat * builder) :=
         match ps with
         | [] => []
         | p :: t => variables_at p (pos ++ [i]) ++ go t (S i)
         end) ps O
  end.
Definition variables (pt : pat) : list (list nat * builder) := variables_at pt [].

Fixpoint initial_of (pt : pat) : prob :=
  match pt with
  | PB b => b_initial b
  | PConst z => VAtom z
  | PList ps => VList (map initial_of ps)
  | PTuple ps => VTuple (map initial_of ps)
  end.

(* get(problem, pos) *)
Fixpoint get (p : prob) (pos : list nat) : res prob :=
  match pos with
  | [] => Ok p
  | i :: rest =>
      match p with
      | VList l | VTuple l =>
          match nth_error l i with Some q => get q rest | None => Err IndexError end
      | _ => Err TypeError
      end
  end.

(* the list comprehension of with_update:
     [f(pat[k], problem[k]) if k == i else problem[k] for k in range(len(pat))]
   (IndexError when the problem is shorter than the pattern) *)
Fixpoint update_elems (f : pat -> prob -> res prob) (ps : list pat) (l : list prob) (k i : nat)
  : res (list prob) :=
  match ps with
  | [] => Ok []
  | pk :: ps' =>
      match l with
      | [] => Err IndexError
      | q :: l' =>
          bind (if Nat.eqb k i then f pk q else Ok q) (fun q' =>
          bind (update_elems f ps' l' (S k) i) (fun r => Ok (q' :: r)))
      end
  end.

(* with_update(problem, pat, pos, v) *)
Fixpoint with_update (pt : pat) (p : prob) (pos : list nat) (v : upd) : res prob :=
  match pos with
  | [] => match pt with
          | PB b => b_copy_with_update b p v
          | _ => Err AssertionError
          end
  | i :: rest =>
      let elems (ps : list pat) (l : list prob) : res (list prob) :=
        update_elems (fun pk q => with_update pk q rest v) ps l O i in
      match pt, p with
      | PList ps, VList l => rmap VList (elems ps l)
      | PList ps, VTuple l => rmap VList (elems ps l)
      | PTuple ps, VList l => rmap VTuple (elems ps l)
      | PTuple ps, VTuple l => rmap VTuple (elems ps l)
      | _, _ => Err TypeError
      end
  end.

(* generator(problem): all (pos, candidate) pairs in variable order, shuffled,
   then the updated copies in that order.  All draws happen before the first
   neighbour is yielded, so materialising the list is faithful to the lazy
   Python generator as far as the PRNG is concerned. *)
Definition all_candidates (pt : pat) (p : prob) : R (list (list nat * builder * upd)) :=
  concat_mapR (fun '(pos, b) =>
    match get p pos with
    | Ok sub => do* us <- b_candidates b sub; retR (map (fun u => (pos, b, u)) us)
    | Err e => raiseR e
    end) (variables pt).

Fixpoint apply_all (pt : pat) (p : prob) (cs : list (list nat * builder * upd)) : res (list prob) :=
  match cs with
  | [] => Ok []
  | (pos, _, u) :: t =>
      bind (with_update pt p pos u) (fun q => bind (apply_all pt p t) (fun r => Ok (q :: r)))
  end.

Definition neighbours (pt : pat) (p : prob) : R (list prob) :=
  do* cands <- all_candidates pt p;
  do* sh <- shuffle cands;
  match apply_all pt p sh with
  | Ok l => retR l
  | Err e => raiseR e
  end.
