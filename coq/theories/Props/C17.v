(* C17 — decoding arbitrary text never crashes and only yields re-encodable problems.
   (placeholder while the proofs are being written) *)
From Coq Require Import ZArith List Ascii Bool.
From Cspuz Require Import Lib.PyErr Codec.Comb Codec.TotalModel.
Import ListNotations.

Theorem fixstr_total : forall e t s, safe (deF e (FixStr t) s).
Proof.
  intros e t s. simpl. unfold fixstr_de.
  destruct (Nat.ltb (length s) (length t)); simpl; auto.
  destruct (str_eqb (firstn (length t) s) t); simpl; auto.
Qed.
Print Assumptions fixstr_total.
