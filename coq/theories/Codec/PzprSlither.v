(* The independent pzpr decoder decode4Cell (Codec/Pzpr.v, [cell4] / [decode_4cell]) reads the
   text of slitherlink's codec
       Grid (OneOf [Spaces (-1) "g"; IntSpaces (-1) 4 2])
   back as the same board, for every board with cells in -1 .. 4. *)
From Coq Require Import ZArith List Ascii Bool NArith Lia.
From Cspuz Require Import Lib.PyErr Codec.Comb Codec.CombWf Codec.CombBasics Codec.CombLeaf Codec.CombRoundTrip
  Codec.Legacy Codec.LegacyProofs Codec.LegacyEq Codec.Pzpr Codec.PzprProofs.
Import ListNotations.
Local Open Scope Z_scope.

Definition slither_cell_ok (v : Z) : Prop := -1 <= v <= 4.

Definition slc : comb := OneOf [Spaces (VInt (-1)) "g"%char; IntSpaces (VInt (-1)) 4 2].

(* ------------------------------------------------------------------ the text, as a function of the cells.
   It mirrors the greedy serializer: look at the first cell, count the empty cells that follow
   (at most 19 more for a run, at most 2 after a number), write one character, go on after
   the consumed cells.  [fuel] bounds the number of tokens. *)
Fixpoint sl_text (fuel : nat) (l : list Z) : str :=
  match fuel with
  | O => []
  | S f =>
      match l with
      | [] => []
      | v :: t =>
          if v =? -1 then
            base36_char (15 + Z.of_nat (S (run_eq (VInt (-1)) (map VInt t) 19)))
              :: sl_text f (skipn (run_eq (VInt (-1)) (map VInt t) 19) t)
          else
            base36_char (Z.of_nat (run_eq (VInt (-1)) (map VInt t) 2) * 5 + v)
              :: sl_text f (skipn (run_eq (VInt (-1)) (map VInt t) 2) t)
      end
  end.

Lemma sl_text_nil fuel : sl_text fuel [] = [].
Proof. destruct fuel; reflexivity. Qed.

(* a run counted by run_eq over integer cells *)
Lemma run_int e : forall lim t,
  firstn (run_eq (VInt e) (map VInt t) lim) t = repeat e (run_eq (VInt e) (map VInt t) lim) /\
  (run_eq (VInt e) (map VInt t) lim <= lim)%nat /\ (run_eq (VInt e) (map VInt t) lim <= length t)%nat.
Proof.
  induction lim as [|k IH]; intros t.
  - destruct t; cbn [map run_eq firstn repeat length]; repeat split; lia.
  - destruct t as [|x t]; cbn [map run_eq].
    + cbn [firstn repeat length]. repeat split; lia.
    + cbn [pv_eqb]. destruct (Z.eqb_spec x e) as [->|Hne].
      * destruct (IH t) as (H1 & H2 & H3). cbn [firstn repeat length]. rewrite H1. repeat split; lia.
      * cbn [firstn repeat length]. repeat split; lia.
Qed.

(* ------------------------------------------------------------------ the combinator side *)
Lemma sl_ser_step env l nr v fuel : Forall slither_cell_ok l -> nth_error l nr = Some v ->
  exists ofs s, ser env slc (VList (map VInt l)) nr = Ok (Some (S ofs, s)) /\
    (nr + S ofs <= length l)%nat /\
    sl_text (S fuel) (skipn nr l) = s ++ sl_text fuel (skipn (nr + S ofs) l).
Proof.
  intros Hall Hn.
  assert (Hlt : (nr < length l)%nat) by (apply nth_error_Some; congruence).
  assert (Hv : slither_cell_ok v) by (rewrite Forall_forall in Hall; apply Hall; eapply nth_error_In; eauto).
  pose proof (firstn_skipn_nth l nr v Hn) as Hsk.
  unfold slc. cbn [ser]. unfold spaces_ser, with_item. cbn [py_items].
  rewrite map_length. destruct (Nat.eqb_spec nr (length l)); [lia|].
  unfold nth_res. rewrite (nth_error_map_int l nr v Hn). cbn [pv_eqb].
  rewrite skipn_map_int.
  destruct (Z.eqb_spec v (-1)) as [->|Hne]; cbn [negb].
  - (* a run of empty cells *)
    change (Z.to_nat (spaces_max "g"%char - 1)) with 19%nat.
    change (spaces_offset "g"%char) with 15.
    set (r := run_eq (VInt (-1)) (map VInt (skipn (S nr) l)) 19).
    destruct (run_int (-1) 19 (skipn (S nr) l)) as (_ & Hr1 & Hr2). fold r in Hr1, Hr2.
    rewrite skipn_length in Hr2.
    rewrite to_base36_small by lia.
    exists r, [base36_char (15 + Z.of_nat (S r))]. split; [reflexivity|]. split; [lia|].
    rewrite Hsk. cbn [sl_text]. rewrite Z.eqb_refl. fold r. cbn [app].
    rewrite skipn_skipn'. replace (S nr + r)%nat with (nr + S r)%nat by lia. reflexivity.
  - (* a number *)
    unfold slither_cell_ok in Hv.
    unfold intspaces_ser, with_item. cbn [py_items]. rewrite map_length.
    destruct (Nat.eqb_spec nr (length l)); [lia|].
    unfold nth_res. rewrite (nth_error_map_int l nr v Hn).
    destruct (Z.leb_spec 0 v); [|lia]. destruct (Z.leb_spec v 4); [|lia]. cbn [andb negb].
    rewrite skipn_map_int.
    change (Z.to_nat 2) with 2%nat. change (4 + 1) with 5.
    set (ns := run_eq (VInt (-1)) (map VInt (skipn (S nr) l)) 2).
    destruct (run_int (-1) 2 (skipn (S nr) l)) as (_ & Hr1 & Hr2). fold ns in Hr1, Hr2.
    rewrite skipn_length in Hr2.
    rewrite to_base36_small by lia.
    exists ns, [base36_char (Z.of_nat ns * 5 + v)]. split; [reflexivity|]. split; [lia|].
    rewrite Hsk. cbn [sl_text]. destruct (Z.eqb_spec v (-1)); [contradiction|]. fold ns. cbn [app].
    rewrite skipn_skipn'. replace (S nr + ns)%nat with (nr + S ns)%nat by lia. reflexivity.
Qed.

(* Seq.serialize's loop over the cells *)
Lemma seq_loop_sl env l : Forall slither_cell_ok l -> forall fuel nr ret,
  (nr <= length l)%nat -> (length l - nr <= fuel)%nat ->
  seq_ser_loop (ser env slc) (Z.of_nat (length l)) (VList (map VInt l)) fuel nr ret
  = Ok (Some (ret ++ sl_text fuel (skipn nr l))).
Proof.
  intros Hall. induction fuel as [|fuel IH]; intros nr ret Hnr Hfuel.
  - assert (nr = length l) by lia. subst nr. cbn [seq_ser_loop sl_text].
    destruct (Z.ltb_spec (Z.of_nat (length l)) (Z.of_nat (length l))); [lia|].
    rewrite Z.eqb_refl. rewrite app_nil_r. reflexivity.
  - cbn [seq_ser_loop]. destruct (Z.ltb_spec (Z.of_nat nr) (Z.of_nat (length l))).
    + destruct (nth_error l nr) as [v|] eqn:En; [|apply nth_error_None in En; lia].
      destruct (sl_ser_step env l nr v fuel Hall En) as (ofs & s & Es & Hle & Henc).
      rewrite Es. rewrite IH by lia. rewrite Henc. rewrite app_assoc. reflexivity.
    + assert (nr = length l) by lia. subst nr. rewrite Z.eqb_refl.
      rewrite skipn_all. rewrite sl_text_nil. rewrite app_nil_r. reflexivity.
Qed.

(* the flat codec Seq(OneOf(Spaces(-1, "g"), IntSpaces(-1, 4, 2)), n) writes sl_text *)
Theorem slither_seq_text env l : Forall slither_cell_ok l ->
  ser env (Seq slc (Z.of_nat (length l))) (VList [VList (map VInt l)]) 0
  = Ok (Some (1%nat, sl_text (length l) l)).
Proof.
  intros Hall.
  change (ser env (Seq slc (Z.of_nat (length l))) (VList [VList (map VInt l)]) 0)
    with (seq_ser (ser env slc) (Z.of_nat (length l)) (VList [VList (map VInt l)]) 0).
  unfold seq_ser. cbn [py_items length Nat.eqb nth_res nth_error].
  rewrite Nat2Z.id. rewrite (seq_loop_sl env l Hall (length l) 0 []) by lia. reflexivity.
Qed.

(* ------------------------------------------------------------------ the characters, as decode4Cell sees them *)
Lemma sl_num_char v : 0 <= v <= 4 ->
  (between "0" "4" (base36_char v) = true /\ code (base36_char v) - 48 = v) /\
  (between "0" "4" (base36_char (5 + v)) = false /\ between "5" "9" (base36_char (5 + v)) = true /\
   code (base36_char (5 + v)) - 48 - 5 = v) /\
  (between "0" "4" (base36_char (10 + v)) = false /\ between "5" "9" (base36_char (10 + v)) = false /\
   between "a" "e" (base36_char (10 + v)) = true /\ code (base36_char (10 + v)) - 87 - 10 = v).
Proof.
  intros H. assert (C : v = 0 \/ v = 1 \/ v = 2 \/ v = 3 \/ v = 4) by lia.
  destruct C as [->|[->|[->|[->| ->]]]]; repeat split; reflexivity.
Qed.

Lemma sl_run_char cnt : 1 <= cnt <= 20 ->
  between "0" "4" (base36_char (15 + cnt)) = false /\ between "5" "9" (base36_char (15 + cnt)) = false /\
  between "a" "e" (base36_char (15 + cnt)) = false /\ between "g" "z" (base36_char (15 + cnt)) = true /\
  code (base36_char (15 + cnt)) - 87 - 16 = cnt - 1.
Proof.
  intros H.
  assert (A : forallb (fun cnt => let ch := base36_char (15 + cnt) in
              negb (between "0" "4" ch) && negb (between "5" "9" ch) && negb (between "a" "e" ch)
              && between "g" "z" ch && (code ch - 87 - 16 =? cnt - 1))
            (map Z.of_nat (seq 1 20)) = true) by (vm_compute; reflexivity).
  rewrite forallb_forall in A. specialize (A cnt).
  assert (Hin : In cnt (map Z.of_nat (seq 1 20))).
  { replace cnt with (Z.of_nat (Z.to_nat cnt)) by lia. apply in_map. apply in_seq. lia. }
  specialize (A Hin). cbv zeta in A.
  repeat (apply andb_true_iff in A as [A ?]).
  repeat match goal with H : negb _ = true |- _ => apply negb_true_iff in H end.
  apply Z.eqb_eq in H0. repeat split; auto.
Qed.

(* ------------------------------------------------------------------ decode4Cell on the text of the cells.
   The array invariant: the cells before the current one are final, the others still hold -1.
   The statement has the shape of the decoder's own continuation [next]. *)
Lemma cell4_text : forall fuel l pre fuel' n,
  Forall slither_cell_ok l -> (length l <= fuel)%nat ->
  n = (length pre + length l)%nat ->
  (length (sl_text fuel l) < fuel')%nat ->
  (if Nat.leb n (length pre) then Some (pre ++ repeat (-1) (length l), sl_text fuel l)
   else cell4 fuel' n (length pre) (pre ++ repeat (-1) (length l)) (sl_text fuel l))
  = Some (pre ++ l, []).
Proof.
  induction fuel as [|f IH]; intros l pre fuel' n Hall Hlen Hn Hfuel.
  - destruct l; [|simpl in Hlen; lia]. cbn [length] in Hn.
    destruct (Nat.leb_spec n (length pre)); [|lia]. reflexivity.
  - destruct l as [|v t].
    + cbn [length] in Hn. destruct (Nat.leb_spec n (length pre)); [|lia]. reflexivity.
    + inversion Hall as [|x0 xs0 Hv Ht]; subst x0 xs0.
      cbn [length] in *.
      destruct (Nat.leb_spec n (length pre)); [lia|].
      destruct fuel' as [|fuel']; [lia|].
      (* what happens after any token that covers v and the k cells after it *)
      assert (Hnext : forall k c' cells', (k <= length t)%nat -> firstn k t = repeat (-1) k ->
                c' = (length pre + S k)%nat -> cells' = pre ++ v :: repeat (-1) (length t) ->
                (length (sl_text f (skipn k t)) < fuel')%nat ->
                (if Nat.leb n c' then Some (cells', sl_text f (skipn k t))
                 else cell4 fuel' n c' cells' (sl_text f (skipn k t))) = Some (pre ++ v :: t, [])).
      { intros k c' cells' Hk Hfk -> -> Hf'.
        set (pre' := pre ++ v :: repeat (-1) k).
        assert (Hlp : length pre' = (length pre + S k)%nat).
        { unfold pre'. rewrite app_length. cbn [length]. rewrite repeat_length. reflexivity. }
        assert (Hls : length (skipn k t) = (length t - k)%nat) by apply skipn_length.
        rewrite <- Hlp.
        replace (pre ++ v :: repeat (-1) (length t)) with (pre' ++ repeat (-1) (length (skipn k t))).
        2:{ unfold pre'. rewrite <- app_assoc. cbn [app]. rewrite <- repeat_app. do 3 f_equal. lia. }
        rewrite (IH (skipn k t) pre' fuel' n); try lia.
        - unfold pre'. rewrite <- app_assoc. cbn [app]. rewrite <- Hfk. rewrite firstn_skipn. reflexivity.
        - apply Forall_skipn. exact Ht. }
      revert Hfuel. cbn [sl_text cell4 repeat].
      destruct (Nat.leb_spec n (length pre)); [lia|].
      destruct (Z.eqb_spec v (-1)) as [->|Hne].
      * (* a run of empty cells *)
        set (r := run_eq (VInt (-1)) (map VInt t) 19).
        destruct (run_int (-1) 19 t) as (Hr0 & Hr1 & Hr2). fold r in Hr0, Hr1, Hr2.
        cbn [length]. intros Hfuel.
        destruct (sl_run_char (Z.of_nat (S r)) ltac:(lia)) as (E1 & E2 & E3 & E4 & E5).
        rewrite E1, E2, E3, E4, E5.
        apply Hnext; auto; lia.
      * (* a number *)
        assert (Hv4 : 0 <= v <= 4) by (unfold slither_cell_ok in Hv; lia).
        set (ns := run_eq (VInt (-1)) (map VInt t) 2).
        destruct (run_int (-1) 2 t) as (Hr0 & Hr1 & Hr2). fold ns in Hr0, Hr1, Hr2.
        cbn [length]. intros Hfuel.
        destruct (sl_num_char v Hv4) as ((A1 & A2) & (B1 & B2 & B3) & (C1 & C2 & C3 & C4)).
        assert (Hns : ns = 0%nat \/ ns = 1%nat \/ ns = 2%nat) by lia.
        destruct Hns as [Hns|[Hns|Hns]]; rewrite Hns in *.
        -- replace (Z.of_nat 0 * 5 + v) with v by lia.
           rewrite A1, A2, upd_app. apply Hnext; auto; lia.
        -- replace (Z.of_nat 1 * 5 + v) with (5 + v) by lia.
           rewrite B1, B2, B3, upd_app. apply Hnext; auto; lia.
        -- replace (Z.of_nat 2 * 5 + v) with (10 + v) by lia.
           rewrite C1, C2, C3, C4, upd_app. apply Hnext; auto; lia.
Qed.

Lemma decode_4cell_text l : Forall slither_cell_ok l ->
  decode_4cell (length l) (sl_text (length l) l) = Some (l, []).
Proof.
  intros Hall. unfold decode_4cell.
  destruct l as [|v t]; [reflexivity|].
  set (l := v :: t) in *. change (length l) with (S (length t)) at 1. cbv iota.
  pose proof (cell4_text (length l) l [] (S (length (sl_text (length l) l))) (length l) Hall
                ltac:(lia) eq_refl ltac:(lia)) as H.
  cbn [app length] in H. change (Nat.leb (length l) 0) with false in H. exact H.
Qed.

Lemma slither_not_q l : Forall slither_cell_ok l -> existsb (fun q => q =? -2) l = false.
Proof.
  induction 1 as [|v l Hv _ IH]; cbn [existsb]; [reflexivity|]. rewrite IH, orb_false_r.
  unfold slither_cell_ok in Hv. apply Z.eqb_neq. lia.
Qed.

(* the flat version: the text of Seq over n = length l cells is read back as l *)
Theorem slitherlink_pzpr_reads_flat env l : Forall slither_cell_ok l ->
  exists body,
    ser env (Seq (OneOf [Spaces (VInt (-1)) "g"%char; IntSpaces (VInt (-1)) 4 2]) (Z.of_nat (length l)))
        (VList [VList (map VInt l)]) 0 = Ok (Some (1%nat, body)) /\
    whole (decode_4cell (length l) body) = Some l.
Proof.
  intros Hall. exists (sl_text (length l) l). split.
  - apply (slither_seq_text env l Hall).
  - rewrite (decode_4cell_text l Hall). reflexivity.
Qed.

(* the explicit text of a board *)
Lemma slither_grid_text rows w : rows <> [] ->
  Forall (fun r => length r = w) rows -> Forall (Forall slither_cell_ok) rows ->
  serialize_problem (Grid slc None) (VList (int_rows rows)) (Z.of_nat (length rows)) (Z.of_nat w)
  = Ok (sl_text (length (concat rows)) (concat rows)).
Proof.
  intros Hne Hrect Hall.
  assert (Hcells : Forall slither_cell_ok (concat rows)) by (apply Forall_concat; exact Hall).
  pose proof (slither_seq_text (mk_env (Z.of_nat (length rows)) (Z.of_nat w)) (concat rows) Hcells) as H2.
  unfold serialize_problem. cbn [ser]. unfold grid_ser.
  cbn [py_items length Nat.eqb nth_res nth_error grid_dims height width mk_env].
  rewrite Nat2Z.id.
  pose proof (flatten_int_rows rows 0 [] eq_refl) as Hf. cbn [app] in Hf. rewrite Hf.
  assert (Hlen : Z.of_nat (length rows) * Z.of_nat w = Z.of_nat (length (concat rows))).
  { clear -Hrect. induction Hrect as [|r rows Hr _ IH]; [reflexivity|]. cbn [length concat]. rewrite app_length.
    rewrite Nat2Z.inj_add, Nat2Z.inj_succ. rewrite <- IH. rewrite Hr. nia. }
  rewrite Hlen. cbn [ser] in H2. rewrite H2. reflexivity.
Qed.

Theorem slitherlink_pzpr_reads : forall rows w, rows <> [] -> (0 < w)%nat ->
  Forall (fun r => length r = w) rows -> Forall (Forall slither_cell_ok) rows ->
  exists body,
    serialize_problem (Grid (OneOf [Spaces (VInt (-1)) "g"%char; IntSpaces (VInt (-1)) 4 2]) None)
      (VList (int_rows rows)) (Z.of_nat (length rows)) (Z.of_nat w) = Ok body /\
    pzpr_decode_slitherlink (length rows) w body = Some (VList (int_rows rows)).
Proof.
  intros rows w Hne Hw Hrect Hall.
  exists (sl_text (length (concat rows)) (concat rows)). split.
  - apply (slither_grid_text rows w Hne Hrect Hall).
  - assert (Hcells : Forall slither_cell_ok (concat rows)) by (apply Forall_concat; exact Hall).
    assert (Hlen : length (concat rows) = (length rows * w)%nat).
    { clear -Hrect. induction Hrect as [|r rows Hr _ IH]; simpl; [reflexivity|]. rewrite app_length, IH, Hr. reflexivity. }
    unfold pzpr_decode_slitherlink. rewrite <- Hlen. rewrite (decode_4cell_text _ Hcells). cbn [whole].
    rewrite slither_not_q by exact Hcells.
    unfold grid_pv.
    rewrite (rows_of_concat w rows Hrect). reflexivity.
Qed.
