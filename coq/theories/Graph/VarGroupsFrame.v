(* C07: the inner-frame form of division_connected_variable_groups_with_borders:
   edge k of the graph built from BoolInnerGridFrame.dual() joins exactly the two
   cells that the k-th is_border item lies between. *)
From Coq Require Import ZArith List Bool Arith Lia.
From Cspuz Require Import Lib.PyErr Core.Expr Core.Program Graph.GraphModel Graph.VarGroups.
Import ListNotations.
Open Scope nat_scope.

Lemma combine_flat_map {A B C} (f : A -> list B) (h : A -> list C) (l : list A) :
  (forall x, length (f x) = length (h x)) ->
  combine (flat_map f l) (flat_map h l) = flat_map (fun x => combine (f x) (h x)) l.
Proof.
  intros H. induction l as [|a l IH]; simpl; [reflexivity|].
  rewrite <- IH. clear IH. specialize (H a). revert H.
  generalize (f a) (h a). induction l0 as [|b r IH]; intros [|c r'] Hl; simpl in *; try discriminate; [reflexivity|].
  f_equal. apply IH. lia.
Qed.

(* (the two cells, the is_border item) for every edge, in edge order *)
Definition frame_layout (f : inner_frame) : list ((nat * nat) * expr) :=
  let h := fh f in let w := fw f in
  flat_map (fun '(y, x) =>
      (if Nat.eqb (S y) h then [] else [((y * w + x, S y * w + x), at_ (fhor f) (y * w + x))]) ++
      (if Nat.eqb (S x) w then [] else [((y * w + x, y * w + S x), at_ (fver f) (y * (w - 1) + x))]))
    (frame_cells f).

Theorem frame_layout_spec f :
  combine (edges (frame_graph f)) (frame_borders f) = frame_layout f /\
  length (frame_borders f) = length (edges (frame_graph f)) /\
  nv (frame_graph f) = fh f * fw f.
Proof.
  split; [|split; [|reflexivity]].
  - unfold frame_graph, frame_borders, frame_layout. cbn [edges].
    rewrite combine_flat_map.
    + apply flat_map_ext. intros [y x]. destruct (Nat.eqb (S y) (fh f)), (Nat.eqb (S x) (fw f)); reflexivity.
    + intros [y x]. destruct (Nat.eqb (S y) (fh f)), (Nat.eqb (S x) (fw f)); reflexivity.
  - unfold frame_graph, frame_borders. cbn [edges].
    induction (frame_cells f) as [|[y x] r IH]; [reflexivity|].
    cbn [flat_map]. rewrite !app_length, IH.
    destruct (Nat.eqb (S y) (fh f)), (Nat.eqb (S x) (fw f)); reflexivity.
Qed.

(* the public wrapper in inner-frame form is the private helper on that graph *)
Lemma with_borders_frame_form st h w l f ugp cfg :
  division_connected_variable_groups_with_borders st (GArr2 h w l) (BFrame f) None ugp cfg =
  post_with_borders st (frame_graph f) l (frame_borders f)
    (match ugp with Some p => p | None => cfg end).
Proof. reflexivity. Qed.

Lemma with_borders_graph_none_form st g bd ugp cfg :
  division_connected_variable_groups_with_borders st GNone (BList bd) (Some g) ugp cfg =
  post_with_borders st g (repeat PyNone (nv g)) bd (match ugp with Some p => p | None => cfg end).
Proof. reflexivity. Qed.

Lemma vargroups_grid_form st h w a gs :
  convert_group_size a = Ok gs ->
  division_connected_variable_groups st None (Some (h, w)) a =
  (match post_vargroups st (grid_graph h w) gs with
   | Ok (st', ids) => Ok (st', RGrid h w ids)
   | Err e => Err e
   end).
Proof.
  intros H. unfold division_connected_variable_groups. cbn [bind]. rewrite H. cbn [bind].
  destruct (post_vargroups st (grid_graph h w) gs) as [[st' ids]|e]; reflexivity.
Qed.
