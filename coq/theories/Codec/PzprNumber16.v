(* The independent pzpr decoder decodeNumber16 (Codec/Pzpr.v) reads the text of the number16-style
   codecs that also have a "?" entry written '.' or another order of the alternatives:
     nurikabe    Grid (OneOf [Dict [-1] ["."]; Spaces 0 "g"; HexInt])
     nurimisaki  Grid (OneOf [Dict [0] ["."]; Spaces (-1) "g"; HexInt])
     heyawake    Seq (OneOf [HexInt; Spaces (-1) "g"]) n          (the room numbers)
     aquarium    util.encode_array(..., empty=-1)                 (the numbers outside the board)
   It generalises PzprProofs.v (num16_cells, pzpr_sudoku_reads) and LegacyEq.v (enc_ints,
   cell_ser_step, seq_loop_ints, legacy_eq_grid). *)
From Coq Require Import ZArith List Ascii Bool NArith Lia.
From Cspuz Require Import Lib.PyErr Codec.Comb Codec.CombWf Codec.CombBasics Codec.CombLeaf Codec.CombRoundTrip
  Codec.Legacy Codec.LegacyProofs Codec.LegacyEq Codec.Pzpr Codec.PzprProofs.
Import ListNotations.
Local Open Scope Z_scope.

(* ------------------------------------------------------------------ one number token, 0 included *)
Lemma hexenc_shape0 v : 0 <= v <= 4095 ->
  (v <= 15 /\ exists c, hexenc v = [c] /\ digit_in 16 c = Some v) \/
  (16 <= v <= 255 /\ hexenc v = "-"%char :: to_base 16 v /\ length (to_base 16 v) = 2%nat) \/
  (256 <= v /\ hexenc v = "+"%char :: to_base 16 v /\ length (to_base 16 v) = 3%nat).
Proof.
  intros Hv. unfold hexenc, hex_prefix. rewrite to_base16_nonneg by lia.
  pose proof (hex_len v ltac:(lia)) as Hlen. unfold hex_len_of in Hlen.
  destruct (Z.leb_spec 16 v); destruct (Z.ltb_spec v 256); cbn [andb].
  - right; left. destruct (Z.ltb_spec v 16); [lia|]. repeat split; auto; lia.
  - right; right. destruct (Z.leb_spec 256 v); [|lia]. destruct (Z.ltb_spec v 16); [lia|]. repeat split; auto; lia.
  - left. destruct (Z.leb_spec 256 v); [lia|]. destruct (Z.ltb_spec v 16); [|lia]. split; [lia|].
    destruct (to_base 16 v) as [|c [|c2 t]] eqn:E; try discriminate.
    destruct (to_base_spec 16 v) as (_ & Hc & Hval); [lia|lia|]. rewrite E in Hc, Hval.
    simpl in Hc. rewrite andb_true_r in Hc. exists c. split; [reflexivity|].
    rewrite (clean16_digit_in c Hc). unfold valacc in Hval. simpl in Hval. unfold step in Hval. f_equal. lia.
  - lia.
Qed.

(* a run of 1..20 cells without clue *)
Lemma num16_flush cnt f n c cells rest : 1 <= cnt <= 20 -> (c < n)%nat ->
  num16 (S f) n c cells (base36_char (cnt + 15) :: rest) =
  if Nat.leb n (c + Z.to_nat cnt) then Some (cells, rest) else num16 f n (c + Z.to_nat cnt) cells rest.
Proof.
  intros Hcnt Hc. cbn [num16]. destruct (Nat.leb_spec n c); [lia|].
  destruct (skip_char cnt Hcnt) as (E1 & E2 & E3 & E4 & E5 & E6).
  rewrite E1, E2, E3, E4, E5, E6.
  replace (c + Z.to_nat (cnt - 1) + 1)%nat with (c + Z.to_nat cnt)%nat by lia. reflexivity.
Qed.

(* a number token *)
Lemma num16_number v f n c cells rest : 0 <= v <= 4095 -> (c < n)%nat ->
  num16 (S f) n c cells (hexenc v ++ rest) =
  if Nat.leb n (S c) then Some (upd cells c v, rest) else num16 f n (S c) (upd cells c v) rest.
Proof.
  intros Hv Hc.
  destruct (hexenc_shape0 v Hv) as [(Hle & ch & Ec & Ed)|[(Hr & Ec & El)|(Hr & Ec & El)]]; rewrite Ec; cbn [app num16];
    (destruct (Nat.leb_spec n c); [lia|]).
  - rewrite Ed. reflexivity.
  - destruct special_not_digit as (S1 & _). rewrite S1. change (is_ch "-" "-"%char) with true. cbv iota.
    rewrite <- El. rewrite take_hex_to_base by lia. reflexivity.
  - destruct special_not_digit as (_ & S2 & _). rewrite S2. change (is_ch "-" "+"%char) with false.
    change (is_ch "+" "+"%char) with true. cbv iota.
    rewrite <- El. rewrite take_hex_to_base by lia. reflexivity.
Qed.

(* the token of the clue "?" *)
Lemma num16_dot f n c cells rest : (c < n)%nat ->
  num16 (S f) n c cells ("."%char :: rest) =
  if Nat.leb n (S c) then Some (upd cells c (-2), rest) else num16 f n (S c) (upd cells c (-2)) rest.
Proof.
  intros Hc. cbn [num16]. destruct (Nat.leb_spec n c); [lia|].
  destruct special_not_digit as (_ & _ & S3). rewrite S3.
  change (is_ch "-" "."%char) with false. change (is_ch "+" "."%char) with false.
  change (is_ch "." "."%char) with true. cbv iota. reflexivity.
Qed.

Lemma hexenc_nonempty v : 0 <= v <= 4095 -> (1 <= length (hexenc v))%nat.
Proof.
  intros Hv. destruct (hexenc_shape0 v Hv) as [(_ & ch & Ec & _)|[(_ & Ec & _)|(_ & Ec & _)]]; rewrite Ec; simpl; lia.
Qed.

(* ------------------------------------------------------------------ the text of the cells *)
Section QCells.
  Variable qm : option Z.                          (* the value written '.', if any *)
  Variable e : Z.                                  (* the value of an empty cell *)

  Definition is_qm (v : Z) : bool := match qm with Some q => v =? q | None => false end.

  Fixpoint enc_q (l : list Z) (cnt : Z) : str :=
    match l with
    | [] => enc_flush cnt
    | v :: t =>
        if is_qm v then enc_flush cnt ++ "."%char :: enc_q t 0
        else if v =? e then (if 20 <=? cnt then "z"%char :: enc_q t 1 else enc_q t (cnt + 1))
        else enc_flush cnt ++ hexenc v ++ enc_q t 0
    end.

  (* what pzpr reads: -2 for "?", -1 for no clue *)
  Definition qnum (v : Z) : Z := if is_qm v then -2 else if v =? e then -1 else v.

  Definition qcell_ok (v : Z) : Prop := is_qm v = true \/ v = e \/ 0 <= v <= 4095.

  Lemma num16_q : forall l cnt pre fuel n,
    Forall qcell_ok l -> 0 <= cnt <= 20 ->
    n = (length pre + Z.to_nat cnt + length l)%nat ->
    (length (enc_q l cnt) < fuel)%nat ->
    (0 < Z.to_nat cnt + length l)%nat ->
    num16 fuel n (length pre) (pre ++ repeat (-1) (Z.to_nat cnt + length l)) (enc_q l cnt)
    = Some (pre ++ repeat (-1) (Z.to_nat cnt) ++ map qnum l, []).
  Proof.
    induction l as [|v t IH]; intros cnt pre fuel n Hall Hcnt Hn Hfuel Hpos.
    - (* only pending empty cells *)
      simpl in *. rewrite Nat.add_0_r in *. unfold enc_flush in *.
      destruct (Z.ltb_spec 0 cnt); [|lia].
      destruct fuel as [|fuel]; [simpl in Hfuel; lia|].
      rewrite num16_flush by lia.
      destruct (Nat.leb_spec n (length pre + Z.to_nat cnt)); [|lia].
      rewrite app_nil_r. reflexivity.
    - inversion Hall as [|x0 xs0 Hv Ht]; subst x0 xs0.
      (* a cell with a token: first the pending empty cells, then the token *)
      assert (Htok : forall tok, (1 <= length tok)%nat ->
                (forall f c cells rest, (c < n)%nat ->
                   num16 (S f) n c cells (tok ++ rest) =
                   if Nat.leb n (S c) then Some (upd cells c (qnum v), rest)
                   else num16 f n (S c) (upd cells c (qnum v)) rest) ->
                (length (enc_flush cnt ++ tok ++ enc_q t 0) < fuel)%nat ->
                num16 fuel n (length pre) (pre ++ repeat (-1) (Z.to_nat cnt + length (v :: t)))
                      (enc_flush cnt ++ tok ++ enc_q t 0)
                = Some (pre ++ repeat (-1) (Z.to_nat cnt) ++ map qnum (v :: t), [])).
      { intros tok Htl Hrd Hf.
        set (pre' := pre ++ repeat (-1) (Z.to_nat cnt)).
        assert (Hlp : length pre' = (length pre + Z.to_nat cnt)%nat)
          by (unfold pre'; rewrite app_length, repeat_length; reflexivity).
        simpl length in Hn.
        assert (Hmain : forall fuel', (length (tok ++ enc_q t 0) < fuel')%nat ->
                  num16 fuel' n (length pre') (pre' ++ repeat (-1) (S (length t))) (tok ++ enc_q t 0)
                  = Some (pre ++ repeat (-1) (Z.to_nat cnt) ++ map qnum (v :: t), [])).
        { rewrite (app_assoc pre). fold pre'. intros fuel' Hf'. destruct fuel' as [|f']; [lia|]. rewrite app_length in Hf'.
          rewrite Hrd by lia. cbn [repeat]. rewrite upd_app.
          destruct t as [|v2 t2].
          - destruct (Nat.leb_spec n (S (length pre'))); [|simpl in Hn; lia]. reflexivity.
          - destruct (Nat.leb_spec n (S (length pre'))); [simpl in Hn; lia|].
            replace (pre' ++ qnum v :: repeat (-1) (length (v2 :: t2)))
              with ((pre' ++ [qnum v]) ++ repeat (-1) (Z.to_nat 0 + length (v2 :: t2)))
              by (rewrite <- app_assoc; reflexivity).
            replace (S (length pre')) with (length (pre' ++ [qnum v])) by (rewrite app_length; simpl; lia).
            rewrite (IH 0 (pre' ++ [qnum v]) f' n Ht); try lia.
            + cbn [Z.to_nat repeat app map]. rewrite <- app_assoc. reflexivity.
            + rewrite app_length. simpl. simpl in Hn. lia. }
        unfold enc_flush in *. destruct (Z.ltb_spec 0 cnt).
        - destruct fuel as [|fuel]; [simpl in Hf; lia|]. cbn [app].
          rewrite num16_flush by lia.
          destruct (Nat.leb_spec n (length pre + Z.to_nat cnt)); [lia|].
          simpl length.
          replace (pre ++ repeat (-1) (Z.to_nat cnt + S (length t)))
            with ((pre ++ repeat (-1) (Z.to_nat cnt)) ++ repeat (-1) (S (length t)))
            by (rewrite <- app_assoc, <- repeat_app; reflexivity).
          rewrite <- Hlp. apply Hmain. simpl in Hf. lia.
        - assert (cnt = 0) by lia. subst cnt. cbn [app].
          specialize (Hmain fuel). change (Z.to_nat 0) with 0%nat in *.
          rewrite Hlp in Hmain. rewrite Nat.add_0_r in Hmain. unfold pre' in Hmain.
          cbn [repeat] in Hmain. rewrite app_nil_r in Hmain. cbn [app] in Hmain |- *. simpl length.
          apply Hmain. simpl in Hf. exact Hf. }
      cbn [enc_q] in *. destruct (is_qm v) eqn:Eq.
      + (* the clue "?" *)
        apply (Htok ["."%char]).
        * simpl; lia.
        * intros f c cells rest Hc. cbn [app]. rewrite num16_dot by exact Hc.
          unfold qnum. rewrite Eq. reflexivity.
        * exact Hfuel.
      + destruct (Z.eqb_spec v e) as [->|Hne].
        * (* an empty cell *)
          destruct (Z.leb_spec 20 cnt).
          -- assert (cnt = 20) by lia. subst cnt.
             destruct fuel as [|fuel]; [simpl in Hfuel; lia|].
             change "z"%char with (base36_char (20 + 15)).
             rewrite num16_flush by (simpl in Hn; lia).
             change (Z.to_nat 20) with 20%nat in *. simpl length in *.
             destruct (Nat.leb_spec n (length pre + 20)); [lia|].
             replace (pre ++ repeat (-1) (20 + S (length t)))
               with ((pre ++ repeat (-1) 20) ++ repeat (-1) (Z.to_nat 1 + length t))
               by (rewrite <- app_assoc, <- repeat_app; f_equal; f_equal; simpl; lia).
             replace (length pre + 20)%nat with (length (pre ++ repeat (-1) 20))
               by (rewrite app_length, repeat_length; lia).
             rewrite (IH 1 (pre ++ repeat (-1) 20) fuel n Ht); try lia.
             ++ rewrite <- app_assoc. cbn [map]. unfold qnum at 2. rewrite Eq, Z.eqb_refl.
                reflexivity.
             ++ rewrite app_length, repeat_length. simpl. lia.
          -- simpl length in *.
             replace (Z.to_nat cnt + S (length t))%nat with (Z.to_nat (cnt + 1) + length t)%nat by lia.
             rewrite (IH (cnt + 1) pre fuel n Ht); try lia.
             f_equal. f_equal. cbn [map]. unfold qnum at 2. rewrite Eq, Z.eqb_refl.
             replace (Z.to_nat (cnt + 1)) with (Z.to_nat cnt + 1)%nat by lia.
             rewrite repeat_app. rewrite <- app_assoc. reflexivity.
        * (* a number *)
          assert (Hv1 : 0 <= v <= 4095) by (destruct Hv as [Hq|[->|Hv]]; [congruence|congruence|exact Hv]).
          apply (Htok (hexenc v)).
          -- apply hexenc_nonempty. exact Hv1.
          -- intros f c cells rest Hc. rewrite num16_number by assumption.
             unfold qnum. rewrite Eq. destruct (Z.eqb_spec v e); [contradiction|]. reflexivity.
          -- exact Hfuel.
  Qed.
End QCells.

Lemma enc_q_none e l : forall cnt, enc_q None e l cnt = enc_ints e l cnt.
Proof.
  induction l as [|v t IH]; intros cnt; cbn [enc_q enc_ints is_qm]; [reflexivity|].
  rewrite !IH. reflexivity.
Qed.

Lemma decode_number16_q qm e l : Forall (qcell_ok qm e) l -> l <> [] ->
  decode_number16 (length l) (enc_q qm e l 0) = Some (map (qnum qm e) l, []).
Proof.
  intros Hall Hne. unfold decode_number16.
  destruct (length l) as [|n'] eqn:El; [destruct l; [congruence|discriminate]|]. rewrite <- El.
  pose proof (num16_q qm e l 0 [] (S (length (enc_q qm e l 0))) (length l) Hall ltac:(lia)) as H.
  simpl in H. apply H; auto; lia.
Qed.

(* ------------------------------------------------------------------ the combinator side: the leaves *)
Lemma enc_q_20 qm e l : enc_q qm e l 20 = "z"%char :: enc_q qm e l 0.
Proof.
  destruct l as [|v t]; cbn [enc_q]; [reflexivity|].
  destruct (is_qm qm v); [reflexivity|]. destruct (v =? e); reflexivity.
Qed.

(* a run of empty cells, read the way Spaces.serialize does (run_eq), in the streaming text *)
Lemma enc_q_run qm e : is_qm qm e = false -> forall lim rest cnt, 1 <= cnt -> cnt + Z.of_nat lim = 20 ->
  enc_q qm e rest cnt =
  base36_char (15 + cnt + Z.of_nat (run_eq (VInt e) (map VInt rest) lim))
    :: enc_q qm e (skipn (run_eq (VInt e) (map VInt rest) lim) rest) 0.
Proof.
  intros Hqe. induction lim as [|k IH]; intros rest cnt Hc Hl.
  - assert (cnt = 20) by lia. subst cnt.
    assert (E0 : run_eq (VInt e) (map VInt rest) 0 = 0%nat) by (destruct rest; reflexivity).
    rewrite E0. cbn [skipn].
    change (15 + 20 + Z.of_nat 0) with 35. rewrite base36_35. apply enc_q_20.
  - destruct rest as [|x t]; cbn [map run_eq].
    + cbn [skipn enc_q]. unfold enc_flush. destruct (Z.ltb_spec 0 cnt); [|lia]. f_equal. f_equal. lia.
    + cbn [pv_eqb]. destruct (Z.eqb_spec x e) as [->|Hne].
      * cbn [enc_q]. rewrite Hqe, Z.eqb_refl. destruct (Z.leb_spec 20 cnt); [lia|].
        rewrite (IH t (cnt + 1)) by lia. cbn [skipn]. f_equal. f_equal. lia.
      * cbn [skipn enc_q]. destruct (Z.eqb_spec x e); [contradiction|].
        unfold enc_flush. destruct (Z.ltb_spec 0 cnt); [|lia]. destruct (Z.ltb_spec 0 0); [lia|].
        destruct (is_qm qm x); cbn [app]; f_equal; f_equal; lia.
Qed.

Lemma spaces_step qm e l nr : is_qm qm e = false -> nth_error l nr = Some e ->
  exists r, spaces_ser (VInt e) "g"%char (VList (map VInt l)) nr
            = Ok (Some (S r, [base36_char (15 + Z.of_nat (S r))])) /\
    (nr + S r <= length l)%nat /\
    enc_q qm e (skipn nr l) 0 = [base36_char (15 + Z.of_nat (S r))] ++ enc_q qm e (skipn (nr + S r) l) 0.
Proof.
  intros Hqe Hn.
  assert (Hlt : (nr < length l)%nat) by (apply nth_error_Some; congruence).
  pose proof (firstn_skipn_nth l nr e Hn) as Hsk.
  unfold spaces_ser, with_item. cbn [py_items].
  rewrite map_length. destruct (Nat.eqb_spec nr (length l)); [lia|].
  unfold nth_res. rewrite (nth_error_map_int l nr e Hn). cbn [pv_eqb]. rewrite Z.eqb_refl. cbn [negb].
  set (r := run_eq (VInt e) (skipn (S nr) (map VInt l)) (Z.to_nat (spaces_max "g"%char - 1))).
  change (Z.to_nat (spaces_max "g"%char - 1)) with 19%nat in r.
  change (spaces_offset "g"%char) with 15.
  destruct (run_eq_spec (VInt e) (skipn (S nr) (map VInt l)) 19) as (_ & Hr1 & Hr2). fold r in Hr1, Hr2.
  rewrite skipn_length, map_length in Hr2.
  rewrite to_base36_small by lia.
  exists r. split; [reflexivity|]. split; [lia|].
  rewrite Hsk. cbn [enc_q]. rewrite Hqe, Z.eqb_refl. destruct (Z.leb_spec 20 0); [lia|].
  change (0 + 1) with 1. cbn [app].
  rewrite (enc_q_run qm e Hqe 19 (skipn (S nr) l) 1) by lia.
  unfold r. rewrite skipn_map_int.
  set (r' := run_eq (VInt e) (map VInt (skipn (S nr) l)) 19).
  rewrite skipn_skipn'. replace (S nr + r')%nat with (nr + S r')%nat by lia.
  f_equal. f_equal. lia.
Qed.

Lemma spaces_none e l nr v : nth_error l nr = Some v -> v <> e ->
  spaces_ser (VInt e) "g"%char (VList (map VInt l)) nr = Ok None.
Proof.
  intros Hn Hne.
  assert (Hlt : (nr < length l)%nat) by (apply nth_error_Some; congruence).
  unfold spaces_ser, with_item. cbn [py_items].
  rewrite map_length. destruct (Nat.eqb_spec nr (length l)); [lia|].
  unfold nth_res. rewrite (nth_error_map_int l nr v Hn). cbn [pv_eqb].
  destruct (Z.eqb_spec v e); [contradiction|]. reflexivity.
Qed.

Lemma hexint_some l nr v : nth_error l nr = Some v -> 0 <= v <= 4095 ->
  hexint_ser (VList (map VInt l)) nr = Ok (Some (1%nat, hexenc v)).
Proof.
  intros Hn Hv.
  assert (Hlt : (nr < length l)%nat) by (apply nth_error_Some; congruence).
  unfold hexint_ser, with_item. cbn [py_items]. rewrite map_length.
  destruct (Nat.eqb_spec nr (length l)); [lia|].
  unfold nth_res. rewrite (nth_error_map_int l nr v Hn).
  destruct (Z.leb_spec 0 v); [|lia]. destruct (Z.leb_spec v 4095); [|lia]. reflexivity.
Qed.

Lemma hexint_none l nr v : nth_error l nr = Some v -> ~ (0 <= v <= 4095) ->
  hexint_ser (VList (map VInt l)) nr = Ok None.
Proof.
  intros Hn Hv.
  assert (Hlt : (nr < length l)%nat) by (apply nth_error_Some; congruence).
  unfold hexint_ser, with_item. cbn [py_items]. rewrite map_length.
  destruct (Nat.eqb_spec nr (length l)); [lia|].
  unfold nth_res. rewrite (nth_error_map_int l nr v Hn).
  destruct (Z.leb_spec 0 v); destruct (Z.leb_spec v 4095); try reflexivity. lia.
Qed.

Lemma dict_some q l nr : nth_error l nr = Some q ->
  dict_ser_at [VInt q] [["."%char]] (VList (map VInt l)) nr = Ok (Some (1%nat, ["."%char])).
Proof.
  intros Hn.
  assert (Hlt : (nr < length l)%nat) by (apply nth_error_Some; congruence).
  unfold dict_ser_at, with_item. cbn [py_items]. rewrite map_length.
  destruct (Nat.eqb_spec nr (length l)); [lia|].
  unfold nth_res. rewrite (nth_error_map_int l nr q Hn). cbn [dict_ser pv_eqb]. rewrite Z.eqb_refl. reflexivity.
Qed.

Lemma dict_none q l nr v : nth_error l nr = Some v -> v <> q ->
  dict_ser_at [VInt q] [["."%char]] (VList (map VInt l)) nr = Ok None.
Proof.
  intros Hn Hne.
  assert (Hlt : (nr < length l)%nat) by (apply nth_error_Some; congruence).
  unfold dict_ser_at, with_item. cbn [py_items]. rewrite map_length.
  destruct (Nat.eqb_spec nr (length l)); [lia|].
  unfold nth_res. rewrite (nth_error_map_int l nr v Hn). cbn [dict_ser pv_eqb].
  destruct (Z.eqb_spec v q); [contradiction|]. reflexivity.
Qed.

(* ------------------------------------------------------------------ one call of the cell combinator at index nr *)
(* OneOf [Dict [q] ["."]; Spaces e "g"; HexInt] *)
Definition qcell_dom (q e v : Z) : Prop := v = q \/ v = e \/ 0 <= v <= 4095.

Lemma qcell_ser_step env q e l nr v : q <> e -> Forall (qcell_dom q e) l -> nth_error l nr = Some v ->
  exists ofs s,
    ser env (OneOf [Dict [VInt q] [["."%char]]; Spaces (VInt e) "g"%char; HexInt]) (VList (map VInt l)) nr
      = Ok (Some (S ofs, s)) /\
    (nr + S ofs <= length l)%nat /\
    enc_q (Some q) e (skipn nr l) 0 = s ++ enc_q (Some q) e (skipn (nr + S ofs) l) 0.
Proof.
  intros Hqe Hall Hn.
  assert (Hlt : (nr < length l)%nat) by (apply nth_error_Some; congruence).
  assert (Hv : qcell_dom q e v) by (rewrite Forall_forall in Hall; apply Hall; eapply nth_error_In; eauto).
  pose proof (firstn_skipn_nth l nr v Hn) as Hsk.
  assert (Hq : is_qm (Some q) e = false) by (cbn [is_qm]; apply Z.eqb_neq; congruence).
  cbn [ser].
  destruct (Z.eq_dec v q) as [->|Hnq].
  - rewrite (dict_some q l nr Hn). exists 0%nat, ["."%char]. split; [reflexivity|]. split; [lia|].
    rewrite Hsk. cbn [enc_q is_qm]. rewrite Z.eqb_refl. replace (nr + 1)%nat with (S nr) by lia. reflexivity.
  - rewrite (dict_none q l nr v Hn Hnq).
    destruct (Z.eq_dec v e) as [->|Hne].
    + destruct (spaces_step (Some q) e l nr Hq Hn) as (r & Es & Hle & Henc).
      rewrite Es. exists r, [base36_char (15 + Z.of_nat (S r))]. split; [reflexivity|]. split; [exact Hle|exact Henc].
    + rewrite (spaces_none e l nr v Hn Hne).
      assert (Hv1 : 0 <= v <= 4095) by (destruct Hv as [->|[->|Hv]]; [congruence|congruence|exact Hv]).
      rewrite (hexint_some l nr v Hn Hv1). exists 0%nat, (hexenc v). split; [reflexivity|]. split; [lia|].
      rewrite Hsk. cbn [enc_q is_qm]. destruct (Z.eqb_spec v q); [contradiction|].
      destruct (Z.eqb_spec v e); [contradiction|].
      replace (nr + 1)%nat with (S nr) by lia. reflexivity.
Qed.

(* OneOf [HexInt; Spaces e "g"], e not a number of the format *)
Lemma hcell_ser_step env e l nr v : ~ (0 <= e <= 4095) -> Forall (icell_ok e) l -> nth_error l nr = Some v ->
  exists ofs s,
    ser env (OneOf [HexInt; Spaces (VInt e) "g"%char]) (VList (map VInt l)) nr = Ok (Some (S ofs, s)) /\
    (nr + S ofs <= length l)%nat /\
    enc_q None e (skipn nr l) 0 = s ++ enc_q None e (skipn (nr + S ofs) l) 0.
Proof.
  intros He Hall Hn.
  assert (Hlt : (nr < length l)%nat) by (apply nth_error_Some; congruence).
  assert (Hv : icell_ok e v) by (rewrite Forall_forall in Hall; apply Hall; eapply nth_error_In; eauto).
  pose proof (firstn_skipn_nth l nr v Hn) as Hsk.
  cbn [ser].
  destruct (Z.eq_dec v e) as [->|Hne].
  - rewrite (hexint_none l nr e Hn He).
    destruct (spaces_step None e l nr eq_refl Hn) as (r & Es & Hle & Henc).
    rewrite Es. exists r, [base36_char (15 + Z.of_nat (S r))]. split; [reflexivity|]. split; [exact Hle|exact Henc].
  - assert (Hv1 : 0 <= v <= 4095) by (destruct Hv as [->|Hv]; [congruence|exact Hv]).
    rewrite (hexint_some l nr v Hn Hv1). exists 0%nat, (hexenc v). split; [reflexivity|]. split; [lia|].
    rewrite Hsk. cbn [enc_q is_qm]. destruct (Z.eqb_spec v e); [contradiction|].
    replace (nr + 1)%nat with (S nr) by lia. reflexivity.
Qed.

(* ------------------------------------------------------------------ Seq / Grid over any cell combinator with such a step *)
Section CellSeq.
  Variable cc : comb.
  Variable ok : Z -> Prop.
  Variable T : list Z -> str.                      (* the text of the cells from some index on *)
  Hypothesis T_nil : T [] = [].
  Hypothesis step : forall env l nr v, Forall ok l -> nth_error l nr = Some v ->
    exists ofs s, ser env cc (VList (map VInt l)) nr = Ok (Some (S ofs, s)) /\
      (nr + S ofs <= length l)%nat /\ T (skipn nr l) = s ++ T (skipn (nr + S ofs) l).

  Lemma seq_loop_T env l : Forall ok l -> forall fuel nr ret,
    (nr <= length l)%nat -> (length l - nr <= fuel)%nat ->
    seq_ser_loop (ser env cc) (Z.of_nat (length l)) (VList (map VInt l)) fuel nr ret
    = Ok (Some (ret ++ T (skipn nr l))).
  Proof.
    intros Hall. induction fuel as [|fuel IH]; intros nr ret Hnr Hfuel.
    - assert (nr = length l) by lia. subst nr. cbn [seq_ser_loop].
      destruct (Z.ltb_spec (Z.of_nat (length l)) (Z.of_nat (length l))); [lia|].
      rewrite Z.eqb_refl. rewrite skipn_all, T_nil. rewrite app_nil_r. reflexivity.
    - cbn [seq_ser_loop]. destruct (Z.ltb_spec (Z.of_nat nr) (Z.of_nat (length l))).
      + destruct (nth_error l nr) as [v|] eqn:En; [|apply nth_error_None in En; lia].
        destruct (step env l nr v Hall En) as (ofs & s & Es & Hle & Henc).
        rewrite Es. rewrite IH by lia. rewrite Henc. rewrite app_assoc. reflexivity.
      + assert (nr = length l) by lia. subst nr. rewrite Z.eqb_refl.
        rewrite skipn_all, T_nil. rewrite app_nil_r. reflexivity.
  Qed.

  Lemma seq_T env l : Forall ok l ->
    ser env (Seq cc (Z.of_nat (length l))) (VList [VList (map VInt l)]) 0 = Ok (Some (1%nat, T l)).
  Proof.
    intros Hall. cbn [ser]. unfold seq_ser. cbn [py_items length Nat.eqb nth_res nth_error].
    rewrite Nat2Z.id. rewrite (seq_loop_T env l Hall (length l) 0 []) by lia. reflexivity.
  Qed.

  Lemma grid_T rows w : Forall (fun r => length r = w) rows -> Forall (Forall ok) rows ->
    serialize_problem (Grid cc None) (VList (int_rows rows)) (Z.of_nat (length rows)) (Z.of_nat w)
    = Ok (T (concat rows)).
  Proof.
    intros Hw Hall.
    assert (Hcells : Forall ok (concat rows)) by (apply Forall_concat; exact Hall).
    pose proof (seq_T (mk_env (Z.of_nat (length rows)) (Z.of_nat w)) (concat rows) Hcells) as H2.
    unfold serialize_problem. cbn [ser]. unfold grid_ser.
    cbn [py_items length Nat.eqb nth_res nth_error grid_dims height width mk_env].
    rewrite Nat2Z.id.
    pose proof (flatten_int_rows rows 0 [] eq_refl) as Hf. cbn [app] in Hf. rewrite Hf.
    assert (Hlen : Z.of_nat (length rows) * Z.of_nat w = Z.of_nat (length (concat rows))).
    { clear -Hw. induction Hw as [|r rows Hr _ IH]; [reflexivity|]. cbn [length concat]. rewrite app_length.
      rewrite Nat2Z.inj_add, Nat2Z.inj_succ. rewrite <- IH. nia. }
    rewrite Hlen. cbn [ser] in H2. rewrite H2. reflexivity.
  Qed.
End CellSeq.

(* ------------------------------------------------------------------ reading a board back *)
Lemma pzpr_grid_reads qm e (f : Z -> pv) rows w : rows <> [] -> (0 < w)%nat ->
  Forall (fun r => length r = w) rows -> Forall (Forall (qcell_ok qm e)) rows ->
  (forall v, qcell_ok qm e v -> f (qnum qm e v) = VInt v) ->
  match whole (decode_number16 (length rows * w) (enc_q qm e (concat rows) 0)) with
  | Some cells => Some (grid_pv f (length rows) w cells)
  | None => None
  end = Some (VList (int_rows rows)).
Proof.
  intros Hne Hw Hrect Hall Hf.
  assert (Hcells : Forall (qcell_ok qm e) (concat rows)) by (apply Forall_concat; exact Hall).
  assert (Hlen : length (concat rows) = (length rows * w)%nat).
  { clear -Hrect. induction Hrect as [|r rows Hr _ IH]; simpl; [reflexivity|]. rewrite app_length, IH, Hr. reflexivity. }
  assert (Hcne : concat rows <> []).
  { intros E. rewrite E in Hlen. simpl in Hlen. destruct rows; [congruence|]. simpl in Hlen. lia. }
  rewrite <- Hlen. rewrite (decode_number16_q qm e _ Hcells Hcne). cbn [whole].
  unfold grid_pv. f_equal. f_equal.
  replace (map (qnum qm e) (concat rows)) with (concat (map (map (qnum qm e)) rows)) by (symmetry; apply concat_map).
  replace (length rows) with (length (map (map (qnum qm e)) rows)) by apply map_length.
  rewrite rows_of_concat.
  - unfold int_rows. rewrite map_map. apply map_ext_in. intros r Hr. f_equal. rewrite map_map.
    apply map_ext_in. intros v Hv. apply Hf.
    rewrite Forall_forall in Hall. specialize (Hall r Hr). rewrite Forall_forall in Hall. auto.
  - apply Forall_forall. intros r Hr. apply in_map_iff in Hr as (r0 & <- & Hr0). rewrite map_length.
    rewrite Forall_forall in Hrect. auto.
Qed.

Lemma enc_q_nil qm e : enc_q qm e [] 0 = [].
Proof. reflexivity. Qed.

(* ------------------------------------------------------------------ nurikabe *)
Definition nurikabe_cell_ok (v : Z) : Prop := -1 <= v <= 4095.

Theorem nurikabe_pzpr_reads : forall rows w, rows <> [] -> (0 < w)%nat ->
  Forall (fun r => length r = w) rows -> Forall (Forall nurikabe_cell_ok) rows ->
  exists body,
    serialize_problem (Grid (OneOf [Dict [VInt (-1)] [["."%char]]; Spaces (VInt 0) "g"%char; HexInt]) None)
      (VList (int_rows rows)) (Z.of_nat (length rows)) (Z.of_nat w) = Ok body /\
    pzpr_decode_nurikabe (length rows) w body = Some (VList (int_rows rows)).
Proof.
  intros rows w Hne Hw Hrect Hall. exists (enc_q (Some (-1)) 0 (concat rows) 0). split.
  - apply (grid_T (OneOf [Dict [VInt (-1)] [["."%char]]; Spaces (VInt 0) "g"%char; HexInt])
             (qcell_dom (-1) 0) (fun l => enc_q (Some (-1)) 0 l 0) (enc_q_nil _ _)).
    + intros env l nr v Hl Hn. apply (qcell_ser_step env (-1) 0 l nr v); [lia|exact Hl|exact Hn].
    + exact Hrect.
    + eapply Forall_impl; [|exact Hall]. intros r Hr. eapply Forall_impl; [|exact Hr].
      intros v Hv. unfold nurikabe_cell_ok in Hv. unfold qcell_dom. lia.
  - unfold pzpr_decode_nurikabe. apply pzpr_grid_reads; auto.
    + eapply Forall_impl; [|exact Hall]. intros r Hr. eapply Forall_impl; [|exact Hr].
      intros v Hv. unfold nurikabe_cell_ok in Hv. unfold qcell_ok. cbn [is_qm].
      destruct (Z.eqb_spec v (-1)); [left; reflexivity|right; lia].
    + intros v Hv. unfold qnum, nurikabe_cell. cbn [is_qm].
      destruct (Z.eqb_spec v (-1)) as [->|H1]; [reflexivity|].
      destruct (Z.eqb_spec v 0) as [->|H0]; [reflexivity|].
      assert (Hr : 0 <= v <= 4095) by (destruct Hv as [Hq|[->|Hv]]; [cbn [is_qm] in Hq; lia|congruence|exact Hv]).
      destruct (Z.eqb_spec v (-1)); [lia|]. destruct (Z.eqb_spec v (-2)); [lia|]. reflexivity.
Qed.

(* ------------------------------------------------------------------ nurimisaki *)
Definition nurimisaki_cell_ok (v : Z) : Prop := -1 <= v <= 4095.

Theorem nurimisaki_pzpr_reads : forall rows w, rows <> [] -> (0 < w)%nat ->
  Forall (fun r => length r = w) rows -> Forall (Forall nurimisaki_cell_ok) rows ->
  exists body,
    serialize_problem (Grid (OneOf [Dict [VInt 0] [["."%char]]; Spaces (VInt (-1)) "g"%char; HexInt]) None)
      (VList (int_rows rows)) (Z.of_nat (length rows)) (Z.of_nat w) = Ok body /\
    pzpr_decode_nurimisaki (length rows) w body = Some (VList (int_rows rows)).
Proof.
  intros rows w Hne Hw Hrect Hall. exists (enc_q (Some 0) (-1) (concat rows) 0). split.
  - apply (grid_T (OneOf [Dict [VInt 0] [["."%char]]; Spaces (VInt (-1)) "g"%char; HexInt])
             (qcell_dom 0 (-1)) (fun l => enc_q (Some 0) (-1) l 0) (enc_q_nil _ _)).
    + intros env l nr v Hl Hn. apply (qcell_ser_step env 0 (-1) l nr v); [lia|exact Hl|exact Hn].
    + exact Hrect.
    + eapply Forall_impl; [|exact Hall]. intros r Hr. eapply Forall_impl; [|exact Hr].
      intros v Hv. unfold nurimisaki_cell_ok in Hv. unfold qcell_dom. lia.
  - unfold pzpr_decode_nurimisaki. apply pzpr_grid_reads; auto.
    + eapply Forall_impl; [|exact Hall]. intros r Hr. eapply Forall_impl; [|exact Hr].
      intros v Hv. unfold nurimisaki_cell_ok in Hv. unfold qcell_ok. cbn [is_qm].
      destruct (Z.eqb_spec v 0); [left; reflexivity|right; lia].
    + intros v Hv. unfold qnum, nurimisaki_cell. cbn [is_qm].
      destruct (Z.eqb_spec v 0) as [->|H0]; [reflexivity|].
      destruct (Z.eqb_spec v (-1)) as [->|H1]; [reflexivity|].
      assert (Hr : 0 <= v <= 4095) by (destruct Hv as [Hq|[->|Hv]]; [cbn [is_qm] in Hq; lia|congruence|exact Hv]).
      destruct (Z.eqb_spec v (-2)); [lia|]. reflexivity.
Qed.

(* ------------------------------------------------------------------ heyawake's room numbers, aquarium's outside numbers *)
Lemma qnum_none_m1 l : map (qnum None (-1)) l = l.
Proof.
  induction l as [|v t IH]; cbn [map]; [reflexivity|]. rewrite IH. f_equal.
  unfold qnum. cbn [is_qm]. destruct (Z.eqb_spec v (-1)); [congruence|reflexivity].
Qed.

Lemma number16_m1_reads l : l <> [] -> Forall (fun v => -1 <= v <= 4095) l ->
  whole (decode_number16 (length l) (enc_ints (-1) l 0)) = Some l.
Proof.
  intros Hne Hall. rewrite <- enc_q_none.
  rewrite (decode_number16_q None (-1) l); [|
    eapply Forall_impl; [|exact Hall]; intros v Hv; cbv beta in Hv; unfold qcell_ok; lia|exact Hne].
  cbn [whole]. rewrite qnum_none_m1. reflexivity.
Qed.

Theorem room_numbers_pzpr_reads : forall env l, l <> [] -> Forall (fun v => -1 <= v <= 4095) l ->
  exists text,
    ser env (Seq (OneOf [HexInt; Spaces (VInt (-1)) "g"%char]) (Z.of_nat (length l))) (VList [VList (map VInt l)]) 0
      = Ok (Some (1%nat, text)) /\
    text = enc_ints (-1) l 0 /\
    pzpr_decode_room_numbers (length l) text = Some l.
Proof.
  intros env l Hne Hall. exists (enc_ints (-1) l 0). split; [|split; [reflexivity|]].
  - rewrite <- enc_q_none.
    apply (seq_T (OneOf [HexInt; Spaces (VInt (-1)) "g"%char]) (icell_ok (-1))
             (fun l => enc_q None (-1) l 0) (enc_q_nil _ _)).
    + intros env' l' nr v Hl Hn. apply (hcell_ser_step env' (-1) l' nr v); [lia|exact Hl|exact Hn].
    + eapply Forall_impl; [|exact Hall]. intros v Hv. cbv beta in Hv. unfold icell_ok. lia.
  - unfold pzpr_decode_room_numbers. apply number16_m1_reads; assumption.
Qed.

Theorem excell_numbers_pzpr_reads : forall l, l <> [] -> Forall (fun v => -1 <= v <= 4095) l ->
  encode_array (map VInt l) marker_g (VInt (-1)) None = Ok (enc_ints (-1) l 0) /\
  whole (decode_number16 (length l) (enc_ints (-1) l 0)) = Some l.
Proof.
  intros l Hne Hall. split; [|apply number16_m1_reads; assumption].
  assert (Hcells : Forall (icell_ok (-1)) l).
  { eapply Forall_impl; [|exact Hall]. intros v Hv. cbv beta in Hv. unfold icell_ok. lia. }
  unfold encode_array. change (str_find marker_g BASE36 0) with (@Ok Z 16). cbn [bind].
  assert (Hl : forallb is_list (map VInt l) = false) by (destruct l; [congruence|reflexivity]).
  rewrite Hl. cbn [bind Z.eqb]. apply ea_loop_ints; [exact Hcells|lia].
Qed.

Print Assumptions nurikabe_pzpr_reads.
Print Assumptions nurimisaki_pzpr_reads.
Print Assumptions room_numbers_pzpr_reads.
Print Assumptions excell_numbers_pzpr_reads.
