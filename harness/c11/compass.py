"""C11 plug-in: compass (solve_compass(height, width, problem)); problem = [(y, x, up, left, down, right)], -1 = no number."""
import c11lib as L

NAME = "compass"
MODULE = "cspuz.puzzle.compass"
FUNC = "solve_compass"


def call(mod, pb):
    return mod.solve_compass(pb["h"], pb["w"], [tuple(c) for c in pb["cps"]])


def ncand(pb):
    return len(pb["cps"]) ** (pb["h"] * pb["w"])


def encode(pb):
    return [[pb["h"], pb["w"]], [v for c in pb["cps"] for v in c]]


def _rand(rng, h, w, k):
    cells = rng.sample([(y, x) for y in range(h) for x in range(w)], k)
    cps = []
    for (y, x) in cells:
        nums = [(-1 if rng.random() < 0.55 else rng.randint(0, max(1, h * w // k))) for _ in range(4)]
        cps.append([y, x] + nums)
    return {"h": h, "w": w, "cps": cps}


def families(tier, rng):
    th = tier == "thorough"
    import itertools
    # one compass: every position and every clue vector on the tiniest boards
    for (h, w) in [(1, 1), (1, 2), (2, 1), (2, 2)]:
        for y in range(h):
            for x in range(w):
                for t in itertools.product(range(-1, h * w), repeat=4):
                    if h * w <= 2 or th or rng.random() < 0.15:
                        yield {"h": h, "w": w, "cps": [[y, x] + list(t)]}
    for (h, w) in [(1, 2), (2, 1), (1, 3), (3, 1), (2, 2), (2, 3), (3, 2), (3, 3), (2, 4), (1, 5)]:
        for k in (2, 3):
            if k > h * w or k ** (h * w) > 70000:
                continue
            for _ in range(120 if th else 12):
                yield _rand(rng, h, w, k)


def tier2(tier, rng):
    th = tier == "thorough"
    for (h, w, k) in [(1, 1, 1), (1, 2, 1), (1, 2, 2), (2, 2, 1), (2, 2, 2)]:
        for _ in range(6 if th else 2):
            yield _rand(rng, h, w, k)


def big(tier, rng):
    """long single-row / single-column boards cut into two regions, compasses at the two ends with two-digit counts"""
    th = tier == "thorough"
    for n in (L.LONG if th else L.sample(rng, L.LONG, 3) + [23]):
        a = rng.randint(11, n - 1)
        div = [0] * a + [1] * (n - a)
        yield {"h": 1, "w": n, "cps": [[0, 0, -1, 0, -1, a - 1], [0, n - 1, 0, n - a - 1, 0, -1]], "planted": [div]}
        yield {"h": n, "w": 1, "cps": [[0, 0, 0, -1, a - 1, -1], [n - 1, 0, n - a - 1, 0, -1, 0]], "planted": [div]}
