(* C09 -- mirror of cspuz/graph.py::active_edges_acyclic (level E), the boolean
   certificate it encodes, the graph-theoretic specification "the active edges
   form a forest" (level S), and the executable rank construction used by the
   completeness proof.  Definitions only, no proofs here. *)
From Coq Require Import ZArith List Bool Arith.
From Cspuz Require Import Lib.PyErr Core.Expr Core.Program Core.Build Graph.GraphModel.
Import ListNotations.
Open Scope res_scope.

(* ------------------------------------------------------------------------ *)
(* Level E: the posted program                                               *)

(* list indexing with a non-negative index: IndexError past the end *)
Definition py_get {A} (l : list A) (i : nat) : res A :=
  match nth_error l i with Some x => Ok x | None => Err IndexError end.

(* a binary dunder returning NotImplemented makes the interpreter raise
   TypeError (no reflected method accepts the operand either) *)
Definition py_dunder (r : res expr) : res expr :=
  match r with Err NotImplementedErr => Err TypeError | _ => r end.

(*  for j, e in graph.incident_edges[i]:
        less_ranks.append((ranks[j] < ranks[i]) & is_active_edge[e])
        if i < j:
            solver.ensure(ranks[i] != ranks[j])                              *)
Fixpoint acy_edge_loop (st : state) (ranks flags : list expr) (i : nat)
    (inc : list (nat * nat)) (less : list expr) : res (state * list expr) :=
  match inc with
  | [] => Ok (st, less)
  | (j, e) :: r =>
      let* rj := py_get ranks j in
      let* ri := py_get ranks i in
      let* f := py_get flags e in
      let* a := py_dunder (make_bool_expr AND [i_lt rj ri; f]) in
      let st' := if Nat.ltb i j then ensure st [i_ne ri rj] else st in
      acy_edge_loop st' ranks flags i r (less ++ [a])
  end.

(*  for i in range(n):
        less_ranks = [] ; <edge loop> ; solver.ensure(count_true(less_ranks) <= 1) *)
Fixpoint acy_vertex_loop (st : state) (ranks flags : list expr) (g : graph)
    (vs : list nat) : res state :=
  match vs with
  | [] => Ok st
  | i :: r =>
      let* '(st1, less) := acy_edge_loop st ranks flags i (incident g i) [] in
      let* c := count_true less in
      acy_vertex_loop (ensure st1 [i_le c (PyInt 1)]) ranks flags g r
  end.

(*  n = graph.num_vertices ; ranks = solver.int_array(n, 0, n - 1) ; <vertex loop>
    (int_array raises ValueError for n = 0 because lo = 0 > hi = -1)          *)
Definition post_acyclic (st : state) (flags : list expr) (g : graph) : res state :=
  let n := nv g in
  let* '(st1, ranks) := int_array st n 0 (Z.of_nat n - 1) in
  acy_vertex_loop st1 ranks flags g (seq 0 n).

(* ------------------------------------------------------------------------ *)
(* Level S: certificate                                                      *)

(* what the constraints posted for vertex i say about a rank assignment [r]
   and an edge pattern [A] *)
Definition cert_vertex (g : graph) (A : nat -> bool) (r : nat -> Z) (i : nat) : bool :=
  forallb (fun '(j, _) => implb (Nat.ltb i j) (negb (Z.eqb (r i) (r j)))) (incident g i)
  && Nat.leb (count_b (map (fun '(j, e) => Z.ltb (r j) (r i) && A e) (incident g i))) 1.

Definition cert_acyclic (g : graph) (A : nat -> bool) (r : nat -> Z) : bool :=
  forallb (cert_vertex g A r) (seq 0 (nv g)).

Definition ranks_in_range (g : graph) (r : nat -> Z) : bool :=
  forallb (fun i => Z.leb 0 (r i) && Z.leb (r i) (Z.of_nat (nv g) - 1)) (seq 0 (nv g)).

(* ------------------------------------------------------------------------ *)
(* Level S: specification                                                    *)

Definition all_vertices_ok : nat -> bool := fun _ => true.

(* the active edges other than edge number e *)
Definition without (A : nat -> bool) (e : nat) : nat -> bool :=
  fun k => A k && negb (Nat.eqb k e).

(* u and v are joined by a walk of edges selected by [eok] *)
Definition joined (g : graph) (eok : nat -> bool) (u v : nat) : Prop :=
  reach g all_vertices_ok eok u v.

(* every active edge is a bridge of the active-edge subgraph: its endpoints
   are not joined by the other active edges.  Two active parallel edges are
   therefore not a forest, and neither is any longer cycle. *)
Definition forest (g : graph) (A : nat -> bool) : Prop :=
  forall e a b, nth_error (edges g) e = Some (a, b) -> A e = true ->
                ~ joined g (without A e) a b.

(* executable version of the same definition (flood fill of GraphModel) *)
Definition forest_b (g : graph) (A : nat -> bool) : bool :=
  forallb (fun '(e, (a, b)) =>
             negb (A e) || negb (mem b (component g all_vertices_ok (without A e) a)))
          (combine (seq 0 (length (edges g))) (edges g)).

(* a second, independent formulation: union-find over the edge list -- an
   active edge whose endpoints are already joined by earlier active edges
   closes a cycle.  [uf] maps a vertex to its class representative. *)
Definition uf_union (uf : nat -> nat) (a b : nat) : nat -> nat :=
  fun v => if Nat.eqb (uf v) (uf a) then uf b else uf v.
Fixpoint uf_forest_from (uf : nat -> nat) (k : nat) (es : list (nat * nat)) (A : nat -> bool) : bool :=
  match es with
  | [] => true
  | (a, b) :: r =>
      if A k then
        if Nat.eqb (uf a) (uf b) then false else uf_forest_from (uf_union uf a b) (S k) r A
      else uf_forest_from uf (S k) r A
  end.
Definition uf_forest (g : graph) (A : nat -> bool) : bool :=
  uf_forest_from (fun v => v) 0 (edges g) A.

(* ------------------------------------------------------------------------ *)
(* The rank construction of the completeness proof: a discovery order in
   which a vertex that has an active edge into the part already listed is
   preferred; otherwise the least unlisted vertex starts a new tree.  The
   list is kept newest-first; the rank of a vertex is the number of vertices
   listed before it.                                                         *)

Definition attaches (g : graph) (A : nat -> bool) (R : list nat) (v : nat) : bool :=
  negb (mem v R) && existsb (fun '(w, k) => A k && mem w R) (incident g v).

Definition order_step (g : graph) (A : nat -> bool) (R : list nat) : list nat :=
  match find (attaches g A R) (seq 0 (nv g)) with
  | Some v => v :: R
  | None =>
      match find (fun v => negb (mem v R)) (seq 0 (nv g)) with
      | Some v => v :: R
      | None => R
      end
  end.

Fixpoint order_iter (g : graph) (A : nat -> bool) (k : nat) (R : list nat) : list nat :=
  match k with O => R | S k' => order_iter g A k' (order_step g A R) end.

Definition discovery_order (g : graph) (A : nat -> bool) : list nat := order_iter g A (nv g) [].

(* position counted from the end of the newest-first list *)
Fixpoint pos_in (R : list nat) (v : nat) : nat :=
  match R with
  | [] => 0
  | x :: R' => if Nat.eqb x v then length R' else pos_in R' v
  end.

Definition order_rank (g : graph) (A : nat -> bool) (v : nat) : Z :=
  Z.of_nat (pos_in (discovery_order g A) v).

(* ------------------------------------------------------------------------ *)
(* The caller's side of the theorem: the first m entries of is_active_edge are
   BoolExpr-like objects whose value, in every assignment that agrees with the
   caller's assignment [en] on the variables declared so far (ids < k), is the
   pattern bit A e.  (Variables, negations, conjunctions, Python True/False and
   any other boolean expression over the caller's variables are instances; see
   AcyclicFlags.v.)                                                            *)
Definition flags_denote (gsem : op -> list (option value) -> option bool)
    (k : nat) (en : env) (flags : list expr) (m : nat) (A : nat -> bool) : Prop :=
  forall e, (e < m)%nat ->
    exists f, nth_error flags e = Some f /\ is_bool_expr_like f = true /\
              forall en', agree_below k en en' -> eval gsem en' f = Some (VB (A e)).
