(* C11 - bundled puzzle solvers agree with the published rules: final theorems only. *)
From Coq Require Import ZArith List Bool.
From Cspuz Require Import Core.Expr Core.Program Puzzle.PuzzleBase Puzzle.SatAbs Puzzle.SatAbsProofs.

(* Tier 2 evaluator, soundness: an answer accepted by sat_abs is the reading of a
   genuine model (declared domains respected, every posted constraint holds) *)
Theorem C11_sat_abs_sound : forall st kids order ans,
  sat_abs st kids order ans = true ->
  exists en, model_of no_graph en st /\ reads st en kids = ans.
Proof. exact sat_abs_sound. Qed.
Print Assumptions C11_sat_abs_sound.
