(* Mirror of cspuz/graph.py::_division_connected and ::division_connected
   (property C05), statement by statement; plus the certificate checker and the
   graph-theoretic specification the theorems of Graph/DivisionProofs.v relate.
   No proofs here. *)
From Coq Require Import ZArith List Bool Arith.
From Cspuz Require Import Lib.PyErr Core.Expr Core.Program Core.Build Graph.GraphModel.
Import ListNotations.
Open Scope Z_scope.
Open Scope res_scope.

(* ------------------------------------------------------------------------ *)
(* Python pieces used by the two functions                                    *)

Definition nth_res {A} (l : list A) (i : nat) : res A :=
  match nth_error l i with Some a => Ok a | None => Err IndexError end.

(* list[r] / Array1D[r] for a Python int r: negative indices wrap *)
Definition py_nth {A} (l : list A) (r : Z) : res A :=
  let n := Z.of_nat (length l) in
  let p := if r <? 0 then r + n else r in
  if (0 <=? p) && (p <? n) then nth_res l (Z.to_nat p) else Err IndexError.

(* Python `a == b` on IntExprLike operands: two ints compare to a bool; an int
   on the left defers to the reflected IntExpr.__eq__ (operands swapped); so
   does a non-variable IntExpr on the left of an IntVar (for rich comparisons
   CPython tries the right operand first when its class is a proper subclass of
   the left one's); for anything else `==` falls back to identity, i.e. False *)
Definition py_eq (a b : expr) : expr :=
  match a, b with
  | PyInt x, PyInt y => PyBool (x =? y)
  | PyInt _, (IVar _ _ _ | INode _ _) => BNode EQ [b; a]
  | INode _ _, IVar _ _ _ => BNode EQ [b; a]
  | IVar _ _ _, (PyInt _ | IVar _ _ _ | INode _ _) => BNode EQ [a; b]
  | INode _ _, (PyInt _ | INode _ _) => BNode EQ [a; b]
  | _, _ => PyBool false
  end.

Fixpoint zip_with {A B C} (f : A -> B -> C) (l1 : list A) (l2 : list B) : list C :=
  match l1, l2 with
  | a :: r1, b :: r2 => f a b :: zip_with f r1 r2
  | _, _ => []
  end.

(* the `division` argument of _division_connected: a plain Python sequence or
   an IntArray1D (both are only indexed and iterated by the code as it is after
   the fix of the primitive branch, so they behave alike); of
   division_connected: additionally an IntArray2D *)
Inductive seq_arg := SList (l : list expr) | SArr (l : list expr).
Definition seq_data (s : seq_arg) : list expr := match s with SList l | SArr l => l end.
Inductive division_arg := D1 (s : seq_arg) | D2 (h w : nat) (l : list expr).

(* an entry of `roots`: None, an int, or a tuple of ints *)
Inductive root_arg := RNone | RInt (r : Z) | RTup (l : list Z).

(* ------------------------------------------------------------------------ *)
(* the pieces of the primitive branch                                         *)

Definition flat_edges (g : graph) : list expr :=
  flat_map (fun '(a, b) => [PyInt (Z.of_nat a); PyInt (Z.of_nat b)]) (edges g).

(* _active_vertices_connected(solver, is_active, graph, use_graph_primitive=True) *)
Definition avc_primitive_node (g : graph) (is_active : list expr) : res expr :=
  if Nat.eqb (length is_active) (nv g) then
    Ok (BNode G_AVC ([PyInt (Z.of_nat (nv g)); PyInt (Z.of_nat (length (edges g)))]
                     ++ is_active ++ flat_edges g))
  else Err ValueError.

(* ------------------------------------------------------------------------ *)
(* _division_connected, primitive branch                                      *)

(* [region[j] == (division[j] == i) for j in range(n)] : a BoolVar compared
   with a BoolExpr / Python bool is BoolExpr(IFF, [region[j], ...]) *)
Definition region_links (region labels : list expr) (n k : nat) : res (list expr) :=
  mapM (fun j => let* r := nth_res region j in
                 let* d := nth_res labels j in
                 Ok (BNode IFF [r; py_eq d (PyInt (Z.of_nat k))])) (seq 0 n).

Fixpoint prim_regions (st : state) (s : seq_arg) (g : graph) (aeg : bool) (ks : list nat)
  : res state :=
  match ks with
  | [] => Ok st
  | k :: r =>
      let '(st1, region) := bool_array st (nv g) in
      let* links := region_links region (seq_data s) (nv g) k in
      let st2 := ensure st1 links in
      let* node := avc_primitive_node g region in
      let st3 := ensure st2 [node] in
      let* st4 := (if aeg then Ok st3
                   else let* ct := count_true region in Ok (ensure st3 [i_ge ct (PyInt 1)])) in
      prim_regions st4 s g aeg r
  end.

Fixpoint prim_roots (labels : list expr) (k : nat) (rs : list root_arg) : res (list expr) :=
  match rs with
  | [] => Ok []
  | RNone :: r => prim_roots labels (S k) r
  | RInt z :: r =>
      let* d := py_nth labels z in
      let* rest := prim_roots labels (S k) r in
      Ok (py_eq d (PyInt (Z.of_nat k)) :: rest)
  | RTup _ :: _ => Err TypeError
  end.

(* ------------------------------------------------------------------------ *)
(* _division_connected, auxiliary-variable branch                             *)

(* one iteration of `for j, e in graph.incident_edges[i]` : the less_ranks
   entry and the constraints posted (only from the endpoint with i < j) *)
Definition edge_item (labels rank sf : list expr) (i : nat) (je : nat * nat)
  : res (expr * list expr) :=
  let '(j, e) := je in
  let* sfe := nth_res sf e in
  let* ri := nth_res rank i in
  let* rj := nth_res rank j in
  let less := b_and sfe (i_gt ri rj) in
  if Nat.ltb i j then
    let* di := nth_res labels i in
    let* dj := nth_res labels j in
    Ok (less, [b_imp sfe (b_and (py_eq di dj) (i_ne ri rj))])
  else Ok (less, []).

Definition vertex_cons (labels rank root sf : list expr) (g : graph) (i : nat)
  : res (list expr) :=
  let* items := mapM (edge_item labels rank sf i) (incident g i) in
  let* ct := count_true (map fst items) in
  let* rt := nth_res root i in
  Ok (concat (map snd items) ++ [i_eq ct (i_cond rt (PyInt 0) (PyInt 1))]).

Definition region_count (labels root : list expr) (aeg : bool) (k : nat) : res expr :=
  let* ct := count_true (zip_with (fun r d => b_and r (py_eq d (PyInt (Z.of_nat k)))) root labels) in
  Ok (if aeg then i_le ct (PyInt 1) else i_eq ct (PyInt 1)).

Fixpoint aux_roots (labels root : list expr) (k : nat) (rs : list root_arg) : res (list expr) :=
  match rs with
  | [] => Ok []
  | RNone :: r => aux_roots labels root (S k) r
  | RInt z :: r =>
      let* d := py_nth labels z in
      let* rt := py_nth root z in
      let* rest := aux_roots labels root (S k) r in
      Ok (py_eq d (PyInt (Z.of_nat k)) :: rt :: rest)
  | RTup _ :: _ => Err TypeError
  end.

Definition opt_roots (f : list root_arg -> res (list expr)) (roots : option (list root_arg))
  : res (list expr) :=
  match roots with None => Ok [] | Some rs => f rs end.

(* the constraints of the auxiliary branch over given arrays, in posting order *)
Definition aux_constraints (labels rank root sf : list expr) (g : graph) (R : nat)
           (roots : option (list root_arg)) (aeg : bool) : res (list expr) :=
  let* vs := mapM (vertex_cons labels rank root sf g) (seq 0 (nv g)) in
  let* rc := mapM (region_count labels root aeg) (seq 0 R) in
  let* rs := opt_roots (aux_roots labels root 0) roots in
  Ok (concat vs ++ rc ++ rs).

(* _division_connected (use_graph_primitive already resolved against config) *)
Definition post_division (st : state) (s : seq_arg) (R : nat) (g : graph)
           (roots : option (list root_arg)) (aeg : bool) (prim : bool) : res state :=
  let n := nv g in
  let m := length (edges g) in
  if prim then
    let* st1 := prim_regions st s g aeg (seq 0 R) in
    let* rs := opt_roots (prim_roots (seq_data s) 0) roots in
    Ok (ensure st1 rs)
  else
    let* '(st1, rank) := int_array st n 0 (Z.of_nat n - 1) in
    let '(st2, root) := bool_array st1 n in
    let '(st3, sf) := bool_array st2 m in
    let* cs := aux_constraints (seq_data s) rank root sf g R roots aeg in
    Ok (ensure st3 cs).

(* ------------------------------------------------------------------------ *)
(* division_connected (public wrapper)                                        *)

(* roots_conv: (y, x) -> y * width + x; an int is a TypeError in grid form;
   `y, x = a` raises ValueError for a tuple of another length *)
Definition conv_root (w : nat) (a : root_arg) : res root_arg :=
  match a with
  | RNone => Ok RNone
  | RInt _ => Err TypeError
  | RTup [y; x] => Ok (RInt (y * Z.of_nat w + x))
  | RTup _ => Err ValueError
  end.

Definition division_connected (st : state) (dv : division_arg) (R : nat) (g : option graph)
           (roots : option (list root_arg)) (aeg : bool) (cfg_prim : bool) : res state :=
  match g with
  | None =>
      match dv with
      | D2 h w data =>
          let* rc := (match roots with
                      | None => Ok None
                      | Some rs => rmap Some (mapM (conv_root w) rs)
                      end) in
          post_division st (SArr data) R (grid_graph h w) rc aeg cfg_prim
      | D1 _ => Err TypeError
      end
  | Some g =>
      match dv with
      | D2 _ _ _ => Err TypeError
      | D1 s => post_division st s R g roots aeg cfg_prim
      end
  end.

(* ------------------------------------------------------------------------ *)
(* Level S: certificate and specification                                     *)

Definition countb {A} (p : A -> bool) (l : list A) : nat := length (filter p l).

(* the roots list as data: Some v = "vertex v must carry the label of this
   position" (negative Python indices already resolved) *)
Definition root_vertex (n : nat) (a : root_arg) : option (option nat) :=
  match a with
  | RNone => Some None
  | RInt z =>
      let p := if z <? 0 then z + Z.of_nat n else z in
      if (0 <=? p) && (p <? Z.of_nat n) then Some (Some (Z.to_nat p)) else None
  | RTup _ => None
  end.

Fixpoint roots_hold (n : nat) (label : nat -> Z) (k : nat) (rs : list root_arg) : bool :=
  match rs with
  | [] => true
  | a :: r =>
      match root_vertex n a with
      | Some None => roots_hold n label (S k) r
      | Some (Some v) => (label v =? Z.of_nat k) && roots_hold n label (S k) r
      | None => false
      end
  end.

Fixpoint roots_rooted (n : nat) (is_root : nat -> bool) (rs : list root_arg) : bool :=
  match rs with
  | [] => true
  | a :: r =>
      match root_vertex n a with
      | Some (Some v) => is_root v && roots_rooted n is_root r
      | _ => roots_rooted n is_root r
      end
  end.

Definition opt_roots_b (f : list root_arg -> bool) (roots : option (list root_arg)) : bool :=
  match roots with None => true | Some rs => f rs end.

(* certificate of the auxiliary encoding over plain data *)
Definition cert_vertex (g : graph) (label : nat -> Z) (rank : nat -> Z) (is_root forest : nat -> bool)
           (i : nat) : bool :=
  forallb (fun '(j, e) => negb (Nat.ltb i j) ||
             implb (forest e) ((label i =? label j) && negb (rank i =? rank j)))
          (incident g i)
  && Nat.eqb (countb (fun '(j, e) => forest e && (rank j <? rank i)) (incident g i))
             (if is_root i then 0 else 1)%nat.

Definition cert_region (n : nat) (label : nat -> Z) (is_root : nat -> bool) (aeg : bool) (k : nat) : bool :=
  let c := countb (fun v => is_root v && (label v =? Z.of_nat k)) (seq 0 n) in
  if aeg then Nat.leb c 1 else Nat.eqb c 1.

Definition cert_division (g : graph) (R : nat) (label : nat -> Z) (roots : option (list root_arg))
           (aeg : bool) (rank : nat -> Z) (is_root forest : nat -> bool) : bool :=
  forallb (cert_vertex g label rank is_root forest) (seq 0 (nv g))
  && forallb (cert_region (nv g) label is_root aeg) (seq 0 R)
  && opt_roots_b (fun rs => roots_hold (nv g) label 0 rs && roots_rooted (nv g) is_root rs) roots.

Definition ranks_in_range (n : nat) (rank : nat -> Z) : Prop :=
  forall v, (v < n)%nat -> 0 <= rank v <= Z.of_nat n - 1.

(* the specification: every class k < R is connected; every k < R is used
   unless allow_empty_group; each listed root carries the label of its position *)
Definition class_of (label : nat -> Z) (k : nat) : nat -> bool := fun v => label v =? Z.of_nat k.

Definition label_used (n : nat) (label : nat -> Z) (k : nat) : Prop :=
  exists v, (v < n)%nat /\ label v = Z.of_nat k.

Definition spec_division (g : graph) (R : nat) (label : nat -> Z) (roots : option (list root_arg))
           (aeg : bool) : Prop :=
  (forall k, (k < R)%nat -> connected g (class_of label k))
  /\ (aeg = false -> forall k, (k < R)%nat -> label_used (nv g) label k)
  /\ opt_roots_b (roots_hold (nv g) label 0) roots = true.

(* executable form of the specification (used by the search and by examples) *)
Definition spec_division_b (g : graph) (R : nat) (label : nat -> Z) (roots : option (list root_arg))
           (aeg : bool) : bool :=
  forallb (fun k => connected_b g (class_of label k)) (seq 0 R)
  && (aeg || forallb (fun k => existsb (class_of label k) (seq 0 (nv g))) (seq 0 R))
  && opt_roots_b (roots_hold (nv g) label 0) roots.

Definition labels_in_range (n R : nat) (label : nat -> Z) : Prop :=
  forall v, (v < n)%nat -> 0 <= label v < Z.of_nat R.

(* ------------------------------------------------------------------------ *)
(* meaning of the native operator (its specification, by definition)          *)

Fixpoint take_n {A} (n : nat) (l : list A) : option (list A * list A) :=
  match n, l with
  | O, _ => Some ([], l)
  | S k, x :: r => match take_n k r with Some (a, b) => Some (x :: a, b) | None => None end
  | S _, [] => None
  end.

Fixpoint all_bools (l : list (option value)) : option (list bool) :=
  match l with
  | [] => Some []
  | Some (VB b) :: r => option_map (fun t => b :: t) (all_bools r)
  | _ => None
  end.

Fixpoint all_vertices (n : nat) (l : list (option value)) : option (list nat) :=
  match l with
  | [] => Some []
  | Some (VI z) :: r =>
      if (0 <=? z) && (z <? Z.of_nat n) then option_map (fun t => Z.to_nat z :: t) (all_vertices n r) else None
  | _ => None
  end.

Fixpoint pair_up (l : list nat) : list (nat * nat) :=
  match l with a :: b :: r => (a, b) :: pair_up r | _ => [] end.

(* operands: n m a_0 .. a_{n-1} x_0 y_0 .. x_{m-1} y_{m-1} *)
Definition avc_sem (vs : list (option value)) : option bool :=
  match vs with
  | Some (VI n) :: Some (VI m) :: r =>
      if (0 <=? n) && (0 <=? m) then
        match take_n (Z.to_nat n) r with
        | Some (act, es) =>
            if Nat.eqb (length es) (2 * Z.to_nat m) then
              match all_bools act, all_vertices (Z.to_nat n) es with
              | Some a, Some e =>
                  Some (connected_b {| nv := Z.to_nat n; edges := pair_up e |} (fun v => nth v a false))
              | _, _ => None
              end
            else None
        | None => None
        end
      else None
  | _ => None
  end.

Definition division_gsem (o : op) (vs : list (option value)) : option bool :=
  match o with G_AVC => avc_sem vs | _ => None end.
