"""C11 plug-in: fillomino (solve_fillomino(height, width, problem)); 0 = empty, n >= 1 given."""
import c11lib as L

NAME = "fillomino"
MODULE = "cspuz.puzzle.fillomino"
FUNC = "solve_fillomino"
TIER1 = ("Fillomino", "solve_fillomino_model")
TIER1_PRIM = ("FillominoPrim", "solve_fillomino_model_prim")


def call(mod, pb):
    return mod.solve_fillomino(pb["h"], pb["w"], pb["grid"])


def ncand(pb):
    return (pb['h'] * pb['w']) ** (pb['h'] * pb['w'])


def encode(pb):
    return [[pb["h"], pb["w"]], L.flat(pb["grid"])]


def families(tier, rng):
    th = tier == "thorough"
    for (h, w) in [(1, 1), (1, 2), (2, 1), (1, 3), (3, 1)] + ([(2, 2)] if th else []):
        for g in L.all_grids(h, w, list(range(0, h * w + 1))):
            yield {"h": h, "w": w, "grid": g}
    if not th:
        for g in L.sample(rng, L.all_grids(2, 2, [0, 1, 2, 3, 4]), 120):
            yield {"h": 2, "w": 2, "grid": g}
    for (h, w) in [(2, 3), (3, 2), (1, 4), (4, 1), (1, 5)]:
        for _ in range(150 if th else 15):
            yield {"h": h, "w": w, "grid": L.random_grid(rng, h, w, list(range(0, h * w + 1)), 0.6)}


def tier2(tier, rng):
    th = tier == "thorough"
    for (h, w) in [(1, 1), (1, 2), (2, 1)]:
        for g in L.all_grids(h, w, list(range(0, h * w + 1))):
            yield {"h": h, "w": w, "grid": g}


def tier1_problems(tier, rng):
    """program-capture tie: every clue layout of the boards with <= 2 cells and samples of those with 3..6 cells (both
    orientations) over {empty, stray negatives, 1, 2, 3, h*w - 1, h*w, h*w + 1}, random larger / non-square boards up to
    7x7 and 1xN / Nx1 (clue values at and beyond the number of cells, many clues, no clue, all clues), boards without
    cells (ValueError in int_array: domain 1 .. 0) and clue grids with a missing or short last row (IndexError)"""
    th = tier == "thorough"

    def vals(h, w):
        return sorted(set([0, -1, -3, 1, 2, 3, max(h * w - 1, 1), h * w, h * w + 1]))

    for (h, w) in [(1, 1), (1, 2), (2, 1)]:
        for g in L.all_grids(h, w, vals(h, w)):
            yield {"h": h, "w": w, "grid": g}
    for (h, w) in [(1, 3), (3, 1), (2, 2), (1, 4), (4, 1)]:
        for g in L.sample(rng, L.all_grids(h, w, vals(h, w)), 300 if th else 30):
            yield {"h": h, "w": w, "grid": g}
    for (h, w) in [(1, 5), (5, 1), (1, 6), (6, 1), (2, 3), (3, 2)]:
        for p in [0.2, 0.5, 0.8] * (8 if th else 2):
            yield {"h": h, "w": w, "grid": L.random_grid(rng, h, w, vals(h, w), p)}
    for (h, w) in [(3, 3), (2, 5), (5, 2), (4, 4), (3, 6), (6, 5), (1, 7), (7, 1), (7, 7), (4, 7), (7, 3), (5, 5), (2, 7)]:
        for p in [0.5, 0.8, 0.95] * (3 if th else 1):
            yield {"h": h, "w": w, "grid": L.random_grid(rng, h, w, vals(h, w) + [7, 12], p)}
        yield {"h": h, "w": w, "grid": [[0] * w for _ in range(h)]}
        yield {"h": h, "w": w, "grid": [[rng.choice([1, 2, 5, h * w]) for _ in range(w)] for _ in range(h)]}
    for (h, w) in [(0, 0), (0, 2), (2, 0)]:
        yield {"h": h, "w": w, "grid": [[] for _ in range(h)]}
    yield {"h": 2, "w": 2, "grid": [[1, 0]]}            # missing row
    yield {"h": 2, "w": 2, "grid": [[1, 0], [0]]}       # short last row
    yield {"h": 1, "w": 3, "grid": [[-1, 2]]}
    yield {"h": 3, "w": 1, "grid": [[0], [5]]}


def big(tier, rng):
    """long single-row / single-column boards cut into blocks with two-digit sizes (neighbouring blocks differ)"""
    th = tier == "thorough"
    for n in (L.LONG if th else L.sample(rng, L.LONG, 3) + [23]):
        a = rng.randint(10, min(13, n - 1))
        rest = n - a
        sizes = [a, rest] if rest != a else [a, 1, rest - 1]
        if len(sizes) == 3 and (sizes[2] == 1 or sizes[2] == 0):
            continue
        row, ans = [], []
        for s_ in sizes:
            blk = [0] * s_
            blk[rng.randrange(s_)] = s_
            row += blk
            ans += [s_] * s_
        yield {"h": 1, "w": n, "grid": [row], "planted": [ans]}
        yield {"h": n, "w": 1, "grid": [[v] for v in row], "planted": [ans]}
