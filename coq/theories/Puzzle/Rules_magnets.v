(* C11 rule specification - Magnets.
   Published rules (Janko.at "Magnete"; the same puzzle as "Magnets" in Simon Tatham's
   Portable Puzzle Collection, whose manual says: "A rectangular grid has been filled with
   a mixture of magnets (that is, dominoes with one positive end and one negative end) and
   blank dominoes (that is, dominoes with two neutral poles). [...] Around the grid are
   placed a number of clues indicating the number of positive and negative poles contained
   in certain columns and rows. Your aim is to correctly place the magnets and blank
   dominoes such that all the clues are satisfied, with the additional constraint that no
   two similar magnetic poles may be orthogonally adjacent (since they repel). Neutral
   poles do not repel, and can be adjacent to any other pole."):
     1. The board is divided into plates of two cells (dominoes).  Every plate is either a
        magnet - one of its halves is the positive pole (+), the other the negative pole
        (-) - or neutral: both halves stay blank.
     2. Two halves carrying the same pole (+ and +, or - and -) are never horizontally or
        vertically adjacent.
     3. A number outside the grid tells how many + halves (first number) resp. - halves
        (second number) the row or column contains; where no number is given the count is
        free.

   problem = [[h; w]; to_right; to_down; row_plus; row_minus; col_plus; col_minus]
       to_right, to_down : h*w flags row-major (solve_magnets' nested lists, truthiness as 0/1):
                           to_right(y, x) <> 0  -  the cells (y, x) and (y, x+1) are the two halves of a plate
                           to_down(y, x)  <> 0  -  the cells (y, x) and (y+1, x) are the two halves of a plate
                           (a flag in the last column resp. last row would name a cell outside the board:
                           solve_magnets raises IndexError, such problems are outside the domain)
       row_plus, row_minus : h clues  = cond_row[y][0], cond_row[y][1];  negative = no clue
       col_plus, col_minus : w clues  = cond_col[x][0], cond_col[x][1];  negative = no clue
   answer  = the arrays (plus, minus) solve_magnets returns, each h*w cells row-major:
             plus(y, x) = 1 - the cell is a + half; minus(y, x) = 1 - the cell is a - half;
             both 0 - the cell is blank.

   Reading choices.
   * The published puzzle (and generate_magnets) always divides the whole board into dominoes.
     The specification below states rule 1 per plate: every pair of cells named by a flag is
     "+ and -" or "- and +" or "blank and blank", and a cell is never + and - at once.  For a
     proper division this is exactly rule 1.  For layouts that are not a division (a cell in
     no plate, or in several) the published rules say nothing; per-plate reading: a cell in no
     plate is free to be +, - or blank, overlapping plates must each obey rule 1.
   * Clues may be any integer; a non-negative clue larger than the line admits no grid. *)
From Coq Require Import ZArith List Bool Arith.
From Cspuz Require Import Puzzle.PuzzleBase.
Import ListNotations.

(* the plates of the board, each as the pair of its two halves *)
Definition plates (h w : nat) (to_right to_down : list Z) : list ((nat * nat) * (nat * nat)) :=
  flat_map (fun '(y, x) =>
              (if (at2 to_right w y x =? 0)%Z then [] else [((y, x), (y, S x))]) ++
              (if (at2 to_down w y x =? 0)%Z then [] else [((y, x), (S y, x))])) (cells h w).

(* a clue c is met by a count k; negative = no clue *)
Definition clue_ok (c : Z) (k : nat) : bool := (c <? 0)%Z || (Z.of_nat k =? c)%Z.

Definition rules_magnets (pb : problem) (ans : answer) : bool :=
  let h := dim pb 0 in let w := dim pb 1 in
  let cs := cells h w in
  let plus := fun '(y, x) => isb (getz ans (y * w + x)) in
  let minus := fun '(y, x) => isb (getz ans (h * w + (y * w + x))) in
  let blank := fun c => negb (plus c) && negb (minus c) in
  Nat.eqb (length ans) (2 * (h * w)) && forallb is01 ans &&
  (* a cell carries at most one pole *)
  forallb (fun c => negb (plus c && minus c)) cs &&
  (* rule 1: every plate is a magnet or neutral *)
  forallb (fun '(a, b) => (plus a && minus b) || (minus a && plus b) || (blank a && blank b))
          (plates h w (sec pb 1) (sec pb 2)) &&
  (* rule 2: equal poles are never orthogonally adjacent *)
  forallb (fun '(y, x) => negb (plus (y, x)) || negb (existsb plus (nbr4 h w y x))) cs &&
  forallb (fun '(y, x) => negb (minus (y, x)) || negb (existsb minus (nbr4 h w y x))) cs &&
  (* rule 3: the numbers of + and - halves of the rows and columns *)
  forallb (fun y => let row := map (fun x => (y, x)) (seq 0 w) in
                    clue_ok (getz (sec pb 3) y) (count plus row) &&
                    clue_ok (getz (sec pb 4) y) (count minus row)) (seq 0 h) &&
  forallb (fun x => let col := map (fun y => (y, x)) (seq 0 h) in
                    clue_ok (getz (sec pb 5) x) (count plus col) &&
                    clue_ok (getz (sec pb 6) x) (count minus col)) (seq 0 w).

Definition answers_magnets (pb : problem) : list answer :=
  all_answers (bool_doms (2 * (dim pb 0 * dim pb 1))).
