(* C11 Tier 1 - model of cspuz/puzzle/firefly.py::solve_firefly(height, width, problem), all board shapes with
   height, width >= 1 (height x width lattice points, E = height*(width-1) + (height-1)*width segments):
       has_line = BoolGridFrame(solver, height - 1, width - 1); solver.add_answer_key(has_line)     ids 0 .. E-1
       line_ul, line_dr = two more frames                                                            ids E .., 2E ..
       ensure(has_line == (line_ul | line_dr));  ensure(~(line_ul & line_dr))                        per segment
       ignored_edge = a fourth frame; ensure(count_true(ignored_edge) == 1)                          ids 3E ..
       rank = int_array((height, width), 0, height*width - 1)                                        ids 4E ..
       (line_ul & ~ignored_edge).then(rank[first point] < rank[second point])      horizontal, then vertical segments
       (line_dr & ~ignored_edge).then(rank[first point] > rank[second point])      horizontal, then vertical segments
       max_n_turn = the largest number on a firefly (0 if none); n_turn_unknown = max_n_turn + 1
       n_turn_horizontal, n_turn_vertical = int arrays of the frame's shape, 0 .. max_n_turn + 1    ids 4E + height*width ..
       for y: for x:   adj = [up, down, left, right], each present when the neighbour exists:
                       (line_in, line_out, n_turn) of the segment towards that neighbour; line_in is the frame of the
                       orientation pointing at (y, x): line_dr for up / left, line_ul for down / right
           firefly with the dot towards d:
               the neighbour does not exist: ensure(False); break        (the rest of the ROW is skipped)
               ensure(line_out[d]); ensure(n_turn[d] == number)  (n_turn_unknown for '?')
               for every other present i: ensure(~line_out[i]); ensure(line_in[i].then((n_turn[i] == 0) | (n_turn[i] == n_turn_unknown)))
           no firefly:
               ensure(count_true(line_in of the present) <= 1); ensure(count_true(line_in ..) == count_true(line_out ..))
               for present i != j: straight (i // 2 == j // 2): (line_in[i] & line_out[j]).then(n_turn[i] == n_turn[j])
                   turn: (line_in[i] & line_out[j]).then(((n_turn[i] == unknown) & (n_turn[j] == unknown)) | (n_turn[i] == n_turn[j] + 1))
   All variables of one segment have the segment's index (PuzzleBase.hseg / vseg = the flattened frame) as offset.
   No helper of cspuz.graph is called: the connectivity encoding (orientation + one ignored segment + ranks) is local.
   The problem uses the encoding of Rules_firefly.v ([[h; w]; dir; num], row-major): dir 1..4 = ^ v < >, any other
   value = no firefly (the Python raises ValueError on a first character outside ". ^ v < >"; such strings cannot be
   written in the encoding); num < 0 = '?', otherwise the number (the Python reads it with int(); a negative number
   string is outside the module's alphabet and cannot be told from '?' in the encoding - the plug-in never makes one).
   Malformed inputs: height <= 0 or width <= 0 is rejected with ValueError (the Python raises ValueError from
   Array2D.__init__ while the first frame is declared); a dir / num list shorter than height * width with IndexError
   (the Python raises IndexError at the first missing row / cell while max_n_turn is computed; the plug-in's malformed
   problems only drop trailing cells / rows).  No proofs here. *)
From Coq Require Import ZArith List Bool Arith.
From Cspuz Require Import Lib.PyErr Core.Expr Core.Program Graph.GraphModel
     Puzzle.PuzzleBase Puzzle.ModelBase Puzzle.Rules_firefly.
Import ListNotations.
Local Open Scope nat_scope.

Section Ids.
  Variables (H W : nat).
  Definition ff_E : nat := n_lattice_edges H W.
  Definition ff_ul (e : nat) : nat := ff_E + e.
  Definition ff_dr (e : nat) : nat := 2 * ff_E + e.
  Definition ff_ig (e : nat) : nat := 3 * ff_E + e.
  Definition ff_rk (v : nat) : nat := 4 * ff_E + v.
  Definition ff_nt (e : nat) : nat := 4 * ff_E + H * W + e.

  (* does point (y, x) have a neighbour in direction d (0 up, 1 down, 2 left, 3 right) *)
  Definition ff_dir_ok (y x d : nat) : bool :=
    match d with
    | 0 => Nat.ltb 0 y
    | 1 => Nat.ltb (S y) H
    | 2 => Nat.ltb 0 x
    | _ => Nat.ltb (S x) W
    end.
  (* ids of line_in / line_out of the segment leaving (y, x) in direction d *)
  Definition ff_in (y x d : nat) : nat :=
    let e := ff_seg_id H W y x d in
    match d with 0 | 2 => ff_dr e | _ => ff_ul e end.
  Definition ff_out (y x d : nat) : nat :=
    let e := ff_seg_id H W y x d in
    match d with 0 | 2 => ff_ul e | _ => ff_dr e end.
End Ids.

Section Cons.
  Variables (H W : nat) (dir num : list Z) (M : Z).      (* M = max_n_turn *)

  Definition ff_rank (v : nat) : expr := IVar (ff_rk H W v) 0 (Z.of_nat (H * W) - 1).
  Definition ff_turns (y x d : nat) : expr := IVar (ff_nt H W (ff_seg_id H W y x d)) 0 (M + 1).
  Definition ff_unk : Z := (M + 1)%Z.

  (* has_line == (line_ul | line_dr), ~(line_ul & line_dr), count_true(ignored_edge) == 1 *)
  Definition ff_orient : list expr :=
    map (fun e => BNode IFF [BVar e; BNode OR [BVar (ff_ul H W e); BVar (ff_dr H W e)]]) (seq 0 (ff_E H W)) ++
    map (fun e => BNode NOT [BNode AND [BVar (ff_ul H W e); BVar (ff_dr H W e)]]) (seq 0 (ff_E H W)) ++
    [BNode EQ [ct_vars (map (ff_ig H W) (seq 0 (ff_E H W))); PyInt 1]].

  (* one rank constraint: the orientation variable o of segment e between the points a (first) and b (second) *)
  Definition ff_rank1 (o : nat -> nat) (cmp : op) (e a b : nat) : expr :=
    BNode IMP [BNode AND [BVar (o e); BNode NOT [BVar (ff_ig H W e)]]; BNode cmp [ff_rank a; ff_rank b]].
  Definition ff_rank_h (o : nat -> nat) (cmp : op) : list expr :=
    map (fun '(y, x) => ff_rank1 o cmp (hseg H W y x) (y * W + x) (y * W + S x)) (cells H (W - 1)).
  Definition ff_rank_v (o : nat -> nat) (cmp : op) : list expr :=
    map (fun '(y, x) => ff_rank1 o cmp (vseg H W y x) (y * W + x) (S y * W + x)) (cells (H - 1) W).
  Definition ff_ranks : list expr :=
    ff_rank_h (ff_ul H W) LT ++ ff_rank_v (ff_ul H W) LT ++ ff_rank_h (ff_dr H W) GT ++ ff_rank_v (ff_dr H W) GT.

  (* a firefly on (y, x) whose dot points at an existing neighbour d0 *)
  Definition ff_fly (y x d0 : nat) (n : Z) : list expr :=
    [BVar (ff_out H W y x d0);
     BNode EQ [ff_turns y x d0; PyInt (if (n <? 0)%Z then ff_unk else n)]] ++
    flat_map (fun i =>
       if ff_dir_ok H W y x i && negb (Nat.eqb i d0)
       then [BNode NOT [BVar (ff_out H W y x i)];
             BNode IMP [BVar (ff_in H W y x i);
                        BNode OR [BNode EQ [ff_turns y x i; PyInt 0]; BNode EQ [ff_turns y x i; PyInt ff_unk]]]]
       else []) [0; 1; 2; 3].

  (* a point without firefly *)
  Definition ff_pass (y x i j : nat) : expr :=
    if Nat.eqb (i / 2) (j / 2)
    then BNode IMP [BNode AND [BVar (ff_in H W y x i); BVar (ff_out H W y x j)];
                    BNode EQ [ff_turns y x i; ff_turns y x j]]
    else BNode IMP [BNode AND [BVar (ff_in H W y x i); BVar (ff_out H W y x j)];
                    BNode OR [BNode AND [BNode EQ [ff_turns y x i; PyInt ff_unk];
                                         BNode EQ [ff_turns y x j; PyInt ff_unk]];
                              BNode EQ [ff_turns y x i; INode ADD [ff_turns y x j; PyInt 1]]]].
  Definition ff_plain (y x : nat) : list expr :=
    let present := filter (ff_dir_ok H W y x) [0; 1; 2; 3] in
    [BNode LE [ct_vars (map (ff_in H W y x) present); PyInt 1];
     BNode EQ [ct_vars (map (ff_in H W y x) present); ct_vars (map (ff_out H W y x) present)]] ++
    flat_map (fun i => flat_map (fun j =>
       if ff_dir_ok H W y x i && ff_dir_ok H W y x j && negb (Nat.eqb i j) then [ff_pass y x i j] else [])
       [0; 1; 2; 3]) [0; 1; 2; 3].

  (* one row, left to right; a firefly pointing off the board posts False and ends the row *)
  Fixpoint ff_row (y : nat) (xs : list nat) : list expr :=
    match xs with
    | [] => []
    | x :: r =>
        if ff_is dir W y x then
          let d0 := ff_dot dir W y x in
          if ff_dir_ok H W y x d0 then ff_fly y x d0 (at2 num W y x) ++ ff_row y r
          else [PyBool false]
        else ff_plain y x ++ ff_row y r
    end.
  Definition ff_points : list expr := flat_map (fun y => ff_row y (seq 0 W)) (seq 0 H).
End Cons.

(* max_n_turn *)
Definition ff_max_turn (H W : nat) (dir num : list Z) : Z :=
  fold_left Z.max
    (map (fun '(y, x) => if ff_is dir W y x && (0 <=? at2 num W y x)%Z then at2 num W y x else 0%Z) (cells H W)) 0%Z.

Definition firefly_state (H W : nat) (dir num : list Z) : state :=
  let E := ff_E H W in
  let M := ff_max_turn H W dir num in
  {| vars := repeat DBool (4 * E) ++ repeat (DInt 0 (Z.of_nat (H * W) - 1)) (H * W) ++ repeat (DInt 0 (M + 1)) E;
     keys := repeat true E ++ repeat false (3 * E + H * W + E);
     cons := ff_orient H W ++ ff_ranks H W ++ ff_points H W dir num M |}.

Definition solve_firefly_model (pb : problem) : res state :=
  let H := dim pb 0 in let W := dim pb 1 in
  let dir := sec pb 1 in let num := sec pb 2 in
  if ((getz (sec pb 0) 0 <=? 0) || (getz (sec pb 0) 1 <=? 0))%Z then Err ValueError
  else if Nat.ltb (length dir) (H * W) || Nat.ltb (length num) (H * W) then Err IndexError
  else Ok (firefly_state H W dir num).
