"""Shared by pC01 / pC02: generator of *surface programs* (what a user writes with
cspuz's operators and helper functions), their ordinary meaning (an evaluator
written against the property text, independent of cspuz and of the Coq model),
construction of the real cspuz objects through the public API, brute-force
enumeration over the declared domains, and a structural renderer of z3 ASTs.

Surface terms (nested tuples):
  ("L", v)                       Python bool / int literal
  ("BV", i) / ("IV", i)          declared variable number i
  ("neg", a) ("add", a, b) ("sub", a, b)                       -a, a+b, a-b
  ("eq"|"ne"|"le"|"lt"|"ge"|"gt", a, b)                        int comparisons
  ("not", a) ("and", a, b) ("or", a, b) ("iff", a, b) ("xor", a, b) ("xor2", a, b)
                                  ~a  a&b  a|b  a==b  a!=b  a^b
  ("then", a, b) ("cond", c, t, f)
  ("count_true", [..]) ("fold_and", [..]) ("fold_or", [..]) ("alldiff", [..])
  ("node", "B"|"I", OPNAME, [..])  the class constructor called directly (n-ary forms,
                                  literal-only operands, *_CONSTANT nodes)
"""
import itertools

INT_CMP = ("eq", "ne", "le", "lt", "ge", "gt")


# ----------------------------------------------------------------- ordinary meaning

def seval(t, env):
    """ordinary arithmetic / logical meaning of a surface term under env (list of values)."""
    k = t[0]
    if k == "L":
        return t[1]
    if k in ("BV", "IV"):
        return env[t[1]]
    if k == "neg":
        return -seval(t[1], env)
    if k == "add":
        return seval(t[1], env) + seval(t[2], env)
    if k == "sub":
        return seval(t[1], env) - seval(t[2], env)
    if k in INT_CMP:
        a, b = seval(t[1], env), seval(t[2], env)
        return {"eq": a == b, "ne": a != b, "le": a <= b, "lt": a < b, "ge": a >= b, "gt": a > b}[k]
    if k == "not":
        return not seval(t[1], env)
    if k == "and":
        return bool(seval(t[1], env)) and bool(seval(t[2], env))
    if k == "or":
        return bool(seval(t[1], env)) or bool(seval(t[2], env))
    if k == "iff":
        return bool(seval(t[1], env)) == bool(seval(t[2], env))
    if k in ("xor", "xor2"):
        return bool(seval(t[1], env)) != bool(seval(t[2], env))
    if k == "then":
        return (not seval(t[1], env)) or bool(seval(t[2], env))
    if k == "cond":
        return seval(t[2], env) if seval(t[1], env) else seval(t[3], env)
    if k == "count_true":
        return sum(1 for x in t[1] if seval(x, env))
    if k == "fold_and":
        return all(bool(seval(x, env)) for x in t[1])
    if k == "fold_or":
        return any(bool(seval(x, env)) for x in t[1])
    if k == "alldiff":
        vs = [seval(x, env) for x in t[1]]
        return len(set(vs)) == len(vs)
    if k == "node":
        _, cls, op, args = t
        vs = [seval(x, env) for x in args]
        if op in ("BOOL_CONSTANT", "INT_CONSTANT"):
            return vs[0]
        if op == "NEG":
            return -vs[0]
        if op == "ADD":
            return sum(vs)
        if op == "SUB":
            return vs[0] - sum(vs[1:])
        if op == "EQ":
            return vs[0] == vs[1]
        if op == "NE":
            return vs[0] != vs[1]
        if op == "LE":
            return vs[0] <= vs[1]
        if op == "LT":
            return vs[0] < vs[1]
        if op == "GE":
            return vs[0] >= vs[1]
        if op == "GT":
            return vs[0] > vs[1]
        if op == "NOT":
            return not vs[0]
        if op == "AND":
            return all(vs)
        if op == "OR":
            return any(vs)
        if op == "IFF":
            return bool(vs[0]) == bool(vs[1])
        if op == "XOR":
            return bool(vs[0]) != bool(vs[1])
        if op == "IMP":
            return (not vs[0]) or bool(vs[1])
        if op == "IF":
            return vs[1] if vs[0] else vs[2]
        if op == "ALLDIFF":
            return len(set(vs)) == len(vs)
    raise ValueError("seval: " + repr(t))


# ----------------------------------------------------------------- build real objects

def build(t, variables):
    """construct the cspuz object a user gets when writing the surface term
    (operators / helper functions; Python evaluates literal-only subterms itself)."""
    from cspuz import constraints as C
    from cspuz.expr import BoolExpr, Expr, IntExpr, Op
    k = t[0]
    if k == "L":
        return t[1]
    if k in ("BV", "IV"):
        return variables[t[1]]
    if k == "node":
        _, cls, op, args = t
        return (BoolExpr if cls == "B" else IntExpr)(Op[op], [build(x, variables) for x in args])
    if k in ("count_true", "fold_and", "fold_or", "alldiff"):
        xs = [build(x, variables) for x in t[1]]
        f = {"count_true": C.count_true, "fold_and": C.fold_and, "fold_or": C.fold_or, "alldiff": C.alldifferent}[k]
        return f(xs) if len(xs) % 2 == 0 else f(*xs)      # both calling conventions
    xs = [build(x, variables) for x in t[1:]]
    any_expr = any(isinstance(x, Expr) for x in xs)
    if k == "neg":
        return -xs[0] if any_expr else IntExpr(Op.NEG, xs)
    if k == "add":
        return xs[0] + xs[1] if any_expr else IntExpr(Op.ADD, xs)
    if k == "sub":
        return xs[0] - xs[1] if any_expr else IntExpr(Op.SUB, xs)
    if k in INT_CMP:
        if not any_expr:
            return BoolExpr(Op[k.upper()], xs)
        a, b = xs
        return {"eq": lambda: a == b, "ne": lambda: a != b, "le": lambda: a <= b, "lt": lambda: a < b,
                "ge": lambda: a >= b, "gt": lambda: a > b}[k]()
    if k == "not":
        return ~xs[0] if any_expr else BoolExpr(Op.NOT, xs)
    if k == "and":
        return xs[0] & xs[1] if any_expr else BoolExpr(Op.AND, xs)
    if k == "or":
        return xs[0] | xs[1] if any_expr else BoolExpr(Op.OR, xs)
    if k == "iff":
        return (xs[0] == xs[1]) if any_expr else BoolExpr(Op.IFF, xs)
    if k == "xor":
        return (xs[0] != xs[1]) if any_expr else BoolExpr(Op.XOR, xs)
    if k == "xor2":
        return (xs[0] ^ xs[1]) if any_expr else BoolExpr(Op.XOR, xs)
    if k == "then":
        return xs[0].then(xs[1]) if isinstance(xs[0], Expr) else C.then(xs[0], xs[1])
    if k == "cond":
        return xs[0].cond(xs[1], xs[2]) if isinstance(xs[0], Expr) else C.cond(xs[0], xs[1], xs[2])
    raise ValueError("build: " + repr(t))


def show_surface(t):
    k = t[0]
    if k == "L":
        return repr(t[1])
    if k == "BV":
        return "b%d" % t[1]
    if k == "IV":
        return "i%d" % t[1]
    if k == "node":
        return "%sExpr(%s,[%s])" % ("Bool" if t[1] == "B" else "Int", t[2], ", ".join(show_surface(x) for x in t[3]))
    if k in ("count_true", "fold_and", "fold_or", "alldiff"):
        return "%s([%s])" % (k, ", ".join(show_surface(x) for x in t[1]))
    return "%s(%s)" % (k, ", ".join(show_surface(x) for x in t[1:]))


# ----------------------------------------------------------------- generator

class Gen:
    """typed generator of surface terms over the declared variables `decls`
    (list of "b" | ("i", lo, hi))."""

    def __init__(self, rng, decls, lit_p=0.25, force_p=0.10, max_ar=4, count=None):
        self.rng, self.decls, self.lit_p, self.force_p, self.max_ar = rng, decls, lit_p, force_p, max_ar
        self.bvars = [i for i, d in enumerate(decls) if d == "b"]
        self.ivars = [i for i, d in enumerate(decls) if d != "b"]
        self.count = count or (lambda k: None)

    def lit_int(self):
        return ("L", self.rng.choice([0, 1, 2, -1, 3, -2, 5]))

    def lit_bool(self):
        return ("L", self.rng.random() < 0.5)

    def leaf_int(self):
        if self.ivars and self.rng.random() > self.lit_p:
            return ("IV", self.rng.choice(self.ivars))
        return self.lit_int()

    def leaf_bool(self):
        if self.bvars and self.rng.random() > self.lit_p:
            return ("BV", self.rng.choice(self.bvars))
        return self.lit_bool()

    def ints(self, d, n):
        return [self.gint(d) for _ in range(n)]

    def bools(self, d, n):
        return [self.gbool(d) for _ in range(n)]

    def nary_bool_list(self, d):
        """operand list for fold_and / fold_or / count_true / n-ary AND / OR; the empty,
        singleton and constant-only forms are forced with probability force_p."""
        r = self.rng
        if r.random() < self.force_p:
            form = r.choice(["empty", "single", "const", "const1"])
            self.count("forced:" + form)
            if form == "empty":
                return []
            if form == "single":
                return [self.gbool(d)]
            if form == "const1":
                return [self.lit_bool()]
            return [self.lit_bool() for _ in range(r.randint(2, 3))]
        return self.bools(d, r.randint(0, self.max_ar))

    def nary_int_list(self, d, lo=0):
        r = self.rng
        if r.random() < self.force_p:
            form = r.choice(["empty", "single", "const", "const1"] if lo == 0 else ["single", "const", "const1"])
            self.count("forced:" + form)
            if form == "empty":
                return []
            if form == "single":
                return [self.gint(d)]
            if form == "const1":
                return [self.lit_int()]
            return [self.lit_int() for _ in range(r.randint(2, 3))]
        return self.ints(d, r.randint(lo, self.max_ar))

    def gint(self, d):
        r = self.rng
        if d <= 0 or r.random() < 0.15:
            return self.leaf_int()
        if r.random() < self.lit_p * 0.5:
            return self.lit_int()
        c = r.choice(["neg", "add", "sub", "addn", "subn", "cond", "count_true", "iconst", "add", "sub", "cond"])
        self.count("op:" + c)
        if c == "neg":
            return ("neg", self.gint(d - 1))
        if c in ("add", "sub"):
            return (c, self.gint(d - 1), self.gint(d - 1))
        if c == "addn":
            return ("node", "I", "ADD", self.nary_int_list(d - 1, lo=1))
        if c == "subn":
            return ("node", "I", "SUB", self.nary_int_list(d - 1, lo=1))
        if c == "cond":
            return ("cond", self.gbool(d - 1), self.gint(d - 1), self.gint(d - 1))
        if c == "count_true":
            return ("count_true", self.nary_bool_list(d - 1))
        return ("node", "I", "INT_CONSTANT", [self.lit_int()])

    def gbool(self, d):
        r = self.rng
        if d <= 0 or r.random() < 0.12:
            return self.leaf_bool()
        if r.random() < self.lit_p * 0.4:
            return self.lit_bool()
        c = r.choice(["cmp", "cmp", "cmp", "not", "and", "or", "iff", "xor", "xor2", "then", "andn", "orn",
                      "fold_and", "fold_or", "alldiff", "bconst", "nodebin"])
        self.count("op:" + c)
        if c == "cmp":
            k = r.choice(INT_CMP)
            self.count("cmp:" + k)
            return (k, self.gint(d - 1), self.gint(d - 1))
        if c == "not":
            return ("not", self.gbool(d - 1))
        if c in ("and", "or", "iff", "xor", "xor2", "then"):
            return (c, self.gbool(d - 1), self.gbool(d - 1))
        if c == "andn":
            return ("node", "B", "AND", self.nary_bool_list(d - 1))
        if c == "orn":
            return ("node", "B", "OR", self.nary_bool_list(d - 1))
        if c in ("fold_and", "fold_or"):
            return (c, self.nary_bool_list(d - 1))
        if c == "alldiff":
            return ("alldiff", self.nary_int_list(d - 1))
        if c == "bconst":
            return ("node", "B", "BOOL_CONSTANT", [self.lit_bool()])
        # direct binary nodes with possibly literal-only operands
        op = r.choice(["IFF", "XOR", "IMP", "NOT", "EQ", "NE", "LE", "LT", "GE", "GT", "IF0", "NEG0"])
        if op == "NOT":
            return ("node", "B", "NOT", [self.gbool(d - 1)])
        if op in ("IFF", "XOR", "IMP"):
            return ("node", "B", op, [self.gbool(d - 1), self.gbool(d - 1)])
        if op == "IF0":
            return ("eq", ("node", "I", "IF", [self.gbool(d - 1), self.gint(d - 1), self.gint(d - 1)]), self.gint(d - 1))
        if op == "NEG0":
            return ("le", ("node", "I", "NEG", [self.gint(d - 1)]), self.gint(d - 1))
        return ("node", "B", op, [self.gint(d - 1), self.gint(d - 1)])


DOMAINS_SMALL = [(0, 1), (0, 2), (1, 3), (-1, 1), (-3, -1), (2, 2), (-2, -2), (0, 3), (0, 0), (-2, 1)]
DOMAINS_WIDE = [(-1000, 1000), (0, 10 ** 6), (-10 ** 9, -5), (0, 2 ** 40)]


def gen_decls(rng, nmax=4, wide=False, empty_p=0.03):
    n = rng.randint(0, nmax)
    ds = []
    for _ in range(n):
        if rng.random() < 0.45:
            ds.append("b")
        elif wide and rng.random() < 0.35:
            ds.append(("i",) + rng.choice(DOMAINS_WIDE))
        elif rng.random() < empty_p:
            ds.append(("i", 2, 1))       # Solver.int_var does not reject lo > hi: empty domain
        else:
            ds.append(("i",) + rng.choice(DOMAINS_SMALL))
    return ds


def declare(solver, decls):
    vs = []
    for d in decls:
        vs.append(solver.bool_var() if d == "b" else solver.int_var(d[1], d[2]))
    return vs


def all_envs(decls):
    doms = [[False, True] if d == "b" else list(range(d[1], d[2] + 1)) for d in decls]
    return itertools.product(*doms)


def n_envs(decls):
    n = 1
    for d in decls:
        n *= 2 if d == "b" else max(0, d[2] - d[1] + 1)
    return n


def models(decls, cons):
    """all assignments within the declared domains making every surface constraint true."""
    out = []
    for env in all_envs(decls):
        if all(bool(seval(c, env)) for c in cons):
            out.append(tuple(env))
    return out


def decls_tok(decls):
    return "[" + "".join(" b" if d == "b" else " i:%d:%d" % (d[1], d[2]) for d in decls) + " ]"


def state_tok(decls, keys, trees):
    import exprio
    return "V %s K [%s ] C %s" % (decls_tok(decls), "".join(" 1" if k else " 0" for k in keys), exprio.show_list(trees))


def env_tok(decls, env):
    """values of an assignment as tokens: T/F for bools, ints as is."""
    out = []
    for d, v in zip(decls, env):
        out.append(("T" if v else "F") if d == "b" else str(int(v)))
    return "[" + "".join(" " + x for x in out) + " ]"


# ----------------------------------------------------------------- z3 AST renderer

_Z3K = None


def z3_render(r):
    """structural rendering of what _convert_expr returned (Python literal or z3 AST)
    in the syntax printed by the extracted model (Backend/Z3.v::zterm)."""
    import z3
    global _Z3K
    if _Z3K is None:
        _Z3K = {z3.Z3_OP_UMINUS: "neg", z3.Z3_OP_ADD: "add", z3.Z3_OP_SUB: "sub", z3.Z3_OP_EQ: "eq",
                z3.Z3_OP_LE: "le", z3.Z3_OP_LT: "lt", z3.Z3_OP_GE: "ge", z3.Z3_OP_GT: "gt",
                z3.Z3_OP_NOT: "not", z3.Z3_OP_AND: "and", z3.Z3_OP_OR: "or", z3.Z3_OP_XOR: "xor",
                z3.Z3_OP_ITE: "ite", z3.Z3_OP_DISTINCT: "distinct"}
    if r is True:
        return "T"
    if r is False:
        return "F"
    if r is None:
        return "N"
    if isinstance(r, int):
        return "#%d" % r

    def walk(t):
        if z3.is_int_value(t):
            return "%d" % t.as_long()
        if z3.is_true(t):
            return "true"
        if z3.is_false(t):
            return "false"
        k = t.decl().kind()
        if k == z3.Z3_OP_UNINTERPRETED and t.num_args() == 0:
            return t.decl().name()
        if k not in _Z3K:
            return "?%s" % t.decl().name()
        return "( " + _Z3K[k] + "".join(" " + walk(t.arg(i)) for i in range(t.num_args())) + " )"
    if not z3.is_expr(r):
        return "?" + type(r).__name__
    return "Z " + walk(r)


# ----------------------------------------------------------------- shrinking helpers

BOOL_KINDS = set(INT_CMP) | {"not", "and", "or", "iff", "xor", "xor2", "then", "fold_and", "fold_or", "alldiff", "BV"}


def stype(t):
    k = t[0]
    if k == "L":
        return "b" if isinstance(t[1], bool) else "i"
    if k == "node":
        return "b" if t[1] == "B" else "i"
    return "b" if k in BOOL_KINDS else "i"


def children(t):
    k = t[0]
    if k in ("L", "BV", "IV"):
        return []
    if k == "node":
        return list(t[3])
    if k in ("count_true", "fold_and", "fold_or", "alldiff"):
        return list(t[1])
    return list(t[1:])


def with_children(t, cs):
    k = t[0]
    if k == "node":
        return (t[0], t[1], t[2], list(cs))
    if k in ("count_true", "fold_and", "fold_or", "alldiff"):
        return (k, list(cs))
    return (k,) + tuple(cs)


def size(t):
    return 1 + sum(size(c) for c in children(t))


def variants(t):
    """smaller terms of the same type: a same-typed strict subterm, a literal, or t
    with one child replaced by one of its variants / an n-ary list with one element dropped."""
    ty = stype(t)
    for c in children(t):
        if stype(c) == ty:
            yield c
    if t[0] not in ("L",):
        for v in ((True, False) if ty == "b" else (0, 1)):
            yield ("L", v)
    cs = children(t)
    if t[0] in ("count_true", "fold_and", "fold_or", "alldiff") or (t[0] == "node" and t[2] in ("AND", "OR", "ADD", "SUB", "ALLDIFF")):
        for i in range(len(cs)):
            if not (t[0] == "node" and t[2] in ("ADD", "SUB") and len(cs) == 1):
                yield with_children(t, cs[:i] + cs[i + 1:])
    for i, c in enumerate(cs):
        for v in variants(c):
            yield with_children(t, cs[:i] + [v] + cs[i + 1:])


def shrink(decls, cons, fails, budget=250):
    """greedy minimisation of a failing program (list of surface constraints)."""
    cons = list(cons)
    used = [0]

    def ok(cs):
        used[0] += 1
        try:
            return fails(decls, cs)
        except Exception:
            return False
    progress = True
    while progress and used[0] < budget:
        progress = False
        for i in range(len(cons)):
            cand = cons[:i] + cons[i + 1:]
            if cand and ok(cand):
                cons, progress = cand, True
                break
        if progress:
            continue
        for i, c in enumerate(cons):
            for v in variants(c):
                if used[0] >= budget:
                    break
                if size(v) < size(c) and ok(cons[:i] + [v] + cons[i + 1:]):
                    cons[i], progress = v, True
                    break
            if progress:
                break
    return cons


# ----------------------------------------------------------------- meaning of a cspuz tree

def teval(e, env):
    """ordinary meaning of a cspuz expression object (as built by the library) under env
    (list indexed by variable id)."""
    from cspuz.expr import BoolVar, IntVar, Op
    if isinstance(e, (bool, int)):
        return e
    if isinstance(e, (BoolVar, IntVar)):
        return env[e.id]
    vs = [teval(x, env) for x in e.operands]
    o = e.op
    if o in (Op.BOOL_CONSTANT, Op.INT_CONSTANT):
        return vs[0]
    if o == Op.NEG:
        return -vs[0]
    if o == Op.ADD:
        return sum(vs)
    if o == Op.SUB:
        return vs[0] - sum(vs[1:])
    if o == Op.EQ:
        return vs[0] == vs[1]
    if o == Op.NE:
        return vs[0] != vs[1]
    if o == Op.LE:
        return vs[0] <= vs[1]
    if o == Op.LT:
        return vs[0] < vs[1]
    if o == Op.GE:
        return vs[0] >= vs[1]
    if o == Op.GT:
        return vs[0] > vs[1]
    if o == Op.NOT:
        return not vs[0]
    if o == Op.AND:
        return all(vs)
    if o == Op.OR:
        return any(vs)
    if o == Op.IFF:
        return bool(vs[0]) == bool(vs[1])
    if o == Op.XOR:
        return bool(vs[0]) != bool(vs[1])
    if o == Op.IMP:
        return (not vs[0]) or bool(vs[1])
    if o == Op.IF:
        return vs[1] if vs[0] else vs[2]
    if o == Op.ALLDIFF:
        return len(set(vs)) == len(vs)
    raise ValueError("teval: %r" % (o,))


def facts(ms, keys):
    """what solve() must leave in the sol field of every answer key, given all models."""
    if not ms:
        return None
    out = []
    for i, k in enumerate(keys):
        if not k:
            out.append(None)
        else:
            vals = set(m[i] for m in ms)
            out.append(ms[0][i] if len(vals) == 1 else None)
    return out


def val_tok(v):
    if v is None:
        return "_"
    if v is True:
        return "T"
    if v is False:
        return "F"
    return str(int(v))


def vals_tok(vs):
    return "[" + "".join(" " + val_tok(v) for v in vs) + " ]"
