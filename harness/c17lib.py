"""C17 helpers: decoding targets, fuzz streams and the property-level oracle (real code only).

A *target* is one real deserializer.  `run(text)` gives ("ok", value) | ("err", enum);
`judge(text, outcome)` returns None when the property holds on that input, otherwise
(category, what, detail):  any exception other than ValueError, a returned problem whose
dimensions differ from the declared ones, a returned problem that cannot be serialized
again, or whose canonical text decodes to something else.
"""
import importlib
import os
import re
import signal
import sys

import vlib
import c15gen as G
import c16gen as P

URL_ALPHA = "0123456789abcdefghijklmnopqrstuvwxyz" + "-+._"       # what puzz.link bodies are made of
EXTRA = "/?:= %GAZ\n\t\x00~"                                       # separators, upper case, whitespace, NUL
LATIN = "\xb2\xb3\xb9\xa0\x85\xe9\xff"                              # isdigit-not-decimal, NBSP, NEL, letters
WIDE = "٣３१①〇½\U0001d7d8 ١"  # decimal digits of other scripts, circled one, ...
ALL_ALPHA = URL_ALPHA + EXTRA + LATIN + WIDE
MODEL_ALPHA = URL_ALPHA + EXTRA + LATIN

ALLOWED_ERR = ("ValueError",)


def latin1(s):
    return all(ord(c) < 256 for c in s)


def strict_eq(a, b):
    if type(a) is not type(b):
        return False
    if isinstance(a, (list, tuple)):
        return len(a) == len(b) and all(strict_eq(x, y) for x, y in zip(a, b))
    return a == b


def short(x, n=300):
    r = x if isinstance(x, str) else repr(x)
    return r if len(r) <= n else r[:n] + "...(%d chars)" % len(r)


class _Timeout(Exception):
    pass


def _alarm(signum, frame):
    raise _Timeout()


TIMEOUTS = [0]


def timed(f, seconds=2.0):
    """f() under an alarm: a decoder that does not come back is reported as the error 'Timeout'
    (after 25 of them every further call gets 0.05 s only, so that a broken tree still ends)"""
    old = signal.signal(signal.SIGALRM, _alarm)
    signal.setitimer(signal.ITIMER_REAL, seconds if TIMEOUTS[0] < 25 else min(seconds, 0.05))
    try:
        r = f()
        if r == ("err", "Other:_Timeout"):                # vlib.guarded caught the alarm inside f
            TIMEOUTS[0] += 1
            return ("err", "Timeout")
        return r
    except _Timeout:
        TIMEOUTS[0] += 1
        return ("err", "Timeout")
    finally:
        signal.setitimer(signal.ITIMER_REAL, 0)
        signal.signal(signal.SIGALRM, old)


# ---------------------------------------------------------------- independent reading of a URL
# A *strict* shape, read with plain string operations: scheme "http://" or "https://", a host
# without '/', "/p?" or "/p.html?", then name/width/height/body with ASCII-or-Unicode decimal
# sizes.  Everything else is "not confidently a URL": then only crash-freedom and
# re-encodability (with the sizes the decoder itself reports) are judged.

def declared(url):
    for sch in ("https://", "http://"):
        if url.startswith(sch):
            rest = url[len(sch):]
            break
    else:
        return None
    i = rest.find("/")
    if i <= 0:
        return None
    host, rest = rest[:i], rest[i:]
    for mid in ("/p.html?", "/p?"):
        if rest.startswith(mid):
            rest = rest[len(mid):]
            break
    else:
        return None
    parts = rest.split("/", 3)
    if len(parts) != 4 or parts[0] == "" or "\n" in parts[0] or "\n" in host:
        return None
    name, ws, hs, body = parts
    if not (ws.isdecimal() and hs.isdecimal()):
        return None
    return name, int(ws), int(hs), body.split("\n", 1)[0]


def all_cells(h, w):
    return [(y, x) for y in range(h) for x in range(w)]


def shape_error(kind, h, w, p):
    """None when p is a problem of an h x w board for this kind of codec"""
    if kind == "grid":
        if not isinstance(p, list) or len(p) != h:
            return "expected %d rows" % h
        for row in p:
            if not isinstance(row, list) or len(row) != w:
                return "expected rows of %d cells" % w
        return None
    if kind == "vrooms":
        if not (isinstance(p, tuple) and len(p) == 2):
            return "expected (rooms, clues)"
        rooms, clues = p
        if not isinstance(clues, list) or not isinstance(rooms, list) or len(clues) != len(rooms):
            return "one clue per room expected"
        p = rooms
    if not isinstance(p, list) or not all(isinstance(r, list) and r for r in p):
        return "expected a list of non-empty rooms"
    cells = sorted(c for r in p for c in r)
    if cells != all_cells(h, w):
        return "rooms do not partition the %dx%d board" % (h, w)
    return None


# ---------------------------------------------------------------- targets

class UrlTarget:
    """deserialize_<p>(url) of one puzzle module"""

    def __init__(self, module, tr):
        self.id = "url:" + module
        self.module = module
        self.tr = tr
        self.mod = importlib.import_module("cspuz.puzzle." + module)
        self.fn = getattr(self.mod, tr["de_fn"])
        self.ser_fn = getattr(self.mod, tr["ser_fn"])
        self.comb = getattr(self.mod, tr["comb_name"])
        self.term = tr["term"]
        self.opts = tr["de"]
        self.name = tr["ser"]["name"]
        self.kind = {"G": "grid", "R": "rooms", "V": "vrooms"}[self.term[0]]

    def run(self, text):
        return timed(lambda: vlib.guarded(self.fn, text))

    def wrapper_url(self, h, w, p):
        if self.kind == "grid":
            return self.ser_fn(p)
        if self.kind == "rooms":
            return self.ser_fn(h, w, p)
        return self.ser_fn(h, w, p[0], p[1])

    def judge(self, text, r):
        import cspuz.problem_serializer as ps
        if r[0] == "err":
            return None if r[1] in ALLOWED_ERR else ("exception:" + r[1], "decoder raised %s" % r[1], {})
        v = r[1]
        if v is None:
            return None
        d = declared(text)
        if self.opts["return_size"]:
            if not (isinstance(v, tuple) and len(v) == 3):
                return ("shape", "return_size result is not (height, width, problem)", {"value": short(v)})
            h, w, p = v
            if d is not None and (h, w) != (d[2], d[1]):
                return ("dims", "returned size differs from the declared one", {"declared_hw": (d[2], d[1]), "returned": (h, w)})
        else:
            p = v
            if d is not None:
                h, w = d[2], d[1]
            elif isinstance(p, list) and p and isinstance(p[0], list):
                h, w = len(p), len(p[0])
            else:
                return None
        name = d[0] if d is not None else self.name
        if d is not None:
            al = self.opts["allowed"]
            if al is not None and not (name == al if isinstance(al, str) else name in al):
                return ("name", "a problem was returned for a puzzle name that is not allowed", {"name": name})
        se = shape_error(self.kind, h, w, p)
        if se is not None:
            return ("dims", "returned problem does not have the declared dimensions: " + se, {"hw": (h, w), "value": short(p)})
        r2 = timed(lambda: vlib.guarded(ps.serialize_problem_as_url, self.comb, name, h, w, p))
        if r2[0] != "ok":
            return ("reencode:" + r2[1], "the returned problem cannot be serialized (%s)" % r2[1], {"hw": (h, w), "value": short(p)})
        r3 = self.run(r2[1])
        if not (r3[0] == "ok" and strict_eq(r3[1], v)):
            return ("redecode", "decoding the canonical text of the returned problem gives something else",
                    {"canonical": short(r2[1]), "value": short(v), "again": short(r3)})
        if h >= 1 and w >= 1:
            r4 = timed(lambda: vlib.guarded(self.wrapper_url, h, w, p))
            if r4[0] != "ok":
                return ("reencode-wrapper:" + r4[1], "%s fails on the returned problem (%s)" % (self.tr["ser_fn"], r4[1]),
                        {"hw": (h, w), "value": short(p)})
            r5 = self.run(r4[1])
            if not (r5[0] == "ok" and strict_eq(r5[1], v)):
                return ("redecode-wrapper", "%s then %s gives something else" % (self.tr["ser_fn"], self.tr["de_fn"]),
                        {"canonical": short(r4[1]), "value": short(v), "again": short(r5)})
        return None


class CombTarget:
    """deserialize_problem(c, text, height=h, width=w) for one library combinator term"""

    def __init__(self, term, h, w):
        self.term, self.h, self.w = term, h, w
        self.obj = G.build(term)
        self.tok = G.term_tok(term)
        self.id = "comb:%s@%dx%d" % (G.term_repr(term), h, w)
        # re-encodability is judged exactly where theorem de_reencodable states it
        self.wf = G.wf(term) and tupl_elems_single(term) and reenc_ok(term)

    def run(self, text):
        import cspuz.problem_serializer as ps
        return timed(lambda: vlib.guarded(lambda: ps.deserialize_problem(self.obj, text, height=self.h, width=self.w)))

    def run_at(self, text, idx):
        import cspuz.problem_serializer as ps
        r = timed(lambda: vlib.guarded(lambda: self.obj.deserialize(ps.CombinatorEnv(self.h, self.w), text, idx)))
        return r if r[0] == "err" or r[1] is None else ("ok", (r[1][0], r[1][1]))

    def judge(self, text, r):
        import cspuz.problem_serializer as ps
        if r[0] == "err":
            return None if r[1] in ALLOWED_ERR else ("exception:" + r[1], "decoder raised %s" % r[1], {})
        v = r[1]
        if v is None or not self.wf:
            return None
        r2 = timed(lambda: vlib.guarded(lambda: ps.serialize_problem(self.obj, v, height=self.h, width=self.w)))
        if r2[0] != "ok":
            return ("reencode:" + r2[1], "the returned value cannot be serialized (%s)" % r2[1], {"value": short(v)})
        r3 = self.run(r2[1])
        if not (r3[0] == "ok" and strict_eq(r3[1], v)):
            return ("redecode", "decoding the canonical text of the returned value gives something else",
                    {"canonical": short(r2[1]), "value": short(v), "again": short(r3)})
        return None

    def judge_at(self, text, idx, r):
        if r[0] == "err":
            return None if r[1] in ALLOWED_ERR else ("exception:" + r[1], "decoder raised %s" % r[1], {"idx": idx})
        if r[1] is not None and not (0 <= r[1][0] <= len(text) - idx):
            return ("consumed", "deserialize reports more characters read than there are", {"idx": idx, "read": r[1][0]})
        return None


class CompassTarget:
    """compass.parse_puzz_link_url (hand-written legacy decoder)"""
    id = "url:compass"
    kind = "compass"

    def __init__(self):
        self.mod = importlib.import_module("cspuz.puzzle.compass")

    def run(self, text):
        return timed(lambda: vlib.guarded(self.mod.parse_puzz_link_url, text))

    def judge(self, text, r):
        if r[0] == "err":
            return None if r[1] in ALLOWED_ERR else ("exception:" + r[1], "decoder raised %s" % r[1], {})
        v = r[1]
        if v is None:
            return None
        if not (isinstance(v, tuple) and len(v) == 3):
            return ("shape", "result is not (height, width, clues)", {"value": short(v)})
        h, w, clues = v
        d = declared(text)
        if d is not None and (h, w) != (d[2], d[1]):
            return ("dims", "returned size differs from the declared one", {"declared_hw": (d[2], d[1]), "returned": (h, w)})
        for c in clues:
            if not (isinstance(c, tuple) and len(c) == 6 and 0 <= c[0] < h and 0 <= c[1] < w):
                return ("dims", "a clue lies outside the declared board", {"hw": (h, w), "clue": short(c)})
        if h * w > 10 ** 5:
            return None                                   # re-encoding allocates the whole board: resource use, not judged
        r2 = timed(lambda: vlib.guarded(self.mod.to_puzz_link_url, h, w, clues))
        if r2[0] != "ok":
            return ("reencode:" + r2[1], "the returned problem cannot be serialized (%s)" % r2[1], {"value": short(v)})
        r3 = self.run(r2[1])
        if not (r3[0] == "ok" and strict_eq(r3[1], v)):
            return ("redecode", "decoding the canonical text of the returned problem gives something else",
                    {"canonical": short(r2[1]), "value": short(v), "again": short(r3)})
        return None


class BenchTarget:
    """bench/pzv_problem.py solve_problem(url) with the solvers stubbed out: the dispatcher must cope
    with whatever the decoders return (None / ValueError / a problem)"""
    id = "bench:solve_problem"
    kind = "bench"

    def __init__(self):
        path = os.path.join(vlib.REPO, "bench")
        if path not in sys.path:
            sys.path.insert(0, path)
        self.mod = importlib.import_module("pzv_problem")
        self.calls = []
        for m in ("nurikabe", "masyu", "slitherlink", "heyawake", "lits", "nurimisaki", "yajilin"):
            pm = getattr(self.mod, m)
            stub = self._stub(m)
            # the module object is shared with the library: wrap it so that only the bench sees the stub
            setattr(self.mod, m, _Shadow(pm, {"solve_" + m: stub}))
        self.mod.default_uniqueness_checker = lambda *a: True

    def _stub(self, m):
        def solve(*a, **k):
            self.calls.append(m)
            return (False, None, None) if m == "yajilin" else (False, None)
        return solve

    def run(self, text):
        return timed(lambda: vlib.guarded(self.mod.solve_problem, text))

    def judge(self, text, r):
        if r[0] == "err":
            return None if r[1] in ALLOWED_ERR else ("exception:" + r[1], "bench dispatcher raised %s" % r[1], {})
        return None


class _Shadow:
    def __init__(self, base, over):
        self.__dict__["_base"], self.__dict__["_over"] = base, over

    def __getattr__(self, k):
        o = self.__dict__["_over"]
        return o[k] if k in o else getattr(self.__dict__["_base"], k)


# ---------------------------------------------------------------- seeds: valid URLs of every module

def seed_urls(ctx, targets, per_module):
    """(target, url, name, h, w, body) of genuine problems, small boards first"""
    rng = ctx.rng
    out = []
    for t in targets:
        if t.kind == "grid":
            cases = [c for c in P.grid_problems(rng, t.module, False) if c[0] * c[1] <= 64]
            cases.sort(key=lambda c: c[0] * c[1])
            pick = cases[:: max(1, len(cases) // per_module)][:per_module]
            for (h, w, g) in pick:
                out.append((t, t.ser_fn(g), h, w))
        elif t.kind in ("rooms", "vrooms"):
            cases = [c for c in P.room_partitions(rng, False) if c[0] * c[1] <= 64]
            pick = cases[:: max(1, len(cases) // per_module)][:per_module]
            for (h, w, rooms) in pick:
                if t.kind == "rooms":
                    out.append((t, t.ser_fn(h, w, rooms), h, w))
                else:
                    out.append((t, t.ser_fn(h, w, rooms, P.heyawake_clues(rng, rooms)), h, w))
    res = []
    for (t, url, h, w) in out:
        d = declared(url)
        assert d is not None and (d[1], d[2]) == (w, h), url
        res.append((t, url, d[0], h, w, d[3]))
    return res


def compass_seeds(ctx, n):
    mod = importlib.import_module("cspuz.puzzle.compass")
    out = []
    for (h, w, pos) in P.compass_problems(ctx.rng, False):
        if h * w <= 64:
            url = mod.to_puzz_link_url(h, w, pos)
            d = declared(url)
            out.append((url, d[0], h, w, d[3]))
    return out[:: max(1, len(out) // n)][:n]


# ---------------------------------------------------------------- mutations

def rnd_text(rng, n, alpha=ALL_ALPHA):
    return "".join(rng.choice(alpha) for _ in range(n))


def edit(rng, s, alpha=ALL_ALPHA):
    if not s:
        return rng.choice(alpha)
    i = rng.randrange(len(s) + 1)
    r = rng.random()
    if r < 0.4 and i < len(s):
        return s[:i] + rng.choice(alpha) + s[i + 1:]
    if r < 0.65 and i < len(s):
        return s[:i] + s[i + 1:]
    if r < 0.9:
        return s[:i] + rng.choice(alpha) + s[i:]
    return s[:i]


SIZE_TEXTS = ["0", "1", "2", "3", "7", "36", "00", "007", "1000", "٣", "１０", "\xb2", "-1", "+1", "1_0", " 1", "", "x"]
HUGE = ["1000000000", "99999999999999999999"]


def size_variants(rng, h, w):
    """(width text, height text) pairs: 0 / 1 / mismatching / huge / non-ASCII digits / non-digits.
    Huge heights are paired with widths >= 2 only: a board of zero-width rows makes the decoders
    allocate one empty list per declared row (resource use, outside the property)."""
    out = []
    base = [str(h), str(w), str(h + 1), str(w + 1), str(max(h - 1, 0)), str(max(w - 1, 0)), str(h * w)]
    for a in base + SIZE_TEXTS:
        out.append((a, str(h)))
        out.append((str(w), a))
    for a in SIZE_TEXTS:
        for b in ("0", "1", "2", a):
            out.append((a, b))
            out.append((b, a))
    for big in HUGE:
        out.append((big, str(h)))
        out.append((big, "1"))
        out.append((big, "0"))
        out.append((str(max(w, 2)), big))
        out.append((big, big))
    return out


# spellings int(s, 16) / int(s, 36) accept beyond plain digits, and the multi-character forms of the codecs
NASTY = ["--5", "-+5", "-- ", "+-12", "+ 12", "+1 2", "-0x", "+0x1", "+0X1", "-1_", "+1_1", "-_1", "-A5", "+FfF", "-ff", "+fff", "+000",
         "6-5", "7 1", "8+1", "9_1", "5-0", "-1-05", "-2 -5", "-3+ff", "-4fff", "-0...", "-5123", "0.", "1.", "5.", "50.", "9zz", "1g",
         "4f", "00", "-", "+", "--", "++", "-\xb2\xb3", "+\xb91", "1\u0663", "-\u0663\u0663", "6\uff13\uff13", ".", "..", "zz", "g", "v", "w"]
NASTY = [t.encode().decode("unicode_escape") if "\\" in t else t for t in NASTY]


def url_of(prefix, name, ws, hs, body):
    return "%s%s/%s/%s/%s" % (prefix, name, ws, hs, body)


PREFIXES = ["https://puzz.link/p?", "http://pzv.jp/p.html?", "http://puzz.link/p?", "https://a/p?", "https://x?y/p?",
            "https:///p?", "https://puzz.link/q?", "https://puzz.link/p.htm?", "ftp://puzz.link/p?", "puzz.link/p?",
            "https://puzz.link/p", "HTTPS://puzz.link/p?", "https://puzz.link/a/p?", " https://puzz.link/p?", "https://p\nq/p?"]


def position_classes(url, name, ws, hs, body, prefix):
    """one representative index per syntactic position of the URL"""
    p0 = len(prefix)
    idx = {"scheme": 1, "host": 9 if len(prefix) > 10 else 0, "query-mark": p0 - 1,
           "name-first": p0, "name-last": p0 + len(name) - 1, "slash1": p0 + len(name),
           "width-digit": p0 + len(name) + 1, "slash2": p0 + len(name) + 1 + len(ws),
           "height-digit": p0 + len(name) + 2 + len(ws), "slash3": p0 + len(name) + 2 + len(ws) + len(hs)}
    b0 = idx["slash3"] + 1
    if body:
        idx["body-first"] = b0
        idx["body-mid"] = b0 + len(body) // 2
        idx["body-last"] = b0 + len(body) - 1
    return idx


def mutations(rng, url, name, h, w, body, n_edit, with_posclass, names):
    """(class, text) mutations of one genuine URL"""
    prefix = url[: len(url) - len("%s/%d/%d/%s" % (name, w, h, body))]
    ws, hs = str(w), str(h)
    yield "valid", url
    for pre in PREFIXES:
        yield "prefix", url_of(pre, name, ws, hs, body)
    for nm in names + ["", name.upper(), name + "x", name[:-1], "a/b", "٣"]:
        yield "name", url_of(prefix, nm, ws, hs, body)
    for (a, b) in size_variants(rng, h, w):
        yield "size", url_of(prefix, name, a, b, body)
        if rng.random() < 0.15:
            yield "size+empty-body", url_of(prefix, name, a, b, "")
    # truncation: every prefix of a short body, random cuts of a long one
    cuts = range(len(body) + 1) if len(body) <= 16 else sorted(set(rng.randrange(len(body)) for _ in range(12)) | {0, 1, len(body) - 1})
    for i in cuts:
        yield "truncate", url_of(prefix, name, ws, hs, body[:i])
    for _ in range(4):
        yield "extend", url_of(prefix, name, ws, hs, body + rnd_text(rng, rng.choice([1, 1, 2, 5]), URL_ALPHA + "/\n"))
    for _ in range(n_edit):
        b = body
        for _ in range(rng.choice([1, 1, 1, 2, 3])):
            b = edit(rng, b, URL_ALPHA if rng.random() < 0.6 else ALL_ALPHA)
        yield "body-edit", url_of(prefix, name, ws, hs, b)
    for _ in range(max(2, n_edit // 4)):
        yield "url-edit", edit(rng, url)
        yield "random-body", url_of(prefix, name, ws, hs, rnd_text(rng, rng.choice([0, 1, 2, 3, h * w, h * w + 3]),
                                                                  URL_ALPHA if rng.random() < 0.7 else ALL_ALPHA))
    for tok in NASTY:
        i = rng.randrange(len(body) + 1)
        yield "token", url_of(prefix, name, ws, hs, body[:i] + tok + body[i + (len(tok) if rng.random() < 0.5 else 0):])
    for d in WIDE + LATIN[:3]:
        if body:
            i = rng.randrange(len(body))
            yield "unicode-digit", url_of(prefix, name, ws, hs, body[:i] + d + body[i + 1:])
    # escaped spellings of a genuine URL (what a pasted link looks like after a browser / form / HTML layer):
    # the decoders take the text literally, so these must be rejected or decode to something re-encodable
    if body:
        idxs = sorted(set([0, len(body) - 1] + [rng.randrange(len(body)) for _ in range(3)]))
        specials = [i for i, ch in enumerate(body) if not ch.isalnum()]
        for i in idxs + specials[:4]:
            ch = body[i]
            yield "escaped", url_of(prefix, name, ws, hs, body[:i] + "%%%02x" % ord(ch) + body[i + 1:])
            yield "escaped", url_of(prefix, name, ws, hs, body[:i] + "%%%02X" % ord(ch) + body[i + 1:])
        yield "escaped", url_of(prefix, name, ws, hs, "".join("%%%02X" % ord(ch) if not ch.isalnum() else ch for ch in body))
        yield "escaped", url_of(prefix, name, ws, hs, "".join("%%%02x" % ord(ch) for ch in body))
        yield "escaped", url_of(prefix, name, ws, hs, body.replace("+", " "))
        yield "escaped", url_of(prefix, name, ws, hs, body.replace("+", "%2B").replace("-", "%2D").replace(".", "%2E"))
        yield "escaped", url_of(prefix, name, ws, hs, body.replace("+", "&#43;").replace("-", "&#45;"))
        yield "escaped", url_of(prefix, name, ws, hs, body.replace("-", "+"))
    yield "escaped", url.replace("?", "%3F", 1)
    yield "escaped", url.replace("/", "%2F")
    yield "non-url", body
    yield "non-url", "see " + url
    yield "non-url", ""
    yield "non-url", rnd_text(rng, rng.randint(1, 30))
    yield "non-url", url.replace("/", "", 1)
    yield "newline", url + "\nzz"
    yield "newline", url_of(prefix, name, ws, hs, body[: len(body) // 2] + "\n" + body[len(body) // 2:])
    if with_posclass:
        for cls, i in position_classes(url, name, ws, hs, body, prefix).items():
            for ch in URL_ALPHA + EXTRA + LATIN + WIDE[:2]:
                yield "pos:" + cls, url[:i] + ch + url[i + 1:]
            yield "pos:" + cls, url[:i] + url[i + 1:]
        for ch in URL_ALPHA + EXTRA + LATIN:
            yield "pos:append", url + ch


# ---------------------------------------------------------------- combinator terms for the library-level stream

def productive(t):
    """a successful deserialize of t reads a character or returns an item"""
    k = t[0]
    if k == "F":
        return t[1] != ""
    if k == "O":
        return all(productive(x) for x in t[1])
    return True


def dec_ok(t):
    """python twin of Codec/TotalModel.v dec_ok: the side conditions under which decoding is total
    (a Seq/Grid/ValuedRooms over a base that may consume nothing and return nothing never ends)"""
    k = t[0]
    if k == "D":
        return len(t[1]) == len(t[2])
    if k in ("O", "T"):
        return all(dec_ok(x) for x in t[1])
    if k == "Q":
        return dec_ok(t[1]) and productive(t[1])
    if k == "G":
        return dec_ok(t[1]) and productive(t[1]) and (t[2] is None or t[2][0] * t[2][1] >= 0)
    if k == "V":
        return dec_ok(t[1]) and productive(t[1])
    return True


def single(t):
    """deserialize of t returns exactly one item (what deserialize_problem asserts)"""
    k = t[0]
    if k in ("D", "I", "H", "T", "Q", "G", "R", "V"):
        return True
    if k == "O":
        return all(single(x) for x in t[1])
    return False


def tupl_elems_single(t):
    """every Tupl element decodes to exactly one item or to none (FixStr): what C15 calls consumed_all —
    Tupl.serialize hands each element its whole item list but only the first serialize call's items are written"""
    k = t[0]
    if k == "T":
        return all((single(x) or x[0] == "F") and tupl_elems_single(x) for x in t[1])
    if k == "O":
        return all(tupl_elems_single(x) for x in t[1])
    if k in ("Q", "G", "V"):
        return tupl_elems_single(t[1])
    return True


def _is_int(v):
    return isinstance(v, int) and not isinstance(v, bool)


def leaf_dom(c, v):
    """python twin of Codec/TotalReencModel.v leaf_dom: v is an item the leaf c serializes"""
    k = c[0]
    if k == "D":
        return any(strict_eq(v, b) for b in c[1])
    if k == "S":
        return strict_eq(v, c[1])
    if k == "I":
        return _is_int(v) and v >= 0
    if k == "H":
        return _is_int(v) and 0 <= v <= 4095
    if k == "P":
        return _is_int(v) and 0 <= v <= c[2]
    if k == "M":
        return _is_int(v) and 0 <= v < c[1]
    return False


def pleaf(c):
    return c[0] in ("D", "S", "I", "H", "P")


def sp_cov(l, a):
    return a[0] != "P" or a[3] <= 0 or any(leaf_dom(x, a[1]) for x in l)


def sbase(c):
    k = c[0]
    if k == "O":
        return all(pleaf(x) for x in c[1]) and all(sp_cov(c[1], x) for x in c[1])
    if k == "M":
        return c[2] != 0
    return pleaf(c) and sp_cov([c], c)


def reenc_ok(t):
    """python twin of Codec/TotalReencModel.v reenc_ok: the side condition of theorem de_reencodable (Props/C17.v);
    outside it the re-encodability clause is refuted (reenc_ok_needed) and is not judged"""
    k = t[0]
    if k == "O":
        return all(pleaf(x) for x in t[1])
    if k == "T":
        return all(reenc_ok(x) for x in t[1])
    if k == "Q":
        return sbase(t[1]) and t[2] >= 0
    if k == "G":
        return sbase(t[1]) and (t[2] is None or (t[2][0] >= 0 and t[2][1] >= 0))
    if k == "V":
        return sbase(t[1])
    if k == "C":
        return False
    return True


EXTRA_TERMS = [
    ("H",), ("I",), ("D", [-1, 7], [".", "zz"]),
    ("Q", ("H",), 3), ("Q", ("H",), 0), ("Q", ("S", 0, "g"), 4), ("Q", ("O", [("H",), ("S", -1, "g")]), 5),
    ("G", ("H",), (0, 3)), ("G", ("H",), (3, 0)), ("G", ("H",), (0, 0)), ("G", ("M", 2, 5), (2, 3)),
    ("T", [("H",), ("F", "/"), ("I",)]), ("T", [("R", False, False), ("I",)]),
    ("R", True, True), ("R", False, True), ("V", ("H",), False, True),
    ("G", ("P", -1, 4, 2), None), ("G", ("O", [("D", [None], ["."]), ("I",)]), None),
    ("Q", ("T", [("H",), ("H",)]), 2), ("T", [("Q", ("H",), 2), ("Q", ("I",), 1)]),
]


def comb_targets(ctx, n_random):
    rng = ctx.rng
    terms = list(G.CURATED) + EXTRA_TERMS
    tries = 0
    while len(terms) < len(G.CURATED) + len(EXTRA_TERMS) + n_random and tries < 100 * n_random:
        tries += 1
        t = G.gen_term(rng, rng.choice([1, 2, 2, 3]))
        try:
            G.build(t)
        except Exception:
            continue
        if dec_ok(t) and single(t):
            terms.append(t)
    sizes = [(1, 1), (1, 2), (2, 1), (2, 2), (2, 3), (3, 2), (1, 4), (3, 3), (0, 0), (0, 2), (2, 0), (1, 0), (0, 1), (4, 5)]
    out = []
    for i, t in enumerate(terms):
        if not (dec_ok(t) and single(t)):
            continue
        szs = sizes if (G.has_rooms(t) and i < len(G.CURATED) + len(EXTRA_TERMS)) else rng.sample(sizes, 3)
        for (h, w) in szs:
            out.append(CombTarget(t, h, w))
    return out


def comb_texts(rng, ct, n):
    """texts for one combinator target: a genuine encoding (when one can be generated) and its
    mutations, every single character, random strings"""
    import cspuz.problem_serializer as ps
    base = []
    for _ in range(3):
        try:
            items = G.gen_chunk(rng, ct.term, ct.h, ct.w)
        except Exception:
            continue
        if len(items) == 1:
            # (Seq.serialize over a base that consumes nothing never ends: alarm)
            r = timed(lambda: vlib.guarded(lambda: ps.serialize_problem(ct.obj, items[0], height=ct.h, width=ct.w)), 0.5)
            if r[0] == "ok" and isinstance(r[1], str):
                base.append(r[1])
    out = [("empty", "")]
    for s in base:
        out.append(("valid", s))
        for i in range(min(len(s), 8)):
            out.append(("truncate", s[:i]))
        for _ in range(n):
            b = s
            for _ in range(rng.choice([1, 1, 2, 3])):
                b = edit(rng, b, URL_ALPHA if rng.random() < 0.6 else ALL_ALPHA)
            out.append(("edit", b))
        out.append(("extend", s + rnd_text(rng, 2, URL_ALPHA)))
        for tok in rng.sample(NASTY, 6):
            i = rng.randrange(len(s) + 1)
            out.append(("token", s[:i] + tok + s[i:]))
    for tok in rng.sample(NASTY, 4):
        out.append(("token", tok))
    for ch in rng.sample(ALL_ALPHA, 12):
        out.append(("char", ch))
        if base:
            s = rng.choice(base)
            i = rng.randrange(len(s) + 1)
            out.append(("char-in", s[:i] + ch + s[i:]))
    for _ in range(n):
        out.append(("random", rnd_text(rng, rng.choice([1, 2, 3, 5, 9, 20]), URL_ALPHA if rng.random() < 0.7 else ALL_ALPHA)))
    return out
