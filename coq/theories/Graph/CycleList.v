(* C06 (stretch goal): the degree/connectivity specification of
   active_edges_single_cycle / active_edges_single_path (Graph/Cycle.v:
   single_cycle, single_path) restated with explicit lists
       v0, e0, v1, e1, ..., e(k-1), vk
   of pairwise distinct vertices and pairwise distinct active edges, e_i
   joining v_i and v_(i+1), that contain every active edge:
     - a cycle list closes up (vk = v0; k = 1 is a self-loop, k = 2 two
       parallel edges),
     - a path list is open (v0 .. vk pairwise distinct, k >= 1).
   Part 1 (this file): definitions, counting lemmas, the degree formula
   degree g A w = sum over active edges of the number of ends at w.
   Stdlib only. *)
From Coq Require Import List Bool Arith Lia.
From Cspuz Require Import Graph.GraphModel Graph.ReachProofs Graph.Cycle.
Import ListNotations.
Local Open Scope nat_scope.

(* ------------------------------------------------------------------------ *)
(* definitions                                                                *)

(* edge number e has the endpoints a and b (in either stored orientation) *)
Definition joins (g : graph) (e a b : nat) : Prop :=
  nth_error (edges g) e = Some (a, b) \/ nth_error (edges g) e = Some (b, a).

(* [chain g v0 [(e0, v1); (e1, v2); ...; (e(k-1), vk)] vk]: e_i joins v_i and v_(i+1) *)
Fixpoint chain (g : graph) (v : nat) (l : list (nat * nat)) (last : nat) : Prop :=
  match l with
  | [] => v = last
  | (e, w) :: r => joins g e v w /\ chain g w r last
  end.

(* the listed edges are exactly the active edges of the graph *)
Definition covers (g : graph) (A : nat -> bool) (es : list nat) : Prop :=
  forall e, e < length (edges g) -> (A e = true <-> In e es).

(* a cyclic list v0, e0, v1, ..., v(k-1), e(k-1), (back to v0) with k >= 1,
   the vertices v1 .. v(k-1), v0 pairwise distinct, the edges pairwise
   distinct, containing exactly the active edges *)
Definition cycle_list (g : graph) (A : nat -> bool) : Prop :=
  exists v0 l, l <> [] /\ chain g v0 l v0 /\
               NoDup (map snd l) /\ NoDup (map fst l) /\ covers g A (map fst l).

(* an open list v0, e0, v1, ..., e(k-1), vk with k >= 1, v0 .. vk pairwise
   distinct, the edges pairwise distinct, containing exactly the active edges *)
Definition path_list (g : graph) (A : nat -> bool) : Prop :=
  exists v0 l vk, l <> [] /\ chain g v0 l vk /\
                  NoDup (v0 :: map snd l) /\ NoDup (map fst l) /\ covers g A (map fst l).

(* ------------------------------------------------------------------------ *)
(* sums over lists                                                            *)

Definition nsum {A} (f : A -> nat) (l : list A) : nat := list_sum (map f l).

Lemma nsum_cons {A} (f : A -> nat) a l : nsum f (a :: l) = f a + nsum f l.
Proof. reflexivity. Qed.

Lemma nsum_app {A} (f : A -> nat) l1 l2 : nsum f (l1 ++ l2) = nsum f l1 + nsum f l2.
Proof. unfold nsum. rewrite map_app, list_sum_app. reflexivity. Qed.

Lemma nsum_incl {A} (f : A -> nat) (l : list A) : forall l',
  NoDup l -> incl l l' -> nsum f l <= nsum f l'.
Proof.
  induction l as [|a l IH]; intros l' Hnd Hi; [unfold nsum; simpl; lia|].
  inversion Hnd as [|? ? Hnot Hnd']; subst.
  destruct (in_split a l' (Hi a (or_introl eq_refl))) as [l1 [l2 ->]].
  assert (Hi' : incl l (l1 ++ l2)).
  { intros x Hx. pose proof (Hi x (or_intror Hx)) as H. apply in_app_or in H.
    apply in_or_app. destruct H as [H|[H|H]]; [left; exact H| |right; exact H].
    subst x. contradiction. }
  specialize (IH (l1 ++ l2) Hnd' Hi'). rewrite nsum_app in IH.
  rewrite nsum_cons, nsum_app, nsum_cons. lia.
Qed.

Lemma nsum_filter_split {A} (f : A -> nat) (p : A -> bool) l :
  nsum f l = nsum f (filter p l) + nsum f (filter (fun x => negb (p x)) l).
Proof.
  induction l as [|a l IH]; [reflexivity|]. simpl. rewrite nsum_cons, IH.
  destruct (p a); simpl; rewrite nsum_cons; lia.
Qed.

Lemma nsum_pos_ex {A} (f : A -> nat) l : 0 < nsum f l -> exists x, In x l /\ 0 < f x.
Proof.
  induction l as [|a l IH]; [unfold nsum; simpl; lia|]. rewrite nsum_cons. intros H.
  destruct (f a) eqn:E.
  - destruct (IH H) as [x [Hx Hf]]. exists x. split; [right; exact Hx|exact Hf].
  - exists a. split; [left; reflexivity|lia].
Qed.

Lemma nsum_if {A} (f : A -> nat) (p : A -> bool) l :
  nsum (fun k => if p k then f k else 0) l = nsum f (filter p l).
Proof.
  induction l as [|a l IH]; [reflexivity|]. simpl. rewrite nsum_cons, IH.
  destruct (p a); [rewrite nsum_cons|]; lia.
Qed.

(* ------------------------------------------------------------------------ *)
(* the degree formula                                                         *)

Definition b2n (b : bool) : nat := if b then 1 else 0.

(* number of ends of edge k at vertex w (2 for a self-loop at w) *)
Definition mult (g : graph) (k w : nat) : nat :=
  match nth_error (edges g) k with
  | Some (a, b) => b2n (Nat.eqb a w) + b2n (Nat.eqb b w)
  | None => 0
  end.

Lemma degree_from g A v : forall es pre,
  edges g = pre ++ es ->
  length (filter (fun '(_, k) => A k) (incident_from v (length pre) es)) =
  nsum (fun k => if A k then mult g k v else 0) (seq (length pre) (length es)).
Proof.
  induction es as [|[a b] r IH]; intros pre Hs; [reflexivity|].
  assert (Hk : nth_error (edges g) (length pre) = Some (a, b)).
  { rewrite Hs, nth_error_app2, Nat.sub_diag by lia. reflexivity. }
  assert (Hs' : edges g = (pre ++ [(a, b)]) ++ r) by (rewrite <- app_assoc; exact Hs).
  specialize (IH (pre ++ [(a, b)]) Hs'). rewrite app_length in IH. simpl in IH.
  rewrite Nat.add_1_r in IH.
  simpl incident_from. simpl length. simpl seq. rewrite nsum_cons, <- IH.
  rewrite !filter_app, !app_length. unfold mult. rewrite Hk.
  destruct (Nat.eqb a v), (Nat.eqb b v), (A (length pre)) eqn:HA; simpl; rewrite ?HA; simpl; lia.
Qed.

Lemma degree_formula g A v :
  degree g A v = nsum (fun k => mult g k v) (filter A (seq 0 (length (edges g)))).
Proof.
  unfold degree, incident. rewrite <- nsum_if. exact (degree_from g A v (edges g) [] eq_refl).
Qed.

Definition active_ids (g : graph) (A : nat -> bool) (es : list nat) : Prop :=
  forall e, In e es -> e < length (edges g) /\ A e = true.

Lemma deg_ge g A es w :
  NoDup es -> active_ids g A es -> nsum (fun k => mult g k w) es <= degree g A w.
Proof.
  intros Hnd Ha. rewrite degree_formula. apply nsum_incl; [exact Hnd|].
  intros e He. destruct (Ha e He) as [H1 H2]. apply filter_In. split; [apply in_seq; lia|exact H2].
Qed.

Lemma deg_extra g A es w :
  nsum (fun k => mult g k w) es < degree g A w ->
  exists k, k < length (edges g) /\ A k = true /\ ~ In k es /\ 0 < mult g k w.
Proof.
  rewrite degree_formula. set (L := filter A (seq 0 (length (edges g)))). intros H.
  rewrite (nsum_filter_split _ (fun k => mem k es) L) in H.
  assert (H1 : nsum (fun k => mult g k w) (filter (fun k => mem k es) L) <= nsum (fun k => mult g k w) es).
  { apply nsum_incl.
    - apply NoDup_filter. apply NoDup_filter. apply seq_NoDup.
    - intros x Hx. apply filter_In in Hx. apply mem_In. apply Hx. }
  assert (H2 : 0 < nsum (fun k => mult g k w) (filter (fun k => negb (mem k es)) L)) by lia.
  destruct (nsum_pos_ex _ _ H2) as [k [Hk Hf]].
  apply filter_In in Hk. destruct Hk as [HkL Hm]. apply filter_In in HkL. destruct HkL as [Hks HkA].
  apply in_seq in Hks. exists k. split; [lia|]. split; [exact HkA|]. split; [|exact Hf].
  apply mem_not_In. apply negb_true_iff. exact Hm.
Qed.

Lemma deg_eq g A es w :
  NoDup es -> (forall e, In e es -> e < length (edges g)) -> covers g A es ->
  degree g A w = nsum (fun k => mult g k w) es.
Proof.
  intros Hnd Hlt Hc. apply Nat.le_antisymm.
  - rewrite degree_formula. apply nsum_incl.
    + apply NoDup_filter. apply seq_NoDup.
    + intros k Hk. apply filter_In in Hk. destruct Hk as [Hk HA]. apply in_seq in Hk.
      apply Hc; [lia|exact HA].
  - apply deg_ge; [exact Hnd|]. intros e He. split; [apply Hlt; exact He|].
    apply Hc; [apply Hlt; exact He|exact He].
Qed.

(* ------------------------------------------------------------------------ *)
(* joins / mult                                                               *)

Lemma joins_sym g e a b : joins g e a b -> joins g e b a.
Proof. unfold joins. tauto. Qed.

Lemma joins_lt g e a b : joins g e a b -> e < length (edges g).
Proof. intros [H|H]; apply nth_error_Some; congruence. Qed.

Lemma joins_mult g e a b w : joins g e a b -> mult g e w = b2n (Nat.eqb a w) + b2n (Nat.eqb b w).
Proof. unfold mult. intros [H|H]; rewrite H; lia. Qed.

Lemma joins_wf g e a b : wf_graph g = true -> joins g e a b -> a < nv g /\ b < nv g.
Proof. intros Hwf [H|H]; apply (wf_graph_edge g e _ _ Hwf) in H; tauto. Qed.

Lemma mult_pos_joins g e x : 0 < mult g e x -> exists w, joins g e x w.
Proof.
  unfold mult, joins. destruct (nth_error (edges g) e) as [[a b]|]; [|lia].
  destruct (Nat.eqb_spec a x) as [->|Ha].
  - intros _. exists b. left; reflexivity.
  - destruct (Nat.eqb_spec b x) as [->|Hb]; [|simpl; lia].
    intros _. exists a. right; reflexivity.
Qed.

Lemma joins_nbrs g A e a b : joins g e a b -> A e = true -> In b (nbrs g A a).
Proof. intros H HA. apply nbrs_spec. exists e. split; [exact HA|exact H]. Qed.

(* ------------------------------------------------------------------------ *)
(* chains                                                                     *)

Fixpoint touch (u : nat) (l : list (nat * nat)) (w : nat) : nat :=
  match l with
  | [] => 0
  | (_, v) :: r => b2n (Nat.eqb u w) + b2n (Nat.eqb v w) + touch v r w
  end.

Lemma chain_touch g w : forall l x t,
  chain g x l t -> nsum (fun k => mult g k w) (map fst l) = touch x l w.
Proof.
  induction l as [|[e v] r IH]; intros x t H; [reflexivity|].
  destruct H as [Hj Hc]. simpl. rewrite nsum_cons, (IH v t Hc), (joins_mult g e x v w Hj). reflexivity.
Qed.

Lemma touch_eq g w : forall l x t,
  chain g x l t ->
  touch x l w + b2n (Nat.eqb t w) = b2n (Nat.eqb x w) + 2 * count_occ Nat.eq_dec (map snd l) w.
Proof.
  induction l as [|[e v] r IH]; intros x t H.
  - simpl in H. subst t. simpl. lia.
  - destruct H as [_ Hc]. specialize (IH v t Hc). simpl.
    destruct (Nat.eq_dec v w) as [E|E]; destruct (Nat.eqb_spec v w); try contradiction;
      simpl in *; lia.
Qed.

Lemma chain_last_in g : forall l x t, chain g x l t -> l <> [] -> In t (map snd l).
Proof.
  induction l as [|[e v] r IH]; intros x t H Hne; [contradiction|].
  destruct H as [_ Hc]. destruct r as [|p r'].
  - simpl in Hc. subst. left; reflexivity.
  - right. apply (IH v t Hc). discriminate.
Qed.

Lemma chain_endpoints g : forall l x t e,
  chain g x l t -> In e (map fst l) ->
  exists p v, joins g e p v /\ In p (x :: map snd l) /\ In v (map snd l).
Proof.
  induction l as [|[e0 v0] r IH]; intros x t e H Hin; [destruct Hin|].
  destruct H as [Hj Hc]. destruct Hin as [<-|Hin].
  - exists x, v0. split; [exact Hj|]. split; [left; reflexivity|left; reflexivity].
  - destruct (IH v0 t e Hc Hin) as [p [v [H1 [H2 H3]]]]. exists p, v.
    split; [exact H1|]. split; [right; exact H2|right; exact H3].
Qed.

Lemma chain_lt g : wf_graph g = true -> forall l x t,
  chain g x l t -> l <> [] -> forall v, In v (x :: map snd l) -> v < nv g.
Proof.
  intros Hwf. induction l as [|[e w] r IH]; intros x t H Hne v Hv; [contradiction|].
  destruct H as [Hj Hc]. destruct (joins_wf g e x w Hwf Hj) as [Hx Hw].
  destruct Hv as [<-|Hv]; [exact Hx|].
  destruct r as [|p r'].
  - destruct Hv as [<-|[]]. exact Hw.
  - apply (IH w t Hc); [discriminate|exact Hv].
Qed.

Lemma chain_reach g A : forall l x t,
  chain g x l t -> (forall e, In e (map fst l) -> A e = true) ->
  forall w, In w (map snd l) -> reach g all_vertices_ok A x w.
Proof.
  induction l as [|[e v] r IH]; intros x t H HA w Hw; [destruct Hw|].
  destruct H as [Hj Hc].
  assert (Hxv : reach g all_vertices_ok A x v).
  { eapply reach_step; [apply reach_refl; reflexivity| |reflexivity].
    apply (joins_nbrs g A e x v Hj). apply HA. left; reflexivity. }
  destruct Hw as [<-|Hw]; [exact Hxv|].
  apply reach_trans with v; [exact Hxv|].
  apply (IH v t Hc); [|exact Hw]. intros e' He'. apply HA. right; exact He'.
Qed.

Lemma count_occ_NoDup_in (l : list nat) w : NoDup l -> In w l -> count_occ Nat.eq_dec l w = 1.
Proof.
  intros Hnd Hin. pose proof (proj1 (NoDup_count_occ Nat.eq_dec l) Hnd w).
  pose proof (proj1 (count_occ_In Nat.eq_dec l w) Hin). lia.
Qed.

Lemma count_occ_notin (l : list nat) w : ~ In w l -> count_occ Nat.eq_dec l w = 0.
Proof. apply count_occ_not_In. Qed.
