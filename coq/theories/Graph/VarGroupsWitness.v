(* C07: the spanning-forest certificate of VarGroupsComplete.v also carries valid
   downstream / total sizes: downstream = size of the subtree, total = size of the block. *)
From Coq Require Import ZArith List Bool Arith Lia.
From Cspuz Require Import Core.Expr Graph.GraphModel Graph.ReachProofs Graph.VarGroups
  Graph.VarGroupsSound Graph.VarGroupsComplete Graph.VarGroupsForest.
Import ListNotations.
Open Scope nat_scope.

Lemma bcount_le_length {A} (p : A -> bool) (l : list A) : (bcount p l <= zn (length l))%Z.
Proof.
  unfold bcount, zn. apply inj_le. induction l as [|a l IH]; simpl; [lia|].
  destruct (p a); simpl; lia.
Qed.

Section Witness.
  Variable g : graph.
  Variable blk : nat -> nat.
  Hypothesis Hwf : wf_graph g = true.
  Hypothesis Hconn : forall v, v < nv g -> connected g (same_block blk v).
  Let n := nv g.

  Notation rkz := (fun v => zn (rk g blk v)).
  Notation parv := (par g blk).
  Notation actv := (actb g blk).

  Lemma w_par v p e : parv v = Some (p, e) -> In (p, e) (incident g v) /\ (0 <= rkz p < rkz v)%Z.
  Proof. intros H. destruct (par_some g blk v p e H) as [H1 [_ H3]]. split; [exact H1|unfold zn; lia]. Qed.

  Lemma w_act i j e : In (j, e) (incident g i) -> actv e = true -> parv i = Some (j, e) \/ parv j = Some (i, e).
  Proof. apply act_entry. Qed.

  Lemma w_pact v p e : parv v = Some (p, e) -> actv e = true.
  Proof.
    intros H. apply actb_spec. exists v, p. split; [|exact H].
    destruct (par_some g blk v p e H) as [H1 _]. apply incident_spec in H1.
    destruct H1 as [H1|H1]; apply (wf_graph_edge g e _ _ Hwf) in H1; tauto.
  Qed.

  Definition w_down : nat -> Z := cnt g rkz parv.
  Definition w_total : nat -> Z := block_size (nv g) blk.

  Notation ancv := (anc rkz parv).

  Lemma w_anc_blk i v : ancv i v = true -> blk i = blk v.
  Proof.
    apply (anc_preserved g rkz parv w_par (fun i v => blk i = blk v)) with (f := rkn rkz v); [reflexivity| |lia].
    intros v0 p e w Hp Hw. destruct (par_some g blk v0 p e Hp) as [_ [Hb _]]. congruence.
  Qed.

  (* the root of a block is an ancestor of every vertex of the block *)
  Lemma w_root_anc : forall f v, v < n -> rk g blk v <= f -> ancv (rootb g blk (blk v)) v = true.
  Proof.
    induction f as [|f IH]; intros v Hv Hf.
    - assert (H0 : rk g blk v = 0) by lia. apply (rk_zero g blk v Hv) in H0.
      rewrite <- H0. apply (anc_refl g rkz parv w_par).
    - destruct (Nat.eq_dec (rk g blk v) 0) as [H0|H0].
      + apply (rk_zero g blk v Hv) in H0. rewrite <- H0. apply (anc_refl g rkz parv w_par).
      + destruct (par_exists g blk Hwf Hconn v Hv H0) as [p [e Hp]].
        destruct (par_some g blk v p e Hp) as [Hin [Hb Hlt]].
        rewrite (anc_some g rkz parv w_par _ v p e Hp). apply orb_true_iff. right.
        rewrite <- Hb. apply IH; [|lia].
        apply incident_spec in Hin. destruct Hin as [H1|H1]; apply (wf_graph_edge g e _ _ Hwf) in H1; unfold n; tauto.
  Qed.

  Lemma w_down_le_total i : i < n -> (w_down i <= w_total i)%Z.
  Proof.
    intros Hi. unfold w_down, w_total, cnt, block_size. apply bcount_le.
    intros v _ Ha. unfold same_block. apply Nat.eqb_eq. apply w_anc_blk; exact Ha.
  Qed.

  Lemma w_root_total i : i < n -> rk g blk i = 0 -> w_down i = w_total i.
  Proof.
    intros Hi H0. apply (rk_zero g blk i Hi) in H0.
    unfold w_down, w_total, cnt, block_size. apply bcount_ext_in. intros v Hv. apply in_seq in Hv.
    unfold same_block. destruct (Nat.eqb_spec (blk i) (blk v)) as [He|Hne].
    - rewrite H0, He. apply (w_root_anc (rk g blk v) v); [unfold n; lia|lia].
    - destruct (ancv i v) eqn:Ha; [|reflexivity]. exfalso. apply Hne. apply w_anc_blk; exact Ha.
  Qed.

  Lemma w_total_blk u v : blk u = blk v -> w_total u = w_total v.
  Proof.
    intros H. unfold w_total, block_size. apply bcount_ext_in. intros w _. unfold same_block. rewrite H. reflexivity.
  Qed.

  Lemma w_recurrence i : i < n ->
    w_down i = (down_sum g (the_cert g blk) w_down i + 1)%Z.
  Proof.
    intros Hi. unfold w_down at 1. rewrite (cnt_recurrence g rkz actv parv w_par w_act w_pact i Hi).
    f_equal. unfold down_sum, zsum. f_equal. apply map_ext. intros [j e]. reflexivity.
  Qed.

  Theorem the_cert_sizes sizes per_vertex :
    (forall v s, v < n -> sizes v = Some s -> block_size n blk v = s) ->
    cert_sizes g (the_cert g blk) w_down w_total sizes per_vertex = true.
  Proof.
    intros Hs. unfold cert_sizes. repeat (apply andb_true_iff; split).
    - apply forallb_forall. intros i Hi. apply in_seq in Hi. apply Z.leb_le. apply w_down_le_total. unfold n; lia.
    - apply forallb_forall. intros i Hi. apply in_seq in Hi. simpl.
      destruct (Nat.eqb_spec (rk g blk i) 0) as [H0|_]; [|reflexivity]. simpl.
      apply Z.eqb_eq. apply w_root_total; [unfold n; lia|exact H0].
    - apply forallb_forall. intros i Hi. apply in_seq in Hi. apply andb_true_iff. split.
      + apply Z.eqb_eq. apply w_recurrence. unfold n; lia.
      + destruct (sizes i) as [s|] eqn:He; [|reflexivity]. apply Z.eqb_eq. apply Hs; [unfold n; lia|exact He].
    - apply orb_true_iff. right. apply forallb_forall. intros [k [u v]] Hin. apply in_combine_seq in Hin.
      simpl. destruct (actb g blk k) eqn:Ha; [|reflexivity]. simpl. apply Z.eqb_eq. apply w_total_blk.
      assert (Hinc : In (v, k) (incident g u)) by (apply incident_spec; left; exact Hin).
      destruct (act_entry g blk u v k Hinc Ha) as [Hp|Hp]; apply par_some in Hp; destruct Hp as [_ [Hb _]]; congruence.
  Qed.

  Theorem the_cert_size_ranges : cert_size_ranges g w_down w_total = true.
  Proof.
    unfold cert_size_ranges, in_range. apply andb_true_iff.
    split; apply forallb_forall; intros i Hi; apply in_seq in Hi; apply andb_true_iff; split; apply Z.leb_le.
    - apply (cnt_pos g rkz parv w_par). lia.
    - pose proof (w_down_le_total i ltac:(unfold n; lia)).
      pose proof (bcount_le_length (same_block blk i) (seq 0 (nv g))). rewrite seq_length in H0.
      unfold w_total, block_size in *. lia.
    - pose proof (cnt_pos g rkz parv w_par i ltac:(lia)).
      pose proof (w_down_le_total i ltac:(unfold n; lia)). unfold w_down in *. lia.
    - pose proof (bcount_le_length (same_block blk i) (seq 0 (nv g))). rewrite seq_length in H.
      unfold w_total, block_size. lia.
  Qed.
End Witness.
