(* C11 Tier 1 - creek: for every board shape and all point clues, the program posted by
   solve_creek (model Creek.v: the connectivity helper of property C04 followed by one counting
   constraint per clue) has a model reading as [ans] exactly when [ans] obeys Rules_creek.
   Uses C04's closed theorems avc_eval / avc_exact_models (Graph/AvcSem.v, AvcProofs.v). *)
From Coq Require Import ZArith List Bool Arith Lia.
From Cspuz Require Import Lib.PyErr Core.Expr Core.Program Graph.GraphModel Graph.ReachProofs
     Graph.Avc Graph.AvcSem Graph.AvcProofs
     Puzzle.PuzzleBase Puzzle.SatAbs Puzzle.ModelBase Puzzle.ModelLemmas Puzzle.Rules_creek Puzzle.Creek.
Import ListNotations.
Local Open Scope nat_scope.

Notation b2z := PuzzleBase.b2z.

Lemma connected_ext g a a' : (forall x, a x = a' x) -> connected g a -> connected g a'.
Proof.
  intros E C u v Hu Hv Au Av. apply (reach_ext g a a' all_edges_ok all_edges_ok); [exact E|reflexivity|].
  apply C; try assumption; rewrite E; assumption.
Qed.
Lemma connected_b_ext g a a' : wf_graph g = true -> (forall x, a x = a' x) -> connected_b g a = connected_b g a'.
Proof.
  intros W E. apply eq_true_iff_eq. rewrite !(connected_b_spec g _ W).
  split; apply connected_ext; intros x; rewrite E; reflexivity.
Qed.

Section Gsem.
  Variable gsem : op -> list (option value) -> option bool.
  Variable en : env.

  Lemma eval_ct_not_vars ids :
    eval gsem en (ct_not_vars ids) = Some (VI (Z.of_nat (count (fun i => negb (eb en i)) ids))).
  Proof.
    destruct ids as [|i r]; [reflexivity|].
    unfold ct_not_vars. set (l := i :: r).
    assert (Hne : l <> []) by discriminate. clearbody l.
    cbn [eval]. rewrite map_map.
    rewrite (map_ext _ (fun x => Some (VI (if negb (eb en x) then 1 else 0)%Z)))
      by (intros x; simpl; destruct (eb en x); reflexivity).
    rewrite <- (map_map (fun x => (if negb (eb en x) then 1 else 0)%Z) (fun z => Some (VI z))).
    rewrite eval_iop_add_ints by (destruct l; [contradiction|discriminate]).
    f_equal. f_equal. clear. unfold count, zsum.
    induction l as [|b r IH]; [reflexivity|]. cbn [map fold_right filter].
    destruct (eb en b); cbn [negb length]; rewrite IH; lia.
  Qed.

  Lemma holds_ct_not_eq ids c :
    holds gsem en (BNode EQ [ct_not_vars ids; PyInt c]) =
    (Z.of_nat (count (fun i => negb (eb en i)) ids) =? c)%Z.
  Proof.
    unfold holds. cbn [eval map]. rewrite eval_ct_not_vars. simpl.
    destruct (Z.of_nat (count (fun i => negb (eb en i)) ids) =? c)%Z; reflexivity.
  Qed.
End Gsem.

Lemma touching_in h w py px y x : In (y, x) (touching h w py px) -> y < h /\ x < w.
Proof. unfold touching. rewrite filter_In. intros [H _]. apply cells_in. exact H. Qed.

Lemma max_id_ct_not_vars ids k : (forall i, In i ids -> i < k) -> max_id (ct_not_vars ids) <= k.
Proof.
  intros H. destruct ids as [|a r]; [simpl; lia|]. unfold ct_not_vars. set (l := a :: r) in *. clearbody l.
  cbn [max_id]. induction l as [|b l IH]; cbn [max_id map fold_right]; [lia|].
  pose proof (H b (or_introl eq_refl)). specialize (IH (fun i Hi => H i (or_intror Hi))). lia.
Qed.

Lemma creek_clues_fresh h w clue : fresh_below (h * w) (creek_clues h w clue).
Proof.
  intros a Ha. unfold creek_clues in Ha. apply in_flat_map in Ha. destruct Ha as [[py px] [_ Ha]].
  destruct (0 <=? at2 clue (S w) py px)%Z; [|destruct Ha]. destruct Ha as [<-|[]].
  simpl. rewrite Nat.max_0_r.
  assert (max_id (ct_not_vars (map (cidx w) (touching h w py px))) <= h * w); [|lia].
  apply max_id_ct_not_vars. intros i Hi. apply in_map_iff in Hi. destruct Hi as [[y x] [<- Hc]].
  apply touching_in in Hc. apply cidx_lt; tauto.
Qed.

(* the clue part of the rules is the clue part of the program *)
Lemma creek_clues_core gsem h w clue en :
  let ans := map (fun i => b2z (eb en i)) (seq 0 (h * w)) in
  forallb (fun '(py, px) =>
     let c := at2 clue (S w) py px in
     (c <? 0)%Z ||
     (zcount (fun '(y, x) => negb (isb (at2 ans w y x)))
             (filter (fun '(y, x) => (Nat.eqb (S y) py || Nat.eqb y py) && (Nat.eqb (S x) px || Nat.eqb x px))
                     (cells h w)) =? c)%Z) (cells (S h) (S w)) =
  forallb (holds gsem en) (creek_clues h w clue).
Proof.
  intros ans. unfold creek_clues. rewrite forallb_flat_map.
  apply forallb_ext_in. intros [py px] _.
  fold (touching h w py px).
  destruct (Z.leb_spec 0 (at2 clue (S w) py px)); destruct (Z.ltb_spec (at2 clue (S w) py px) 0); try lia; simpl.
  - rewrite holds_ct_not_eq, andb_true_r. f_equal. unfold zcount. f_equal. rewrite count_map.
    apply count_ext_in. intros [y x] Hc. apply touching_in in Hc. destruct Hc as [Hy Hx].
    f_equal. unfold at2, ans. rewrite getz_map_seq by (apply (cidx_lt h w y x); assumption).
    apply b2z_isb.
  - reflexivity.
Qed.

Lemma dims2c h w (rest : list (list Z)) :
  dim ([Z.of_nat h; Z.of_nat w] :: rest) 0 = h /\ dim ([Z.of_nat h; Z.of_nat w] :: rest) 1 = w.
Proof. unfold dim, zn, getz, sec; simpl. rewrite !Nat2Z.id. split; reflexivity. Qed.

Section Board.
  Variables (n : nat).
  Let acts := map BVar (seq 0 n).

  Lemma pattern_acts en v : pattern en acts v = Nat.ltb v n && eb en v.
  Proof.
    unfold pattern, acts. destruct (Nat.ltb_spec v n) as [L|L].
    - rewrite nth_indep with (d' := BVar 0) by (rewrite map_length, seq_length; exact L).
      rewrite map_nth, seq_nth by exact L. simpl. unfold holds. simpl. destruct (eb en v); reflexivity.
    - rewrite nth_overflow by (rewrite map_length, seq_length; exact L). reflexivity.
  Qed.

  Lemma reading_act en v :
    isb (getz (map (fun i => b2z (eb en i)) (seq 0 n)) v) = pattern en acts v.
  Proof.
    rewrite pattern_acts. destruct (Nat.ltb_spec v n) as [L|L].
    - rewrite getz_map_seq by exact L. apply b2z_isb.
    - unfold getz. rewrite nth_overflow by (rewrite map_length, seq_length; exact L). reflexivity.
  Qed.

  Lemma acts_fresh : fresh_below n acts.
  Proof.
    intros a Ha. unfold acts in Ha. apply in_map_iff in Ha. destruct Ha as [i [<- Hi]].
    apply in_seq in Hi. simpl. lia.
  Qed.
  Lemma acts_def en : acts_defined en acts.
  Proof.
    intros a Ha. unfold acts in Ha. apply in_map_iff in Ha. destruct Ha as [i [<- Hi]].
    eexists. reflexivity.
  Qed.
End Board.

(* reading the first n (boolean) variables of a state whose declarations start with n booleans *)
Lemma reads_bool_prefix st en n rest :
  vars st = repeat DBool n ++ rest ->
  reads st en (seq 0 n) = map (fun i => b2z (eb en i)) (seq 0 n).
Proof.
  intros Hv. unfold reads. apply map_ext_in. intros i Hi. apply in_seq in Hi.
  unfold read_var. rewrite Hv. rewrite nth_error_app1 by (rewrite repeat_length; lia).
  rewrite (nth_error_nth' _ DBool) by (rewrite repeat_length; lia).
  rewrite nth_repeat. reflexivity.
Qed.

Theorem creek_exact h w clue st ans :
  solve_creek_model [[Z.of_nat h; Z.of_nat w]; clue] = Ok st ->
  ((exists en, model_of gsem_avc en st /\ reads st en (seq 0 (h * w)) = ans)
   <-> rules_creek [[Z.of_nat h; Z.of_nat w]; clue] ans = true).
Proof.
  unfold solve_creek_model, rules_creek.
  destruct (dims2c h w [clue]) as [-> ->].
  change (sec [[Z.of_nat h; Z.of_nat w]; clue] 1) with clue.
  set (n := h * w). set (st0 := bool_grid_state n []). set (acts := map BVar (seq 0 n)).
  destruct (post_avc st0 acts (grid_graph h w) false false) as [st1|e] eqn:Hp; [|discriminate].
  intros H. inversion H; subst st; clear H.
  destruct (AvcSem.avc_eval _ _ _ _ _ Hp) as [Hv [_ [cs [Hc _]]]].
  assert (Hn0 : next_id st0 = n) by (unfold next_id, st0; simpl; apply repeat_length).
  assert (Hmod0 : forall en, model_of gsem_avc en st0).
  { intros en. split; [apply in_bounds_bool_grid|reflexivity]. }
  pose proof (avc_exact_models false st0 acts (grid_graph h w) st1) as EX.
  assert (Hfr : fresh_below (next_id st0) acts) by (rewrite Hn0; apply acts_fresh).
  assert (Hfc : fresh_below (next_id st0) (Program.cons st0)) by (intros a []).
  assert (Hsplit : forall en, model_of gsem_avc en (ensure st1 (creek_clues h w clue)) <->
                              (model_of gsem_avc en st1 /\ forallb (holds gsem_avc en) (creek_clues h w clue) = true)).
  { intros en. unfold model_of, in_bounds, satisfies, ensure. simpl. rewrite forallb_app, andb_true_iff. tauto. }
  assert (Hreads : forall en, reads (ensure st1 (creek_clues h w clue)) en (seq 0 n) =
                              map (fun i => b2z (eb en i)) (seq 0 n)).
  { intros en. eapply reads_bool_prefix. simpl. rewrite Hv. reflexivity. }
  split.
  - intros [en [Hm Hr]]. rewrite Hreads in Hr. subst ans.
    apply Hsplit in Hm. destruct Hm as [Hm1 Hcl].
    replace (Nat.eqb (length (map (fun i => b2z (eb en i)) (seq 0 n))) n) with true
      by (rewrite map_length, seq_length; symmetry; apply Nat.eqb_refl).
    replace (forallb is01 (map (fun i => b2z (eb en i)) (seq 0 n))) with true
      by (rewrite forallb_map; symmetry; apply forallb_forall; intros; apply is01_b2z).
    simpl andb. apply andb_true_iff. split.
    + unfold cells_connected, board.
      rewrite (connected_b_ext _ _ (pattern en acts) (grid_wf h w) (reading_act n en)).
      apply (connected_b_spec _ _ (grid_wf h w)).
      apply (EX en (grid_wf h w) Hfr Hfc (acts_def n en) (Hmod0 en) Hp).
      exists en. split; [|exact Hm1]. intros i _. split; reflexivity.
    + rewrite <- Hcl. apply (creek_clues_core gsem_avc h w clue en).
  - intros Hr.
    apply andb_true_iff in Hr. destruct Hr as [Hr Hcl].
    apply andb_true_iff in Hr. destruct Hr as [Hr Hconn].
    apply andb_true_iff in Hr. destruct Hr as [Hlen H01]. apply Nat.eqb_eq in Hlen.
    set (en0 := env_of_answer ans).
    pose proof (answer_as_reading ans n Hlen H01) as Ha. fold en0 in Ha.
    assert (Hspec : spec_avc false (grid_graph h w) (pattern en0 acts)).
    { simpl. apply (connected_b_spec _ _ (grid_wf h w)).
      rewrite <- (connected_b_ext _ _ (pattern en0 acts) (grid_wf h w) (reading_act n en0)).
      rewrite Ha. exact Hconn. }
    apply (EX en0 (grid_wf h w) Hfr Hfc (acts_def n en0) (Hmod0 en0) Hp) in Hspec.
    destruct Hspec as [en' [Hag Hm1]]. rewrite Hn0 in Hag.
    assert (Hsame : map (fun i => b2z (eb en' i)) (seq 0 n) = ans).
    { rewrite <- Ha. apply map_ext_in. intros i Hi. apply in_seq in Hi.
      destruct (Hag i ltac:(lia)) as [E _]. rewrite E. reflexivity. }
    exists en'. split; [|rewrite Hreads; exact Hsame].
    apply Hsplit. split; [exact Hm1|].
    pose proof (creek_clues_core gsem_avc h w clue en') as CC. cbv zeta in CC. fold n in CC.
    rewrite Hsame in CC. rewrite <- CC. exact Hcl.
Qed.

(* the premise is satisfiable: the model succeeds on every board with at least one cell, e.g. 2 x 3 *)
Example creek_model_ok : exists st, solve_creek_model [[2; 3]; [-1; 0; -1; -1; -1; 2; -1; -1; -1; -1; -1; 1]]%Z = Ok st.
Proof. vm_compute. eexists. reflexivity. Qed.
