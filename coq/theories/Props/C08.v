(* C08 - active_vertices_not_adjacent / active_vertices_not_adjacent_and_not_segmenting
   match their graph definitions *)
From Coq Require Import ZArith List Bool Arith.
From Cspuz Require Import Lib.PyErr Core.Expr Core.Program Core.Build
  Graph.GraphModel Graph.ReachProofs Graph.Avc Graph.AvcProofs
  Graph.NotAdj Graph.NotAdjForest Graph.NotAdjDiag Graph.NotAdjBounded Graph.NotAdjBoundedIndep Graph.NotAdjSem Graph.NotAdjMain
  Graph.NotAdjCompose.
From Cspuz Require Graph.NotAdjPlanarA Graph.NotAdjPlanarB Graph.NotAdjPlanarMain.
Import ListNotations.
Local Open Scope nat_scope.

(* explicit graph: one constraint per edge (a Python bool when both endpoints
   are Python bools), satisfied exactly when no edge has two active endpoints;
   any multigraph, self-loops included; list or BoolArray1D *)
Theorem not_adjacent_graph_exact : forall st acts g (arr : bool),
  (forall a b, In (a, b) (edges g) -> a < length acts /\ b < length acts) ->
  (forall a, In a acts -> is_bool_expr_like a = true) ->
  exists st',
    post_not_adjacent st (if arr then AArr1 acts else ASeq acts) (Some g) = (st', None) /\
    vars st' = vars st /\ keys st' = keys st /\ (exists cs, cons st' = cons st ++ cs) /\
    forall en, acts_defined en acts ->
      (forallb (holds gsem_avc en) (new_cons st st') = true <-> independent g (pattern en acts)).
Proof. exact NotAdjSem.not_adjacent_graph_exact. Qed.
Print Assumptions not_adjacent_graph_exact.

(* grid form, every shape (0xN, Nx0, 1xN, Nx1 included): the two shifted-slice
   conjunctions hold exactly when the explicit-graph form on _grid_graph(h, w) does *)
Theorem not_adjacent_grid_exact : forall st h w l,
  length l = h * w ->
  exists st',
    post_not_adjacent st (AArr2 h w l) None = (st', None) /\
    vars st' = vars st /\ keys st' = keys st /\ (exists cs, cons st' = cons st ++ cs) /\
    forall en, acts_defined en l ->
      (forallb (holds gsem_avc en) (new_cons st st') = true <-> independent (grid_graph h w) (pattern en l)).
Proof. exact NotAdjSem.not_adjacent_grid_exact. Qed.
Print Assumptions not_adjacent_grid_exact.

(* explicit graph, auxiliary-variable route: completable exactly when the
   pattern is independent and the inactive vertices are connected (uses C04's avc_exact) *)
Theorem not_segmenting_graph_exact : forall st l g st' en,
  wf_graph g = true -> length l = nv g ->
  (forall a, In a l -> is_bool_expr_like a = true) ->
  fresh_below (next_id st) l -> acts_defined en l ->
  post_not_segmenting false st (AArr1 l) (Some g) = (st', None) ->
  ((exists en', agree_below (next_id st) en en' /\
                in_bounds_from en' (next_id st) (new_vars st st') = true /\
                forallb (holds gsem_avc en') (new_cons st st') = true)
   <-> spec_not_segmenting g (pattern en l)).
Proof. exact NotAdjCompose.not_segmenting_graph_exact. Qed.
Print Assumptions not_segmenting_graph_exact.

(* explicit graph, native-operator route (operator meaning := connectivity) *)
Theorem not_segmenting_graph_primitive : forall st l g st',
  wf_graph g = true -> length l = nv g ->
  (forall a, In a l -> is_bool_expr_like a = true) ->
  post_not_segmenting true st (AArr1 l) (Some g) = (st', None) ->
  vars st' = vars st /\
  forall en, acts_defined en l ->
    (forallb (holds gsem_avc en) (new_cons st st') = true <-> spec_not_segmenting g (pattern en l)).
Proof. exact NotAdjCompose.not_segmenting_graph_primitive. Qed.
Print Assumptions not_segmenting_graph_primitive.

(* the rank certificate of the specialised encoding: an in-range rank
   assignment passing the checker exists exactly when the diagonal-adjacency
   graph on the active cells is a forest (every diagonal pair of active cells is
   a bridge) whose trees contain at most one border cell each; all h, w *)
Theorem diag_cert : forall h w act,
  (exists rank, diag_ranks_in_range h w rank /\ cert_diag h w act rank = true) <-> spec_diag h w act.
Proof. exact NotAdjDiag.diag_cert. Qed.
Print Assumptions diag_cert.

(* ... and the posted rank block is that certificate: all h, w with h*w >= 1 *)
Theorem diag_cert_exact : forall st h w l en,
  1 <= h * w -> length l = h * w -> (forall a, In a l -> is_boolexpr a = true) ->
  fresh_below (next_id st) l -> acts_defined en l ->
  exists st',
    post_diag st h w l = (st', None) /\
    ((exists en', agree_below (next_id st) en en' /\
                  in_bounds_from en' (next_id st) (new_vars st st') = true /\
                  forallb (holds gsem_avc en') (new_cons st st') = true)
     <-> spec_diag h w (pattern en l)).
Proof. exact NotAdjMain.diag_cert_exact. Qed.
Print Assumptions diag_cert_exact.

(* the executable forest check used by the search and by the bounded theorem *)
Theorem spec_diag_b_decides : forall h w act, spec_diag_b h w act = true <-> spec_diag h w act.
Proof. exact NotAdjDiag.spec_diag_b_spec. Qed.
Print Assumptions spec_diag_b_decides.

(* the planar-separation theorem, every grid size: on an independent pattern of
   an h x w grid with h, w >= 2 the diagonal forest condition holds exactly when
   the inactive cells induce a connected subgraph of the orthogonal grid.
   Direction A (forest => connected) by induction on the number of active cells,
   removing the active cell of largest certificate rank (at most one active
   diagonal neighbour, none on the border) and re-routing paths around it;
   direction B (connected => forest, every h and w) by a crossing-parity argument
   for diagonal walks, closed outside the grid for walks between border cells. *)
Theorem diag_equiv_dirA : forall h w act, 2 <= h -> 2 <= w ->
  independent (grid_graph h w) act -> spec_diag h w act -> connected (grid_graph h w) (inactive act).
Proof. exact NotAdjPlanarA.diag_equiv_dirA. Qed.
Print Assumptions diag_equiv_dirA.

Theorem diag_equiv_dirB : forall h w act,
  independent (grid_graph h w) act -> connected (grid_graph h w) (inactive act) -> spec_diag h w act.
Proof. exact NotAdjPlanarB.diag_equiv_dirB. Qed.
Print Assumptions diag_equiv_dirB.

Theorem diag_equiv : forall h w act, 2 <= h -> 2 <= w -> independent (grid_graph h w) act ->
  (spec_diag h w act <-> connected (grid_graph h w) (inactive act)).
Proof. exact NotAdjPlanarMain.diag_equiv. Qed.
Print Assumptions diag_equiv.

(* (kept: the same equivalence for h*w <= 16 by kernel computation over all
   independent patterns -- an independent check of the statement above) *)
Theorem diag_equiv_bounded : forall h w act, 2 <= h -> 2 <= w -> h * w <= 16 ->
  independent (grid_graph h w) act ->
  (spec_diag h w act <-> connected (grid_graph h w) (inactive act)).
Proof. exact NotAdjBoundedIndep.diag_equiv_16. Qed.
Print Assumptions diag_equiv_bounded.

(* grid form, h, w >= 2, every size: completable exactly when independent and
   the diagonal forest condition holds *)
Theorem not_segmenting_grid_diag_exact : forall cfg st h w l en,
  2 <= h -> 2 <= w -> length l = h * w -> (forall a, In a l -> is_boolexpr a = true) ->
  fresh_below (next_id st) l -> acts_defined en l ->
  exists st',
    post_not_segmenting cfg st (AArr2 h w l) None = (st', None) /\
    ((exists en', agree_below (next_id st) en en' /\
                  in_bounds_from en' (next_id st) (new_vars st st') = true /\
                  forallb (holds gsem_avc en') (new_cons st st') = true)
     <-> (independent (grid_graph h w) (pattern en l) /\ spec_diag h w (pattern en l))).
Proof. exact NotAdjCompose.not_segmenting_grid_diag_exact. Qed.
Print Assumptions not_segmenting_grid_diag_exact.

(* grid form, h, w >= 2, h*w <= 16: exactly the graph definition *)
Theorem not_segmenting_grid_exact_bounded : forall cfg st h w l en,
  2 <= h -> 2 <= w -> h * w <= 16 ->
  length l = h * w -> (forall a, In a l -> is_boolexpr a = true) ->
  fresh_below (next_id st) l -> acts_defined en l ->
  exists st',
    post_not_segmenting cfg st (AArr2 h w l) None = (st', None) /\
    ((exists en', agree_below (next_id st) en en' /\
                  in_bounds_from en' (next_id st) (new_vars st st') = true /\
                  forallb (holds gsem_avc en') (new_cons st st') = true)
     <-> spec_not_segmenting (grid_graph h w) (pattern en l)).
Proof. exact NotAdjCompose.not_segmenting_grid_exact_bounded. Qed.
Print Assumptions not_segmenting_grid_exact_bounded.

(* grid form, h, w >= 2, EVERY size: exactly the graph definition *)
Theorem not_segmenting_grid_exact : forall cfg st h w l en,
  2 <= h -> 2 <= w ->
  length l = h * w -> (forall a, In a l -> is_boolexpr a = true) ->
  fresh_below (next_id st) l -> acts_defined en l ->
  exists st',
    post_not_segmenting cfg st (AArr2 h w l) None = (st', None) /\
    ((exists en', agree_below (next_id st) en en' /\
                  in_bounds_from en' (next_id st) (new_vars st st') = true /\
                  forallb (holds gsem_avc en') (new_cons st st') = true)
     <-> spec_not_segmenting (grid_graph h w) (pattern en l)).
Proof. exact NotAdjPlanarMain.not_segmenting_grid_exact. Qed.
Print Assumptions not_segmenting_grid_exact.

(* (kept: the conditional form the theorem above was obtained from) *)
Theorem not_segmenting_grid_exact_if_diag_equiv : forall cfg st h w l en,
  diag_equiv_statement ->
  2 <= h -> 2 <= w ->
  length l = h * w -> (forall a, In a l -> is_boolexpr a = true) ->
  fresh_below (next_id st) l -> acts_defined en l ->
  exists st',
    post_not_segmenting cfg st (AArr2 h w l) None = (st', None) /\
    ((exists en', agree_below (next_id st) en en' /\
                  in_bounds_from en' (next_id st) (new_vars st st') = true /\
                  forallb (holds gsem_avc en') (new_cons st st') = true)
     <-> spec_not_segmenting (grid_graph h w) (pattern en l)).
Proof. exact NotAdjCompose.not_segmenting_grid_exact_if_diag_equiv. Qed.
Print Assumptions not_segmenting_grid_exact_if_diag_equiv.

(* single rows / columns (connectivity encoding): exact for every length *)
Theorem not_segmenting_line_exact : forall st h w l st' en,
  h = 1 \/ w = 1 -> length l = h * w -> (forall a, In a l -> is_boolexpr a = true) ->
  fresh_below (next_id st) l -> acts_defined en l ->
  post_not_segmenting false st (AArr2 h w l) None = (st', None) ->
  ((exists en', agree_below (next_id st) en en' /\
                in_bounds_from en' (next_id st) (new_vars st st') = true /\
                forallb (holds gsem_avc en') (new_cons st st') = true)
   <-> spec_not_segmenting (grid_graph h w) (pattern en l)).
Proof. exact NotAdjCompose.not_segmenting_line_exact. Qed.
Print Assumptions not_segmenting_line_exact.

(* the grid encoding accepts exactly what the explicit-graph form accepts on
   the corresponding grid graph: single rows / columns of any length, other
   shapes up to the kernel-checked bound *)
Theorem grid_form_matches_graph_form_bounded : forall st h w l en stg stx,
  1 <= h -> 1 <= w -> (h = 1 \/ w = 1 \/ h * w <= 16) ->
  length l = h * w -> (forall a, In a l -> is_boolexpr a = true) ->
  fresh_below (next_id st) l -> acts_defined en l ->
  post_not_segmenting false st (AArr2 h w l) None = (stg, None) ->
  post_not_segmenting false st (AArr1 l) (Some (grid_graph h w)) = (stx, None) ->
  (completable st stg en <-> completable st stx en).
Proof. exact NotAdjCompose.grid_form_matches_graph_form_bounded. Qed.
Print Assumptions grid_form_matches_graph_form_bounded.

(* ... and for every h, w >= 1 *)
Theorem grid_form_matches_graph_form : forall st h w l en stg stx,
  1 <= h -> 1 <= w ->
  length l = h * w -> (forall a, In a l -> is_boolexpr a = true) ->
  fresh_below (next_id st) l -> acts_defined en l ->
  post_not_segmenting false st (AArr2 h w l) None = (stg, None) ->
  post_not_segmenting false st (AArr1 l) (Some (grid_graph h w)) = (stx, None) ->
  (completable st stg en <-> completable st stx en).
Proof. exact NotAdjPlanarMain.grid_form_matches_graph_form. Qed.
Print Assumptions grid_form_matches_graph_form.

(* well-formed input raises nothing *)
Theorem not_segmenting_graph_succeeds : forall st l g,
  wf_graph g = true -> 1 <= nv g -> length l = nv g ->
  (forall a, In a l -> is_bool_expr_like a = true) ->
  exists st', post_not_segmenting false st (AArr1 l) (Some g) = (st', None).
Proof. exact NotAdjCompose.not_segmenting_graph_succeeds. Qed.
Print Assumptions not_segmenting_graph_succeeds.

Theorem not_segmenting_line_succeeds : forall st h w l,
  h = 1 \/ w = 1 -> 1 <= h * w -> length l = h * w ->
  exists st', post_not_segmenting false st (AArr2 h w l) None = (st', None).
Proof. exact NotAdjCompose.not_segmenting_line_succeeds. Qed.
Print Assumptions not_segmenting_line_succeeds.

(* error points *)
Theorem empty_grid_behaviour : forall st h w,
  h * w = 0 ->
  post_not_adjacent st (AArr2 h w []) None = (st, None) /\
  post_not_segmenting false st (AArr2 h w []) None = (st, Some ValueError).
Proof. exact NotAdjCompose.empty_grid_behaviour. Qed.
Print Assumptions empty_grid_behaviour.

Theorem zero_vertex_graph_behaviour : forall st g,
  nv g = 0 -> edges g = [] ->
  post_not_segmenting false st (AArr1 []) (Some g) = (st, Some ValueError).
Proof. exact NotAdjCompose.zero_vertex_graph_behaviour. Qed.
Print Assumptions zero_vertex_graph_behaviour.

Theorem wrapper_type_errors : forall cfg st h w l g l',
  post_not_adjacent st (AArr2 h w l) (Some g) = (st, Some TypeError) /\
  post_not_adjacent st (ASeq l') None = (st, Some TypeError) /\
  post_not_adjacent st (AArr1 l') None = (st, Some TypeError) /\
  post_not_segmenting cfg st (AArr2 h w l) (Some g) = (st, Some TypeError) /\
  post_not_segmenting cfg st (ASeq l') None = (st, Some TypeError) /\
  post_not_segmenting cfg st (AArr1 l') None = (st, Some TypeError).
Proof. exact NotAdjCompose.wrapper_type_errors. Qed.
Print Assumptions wrapper_type_errors.
