(* C11 Tier 1 - composition with property C06 for a loop solver that, AFTER the call
   graph.active_edges_single_cycle(solver, grid_frame) on the fresh frame (CycleFrameBase.frame_cycle), declares
   further boolean variables (cspuz/puzzle/castle_wall.py: is_inside) and posts constraints over the frame
   variables, the returned is_passed entries and the later variables.
     frame_cycle_shape   : the state after the call, explicitly (C06's post_cycle_enc_shape on the frame)
     frame_cycle_closed  : its models only depend on the variables declared so far
     cycle_frame_compose_aux : the answer-key readings of the final program are the 0/1 vectors that are a single
                           loop on PuzzleBase.lattice (h+1) (w+1) and satisfy [local], when (a) every model of the
                           later constraints satisfies [local] and (b) [local] plus "the later variables carry the
                           values aux computes from the frame" make the later constraints true.
   Same ingredients as CycleCompose.cycle_frame_compose (C06's closed theorems cycle_frame / cycle_frame_exact). *)
From Coq Require Import ZArith List Bool Arith Lia Permutation.
From Cspuz Require Import Lib.PyErr Core.Expr Core.Program Graph.GraphModel Graph.ReachProofs
     Graph.Cycle Graph.CycleLemmas Graph.CycleCert Graph.CycleProofs Graph.CycleMain Graph.CycleFrame Graph.CycleSpec
     Puzzle.PuzzleBase Puzzle.SatAbs Puzzle.ModelBase Puzzle.ModelLemmas Puzzle.CreekProofs
     Puzzle.CycleFrameBase Puzzle.CycleCompose.
Import ListNotations.
Local Open Scope nat_scope.

Notation b2z := PuzzleBase.b2z.

Lemma cw_agree_below_le k k' e1 e2 : k <= k' -> agree_below k' e1 e2 -> agree_below k e1 e2.
Proof. intros Hk H i Hi. apply H. lia. Qed.
Lemma cw_agree_below_refl k e : agree_below k e e.
Proof. intros i _. split; reflexivity. Qed.

Lemma cw_in_bounds_agree k e1 e2 vs : agree_below k e1 e2 -> forall i,
  i + length vs <= k -> in_bounds_from e1 i vs = in_bounds_from e2 i vs.
Proof.
  intros Hag. induction vs as [|v vs IH]; intros i Hi; simpl in *; [reflexivity|].
  destruct v; rewrite IH by lia; [reflexivity|].
  destruct (Hag i) as [_ H]; [lia|]. rewrite H. reflexivity.
Qed.

Section Shape.
  Variables h w : nat.
  Let N := frame_n h w.
  Let hor := frame_hor h w.
  Let ver := frame_ver h w.
  Let fe := frame_edges h w hor ver.
  Let G := frame_graph h w hor ver.
  Let st0 := frame_state h w.

  Lemma frame_cycle_shape st1 res :
    frame_cycle h w = Ok (st1, res) ->
    res = P2 (S h) (S w) (frame_passed h w) /\
    vars st1 = repeat DBool N ++ new_decls_enc G /\
    Program.cons st1 = enc_cons fe G N.
  Proof.
    unfold frame_cycle. intros Hcall.
    destruct (CycleFrame.cycle_frame h w _ _ (frame_hor_length h w) (frame_ver_length h w))
      as [_ [_ [Hwf [Hlen [_ [Hc _]]]]]].
    rewrite Hc in Hcall.
    assert (Hcl : forall e, In e (frame_edges h w (frame_hor h w) (frame_ver h w)) -> is_constraint_like e = true).
    { intros e He. apply (frame_edges_in h w _ _ (frame_hor_length h w) (frame_ver_length h w)) in He.
      destruct He as [He|He]; apply in_map_iff in He; destruct He as [k [<- _]]; reflexivity. }
    assert (Hb : next_id (frame_state h w) = frame_n h w) by (unfold next_id; simpl; apply repeat_length).
    destruct (post_cycle_enc_shape _ (frame_graph h w (frame_hor h w) (frame_ver h w)) (frame_n h w) Hwf
                ltac:(rewrite Hlen; apply le_n) Hcl (frame_state h w) Hb ltac:(simpl; lia)) as [st' [Hp [Hv Hcs]]].
    rewrite Hp in Hcall. inversion Hcall; subst st' res. clear Hcall.
    split; [reflexivity|]. split; [exact Hv|]. rewrite Hcs. reflexivity.
  Qed.

  Lemma frame_cycle_next_id st1 res :
    frame_cycle h w = Ok (st1, res) -> next_id st1 = N + 3 * (S h * S w).
  Proof.
    intros Hcall. destruct (frame_cycle_shape st1 res Hcall) as [_ [Hv _]].
    unfold next_id. rewrite Hv. unfold new_decls_enc. rewrite !app_length, !repeat_length.
    change (nv G) with (S h * S w). lia.
  Qed.

  Lemma frame_flags_ok gsem en : flags_ok gsem st0 en fe.
  Proof.
    intros e He. apply (frame_edges_in h w _ _ (frame_hor_length h w) (frame_ver_length h w)) in He.
    assert (Hn0 : next_id st0 = N) by (unfold next_id; simpl; apply repeat_length).
    destruct He as [He|He]; apply in_map_iff in He; destruct He as [k [<- Hk]]; apply in_seq in Hk;
      (split; [reflexivity|]; split; [rewrite Hn0; unfold N, frame_n; simpl; lia|]; eexists; reflexivity).
  Qed.

  (* the models of the state after the call do not look at variables declared later *)
  Lemma frame_cycle_closed gsem st1 res e1 e2 :
    frame_cycle h w = Ok (st1, res) ->
    agree_below (next_id st1) e1 e2 -> model_of gsem e1 st1 -> model_of gsem e2 st1.
  Proof.
    intros Hcall Hag [Hb Hs].
    pose proof (frame_cycle_next_id st1 res Hcall) as Hnid.
    destruct (frame_cycle_shape st1 res Hcall) as [_ [Hv Hcs]].
    destruct (CycleFrame.cycle_frame h w _ _ (frame_hor_length h w) (frame_ver_length h w))
      as [_ [_ [Hwf [Hlen [_ _]]]]].
    fold hor ver fe G in Hwf, Hlen.
    assert (Hcl : forall e, In e fe -> is_constraint_like e = true).
    { intros e He. destruct (frame_flags_ok gsem e1 e He) as [H _]. exact H. }
    assert (Hlen' : length (edges G) <= length fe) by (rewrite Hlen; apply le_n).
    assert (Hn0 : next_id st0 = N) by (unfold next_id; simpl; apply repeat_length).
    split.
    - rewrite <- Hb. unfold in_bounds. symmetry. apply (cw_in_bounds_agree (next_id st1)); [exact Hag|].
      unfold next_id. lia.
    - unfold satisfies in *. rewrite Hcs in *.
      set (A := pattern gsem e1 fe).
      assert (HA1 : forall k, k < length (edges G) -> eval gsem e1 (flag fe k) = Some (VB (A k))).
      { intros k Hk. apply (pattern_flag gsem st0 e1 e1 fe k (frame_flags_ok gsem e1) (cw_agree_below_refl _ _)). lia. }
      assert (HA2 : forall k, k < length (edges G) -> eval gsem e2 (flag fe k) = Some (VB (A k))).
      { intros k Hk. apply (pattern_flag gsem st0 e1 e2 fe k (frame_flags_ok gsem e1)); [|lia].
        apply (cw_agree_below_le _ (next_id st1)); [rewrite Hn0, Hnid; lia|exact Hag]. }
      apply (enc_cons_holds fe G N Hlen' Hcl gsem e2 A HA2).
      apply (enc_cons_holds fe G N Hlen' Hcl gsem e1 A HA1) in Hs.
      eapply (cert_ext G A Hwf); [|exact Hs].
      intros i Hi. change (nv G) with (S h * S w) in *. unfold eP, er, eR. change (nv G) with (S h * S w).
      rewrite Hnid in Hag.
      destruct (Hag (N + i)) as [H1 _]; [lia|].
      destruct (Hag (N + S h * S w + i)) as [_ H2]; [lia|].
      destruct (Hag (N + S h * S w + S h * S w + i)) as [H3 _]; [lia|].
      auto.
  Qed.
End Shape.

(* overwrite the boolean variables B .. B+m-1 of an assignment *)
Definition cw_splice (B m : nat) (en : env) (val : nat -> bool) : env :=
  {| eb := fun i => if Nat.leb B i && Nat.ltb i (B + m) then val (i - B) else eb en i; ei := ei en |}.

Lemma cw_splice_agree B m en val : agree_below B en (cw_splice B m en val).
Proof.
  intros i Hi. cbn [cw_splice eb ei]. destruct (Nat.leb_spec B i); [lia|]. split; reflexivity.
Qed.
Lemma cw_splice_at B m en val j : j < m -> eb (cw_splice B m en val) (B + j) = val j.
Proof.
  intros Hj. cbn [cw_splice eb]. destruct (Nat.leb_spec B (B + j)); [|lia].
  destruct (Nat.ltb_spec (B + j) (B + m)); [|lia]. simpl. f_equal. lia.
Qed.

Theorem cycle_frame_compose_aux gsem h w m (extra : list expr) (local : answer -> bool)
        (aux : answer -> nat -> bool) st1 res st ans :
  frame_cycle h w = Ok (st1, res) ->
  vars st = vars st1 ++ repeat DBool m ->
  Program.cons st = Program.cons st1 ++ extra ->
  (forall en,
     (forall y x, y <= h -> x <= w ->
        eb en (frame_pid h w y x) = on_line (lattice (S h) (S w)) (eb en) (y * S w + x)) ->
     forallb (holds gsem en) extra = true ->
     local (map (fun i => b2z (eb en i)) (seq 0 (frame_n h w))) = true) ->
  (forall en,
     (forall y x, y <= h -> x <= w ->
        eb en (frame_pid h w y x) = on_line (lattice (S h) (S w)) (eb en) (y * S w + x)) ->
     local (map (fun i => b2z (eb en i)) (seq 0 (frame_n h w))) = true ->
     (forall j, j < m -> eb en (next_id st1 + j) = aux (map (fun i => b2z (eb en i)) (seq 0 (frame_n h w))) j) ->
     forallb (holds gsem en) extra = true) ->
  ((exists en, model_of gsem en st /\ reads st en (seq 0 (frame_n h w)) = ans)
   <-> Nat.eqb (length ans) (frame_n h w) && forallb is01 ans &&
       single_loop_b (lattice (S h) (S w)) (fun k => isb (getz ans k)) && local ans = true).
Proof.
  set (N := frame_n h w). set (st0 := frame_state h w).
  set (hor := frame_hor h w). set (ver := frame_ver h w).
  set (G := frame_graph h w hor ver). set (fe := frame_edges h w hor ver).
  set (L := lattice (S h) (S w)).
  intros Hcall Hvars Hcons Hloc1 Hloc2.
  destruct (frame_cycle_ok h w) as [st1' [rest [Hcall' Hv]]].
  rewrite Hcall in Hcall'. inversion Hcall'; subst st1' res. clear Hcall'.
  pose proof (frame_cycle_next_id h w st1 _ Hcall) as HB. fold N in HB.
  set (B := next_id st1) in *.
  assert (Hn0 : next_id st0 = N) by (unfold next_id; simpl; apply repeat_length).
  assert (Hf : forall en, flags_ok gsem st0 en (hor ++ ver)).
  { intros en e He. apply in_app_iff in He.
    destruct He as [He|He]; apply in_map_iff in He; destruct He as [k [<- Hk]]; apply in_seq in Hk;
      (split; [reflexivity|]; split; [rewrite Hn0; unfold N, frame_n; simpl; lia|]; eexists; reflexivity). }
  assert (Hib : forall en, in_bounds en st0 = true) by (intros en; apply in_bounds_bool_grid).
  assert (HLlen : length (edges L) = N) by apply lattice_edges_length.
  assert (Hsplit : forall en, model_of gsem en st <->
                              (model_of gsem en st1 /\ forallb (holds gsem en) extra = true)).
  { intros en. unfold model_of, in_bounds, satisfies. rewrite Hvars, Hcons.
    rewrite CycleLemmas.in_bounds_from_app, CycleLemmas.in_bounds_from_bools, andb_true_r.
    rewrite forallb_app, andb_true_iff. tauto. }
  assert (Hreads : forall en, reads st en (seq 0 N) = map (fun i => b2z (eb en i)) (seq 0 N)).
  { intros en. eapply reads_bool_prefix. rewrite Hvars, Hv, <- app_assoc. reflexivity. }
  assert (Hext : forall en en', extends_sat gsem st0 st1 en en' -> model_of gsem en' st1).
  { intros en en' [_ [H1 H2]]. split; [exact H1|exact H2]. }
  assert (Hself : forall en, model_of gsem en st1 -> extends_sat gsem st0 st1 en en).
  { intros en [H1 H2]. split; [intros i _; split; reflexivity|]. split; [exact H1|exact H2]. }
  assert (C6 : forall en,
     ((exists en', extends_sat gsem st0 st1 en en') <-> single_loop_b L (eb en) = true) /\
     (forall en', extends_sat gsem st0 st1 en en' ->
        forall y x, y <= h -> x <= w -> eb en' (frame_pid h w y x) = on_line L (eb en) (y * S w + x))).
  { intros en.
    destruct (CycleFrame.cycle_frame_exact h w hor ver (frame_hor_length h w) (frame_ver_length h w)
                gsem st0 en st1 _ (Hf en) (Hib en) Hcall) as [p [Hp [_ [EX PASS]]]].
    inversion Hp; subst p. clear Hp.
    destruct (frame_lattice h w gsem en) as [FL1 FL2]. fold hor ver L in FL1, FL2.
    split.
    - rewrite <- FL1. exact EX.
    - intros en' He y x Hy Hx. destruct (PASS en' He y x Hy Hx) as [q [Hq1 Hq2]].
      unfold frame_passed in Hq1. rewrite nth_error_map_seq in Hq1 by nia.
      inversion Hq1; subst q. rewrite <- FL2. rewrite <- Hq2.
      unfold holds. simpl. unfold frame_pid. fold N.
      replace (N + y * S w + x) with (N + (y * S w + x)) by lia.
      destruct (eb en' (N + (y * S w + x))); reflexivity. }
  assert (Hread_on : forall en k, k < N ->
            isb (getz (map (fun i => b2z (eb en i)) (seq 0 N)) k) = eb en k).
  { intros en k Hk. rewrite getz_map_seq by exact Hk. apply b2z_isb. }
  split.
  - intros [en [Hm Hr]]. rewrite Hreads in Hr. subst ans.
    apply Hsplit in Hm. destruct Hm as [Hm1 Hcl].
    replace (Nat.eqb (length (map (fun i => b2z (eb en i)) (seq 0 N))) N) with true
      by (rewrite map_length, seq_length; symmetry; apply Nat.eqb_refl).
    replace (forallb is01 (map (fun i => b2z (eb en i)) (seq 0 N))) with true
      by (rewrite forallb_map; symmetry; apply forallb_forall; intros; apply is01_b2z).
    simpl andb. apply andb_true_iff. destruct (C6 en) as [EX PASS]. split.
    + apply (single_loop_b_ext L (eb en) _ (lattice_wf h w)).
      * intros k Hk. rewrite HLlen in Hk. symmetry. apply Hread_on. exact Hk.
      * apply EX. exists en. apply Hself. exact Hm1.
    + apply Hloc1; [|exact Hcl]. apply PASS. apply Hself. exact Hm1.
  - intros Hr.
    apply andb_true_iff in Hr. destruct Hr as [Hr Hcl].
    apply andb_true_iff in Hr. destruct Hr as [Hr Hloop].
    apply andb_true_iff in Hr. destruct Hr as [Hlen H01]. apply Nat.eqb_eq in Hlen.
    set (en0 := env_of_answer ans).
    pose proof (answer_as_reading ans N Hlen H01) as Ha. fold en0 in Ha.
    destruct (C6 en0) as [EX PASS].
    destruct (proj2 EX Hloop) as [en' He].
    pose proof He as [Hag _]. rewrite Hn0 in Hag.
    set (en2 := cw_splice B m en' (aux ans)).
    assert (Hag2 : agree_below B en' en2) by apply cw_splice_agree.
    assert (Hsame : map (fun i => b2z (eb en2 i)) (seq 0 N) = ans).
    { rewrite <- Ha. apply map_ext_in. intros i Hi. apply in_seq in Hi.
      destruct (Hag2 i ltac:(lia)) as [E2 _]. destruct (Hag i ltac:(lia)) as [E _]. rewrite <- E2, E. reflexivity. }
    assert (Hpass2 : forall y x, y <= h -> x <= w ->
              eb en2 (frame_pid h w y x) = on_line L (eb en2) (y * S w + x)).
    { intros y x Hy Hx.
      destruct (Hag2 (frame_pid h w y x)) as [E2 _]; [unfold frame_pid; fold N; nia|].
      rewrite <- E2, (PASS en' He y x Hy Hx).
      apply on_line_ext. intros k Hk. fold L in Hk. rewrite HLlen in Hk.
      destruct (Hag2 k ltac:(lia)) as [E3 _]. destruct (Hag k Hk) as [E _]. rewrite <- E3, E. reflexivity. }
    exists en2. split; [|rewrite Hreads; exact Hsame].
    apply Hsplit. split.
    + apply (frame_cycle_closed h w gsem st1 _ en' en2 Hcall Hag2). exact (Hext _ _ He).
    + apply Hloc2; [exact Hpass2|rewrite Hsame; exact Hcl|].
      intros j Hj. rewrite Hsame. apply cw_splice_at. exact Hj.
Qed.
