(* C05, primitive route (use_graph_primitive): one indicator array per label,
   linked vertex by vertex to the labels, each constrained by a
   GRAPH_ACTIVE_VERTICES_CONNECTED node whose meaning is *defined* as
   connectivity (Division.avc_sem); count_true(region) >= 1 unless
   allow_empty_group; roots.  Reduction to spec_division. *)
From Coq Require Import ZArith List Bool Arith Lia.
From Cspuz Require Import Lib.PyErr Core.Expr Core.Program Core.Build Graph.GraphModel Graph.ReachProofs
  Graph.Division Graph.DivisionCert Graph.DivisionEval Graph.DivisionProofs.
Import ListNotations.
Open Scope nat_scope.

(* ------------------------------------------------------------------------ *)
(* decoding the operand layout of the native operator                         *)

Lemma take_n_app {A} (a b : list A) : take_n (length a) (a ++ b) = Some (a, b).
Proof. induction a as [|x a IH]; simpl; [reflexivity|]. rewrite IH. reflexivity. Qed.

Lemma all_bools_map {X} (f : X -> bool) l :
  all_bools (map (fun v => Some (VB (f v))) l) = Some (map f l).
Proof. induction l as [|x l IH]; simpl; [reflexivity|]. rewrite IH. reflexivity. Qed.

Definition flat_nat (es : list (nat * nat)) : list nat := flat_map (fun '(a, b) => [a; b]) es.

Lemma pair_up_flat es : pair_up (flat_nat es) = es.
Proof. induction es as [|[a b] r IH]; simpl; [reflexivity|]. rewrite IH. reflexivity. Qed.

Lemma flat_edges_decode gsem en n es :
  forallb (fun '(a, b) => Nat.ltb a n && Nat.ltb b n) es = true ->
  all_vertices n (map (eval gsem en) (flat_map (fun '(a, b) => [PyInt (Z.of_nat a); PyInt (Z.of_nat b)]) es))
  = Some (flat_nat es).
Proof.
  induction es as [|[a b] r IH]; simpl; intros H; [reflexivity|].
  apply andb_true_iff in H. destruct H as [Hab Hr]. apply andb_true_iff in Hab. destruct Hab as [Ha Hb].
  apply Nat.ltb_lt in Ha. apply Nat.ltb_lt in Hb.
  destruct (Z.leb_spec 0 (Z.of_nat a)); [|lia]. destruct (Z.ltb_spec (Z.of_nat a) (Z.of_nat n)); [|lia].
  destruct (Z.leb_spec 0 (Z.of_nat b)); [|lia]. destruct (Z.ltb_spec (Z.of_nat b) (Z.of_nat n)); [|lia].
  simpl. rewrite (IH Hr). simpl. rewrite !Nat2Z.id. reflexivity.
Qed.

Lemma flat_edges_length (es : list (nat * nat)) :
  length (flat_map (fun '(a, b) => [PyInt (Z.of_nat a); PyInt (Z.of_nat b)]) es) = 2 * length es.
Proof. induction es as [|[a b] r IH]; simpl; [reflexivity|]. rewrite IH. lia. Qed.

Lemma graph_eta g : {| nv := nv g; edges := edges g |} = g.
Proof. destruct g; reflexivity. Qed.

(* the node built by _active_vertices_connected(..., use_graph_primitive=True)
   over variables means: the vertices whose variable is true are connected *)
Lemma avc_node_holds en g (b : nat) :
  wf_graph g = true ->
  holds division_gsem en
    (BNode G_AVC ([PyInt (Z.of_nat (nv g)); PyInt (Z.of_nat (length (edges g)))]
                  ++ map (fun v => BVar (b + v)) (seq 0 (nv g)) ++ flat_edges g))
  = connected_b g (fun v => nth v (map (fun v => eb en (b + v)) (seq 0 (nv g))) false).
Proof.
  intros Hwf. unfold holds. cbn [eval]. unfold eval_bop. cbn [app map eval].
  unfold division_gsem, avc_sem.
  destruct (Z.leb_spec 0 (Z.of_nat (nv g))); [|lia].
  destruct (Z.leb_spec 0 (Z.of_nat (length (edges g)))); [|lia]. cbn [andb].
  rewrite !Nat2Z.id. rewrite map_app, map_map. cbn [eval].
  assert (Hl : length (map (fun x => Some (VB (eb en (b + x)))) (seq 0 (nv g))) = nv g)
    by (rewrite map_length, seq_length; reflexivity).
  rewrite <- Hl at 1. rewrite take_n_app. unfold flat_edges. rewrite map_length, flat_edges_length, Nat.eqb_refl.
  rewrite (all_bools_map (fun x => eb en (b + x))).
  rewrite (flat_edges_decode _ en (nv g) (edges g) Hwf).
  rewrite pair_up_flat, graph_eta. cbn [option_map]. destruct (connected_b g _); reflexivity.
Qed.

(* ------------------------------------------------------------------------ *)
(* one block, and the sequence of blocks                                      *)

Lemma forallb_ext_in' {A} (f h : A -> bool) l :
  (forall x, In x l -> f x = h x) -> forallb f l = forallb h l.
Proof.
  induction l as [|a l IH]; simpl; intros H; [reflexivity|].
  rewrite (H a (or_introl eq_refl)), IH; [reflexivity|]. intros x Hx. apply H. right; exact Hx.
Qed.

Lemma forallb_map' {A B} (f : B -> bool) (h : A -> B) l :
  forallb f (map h l) = forallb (fun x => f (h x)) l.
Proof. induction l as [|a l IH]; simpl; [reflexivity|]. rewrite IH. reflexivity. Qed.

Lemma countb_ge1 {A} (p : A -> bool) l x : In x l -> p x = true -> 1 <= countb p l.
Proof.
  intros Hin Hp. unfold countb.
  assert (H : In x (filter p l)) by (apply filter_In; split; assumption).
  destruct (filter p l); [destruct H|simpl; lia].
Qed.

Section Blocks.
  Variables (g : graph) (labels : list expr) (aeg : bool).
  Let n := nv g.
  Hypothesis Hwf : wf_graph g = true.
  Hypothesis Hlen : length labels = n.

  Definition region_of (b : nat) : list expr := map (fun v => BVar (b + v)) (seq 0 n).
  Definition act_of (en : env) (b : nat) : nat -> bool :=
    fun v => nth v (map (fun v => eb en (b + v)) (seq 0 n)) false.

  Lemma act_of_lt en b v : v < n -> act_of en b v = eb en (b + v).
  Proof.
    intros Hv. unfold act_of. rewrite (nth_indep _ false (eb en (b + 0))) by (rewrite map_length, seq_length; exact Hv).
    rewrite (map_nth (fun v => eb en (b + v)) (seq 0 n) 0 v). rewrite seq_nth by exact Hv. reflexivity.
  Qed.

  Definition block_ok (en : env) (label : nat -> Z) (b k : nat) : bool :=
    forallb (fun v => Bool.eqb (eb en (b + v)) (label v =? Z.of_nat k)%Z) (seq 0 n)
    && connected_b g (act_of en b)
    && (aeg || Nat.leb 1 (countb (fun v => eb en (b + v)) (seq 0 n))).

  Fixpoint blocks_ok (en : env) (label : nat -> Z) (b : nat) (ks : list nat) : bool :=
    match ks with
    | [] => true
    | k :: r => block_ok en label b k && blocks_ok en label (b + n) r
    end.

  Lemma blocks_ok_iff en label ks : forall b,
    blocks_ok en label b ks = true <->
    (forall idx k, nth_error ks idx = Some k -> block_ok en label (b + idx * n) k = true).
  Proof.
    induction ks as [|k0 r IH]; intros b; simpl.
    - split; [intros _ idx k H; destruct idx; discriminate|reflexivity].
    - rewrite andb_true_iff, IH. split.
      + intros [H0 Hr] idx k Hn. destruct idx as [|idx]; simpl in Hn.
        * inversion Hn; subst. simpl. rewrite Nat.add_0_r. exact H0.
        * specialize (Hr idx k Hn). replace (b + S idx * n) with (b + n + idx * n) by (simpl; lia). exact Hr.
      + intros H. split.
        * specialize (H 0 k0 eq_refl). simpl in H. rewrite Nat.add_0_r in H. exact H.
        * intros idx k Hn. specialize (H (S idx) k Hn).
          replace (b + S idx * n) with (b + n + idx * n) in H by (simpl; lia). exact H.
  Qed.

  Definition labels_eval (en : env) (label : nat -> Z) : Prop :=
    forall v, v < n -> is_int_expr_like (nth v labels (PyInt 0)) = true /\
                       evi division_gsem en (nth v labels (PyInt 0)) (label v).

  Lemma region_links_ok b k :
    region_links (region_of b) labels n k
    = Ok (map (fun v => BNode IFF [BVar (b + v); py_eq (nth v labels (PyInt 0)) (PyInt (Z.of_nat k))]) (seq 0 n)).
  Proof.
    unfold region_links. apply mapM_all_ok. intros v Hv. apply in_seq in Hv.
    unfold region_of. rewrite (nth_res_map_seq (fun v => BVar (b + v)) n v) by lia. simpl.
    rewrite (nth_res_nth labels v (PyInt 0)) by lia. reflexivity.
  Qed.

  (* the program of one block, and its meaning *)
  Lemma block_step st s k r st' :
    seq_data s = labels ->
    prim_regions st s g aeg (k :: r) = Ok st' ->
    exists cs st4,
      vars st4 = vars st ++ repeat DBool n /\ cons st4 = cons st ++ cs /\
      prim_regions st4 s g aeg r = Ok st' /\
      (forall en label, labels_eval en label ->
         forallb (holds division_gsem en) cs = block_ok en label (next_id st) k).
  Proof.
    intros Hs H. simpl in H. unfold bool_array in H. rewrite bool_vars_spec in H. fold n in H.
    rewrite Hs in H. change (map (fun i => BVar (next_id st + i)) (seq 0 n)) with (region_of (next_id st)) in H.
    rewrite region_links_ok in H. simpl in H.
    unfold avc_primitive_node in H. unfold region_of in H at 1. rewrite map_length, seq_length in H.
    fold n in H. rewrite Nat.eqb_refl in H. simpl in H.
    destruct (count_true_map division_gsem {| eb := fun _ => false; ei := fun _ => 0%Z |}
                (fun v => BVar (next_id st + v)) (fun _ => false) (seq 0 n)) as [ct [Hct _]].
    { intros v _. split; reflexivity. }
    fold (region_of (next_id st)) in Hct.
    set (links := map (fun v => BNode IFF [BVar (next_id st + v);
                         py_eq (nth v labels (PyInt 0)) (PyInt (Z.of_nat k))]) (seq 0 n)) in *.
    set (node := BNode G_AVC ([PyInt (Z.of_nat n); PyInt (Z.of_nat (length (edges g)))]
                              ++ region_of (next_id st) ++ flat_edges g)) in *.
    assert (Hlinks : forall en label, labels_eval en label ->
              forallb (holds division_gsem en) links
              = forallb (fun v => Bool.eqb (eb en (next_id st + v)) (label v =? Z.of_nat k)%Z) (seq 0 n)).
    { intros en label Hle. unfold links. rewrite forallb_map'. apply forallb_ext_in'.
      intros v Hv. apply in_seq in Hv. destruct (Hle v) as [Lv Ev]; [lia|].
      apply evb_holds. apply evb_iff; [apply evb_bvar|].
      apply evb_py_eq; [exact Lv|reflexivity|exact Ev|apply evi_int]. }
    assert (Hnode : forall en, holds division_gsem en node = connected_b g (act_of en (next_id st))).
    { intros en. unfold node, region_of, n. apply avc_node_holds. exact Hwf. }
    destruct aeg eqn:Ea.
    - exists (links ++ [node]), (ensure (ensure (add_decls st (repeat DBool n)) links) [node]).
      split; [reflexivity|]. split; [simpl; rewrite <- app_assoc; reflexivity|]. split; [exact H|].
      intros en label Hle. rewrite forallb_app, (Hlinks en label Hle). simpl. rewrite Hnode, andb_true_r.
      unfold block_ok. rewrite Ea. simpl. rewrite andb_true_r. reflexivity.
    - rewrite Hct in H. simpl in H.
      exists (links ++ [node] ++ [i_ge ct (PyInt 1)]),
             (ensure (ensure (ensure (add_decls st (repeat DBool n)) links) [node]) [i_ge ct (PyInt 1)]).
      split; [reflexivity|]. split; [simpl; rewrite <- !app_assoc; reflexivity|]. split; [exact H|].
      intros en label Hle. rewrite !forallb_app, (Hlinks en label Hle). simpl. rewrite Hnode, !andb_true_r.
      unfold block_ok. rewrite Ea. simpl. rewrite <- andb_assoc. f_equal. f_equal.
      destruct (count_true_map division_gsem en (fun v => BVar (next_id st + v))
                  (fun v => eb en (next_id st + v)) (seq 0 n)) as [ct' [Hct' Hev]].
      { intros v _. split; [reflexivity|apply evb_bvar]. }
      fold (region_of (next_id st)) in Hct'. rewrite Hct in Hct'. inversion Hct'; subst ct'.
      rewrite (evb_holds division_gsem en _ _ (evb_ge division_gsem en _ _ _ _ Hev (evi_int division_gsem en 1))).
      generalize (countb (fun v => eb en (next_id st + v)) (seq 0 n)). intros c.
      destruct c as [|c]; [reflexivity|]. destruct (Z.leb_spec 1 (Z.of_nat (S c))); [reflexivity|lia].
  Qed.

  Lemma prim_regions_sem s ks : seq_data s = labels -> forall st st',
    prim_regions st s g aeg ks = Ok st' ->
    exists blocks,
      vars st' = vars st ++ repeat DBool (length ks * n) /\ cons st' = cons st ++ blocks /\
      (forall en label, labels_eval en label ->
         forallb (holds division_gsem en) blocks = blocks_ok en label (next_id st) ks).
  Proof.
    intros Hs. induction ks as [|k r IH]; intros st st' H.
    - simpl in H. inversion H; subst st'. exists []. simpl. rewrite !app_nil_r. repeat split; reflexivity.
    - destruct (block_step st s k r st' Hs H) as [cs [st4 [Hv [Hc [Hrest Hsem]]]]].
      destruct (IH st4 st' Hrest) as [blocks [Hv' [Hc' Hsem']]].
      exists (cs ++ blocks). split; [|split].
      + rewrite Hv', Hv, <- app_assoc, <- repeat_app. reflexivity.
      + rewrite Hc', Hc, <- app_assoc. reflexivity.
      + intros en label Hle. rewrite forallb_app, (Hsem en label Hle), (Hsem' en label Hle). simpl.
        f_equal. f_equal. unfold next_id. rewrite Hv, app_length, repeat_length. reflexivity.
  Qed.

  Lemma prim_roots_eval en label : labels_eval en label -> forall rs k cs,
    prim_roots labels k rs = Ok cs ->
    forallb (holds division_gsem en) cs = roots_hold n label k rs.
  Proof.
    intros Hle. induction rs as [|a rs IH]; intros k cs H; simpl in H.
    - inversion H; reflexivity.
    - destruct a as [|z|l]; [| |discriminate].
      + simpl. apply IH; exact H.
      + destruct (py_nth labels z) as [d|] eqn:Ed; simpl in H; [|discriminate].
        destruct (prim_roots labels (S k) rs) as [rest|] eqn:Erest; simpl in H; [|discriminate].
        inversion H; subst cs. clear H.
        destruct (py_nth_root_vertex g labels Hlen labels z d Hlen Ed) as [v [Hv [Hvn Hd]]].
        unfold roots_hold; fold roots_hold. fold n in Hv. rewrite Hv. cbn [forallb].
        rewrite (IH (S k) rest Erest).
        assert (Hd' : d = nth v labels (PyInt 0)) by (symmetry; apply nth_error_nth; exact Hd).
        subst d. destruct (Hle v Hvn) as [Lv Ev].
        rewrite (evb_holds division_gsem en _ _
                   (evb_py_eq division_gsem en (nth v labels (PyInt 0)) (PyInt (Z.of_nat k)) _ _ Lv eq_refl Ev
                              (evi_int division_gsem en (Z.of_nat k)))).
        reflexivity.
  Qed.
End Blocks.

(* ------------------------------------------------------------------------ *)
(* division_primitive                                                         *)

(* the assignment that sets the indicator of label idx at vertex v (variable
   b0 + idx * n + v) to "label v = idx" *)
Definition prim_env (en : env) (b0 n : nat) (label : nat -> Z) : env :=
  {| eb := fun i => if Nat.ltb i b0 then eb en i
                    else Z.eqb (label ((i - b0) mod n)) (Z.of_nat ((i - b0) / n));
     ei := ei en |}.

Lemma prim_env_agree en b0 n label : agree_below b0 en (prim_env en b0 n label).
Proof.
  intros i Hi. unfold prim_env; simpl. destruct (Nat.ltb_spec i b0); [|lia]. split; reflexivity.
Qed.

Lemma prim_env_region en b0 n label idx v :
  v < n -> eb (prim_env en b0 n label) (b0 + idx * n + v) = (label v =? Z.of_nat idx)%Z.
Proof.
  intros Hv. unfold prim_env; simpl. destruct (Nat.ltb_spec (b0 + idx * n + v) b0); [lia|].
  replace (b0 + idx * n + v - b0) with (v + idx * n) by lia.
  rewrite Nat.mod_add by lia. rewrite Nat.div_add by lia.
  rewrite Nat.mod_small by exact Hv. rewrite Nat.div_small by exact Hv. reflexivity.
Qed.

Theorem division_primitive st s R g roots aeg st' en :
  wf_graph g = true ->
  length (seq_data s) = nv g ->
  labels_ok division_gsem (next_id st) (seq_data s) ->
  post_division st s R g roots aeg true = Ok st' ->
  (extends_sat division_gsem st st' en
   <-> spec_division g R (label_of division_gsem en (seq_data s)) roots aeg).
Proof.
  intros Hwf Hlen Hlab Hpost. unfold post_division in Hpost.
  set (n := nv g) in *. set (labels := seq_data s) in *. set (b0 := next_id st) in *.
  destruct (prim_regions st s g aeg (seq 0 R)) as [st1|] eqn:E1; simpl in Hpost; [|discriminate].
  destruct (opt_roots (prim_roots labels 0) roots) as [rs|] eqn:Ers; simpl in Hpost; [|discriminate].
  inversion Hpost; subst st'. clear Hpost.
  destruct (prim_regions_sem g labels aeg Hwf Hlen s (seq 0 R) eq_refl st st1 E1) as [blocks [Hv [Hc Hsem]]].
  rewrite seq_length in Hv. fold n in Hv.
  unfold extends_sat. change (next_id st) with b0.
  assert (Hvars : skipn b0 (vars (ensure st1 rs)) = repeat DBool (R * n)).
  { simpl. rewrite Hv. unfold b0, next_id. apply skipn_app_len. }
  assert (Hcons : skipn (length (cons st)) (cons (ensure st1 rs)) = blocks ++ rs).
  { simpl. rewrite Hc, <- app_assoc. apply skipn_app_len. }
  rewrite Hvars, Hcons.
  set (label := label_of division_gsem en labels).
  assert (Hle : forall en', agree_below b0 en en' -> labels_eval g labels en' label).
  { intros en' Ha v Hvn. assert (Hvl : v < length labels) by (rewrite Hlen; exact Hvn).
    destruct (labels_ok_nth division_gsem b0 labels v Hlab Hvl) as [Li [_ Ev]]. split; [exact Li|].
    unfold evi. rewrite Ev. f_equal. f_equal. apply (label_of_agree division_gsem b0); assumption. }
  assert (Hroots : forall en', agree_below b0 en en' ->
             forallb (holds division_gsem en') rs = opt_roots_b (roots_hold n label 0) roots).
  { intros en' Ha. destruct roots as [l|]; simpl in *.
    - apply (prim_roots_eval g labels Hlen en' label (Hle en' Ha) l 0 rs Ers).
    - inversion Ers; reflexivity. }
  split.
  - intros [en' [Ha [_ Hcs]]]. rewrite forallb_app in Hcs. apply andb_true_iff in Hcs.
    destruct Hcs as [Hb Hr]. rewrite (Hsem en' label (Hle en' Ha)) in Hb. rewrite (Hroots en' Ha) in Hr.
    pose proof (proj1 (blocks_ok_iff g labels aeg Hlen en' label (seq 0 R) b0) Hb) as Hblocks.
    assert (Hk : forall k, k < R -> block_ok g aeg en' label (b0 + k * n) k = true).
    { intros k HkR. apply Hblocks. rewrite nth_error_seq by exact HkR. reflexivity. }
    split; [|split; [|exact Hr]].
    + intros k HkR. specialize (Hk k HkR). unfold block_ok in Hk.
      apply andb_true_iff in Hk. destruct Hk as [Hk _]. apply andb_true_iff in Hk. destruct Hk as [Hlink Hconn].
      apply (connected_b_spec g _ Hwf) in Hconn.
      apply (connected_agree_below g (act_of g en' (b0 + k * n))); [exact Hwf| |exact Hconn].
      intros v Hvn. rewrite act_of_lt by exact Hvn. rewrite forallb_forall in Hlink.
      specialize (Hlink v). rewrite in_seq in Hlink. apply eqb_prop. apply Hlink. fold n. lia.
    + intros Ha' k HkR. specialize (Hk k HkR). unfold block_ok in Hk. rewrite Ha' in Hk. simpl in Hk.
      apply andb_true_iff in Hk. destruct Hk as [Hk Hcnt]. apply andb_true_iff in Hk. destruct Hk as [Hlink _].
      assert (Hc0 : countb (fun v => eb en' (b0 + k * n + v)) (seq 0 (nv g)) <> 0).
      { destruct (countb (fun v => eb en' (b0 + k * n + v)) (seq 0 (nv g))); [discriminate|lia]. }
      apply countb_pos in Hc0. destruct Hc0 as [v [Hin Hpv]]. apply in_seq in Hin.
      rewrite forallb_forall in Hlink. specialize (Hlink v). rewrite in_seq in Hlink.
      exists v. split; [lia|]. apply Z.eqb_eq. rewrite <- Hpv. symmetry. apply eqb_prop. apply Hlink. lia.
  - intros [Hconn [Hused Hr]]. fold n in Hr.
    exists (prim_env en b0 n label). split; [apply prim_env_agree|]. split; [apply in_bounds_repeat_bool|].
    rewrite forallb_app, (Hsem _ label (Hle _ (prim_env_agree en b0 n label))),
      (Hroots _ (prim_env_agree en b0 n label)), Hr, andb_true_r.
    apply (proj2 (blocks_ok_iff g labels aeg Hlen (prim_env en b0 n label) label (seq 0 R) b0)).
    intros idx k Hn.
    assert (HkR : idx < R).
    { rewrite <- (seq_length R 0). apply nth_error_Some. rewrite Hn. discriminate. }
    assert (Hn' := Hn). rewrite nth_error_seq in Hn' by exact HkR. inversion Hn'; subst k. clear Hn Hn'.
    simpl. unfold block_ok. apply andb_true_iff. split; [apply andb_true_iff; split|].
    + apply forallb_forall. intros v Hin. apply in_seq in Hin. fold n.
      rewrite prim_env_region by lia. apply eqb_reflx.
    + apply (connected_b_spec g _ Hwf).
      apply (connected_agree_below g (class_of label idx)); [exact Hwf| |apply Hconn; exact HkR].
      intros v Hvn. rewrite act_of_lt by exact Hvn. fold n. rewrite prim_env_region by exact Hvn. reflexivity.
    + destruct aeg eqn:Ea; [reflexivity|]. rewrite orb_false_l. apply Nat.leb_le.
      destruct (Hused eq_refl idx HkR) as [v [Hvn Hl]].
      apply countb_ge1 with v; [apply in_seq; lia|]. fold n. rewrite prim_env_region by exact Hvn.
      apply Z.eqb_eq. exact Hl.
Qed.
