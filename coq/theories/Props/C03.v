From Coq Require Import ZArith List String.
From Cspuz Require Import Lib.PyErr Core.Expr Backend.Sugar Backend.SugarReply.
Open Scope string_scope.
Theorem description_kind_independent_tmp : forall k vs cs, description_k k vs cs None = description vs cs None.
Proof. intros; reflexivity. Qed.
Print Assumptions description_kind_independent_tmp.
