"""Fail-closed translator for C01: reads cspuz/backend/z3.py::_convert_expr with
Python's `ast` and writes coq/theories/Gen/Z3Table.v (op -> px term of
Backend/Z3Call.v).  Anything that is not recognised raises TranslateError."""
import ast
import os

import vlib

OPS = ["VAR", "BOOL_CONSTANT", "INT_CONSTANT", "NEG", "ADD", "SUB", "EQ", "NE", "LE", "LT", "GE", "GT",
       "NOT", "AND", "OR", "IFF", "XOR", "IMP", "IF", "ALLDIFF",
       "GRAPH_ACTIVE_VERTICES_CONNECTED", "GRAPH_DIVISION"]
COQ_OP = {"GRAPH_ACTIVE_VERTICES_CONNECTED": "G_AVC", "GRAPH_DIVISION": "G_DIV"}


class TranslateError(Exception):
    pass


def _d(node):
    return ast.dump(node, annotate_fields=False)


def _parse_stmts(src):
    return ast.parse(src).body


# the part of _convert_expr in front of the operator chain, modelled by hand in
# Backend/Z3.v::conv (literal pass-through, TypeError, variable lookup, operand
# conversion): must be exactly this
PREFIX = '''
if isinstance(e, (bool, int)):
    return e
if not isinstance(e, Expr):
    raise TypeError()
'''
VAR_TEST = "isinstance(e, (BoolVar, IntVar))"
VAR_BODY = "return variables_dict[e.id]"
OPERANDS = "operands = list(map(lambda x: _convert_expr(x, variables_dict), e.operands))"

FOLD = '''
ret = operands[0]
for i in range(1, len(operands)):
    ret = ret %s operands[i]
return ret
'''
ALLPY_TEST = "all(isinstance(x, int) for x in operands)"
PYDISTINCT = "len(set(operands)) == len(operands)"

CMP = {ast.Eq: "PEq", ast.NotEq: "PNe", ast.LtE: "PLe", ast.Lt: "PLt", ast.GtE: "PGe", ast.Gt: "PGt"}
BIN = {ast.Add: "PAdd", ast.Sub: "PSub"}


def _expr(src):
    return ast.parse(src, mode="eval").body


def tx(e):
    """Python expression -> px (Coq text)."""
    if _d(e) == _d(_expr(PYDISTINCT)):
        return "XPyDistinct"
    if isinstance(e, ast.Constant) and e.value is None:
        return "XNone"
    if isinstance(e, ast.Subscript) and _d(e.value) == _d(_expr("operands")) and isinstance(e.slice, ast.Constant) \
            and type(e.slice.value) is int and 0 <= e.slice.value < 16:
        return "(XArg %d)" % e.slice.value
    if isinstance(e, ast.UnaryOp) and isinstance(e.op, ast.USub):
        return "(XNeg %s)" % tx(e.operand)
    if isinstance(e, ast.BinOp) and type(e.op) in BIN:
        return "(XBin %s %s %s)" % (BIN[type(e.op)], tx(e.left), tx(e.right))
    if isinstance(e, ast.Compare) and len(e.ops) == 1 and type(e.ops[0]) in CMP:
        return "(XBin %s %s %s)" % (CMP[type(e.ops[0])], tx(e.left), tx(e.comparators[0]))
    if isinstance(e, ast.Call) and not e.keywords and isinstance(e.func, ast.Attribute) \
            and _d(e.func.value) == _d(_expr("z3")):
        f, a = e.func.attr, e.args
        whole = len(a) == 1 and _d(a[0]) == _d(_expr("operands"))
        if f == "Not" and len(a) == 1:
            return "(XNot %s)" % tx(a[0])
        if f == "And" and whole:
            return "XAndArgs"
        if f == "Or" and whole:
            return "XOrArgs"
        if f == "Distinct" and whole:
            return "XDistinctArgs"
        if f == "And" and len(a) == 2:
            return "(XAnd2 %s %s)" % (tx(a[0]), tx(a[1]))
        if f == "Or" and len(a) == 2:
            return "(XOr2 %s %s)" % (tx(a[0]), tx(a[1]))
        if f == "Xor" and len(a) == 2:
            return "(XXor %s %s)" % (tx(a[0]), tx(a[1]))
        if f == "If" and len(a) == 3:
            return "(XIf %s %s %s)" % (tx(a[0]), tx(a[1]), tx(a[2]))
    raise TranslateError("unrecognised expression in _convert_expr: " + ast.unparse(e))


def tbody(stmts):
    """statement list of one branch -> px."""
    if len(stmts) == 1 and isinstance(stmts[0], ast.Return) and stmts[0].value is not None:
        return tx(stmts[0].value)
    for pyop, name in (("+", "PAdd"), ("-", "PSub")):
        if [_d(s) for s in stmts] == [_d(s) for s in _parse_stmts(FOLD % pyop)]:
            return "(XFoldL %s)" % name
    if len(stmts) >= 2 and isinstance(stmts[0], ast.If) and _d(stmts[0].test) == _d(_expr(ALLPY_TEST)) \
            and not stmts[0].orelse:
        return "(XAllPyInt %s %s)" % (tbody(stmts[0].body), tbody(stmts[1:]))
    if not stmts:
        return "XNone"
    raise TranslateError("unrecognised branch body in _convert_expr: " + "; ".join(ast.unparse(s) for s in stmts)[:300])


def op_of_test(t):
    if isinstance(t, ast.Compare) and len(t.ops) == 1 and isinstance(t.ops[0], ast.Eq) \
            and _d(t.left) == _d(_expr("e.op")) and len(t.comparators) == 1:
        c = t.comparators[0]
        if isinstance(c, ast.Attribute) and _d(c.value) == _d(_expr("Op")) and c.attr in OPS:
            return [c.attr]
    # e.op == Op.A or e.op == Op.B
    if isinstance(t, ast.BoolOp) and isinstance(t.op, ast.Or):
        out = []
        for v in t.values:
            out += op_of_test(v)
        return out
    # e.op in (Op.A, Op.B)
    if isinstance(t, ast.Compare) and len(t.ops) == 1 and isinstance(t.ops[0], ast.In) \
            and _d(t.left) == _d(_expr("e.op")) and isinstance(t.comparators[0], (ast.Tuple, ast.List)):
        out = []
        for c in t.comparators[0].elts:
            if isinstance(c, ast.Attribute) and _d(c.value) == _d(_expr("Op")) and c.attr in OPS:
                out.append(c.attr)
            else:
                raise TranslateError("unrecognised operator test: " + ast.unparse(t))
        return out
    raise TranslateError("unrecognised operator test in _convert_expr: " + ast.unparse(t))


def read_table(path):
    with open(path) as f:
        mod = ast.parse(f.read())
    fn = [n for n in mod.body if isinstance(n, ast.FunctionDef) and n.name == "_convert_expr"]
    if len(fn) != 1:
        raise TranslateError("_convert_expr not found exactly once")
    fn = fn[0]
    if [a.arg for a in fn.args.args] != ["e", "variables_dict"] or fn.args.vararg or fn.args.kwarg \
            or fn.args.defaults or fn.args.kwonlyargs or fn.decorator_list:
        raise TranslateError("_convert_expr signature changed")
    body = [s for s in fn.body if not (isinstance(s, ast.Expr) and isinstance(s.value, ast.Constant))]
    pre = _parse_stmts(PREFIX)
    if len(body) != len(pre) + 1 or [_d(s) for s in body[:len(pre)]] != [_d(s) for s in pre]:
        raise TranslateError("_convert_expr: the literal / type-check prefix changed")
    vif = body[len(pre)]
    if not (isinstance(vif, ast.If) and _d(vif.test) == _d(_expr(VAR_TEST))
            and [_d(s) for s in vif.body] == [_d(s) for s in _parse_stmts(VAR_BODY)]):
        raise TranslateError("_convert_expr: the variable branch changed")
    rest = vif.orelse
    if len(rest) < 1 or _d(rest[0]) != _d(_parse_stmts(OPERANDS)[0]):
        raise TranslateError("_convert_expr: the operand conversion line changed")
    rest = rest[1:]
    table = {}
    if len(rest) > 1:
        raise TranslateError("_convert_expr: statements after the operator chain")
    node = rest[0] if rest else None
    while node is not None:
        if not isinstance(node, ast.If):
            raise TranslateError("_convert_expr: operator chain contains a non-if statement")
        ops = op_of_test(node.test)
        term = tbody(node.body)
        for o in ops:
            if o in table:
                raise TranslateError("operator %s has two branches" % o)
            table[o] = term
        if not node.orelse:
            node = None
        elif len(node.orelse) == 1 and isinstance(node.orelse[0], ast.If):
            node = node.orelse[0]
        else:
            # a final else: is a branch for every operator not yet listed
            term = tbody(node.orelse)
            for o in OPS:
                table.setdefault(o, term)
            node = None
    return table


def render(table):
    lines = ["(* GENERATED by harness/c01translate.py from cspuz/backend/z3.py::_convert_expr -- do not edit *)",
             "From Cspuz Require Import Core.Expr Backend.Z3Call.",
             "Definition z3_table (o : op) : px :=",
             "  match o with"]
    for o in OPS:
        lines.append("  | %s => %s" % (COQ_OP.get(o, o), table.get(o, "XNone")))
    lines.append("  end.")
    return "\n".join(lines) + "\n"


def translate(repo=None):
    repo = repo or vlib.REPO
    table = read_table(os.path.join(repo, "cspuz", "backend", "z3.py"))
    text = render(table)
    vlib.write_if_changed(os.path.join(vlib.GEN, "Z3Table.v"), text)
    return table
