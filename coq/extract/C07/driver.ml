(* C07 runner: I/O only *)
open Model
open Zutil

let nat s = nat_of_int (int_of_string s)

(* graph:  G-  |  G n m a b a b ... *)
let parse_graph toks = match toks with
  | "G-" :: r -> (None, r)
  | "G" :: n :: m :: r ->
      let m = int_of_string m in
      let rec go k r acc = if k = 0 then (List.rev acc, r) else
        match r with a :: b :: r' -> go (k - 1) r' ((nat a, nat b) :: acc) | _ -> failwith "graph" in
      let (es, r') = go m r [] in
      (Some { nv = nat n; edges = es }, r')
  | _ -> failwith "graph"

let parse_shape toks = match toks with
  | "S-" :: r -> (None, r)
  | "S" :: h :: w :: r -> (Some (nat h, nat w), r)
  | _ -> failwith "shape"

let parse_gs toks = match toks with
  | "N" :: r -> (GNone, r)
  | "SC" :: r -> let (e, r') = Exprio.parse_expr r in (GScalar e, r')
  | "L" :: r -> let (l, r') = Exprio.parse_expr_list r in (GList l, r')
  | "A1" :: r -> let (l, r') = Exprio.parse_expr_list r in (GArr1 l, r')
  | "A2" :: h :: w :: r -> let (l, r') = Exprio.parse_expr_list r in (GArr2 (nat h, nat w, l), r')
  | "R" :: k :: r ->
      let rec go k r acc = if k = 0 then (List.rev acc, r) else
        let (l, r') = Exprio.parse_expr_list r in go (k - 1) r' (l :: acc) in
      let (rows, r') = go (int_of_string k) r [] in (GRows rows, r')
  | _ -> failwith "gs"

let parse_bd toks = match toks with
  | "BL" :: r -> let (l, r') = Exprio.parse_expr_list r in (BList l, r')
  | "BF" :: h :: w :: r ->
      let (hor, r1) = Exprio.parse_expr_list r in
      let (ver, r2) = Exprio.parse_expr_list r1 in
      (BFrame { fh = nat h; fw = nat w; fhor = hor; fver = ver }, r2)
  | _ -> failwith "bd"

let err e = "E " ^ string_of_int (int_of_nat (pyerr_code e))

let rec take k l = if k = 0 then ([], l) else match l with x :: r -> let (a, b) = take (k - 1) r in (x :: a, b) | [] -> failwith "take"

let sizes_fun toks = 
  let arr = Array.of_list (List.map (fun t -> if t = "-" then None else Some (z_of_int (int_of_string t))) toks) in
  fun v -> let i = int_of_nat v in if i < Array.length arr then arr.(i) else None

let handle toks = match toks with
  | "VG" :: r ->
      let (g, r) = parse_graph r in
      let (sh, r) = parse_shape r in
      let (gs, r) = parse_gs r in
      let (st, _) = Exprio.parse_state r in
      (match division_connected_variable_groups st g sh gs with
       | Err e -> err e
       | Ok (st', RFlat ids) -> "OK F " ^ Exprio.show_expr_list ids ^ " " ^ Exprio.show_state st'
       | Ok (st', RGrid (h, w, ids)) ->
           Printf.sprintf "OK G %d %d %s %s" (int_of_nat h) (int_of_nat w) (Exprio.show_expr_list ids) (Exprio.show_state st'))
  | "WB" :: r ->
      let (g, r) = parse_graph r in
      let (gs, r) = parse_gs r in
      let (bd, r) = parse_bd r in
      (match r with
       | ugp :: cfg :: r ->
           let ugp = (match ugp with "T" -> Some true | "F" -> Some false | _ -> None) in
           let (st, _) = Exprio.parse_state r in
           (match division_connected_variable_groups_with_borders st gs bd g ugp (cfg = "T") with
            | Err e -> err e
            | Ok st' -> "OK " ^ Exprio.show_state st')
       | _ -> failwith "wb")
  | "SP" :: r ->
      (match parse_graph r with
       | (Some g, r) ->
           let n = int_of_nat g.nv in
           let (bl, r) = take n r in
           let (sz, _) = take n r in
           let blk = Array.of_list (List.map int_of_string bl) in
           let f v = let i = int_of_nat v in nat_of_int (if i < n then blk.(i) else 0) in
           if realisable_b g f (sizes_fun sz) then "1" else "0"
       | _ -> failwith "sp")
  | "SB" :: r ->
      (match parse_graph r with
       | (Some g, r) ->
           let n = int_of_nat g.nv and m = List.length g.edges in
           let (bd, r) = take m r in
           let (sz, _) = take n r in
           let bits = Array.of_list (List.map (fun t -> t = "1") bd) in
           let f k = let i = int_of_nat k in i < m && bits.(i) in
           if border_exact_b g f (sizes_fun sz) then "1" else "0"
       | _ -> failwith "sb")
  | "GD" :: r ->
      let (e, r) = Exprio.parse_expr r in
      let bits = Array.of_list (List.map (fun t -> t = "1") r) in
      let en = { eb = (fun k -> let i = int_of_nat k in i < Array.length bits && bits.(i)); ei = (fun _ -> Z0) } in
      if holds graph_sem en e then "1" else "0"
  | "DG" :: r ->
      let (ops, _) = Exprio.parse_expr_list r in
      (match decode_gdiv ops with
       | None -> "NONE"
       | Some ((g, sizes), bd) ->
           Printf.sprintf "G %d %d%s S %s B %s" (int_of_nat g.nv) (List.length g.edges)
             (String.concat "" (List.map (fun (a, b) -> Printf.sprintf " %d %d" (int_of_nat a) (int_of_nat b)) g.edges))
             (Exprio.show_expr_list sizes) (Exprio.show_expr_list bd))
  | _ -> "EXN bad request"

let () = main_loop handle
