(* C07: exactness of division_connected_variable_groups_with_borders
   (non-primitive route) for a fixed is_border pattern. *)
From Coq Require Import ZArith List Bool Arith Lia.
From Cspuz Require Import Lib.PyErr Core.Expr Core.Program Core.Build
  Graph.GraphModel Graph.ReachProofs Graph.VarGroups Graph.VarGroupsSound Graph.VarGroupsComplete
  Graph.VarGroupsEval Graph.VarGroupsMain Graph.VarGroupsExact Graph.VarGroupsLib Graph.VarGroupsSized
  Graph.VarGroupsForest Graph.VarGroupsWitness Graph.VarGroupsSizedSound Graph.VarGroupsSizedExact
  Graph.VarGroupsCut.
Import ListNotations.
Open Scope nat_scope.

(* ------------------------------------------------------------------------ *)
(* level S                                                                   *)

Definition cert_borders (g : graph) (gid : nat -> Z) (pat : nat -> bool) : bool :=
  forallb (fun '(k, (u, v)) => Bool.eqb (pat k) (negb (gid u =? gid v)%Z))
          (combine (seq 0 (length (edges g))) (edges g)).

Lemma cert_borders_edge g gid pat k u v :
  cert_borders g gid pat = true -> nth_error (edges g) k = Some (u, v) ->
  pat k = negb (gid u =? gid v)%Z.
Proof.
  unfold cert_borders. rewrite forallb_forall. intros H Hk.
  specialize (H (k, (u, v))). apply eqb_prop. apply H. apply in_combine_seq; exact Hk.
Qed.

Section BordersSound.
  Variable g : graph.
  Variable c : vg_cert.
  Variable pat : nat -> bool.
  Hypothesis Hwf : wf_graph g = true.
  Hypothesis Hmain : cert_main g c = true.
  Hypothesis Hrange : cert_ranges g c = true.
  Hypothesis Hbd : cert_borders g (c_gid c) pat = true.
  Let n := nv g.

  Lemma same_cut_gid a b : same_cut g pat a b -> c_gid c a = c_gid c b.
  Proof.
    intros R. unfold same_cut in R. induction R as [v _|u v w Ruv IH Hn _]; [reflexivity|].
    rewrite IH. apply nbrs_spec in Hn. destruct Hn as [k [Hk He]].
    unfold cut in Hk. apply negb_true_iff in Hk.
    destruct He as [He|He]; pose proof (cert_borders_edge g _ pat k _ _ Hbd He) as H;
      rewrite Hk in H; symmetry in H; apply negb_false_iff in H; apply Z.eqb_eq in H; congruence.
  Qed.

  Lemma gid_same_cut a b : a < n -> b < n -> c_gid c a = c_gid c b -> same_cut g pat a b.
  Proof.
    intros Ha Hb He. pose proof (cert_class_connected g c Hwf Hmain Hrange a b Ha Hb He) as R.
    eapply reach_weaken; [| |exact R].
    - reflexivity.
    - intros k u v Hk Hact. unfold cut. apply negb_true_iff.
      rewrite (cert_borders_edge g _ pat k u v Hbd Hk). apply negb_false_iff. apply Z.eqb_eq.
      eapply cm_edge; eassumption.
  Qed.

  Definition gid_label (v : nat) : nat := Z.to_nat (c_gid c v).

  Lemma gid_label_ids : ids_realise n (c_gid c) gid_label.
  Proof.
    intros u v Hu Hv. unfold same_block, gid_label.
    pose proof (cm_gid_range g c Hrange u Hu). pose proof (cm_gid_range g c Hrange v Hv).
    destruct (Z.eqb_spec (c_gid c u) (c_gid c v)) as [He|Hne].
    - rewrite He. symmetry. apply Nat.eqb_refl.
    - symmetry. apply Nat.eqb_neq. intros H1. apply Hne. lia.
  Qed.

  Theorem borders_sound down total sizes :
    cert_sizes g c down total sizes true = true -> border_exact g pat sizes.
  Proof.
    intros Hsz. split.
    - intros v s l Hv Hs [Hnd Hl].
      rewrite <- (cert_sized_sound g c down total sizes true Hwf Hmain Hrange Hsz (or_introl eq_refl) gid_label gid_label_ids v s Hv Hs).
      unfold block_size, bcount. f_equal.
      apply same_elements_length; [exact Hnd|apply filter_seq_nodup|].
      intros w. rewrite Hl, filter_In, in_seq. split.
      + intros [Hw R]. split; [lia|]. rewrite <- (gid_label_ids v w Hv Hw). apply Z.eqb_eq.
        apply same_cut_gid; exact R.
      + intros [Hw Hb]. assert (Hwn : w < n) by (unfold n; lia). split; [exact Hwn|].
        apply gid_same_cut; [exact Hv|exact Hwn|]. apply Z.eqb_eq. rewrite (gid_label_ids v w Hv Hwn). exact Hb.
    - intros k u v Hk Hp R. apply same_cut_gid in R.
      rewrite (cert_borders_edge g _ pat k u v Hbd Hk) in Hp. apply negb_true_iff in Hp.
      apply Z.eqb_neq in Hp. contradiction.
  Qed.
End BordersSound.

(* completeness at level S: the ids that realise the components of the cut graph
   satisfy the border constraints *)
Lemma borders_complete_ids g pat sizes gid :
  wf_graph g = true -> border_exact g pat sizes ->
  ids_realise (nv g) gid (cut_label g pat) -> cert_borders g gid pat = true.
Proof.
  intros Hwf [_ Hsep] Hids. unfold cert_borders. apply forallb_forall.
  intros [k [u v]] Hin. apply in_combine_seq in Hin.
  destruct (wf_graph_edge g k u v Hwf Hin) as [Hu Hv].
  rewrite (Hids u v Hu Hv). apply eqb_true_iff.
  destruct (pat k) eqn:Hp.
  - symmetry. apply negb_true_iff. destruct (same_block (cut_label g pat) u v) eqn:Hb; [|reflexivity].
    exfalso. apply (Hsep k u v Hin Hp). apply (cut_same_block g pat Hwf u v Hu Hv). exact Hb.
  - symmetry. apply negb_false_iff. apply (cut_same_block g pat Hwf u v Hu Hv).
    eapply reach_step; [apply reach_refl; reflexivity| |reflexivity].
    apply nbrs_spec. exists k. split; [unfold cut; rewrite Hp; reflexivity|left; exact Hin].
Qed.

(* ------------------------------------------------------------------------ *)
(* level E                                                                   *)

(* the caller's is_border items evaluated in the caller's assignment *)
Definition borders_eval (gsem : op -> list (option value) -> option bool) (k : nat) (en : env)
           (bd : list expr) (pat : nat -> bool) : Prop :=
  forall e, e < length bd ->
    is_constraint_like (nth e bd PyNone) = true /\ max_id (nth e bd PyNone) <= k /\
    eval gsem en (nth e bd PyNone) = Some (VB (pat e)).

Definition borders_state (st : state) (g : graph) (sizes bd : list expr) : state :=
  ensure (sized_state st g sizes) (c_borders g (main_gid st g) bd).

Lemma post_with_borders_nonprim st g sizes bd :
  1 <= nv g -> length sizes = nv g -> length bd = length (edges g) ->
  forallb valid_size sizes = true ->
  post_with_borders st g sizes bd false = Ok (borders_state st g sizes bd).
Proof.
  intros Hn Hs Hb Hv. unfold post_with_borders. rewrite Hs, Hb, !Nat.eqb_refl. simpl negb. cbv iota.
  rewrite post_vargroups_seq by assumption. reflexivity.
Qed.

Lemma eval_c_border gsem en b ne x y :
  is_constraint_like b = true -> eval gsem en b = Some (VB x) -> eval gsem en ne = Some (VB y) ->
  holds gsem en (c_border b ne) = Bool.eqb x y.
Proof.
  intros Hc Hb Hne. destruct b; try discriminate; unfold c_border; apply holds_of_eval.
  - rewrite (ev_b_iff gsem en ne (PyBool b) y x Hne Hb). destruct x, y; reflexivity.
  - apply ev_b_iff; assumption.
  - apply ev_b_iff; assumption.
Qed.

Lemma eval_c_borders gsem g k en bd pat :
  wf_graph g = true -> length bd = length (edges g) ->
  (forall e, e < length bd -> is_constraint_like (nth e bd PyNone) = true /\
                              eval gsem en (nth e bd PyNone) = Some (VB (pat e))) ->
  forallb (holds gsem en) (c_borders g (ivars k (nv g) 0%Z (zn (nv g) - 1)%Z) bd) =
  cert_borders g (c_gid (cert_of_env k (nv g) en)) pat.
Proof.
  intros Hwf Hl Hbd. unfold c_borders, cert_borders. rewrite forallb_map'.
  apply forallb_ext_in. intros [e [u v]] Hin. apply in_combine_seq in Hin.
  pose proof (nth_error_lt _ _ _ Hin) as He. rewrite <- Hl in He.
  destruct (wf_graph_edge g e u v Hwf Hin) as [Hu Hv].
  destruct (Hbd e He) as [Hc Hev]. unfold at_ at 1.
  apply eval_c_border; [exact Hc|exact Hev|].
  apply ev_i_ne; rewrite at_ivars by assumption; reflexivity.
Qed.

Section BordersGlue.
  Variable gsem : op -> list (option value) -> option bool.
  Variable st : state.
  Variable g : graph.
  Variables sizes bd : list expr.
  Variable sval : nat -> option Z.
  Variable pat : nat -> bool.
  Variable en : env.
  Hypothesis Hwf : wf_graph g = true.
  Hypothesis Hn : 1 <= nv g.
  Hypothesis Hlen : length sizes = nv g.
  Hypothesis Hlenb : length bd = length (edges g).
  Hypothesis Hsv : sizes_eval gsem (next_id st) en sizes sval.
  Hypothesis Hbv : borders_eval gsem (next_id st) en bd pat.

  Lemma borders_eval_agree en' :
    agree_below (next_id st) en en' ->
    forall e, e < length bd -> is_constraint_like (nth e bd PyNone) = true /\
                               eval gsem en' (nth e bd PyNone) = Some (VB (pat e)).
  Proof.
    intros Hag e He. destruct (Hbv e He) as [H1 [H2 H3]]. split; [exact H1|].
    rewrite <- (vg_eval_agree gsem (next_id st) en en' _ Hag H2). exact H3.
  Qed.

  Lemma borders_state_split en' :
    agree_below (next_id st) en en' ->
    (new_in_bounds st (borders_state st g sizes bd) en' = true /\
     forallb (holds gsem en') (new_cons st (borders_state st g sizes bd)) = true)
    <->
    ((new_in_bounds st (sized_state st g sizes) en' = true /\
      forallb (holds gsem en') (new_cons st (sized_state st g sizes)) = true) /\
     cert_borders g (c_gid (cert_of_env (next_id st) (nv g) en')) pat = true).
  Proof.
    intros Hag.
    assert (Hb : new_in_bounds st (borders_state st g sizes bd) en' = new_in_bounds st (sized_state st g sizes) en')
      by reflexivity.
    assert (Hc : new_cons st (borders_state st g sizes bd) =
                 new_cons st (sized_state st g sizes) ++ c_borders g (main_gid st g) bd).
    { unfold new_cons, borders_state, sized_state, main_state. cbn [cons ensure add_decls].
      rewrite <- !app_assoc. rewrite !skipn_app_len. rewrite <- !app_assoc. reflexivity. }
    rewrite Hb, Hc, forallb_app. unfold main_gid.
    rewrite (eval_c_borders gsem g (next_id st) en' bd pat Hwf Hlenb (borders_eval_agree en' Hag)).
    rewrite andb_true_iff. tauto.
  Qed.

  Theorem borders_exact_main :
    (exists en', extends_sat gsem st (borders_state st g sizes bd) en en') <-> border_exact g pat sval.
  Proof.
    split.
    - intros [en' [Hag [Hb Hc]]].
      destruct (proj1 (borders_state_split en' Hag) (conj Hb Hc)) as [Hsized Hbord].
      destruct (proj1 (seq_sat_iff gsem st g sizes sval en Hwf Hlen Hsv en' Hag) Hsized) as [Hr [_ [Hm Hs]]].
      apply (borders_sound g _ pat Hwf Hm Hr Hbord _ _ sval Hs).
    - intros Hbe.
      pose proof (border_exact_realisable g pat Hwf sval Hbe) as Hreal.
      destruct (proj2 (seq_exact_main gsem st g sizes sval en Hwf Hn Hlen Hsv (cut_label g pat)) Hreal)
        as [en' [[Hag [Hb Hc]] Hids]].
      exists en'. split; [exact Hag|]. apply (borders_state_split en' Hag). split; [split; assumption|].
      apply (borders_complete_ids g pat sval _ Hwf Hbe).
      intros u v Hu Hv. rewrite <- !(main_gid_val gsem st g en') by assumption. apply Hids; assumption.
  Qed.
End BordersGlue.

Theorem vargroups_borders_exact_proved :
  forall gsem st g sizes bd st' en sval pat,
    wf_graph g = true -> 1 <= nv g -> length sizes = nv g -> length bd = length (edges g) ->
    sizes_eval gsem (next_id st) en sizes sval ->
    borders_eval gsem (next_id st) en bd pat ->
    post_with_borders st g sizes bd false = Ok st' ->
    ((exists en', extends_sat gsem st st' en en') <-> border_exact g pat sval).
Proof.
  intros gsem st g sizes bd st' en sval pat Hwf Hn Hl Hlb Hsv Hbv Hp.
  rewrite post_with_borders_nonprim in Hp by (try assumption; eapply sizes_eval_valid; eassumption).
  inversion Hp; subst. apply borders_exact_main; assumption.
Qed.

(* group_size = None: the public wrapper passes [None] * n *)
Lemma sizes_eval_none gsem k en n : sizes_eval gsem k en (repeat PyNone n) (fun _ => None).
Proof.
  intros i Hi. rewrite repeat_length in Hi.
  replace (nth i (repeat PyNone n) PyNone) with PyNone; [reflexivity|].
  symmetry. apply nth_repeat.
Qed.

Theorem vargroups_borders_nosize_proved :
  forall gsem st g bd st' en pat,
    wf_graph g = true -> 1 <= nv g -> length bd = length (edges g) ->
    borders_eval gsem (next_id st) en bd pat ->
    post_with_borders st g (repeat PyNone (nv g)) bd false = Ok st' ->
    ((exists en', extends_sat gsem st st' en en') <-> border_exact g pat (fun _ => None)).
Proof.
  intros gsem st g bd st' en pat Hwf Hn Hlb Hbv Hp.
  eapply vargroups_borders_exact_proved; try eassumption.
  - apply repeat_length.
  - apply sizes_eval_none.
Qed.
