"""C04 — active_vertices_connected holds exactly for connected (or tree) active sets."""
import copy

import exprio
import graphcap
import graphcap2
import vlib

PROPS = "Props/C04.v"
RULE = ("tie P (program capture): for every (graph | grid shape) x argument-form x option case the program really "
        "posted by cspuz.graph.active_vertices_connected on a Solver that already holds caller variables / "
        "constraints / answer keys is compared verbatim (declarations, answer keys, constraints in posting order) "
        "with the program of the extracted Coq model Graph/Avc.v::active_vertices_connected; error cases compare the "
        "exception class.  A case is non-trivial when it is a distinct (graph, call form, options, is_active trees) "
        "tuple.  Graphs: all loop-free multigraphs with <= 4 vertices and <= 5 edges (incl. parallel edges, isolated "
        "vertices, the 1-vertex graph) in canonical and shuffled/flipped edge order, small graphs with self-loops, "
        "random multigraphs up to 9 vertices, all grid shapes with h*w <= 12 (incl. 1xN, Nx1, 0-sized) through the "
        "BoolArray2D form, the 0-vertex graph; is_active forms: BoolArray1D, list / tuple of variables, ~v, v&w, v|w, "
        "Python True/False, shared variables, mixed; options: acyclic on/off x use_graph_primitive None/False/True x "
        "config.use_graph_primitive on/off; malformed stream: short / long list, int / IntExpr / None entries, "
        "BoolArray2D with a graph, list without a graph.  search: satisfiability (z3) of the really posted program "
        "with the activity pattern fixed vs the independent oracles graphcap.is_connected / is_tree for every pattern "
        "of every small multigraph (variables, negated variables and Python constants as is_active), for "
        "tree/connected-biased patterns of random larger graphs and for grids through the array form (oracle on an "
        "independently written orthogonal adjacency); the native-operator node really posted is decoded and "
        "evaluated by the Coq meaning gsem_avc and compared with the same oracle; the Coq specification "
        "(connected_b / tree_b) is validated against the oracle; z3 models are re-checked by the Coq certificate "
        "checker and the Coq certificate construction of the completeness proof is replayed on the real program.  "
        "Hardening round (tie and search alike): ONE Graph object that is used, extended with add_edge and used again "
        "(fresh Solver per call or one Solver accumulating the calls; each call is compared with the model on the graph "
        "and the Solver state as they are at that moment); two calls on one Solver with separate or the same is_active "
        "variables (satisfiable iff both patterns are accepted); the Graph object, the is_active container and "
        "config.use_graph_primitive are unchanged by a call; edges stored (larger, smaller) / mixed / reordered, cycles "
        "closed by a reversed edge or made of reversed / parallel edges (also with the closing edge added after a first "
        "use); wheels, K5-K7, prisms, K33, Petersen, long paths / cycles with chords, two cycles (all patterns up to 8 "
        "vertices); boards 4x5 .. 7x7 with snakes, spirals, combs, rings, diagonals, X shapes and single-cell "
        "perturbations; is_active as tuple / deque / user Sequence / BoolArray1D (incl. built from a generator, a "
        "slice) / BoolArray2D built from generators; one-shot iterables as is_active (TypeError, or exactly the "
        "behaviour of the materialised list); Python constants mixed with variables; every spelling of the options "
        "that selects the auxiliary encoding (keyword given / omitted / configuration, graph= by keyword); a native "
        "node met where the auxiliary encoding is expected is judged by its Coq meaning against the oracle.")
TRUSTED = [
    "reading of the property: 'induce a connected subgraph' = Graph/GraphModel.v::connected (walks through active "
    "vertices), 'induce a tree' = connected and #(edges with two distinct active endpoints, parallel edges counted "
    "twice) + 1 = #active (Graph/Avc.v::tree; proved equivalent to 'connected and every induced edge between two "
    "distinct vertices is a bridge of the induced subgraph', Props/C04.v::tree_iff_bridges); validated on every run against graphcap.is_connected / is_tree "
    "written independently in Python",
    "Core/Expr.v::eval as the meaning of the posted trees (n-ary ADD, IF, LT/NE/LE/GE/EQ, binary AND, IMP); z3 "
    "(search only) as the decision procedure for the really posted program",
    "the native operator GRAPH_ACTIVE_VERTICES_CONNECTED means connectivity of the decoded (graph, pattern) "
    "(Graph/Avc.v::gsem_avc); the external solvers implementing it are not available offline",
    "exprio.py / exprio.ml serialisation of trees and solver states used by the capture comparison",
]
ASSUMPTIONS = [
    "graph is a cspuz.graph.Graph built with add_edge on vertices 0..n-1 (endpoints in range); for acyclic=True the "
    "tree reading ignores self-loops (the encoding never looks at them; the search uses loop-free graphs there)",
    "n >= 1 (n = 0 raises ValueError from int_array in the auxiliary-variable encoding; model and check agree)",
    "every is_active entry is a BoolExpr / Python bool over the caller's variables and there is one per vertex",
]

ERR = {1: "IndexError", 2: "KeyError", 3: "AssertionError", 4: "TypeError", 5: "ValueError",
       6: "RecursionError", 7: "NotImplementedError", 8: "Other"}

FORMS = ["array1", "vars", "neg", "and", "or", "const", "shared", "mixed", "tuple"]
BAD_FORMS = ["short", "long", "int", "intexpr", "none"]
# hardening round: other Sequence containers (same trees, different container object) ...
CONTAINER_FORMS = ["c:" + k for k in graphcap2.CONTAINERS if k not in ("list", "tuple", "array1")]
# ... and one-shot iterables (not a Sequence: TypeError, or exactly the program of the materialised list)
ONESHOT_FORMS = ["o:" + k for k in graphcap2.ONESHOTS]


def bits(p):
    return " ".join("1" if b else "0" for b in p)


# ---------------------------------------------------------------- argument forms

def make_acts(s, n, form, rng):
    """returns (is_active argument as passed, list of trees, call form S|A1)"""
    from cspuz.array import BoolArray1D
    if form == "array1":
        arr = s.bool_array(n)
        return arr, list(arr.data), "A1"
    if form == "vars":
        fl = [s.bool_var() for _ in range(n)]
        return fl, fl, "S"
    if form == "tuple":
        fl = [s.bool_var() for _ in range(n)]
        return tuple(fl), fl, "S"
    if form == "neg":
        fl = [~s.bool_var() for _ in range(n)]
        return (BoolArray1D(fl), fl, "A1") if rng.random() < 0.3 else (fl, fl, "S")
    if form == "and":
        fl = [s.bool_var() & s.bool_var() for _ in range(n)]
        return fl, fl, "S"
    if form == "or":
        fl = [s.bool_var() | ~s.bool_var() for _ in range(n)]
        return fl, fl, "S"
    if form == "const":
        fl = [rng.random() < 0.6 for _ in range(n)]
        return fl, fl, "S"
    if form == "shared":
        pool = [s.bool_var() for _ in range(max(1, (n + 1) // 2))]
        fl = [pool[rng.randrange(len(pool))] for _ in range(n)]
        return fl, fl, "S"
    if form == "mixed":
        pool = [s.bool_var() for _ in range(n + 1)]
        x = s.int_var(0, 3)
        fl = []
        for _ in range(n):
            c = rng.randrange(8)
            v, w = pool[rng.randrange(len(pool))], pool[rng.randrange(len(pool))]
            fl.append([v, ~v, v & w, v | w, True, False, (v == w) & ~(v ^ w), (x >= 2) | v][c])
        return fl, fl, "S"
    if form.startswith("c:"):
        kind = form[2:]
        c = rng.randrange(3)
        vs = [s.bool_var() for _ in range(n)]
        fl = vs if c == 0 else ([~v for v in vs] if c == 1 else [v | vs[0] for v in vs])
        return graphcap2.as_container(kind, fl), fl, ("A1" if kind.startswith("array1") else "S")
    if form.startswith("o:"):
        vs = [s.bool_var() for _ in range(n)]
        fl = vs if rng.random() < 0.5 else [~v for v in vs]
        it, mat = graphcap2.as_oneshot(form[2:], fl)
        return it, mat, "S"
    # malformed stream
    base = [s.bool_var() for _ in range(n)]
    if form == "nestedgen":  # a generator as one ENTRY of the list: not an expression (serialised like None)
        k = rng.randrange(n) if n else 0
        fl = list(base)
        trees = list(base)
        if n:
            fl[k] = (v for v in [base[k]])
            trees[k] = None
        return fl, trees, "S"
    if form == "short":
        fl = base[:rng.randrange(n)] if n else base
        return fl, fl, "S"
    if form == "long":
        fl = base + [s.bool_var(), True]
        return fl, fl, "S"
    k = rng.randrange(n) if n else 0
    if form == "int":
        bad = rng.choice([0, 1, 7])
    elif form == "intexpr":
        bad = s.int_var(0, 3) if rng.random() < 0.5 else (s.int_var(0, 3) + 1)
    else:
        bad = None
    fl = list(base)
    if n:
        fl[k] = bad
    return fl, fl, "S"


def make_grid_arg(s, h, w, form, rng):
    """a BoolArray2D of shape (h, w) and its row-major trees"""
    from cspuz.array import BoolArray2D
    arr = s.bool_array((h, w))
    if form == "vars":
        return arr, list(arr.data)
    if form == "neg":
        a2 = ~arr
        return a2, list(a2.data)
    if form == "and":
        other = s.bool_array((h, w))
        a2 = arr & other
        return a2, list(a2.data)
    if form == "gen2" and h >= 1:  # BoolArray2D built from a generator of row generators
        data = list(arr.data)
        return BoolArray2D((data[y * w + x] for x in range(w)) for y in range(h)), data
    if form in ("gen2", "flatgen"):  # BoolArray2D built from a one-shot flat iterable and a shape
        data = [~v for v in arr.data]
        return BoolArray2D(iter(data), (h, w)), data
    data = []
    for v in arr.data:
        c = rng.randrange(5)
        data.append([v, ~v, True, False, v | arr.data[0]][c])
    return BoolArray2D(data, (h, w)), data


def pre_state(s, style):
    """caller-side variables / constraints / answer keys that are there before the call"""
    if style == 0:
        return
    a = s.bool_var()
    if style >= 2:
        x = s.int_var(-2, 5)
        s.ensure(a | (x > 0))
        s.add_answer_key(a)


class cfg_prim:
    def __init__(self, value):
        self.value = value

    def __enter__(self):
        from cspuz.configuration import config
        self.config = config
        self.old = config.use_graph_primitive
        config.use_graph_primitive = self.value

    def __exit__(self, *a):
        self.config.use_graph_primitive = self.old


def opt_tok(cfg, acyclic, ugp):
    return "%d %d %s" % (int(cfg), int(acyclic), "N" if ugp is None else str(int(ugp)))


def call_raw(s, arg, g, cfg, acyclic, ugp, how, probe=None):
    """how: kw | default (leave out options that have their default value) | graphkw (kw, and graph= by keyword);
    probe: list that receives config.use_graph_primitive as it is right after the call"""
    from cspuz.configuration import config
    from cspuz.graph import active_vertices_connected
    kw = {}
    if how in ("kw", "graphkw") or acyclic:
        kw["acyclic"] = acyclic
    if how in ("kw", "graphkw") or ugp is not None:
        kw["use_graph_primitive"] = ugp
    with cfg_prim(cfg):
        try:
            if g is None:
                return active_vertices_connected(s, arg, **kw)
            if how == "graphkw":
                return active_vertices_connected(s, arg, graph=g, **kw)
            return active_vertices_connected(s, arg, g, **kw)
        finally:
            if probe is not None:
                probe.append(config.use_graph_primitive)


def call_impl(s, arg, g, cfg, acyclic, ugp, how, probe=None):
    return vlib.guarded(call_raw, s, arg, g, cfg, acyclic, ugp, how, probe)


CALL_STYLES = ["kw", "default", "graphkw"]


def snap(s):
    """the posted program as a string; a state that cannot be serialised (non-expression objects posted)
    is reported as such instead of crashing the harness"""
    r = vlib.guarded(exprio.show_state, s)
    return ("ok", r[1]) if r[0] == "ok" else ("unserialisable-state", r[1])


def parse_post(o):
    if o.startswith("E "):
        return ("err", ERR[int(o.split()[1])])
    return ("ok", o)


def shuffled(rng, edges):
    es = [(b, a) if rng.random() < 0.5 else (a, b) for (a, b) in edges]
    rng.shuffle(es)
    return es


OPTIONS = [(cfg, acy, ugp) for cfg in (False, True) for acy in (False, True) for ugp in (None, False, True)]


def corr_graphs(ctx):
    rng = ctx.rng
    for n, es in graphcap.all_multigraphs(4, 5):
        yield "small", n, es
        if len(es) >= 1:
            yield "small-shuffled", n, shuffled(rng, es)
    for n, es in graphcap.all_multigraphs(3, 3, loops=True):
        if any(a == b for a, b in es):
            yield "loops", n, shuffled(rng, es)
    for _ in range(400 if ctx.thorough else 80):
        n, es = graphcap.random_multigraph(rng, 9)
        yield "random", n, es
    for _ in range(60 if ctx.thorough else 15):
        n, es = graphcap.random_multigraph(rng, 6, loops=True)
        yield "random-loops", n, es
    for _ in range(3):
        yield "zero-vertices", 0, []


def correspond(ctx):
    m = ctx.model("C04")
    rng = ctx.rng
    reqs, metas = [], []

    def call_checked(inp, s, arg, g, cfg, acy, ugp, how):
        """the call, plus: the Graph object, the is_active container and the configuration are as before"""
        gsnap = graphcap2.graph_snapshot(g) if g is not None else None
        items = list(arg) if isinstance(arg, (list, tuple)) else None
        probe = []
        r = call_impl(s, arg, g, cfg, acy, ugp, how, probe)
        after = (graphcap2.graph_snapshot(g) if g is not None else None,
                 None if items is None else (len(arg) == len(items) and all(a is b for a, b in zip(arg, items))),
                 probe[0] is cfg)
        ctx.corr("arguments-unchanged", inp, (gsnap, None if items is None else True, True), after)
        return r

    def graph_case(n, es, form, opts, style):
        from cspuz import Solver
        cfg, acy, ugp = opts
        s = Solver()
        pre_state(s, style)
        arg, trees, cf = make_acts(s, n, form, rng)
        g = graphcap.mk_graph(n, es)
        pre = exprio.show_state(s)
        ltok = exprio.show_list(trees)
        inp = ("graph", n, tuple(es), form, opts, style, ltok)
        r = call_checked(inp, s, arg, g, cfg, acy, ugp, rng.choice(CALL_STYLES))
        impl = snap(s) if r[0] == "ok" else r
        reqs.append("P %s G %s %s ST %s L %s" % (opt_tok(cfg, acy, ugp), graphcap.graph_tok(n, es), cf, pre, ltok))
        metas.append((inp, impl))
        ctx.count("form:" + form)
        ctx.count("options:cfg=%d,acyclic=%d,ugp=%s" % (cfg, acy, ugp))

    for kind, n, es in corr_graphs(ctx):
        if kind in ("small", "small-shuffled"):
            forms = [FORMS[(len(es) + n) % 2], rng.choice(FORMS[2:]), "mixed"]
            if rng.random() < 0.35:
                forms.append(rng.choice(BAD_FORMS))
            optl = [(False, False, None), (False, True, None), rng.choice(OPTIONS)]
        elif kind == "zero-vertices":
            forms = ["vars", "const"]
            optl = OPTIONS
        else:
            forms = FORMS + [rng.choice(BAD_FORMS)]
            optl = [(False, False, None), (False, True, None), rng.choice(OPTIONS), rng.choice(OPTIONS)]
        for form in forms:
            for opts in optl:
                ctx.count("graphs:" + kind)
                graph_case(n, es, form, opts, rng.randrange(3))
    # every option combination on a few fixed graphs, every form
    for n, es in [(1, []), (2, [(0, 1)]), (3, [(0, 1), (1, 2), (1, 2)]), (4, [(2, 3), (0, 1)]), (5, [(0, 1), (1, 2), (2, 0), (3, 4)])]:
        for form in FORMS + BAD_FORMS:
            for opts in OPTIONS:
                ctx.count("graphs:all-options")
                graph_case(n, es, form, opts, rng.randrange(3))

    # the array (grid) form: graph inferred from a BoolArray2D
    def grid_case(h, w, form, opts, style, with_graph=False):
        from cspuz import Solver
        cfg, acy, ugp = opts
        s = Solver()
        pre_state(s, style)
        arg, trees = make_grid_arg(s, h, w, form, rng)
        pre = exprio.show_state(s)
        ltok = exprio.show_list(trees)
        g = graphcap.mk_graph(h * w, graphcap.grid_edges(h, w)) if with_graph else None
        r = call_impl(s, arg, g, cfg, acy, ugp, rng.choice(["kw", "default"]))
        impl = snap(s) if r[0] == "ok" else r
        gt = "G " + graphcap.graph_tok(h * w, graphcap.grid_edges(h, w)) if with_graph else "NOG"
        reqs.append("P %s %s A2 %d %d ST %s L %s" % (opt_tok(cfg, acy, ugp), gt, h, w, pre, ltok))
        metas.append((("grid", h, w, form, opts, style, with_graph, ltok), impl))
        ctx.count("form:grid-" + form)

    shapes = list(graphcap.grid_shapes(20 if ctx.thorough else 12)) + [(0, 0), (0, 3), (2, 0)]
    for h, w in shapes:
        for form in ["vars", "neg", "and", "mixed"]:
            for opts in [(False, False, None), (False, True, None), (True, False, None), rng.choice(OPTIONS)]:
                ctx.count("graphs:grid")
                grid_case(h, w, form, opts, rng.randrange(3))
        ctx.count("graphs:grid-with-graph(TypeError)")
        grid_case(h, w, "vars", rng.choice(OPTIONS), 0, with_graph=True)

    # a sequence without a graph: TypeError
    def nograph_case(n, form, opts):
        from cspuz import Solver
        cfg, acy, ugp = opts
        s = Solver()
        arg, trees, cf = make_acts(s, n, form, rng)
        pre = exprio.show_state(s)
        ltok = exprio.show_list(trees)
        r = call_impl(s, arg, None, cfg, acy, ugp, "kw")
        impl = snap(s) if r[0] == "ok" else r
        reqs.append("P %s NOG %s ST %s L %s" % (opt_tok(cfg, acy, ugp), cf, pre, ltok))
        metas.append((("nograph", n, form, opts, ltok), impl))
        ctx.count("graphs:sequence-without-graph(TypeError)")

    for n in (0, 1, 4):
        for form in ("vars", "array1", "const", "tuple"):
            nograph_case(n, form, rng.choice(OPTIONS))

    # ---- hardening round: containers, one-shot iterables, structured graphs, big grids, histories ----------
    def aux_route(opts):
        cfg, acy, ugp = opts
        return acy or not (cfg if ugp is None else ugp)

    fixed = [(1, []), (2, [(1, 0)]), (3, [(0, 1), (2, 1), (1, 2)]), (4, [(2, 3), (0, 1)]), (4, [(0, 1), (1, 2), (2, 3), (3, 0)]),
             (0, [])]
    for n, es in fixed + [graphcap.random_multigraph(rng, 7) for _ in range(30 if ctx.thorough else 8)]:
        for form in CONTAINER_FORMS + ONESHOT_FORMS + ["nestedgen"]:
            for opts in OPTIONS:
                if form == "nestedgen" and not aux_route(opts):
                    continue  # the native node is posted unchecked; not serialisable
                ctx.count("graphs:containers")
                graph_case(n, es, form, opts, rng.randrange(3))
    for name, n, es in graphcap2.structured_graphs(ctx.thorough) + graphcap2.reversed_cycles(7):
        for form in ["vars", "mixed", rng.choice(CONTAINER_FORMS)]:
            for opts in [(False, False, None), (False, True, None), rng.choice(OPTIONS)]:
                ctx.count("graphs:structured")
                graph_case(n, es if rng.random() < 0.5 else graphcap2.mixed_orientation(rng, es), form, opts, rng.randrange(3))
    for h, w in [(5, 6), (6, 5), (7, 7), (2, 7), (1, 13), (4, 5)] + ([(9, 9), (3, 10)] if ctx.thorough else []):
        for form in ["vars", "mixed", "gen2", "flatgen"]:
            for opts in [(False, False, None), (False, True, None), rng.choice(OPTIONS)]:
                ctx.count("graphs:grid-large")
                grid_case(h, w, form, opts, rng.randrange(3))
    for h, w in [(1, 1), (2, 3), (3, 3), (0, 2), (2, 0), (1, 5)]:
        for form in ["gen2", "flatgen"]:
            for opts in OPTIONS:
                ctx.count("graphs:grid-generator-built")
                grid_case(h, w, form, opts, rng.randrange(3))

    # histories: ONE Graph object that is used, extended with add_edge, and used again (on one Solver that
    # accumulates the calls, or on a fresh Solver per call); every call is compared with the model on the graph
    # as it is at that moment and the state the Solver really had before the call
    def history_graphs():
        for name, n, es in graphcap2.reversed_cycles(6):
            yield n, es, [len(es) - 1, len(es)]
        for n, es in graphcap.all_multigraphs(4, 4):
            if len(es) >= 2 and rng.random() < (0.6 if ctx.thorough else 0.15):
                yield n, graphcap2.mixed_orientation(rng, es), None
        for _ in range(300 if ctx.thorough else 70):
            n, es = graphcap.random_multigraph(rng, 7, loops=rng.random() < 0.15)
            if es:
                yield n, es, None

    from cspuz import Solver
    for n, es, cuts in history_graphs():
        H = graphcap2.GraphHistory(n, es)
        if cuts is None:
            cuts = graphcap2.random_cuts(rng, len(es)) + [len(es)] + ([len(es)] if rng.random() < 0.4 else [])
        shared = rng.random() < 0.5
        s = Solver()
        if shared:
            pre_state(s, rng.randrange(3))
        for step, cut in enumerate(cuts):
            g = H.advance(cut)
            cur = H.current_edges()
            if not shared:
                s = Solver()
                pre_state(s, rng.randrange(3))
            form = rng.choice(["vars", "array1", "neg", "mixed", "tuple", "const", "c:deque"])
            opts = rng.choice(OPTIONS) if rng.random() < 0.4 else (False, rng.random() < 0.5, None)
            cfg, acy, ugp = opts
            arg, trees, cf = make_acts(s, n, form, rng)
            pre = exprio.show_state(s)
            ltok = exprio.show_list(trees)
            inp = ("history", n, tuple(cur), step, shared, form, opts, ltok, len(s.variables), len(s.constraints))
            r = call_checked(inp, s, arg, g, cfg, acy, ugp, rng.choice(CALL_STYLES))
            impl = snap(s) if r[0] == "ok" else r
            reqs.append("P %s G %s %s ST %s L %s" % (opt_tok(cfg, acy, ugp), graphcap.graph_tok(n, cur), cf, pre, ltok))
            metas.append((inp, impl))
            ctx.count("graphs:history-%s-step%d" % ("one-solver" if shared else "fresh-solver", min(step, 3)))

    outs = m.batch(reqs)
    for (inp, impl), o in zip(metas, outs):
        mo = parse_post(o)
        if mo[0] == "err" or impl[0] == "err":
            ctx.count("outcome:" + (impl[1] if impl[0] == "err" else "ok-vs-model-err"))
        if inp[0] == "graph" and inp[3].startswith("o:"):
            # a one-shot iterable is not a Sequence: TypeError is fine; if the call goes through, the program must
            # be the one of the materialised list
            ctx.count("one-shot:" + ("TypeError" if impl == ("err", "TypeError") else "accepted"))
            ctx.corr("one-shot-is_active", inp, impl if impl == ("err", "TypeError") else mo, impl)
            continue
        ctx.corr("history-posted-program" if inp[0] == "history" else "posted-program", inp, mo, impl)


# ---------------------------------------------------------------- search

def key_of(n, edges, acyclic, pat, how="vars"):
    return "avc:%s:acyclic=%d:n=%d:e=%s:p=%s" % (how, int(acyclic), n, ",".join("%d-%d" % e for e in edges),
                                                  "".join("1" if b else "0" for b in pat))


AUX_OPTS = {False: [(False, None), (True, False), (False, False)],
            True: [(False, None), (True, False), (False, False), (True, None), (True, True), (False, True)]}
SEARCH_HOWS = ["vars", "neg", "tuple", "deque", "userseq", "array1", "array1-gen", "array1-slice"]
GRID_HOWS = ["vars", "grid-neg", "grid-gen2", "grid-flatgen"]


def posted(n, edges, acyclic, how="vars", pat=None, grid=None, opts=None, hist=None, mask=None):
    """the program really posted; returns (solver, per-vertex variables to fix (None = Python constant), aux vars).
    how: vars (fresh variables) | neg (~v) | const (Python bools of `pat`) | mixedconst (Python bools of `pat`
         where mask is set, variables elsewhere) | a graphcap2 container kind | a graphcap2 one-shot kind;
         with grid=(h, w): BoolArray2D form without a graph (vars | grid-neg | grid-gen2 | grid-flatgen)
    opts: (config.use_graph_primitive, use_graph_primitive argument, call style) - must select the auxiliary encoding
    hist: [[cut, acyclic, 'aux'|'prim', shared], ...] earlier uses of the SAME Graph object when it only had
          edges[:cut] (on the same Solver if shared, else on a throw-away Solver)"""
    from cspuz.array import BoolArray2D
    from cspuz.graph import active_vertices_connected
    from cspuz import Solver
    cfg, ugp, style = opts if opts else (False, None, "kw")
    s = Solver()
    if grid is not None:
        h, w = grid
        arr = s.bool_array(grid)
        vs = list(arr.data)
        if how == "grid-neg":
            arg = BoolArray2D([~v for v in vs], grid)
        elif how == "grid-gen2" and h >= 1:
            arg = BoolArray2D((vs[y * w + x] for x in range(w)) for y in range(h))
        elif how in ("grid-gen2", "grid-flatgen"):
            arg = BoolArray2D(iter(vs), grid)
        else:
            arg = arr
        before = len(s.variables)
        call_raw(s, arg, None, cfg, acyclic, ugp, style)
        return s, vs, s.variables[before:]
    H = graphcap2.GraphHistory(n, edges)
    for (cut, h_acy, h_route, shared) in (hist or []):
        g = H.advance(cut)
        hs = s if shared else Solver()
        hv = [hs.bool_var() for _ in range(n)]
        with cfg_prim(False):
            active_vertices_connected(hs, hv, g, acyclic=h_acy, use_graph_primitive=(h_route == "prim"))
    g = H.finish()
    vs = [s.bool_var() for _ in range(n)]
    if how == "const":
        arg, vs = [bool(b) for b in pat], [None] * n
    elif how == "mixedconst":
        arg = [bool(pat[i]) if mask[i] else vs[i] for i in range(n)]
        vs = [None if mask[i] else vs[i] for i in range(n)]
    elif how == "neg" or how == "grid-neg":
        arg = [~v for v in vs]
    elif how == "vars":
        arg = vs
    elif how in graphcap2.CONTAINERS:
        arg = graphcap2.as_container(how, vs)
    elif how in graphcap2.ONESHOTS:
        arg, vs = graphcap2.as_oneshot(how, vs)
    else:
        raise ValueError(how)
    before = len(s.variables)
    call_raw(s, arg, g, cfg, acyclic, ugp, style)
    return s, vs, s.variables[before:]


def posted_two(sc):
    """two calls on one Solver; the first on the Graph object while it has edges[:cut], the second on the same
    object completed (mode extended / twice) or on another graph (two-graphs)"""
    from cspuz.graph import active_vertices_connected
    from cspuz import Solver
    n, es, es2 = sc["n"], [tuple(e) for e in sc["edges"]], [tuple(e) for e in sc["edges2"]]
    s = Solver()
    H = graphcap2.GraphHistory(n, es)
    vs1 = [s.bool_var() for _ in range(n)]
    with cfg_prim(False):
        active_vertices_connected(s, vs1, H.advance(sc["cut"]), acyclic=sc["acyclic"][0])
        n2 = sc.get("n2", n)
        g2 = graphcap.mk_graph(n2, es2) if sc["mode"] == "two-graphs" else H.finish()
        vs2 = vs1 if sc["same_vars"] else [s.bool_var() for _ in range(n2)]
        active_vertices_connected(s, vs2, g2, acyclic=sc["acyclic"][1])
    return s, vs1, vs2


def is_prim_node(c):
    from cspuz.expr import Op
    return getattr(c, "op", None) == Op.GRAPH_ACTIVE_VERTICES_CONNECTED


def oracle(n, edges, acyclic, pat):
    return graphcap.is_tree(n, edges, pat) if acyclic else graphcap.is_connected(n, edges, pat)


def biased_patterns(rng, n, edges, count):
    """patterns that are connected / trees or one flip away from that"""
    adj = graphcap.adj_list(n, edges)
    out = set()
    for _ in range(count):
        pat = [False] * n
        start = rng.randrange(n)
        pat[start] = True
        frontier = [start]
        size = rng.randint(1, n)
        tree_like = rng.random() < 0.5
        k = 1
        while frontier and k < size:
            v = frontier[rng.randrange(len(frontier))]
            cand = [u for (u, _) in adj[v] if not pat[u]]
            if tree_like:
                cand = [u for u in cand if sum(1 for (x, _) in adj[u] if pat[x]) == 1]
            if not cand:
                frontier.remove(v)
                continue
            u = rng.choice(cand)
            pat[u] = True
            frontier.append(u)
            k += 1
        c = rng.random()
        if c < 0.45:
            j = rng.randrange(n)
            pat[j] = not pat[j]
        out.add(tuple(pat))
    out.add(tuple([False] * n))
    out.add(tuple([True] * n))
    return sorted(out)


def search_graphs(ctx):
    rng = ctx.rng
    for n, es in graphcap.all_multigraphs(4, 5):
        yield "small", n, es, None
    for n, es in graphcap.all_multigraphs(3, 3, loops=True):
        if any(a == b for a, b in es):
            yield "loops", n, es, None
    lim5 = 6 if ctx.thorough else (5 if ctx.deep else 4)
    for n, es in graphcap.all_multigraphs(5, lim5):
        if n == 5 and len(es) >= 3:
            if not ctx.thorough and rng.random() < (0.8 if len(es) >= 5 else (0.3 if ctx.deep else 0.65)):
                continue
            yield "five", n, es, None
    if ctx.thorough:
        for n, es in graphcap.all_multigraphs(6, 5):
            if n == 6 and len(es) >= 4 and (len(es) == 4 or rng.random() < 0.15):
                yield "six", n, es, None
    for _ in range(300 if ctx.thorough else (120 if ctx.deep else 60)):
        n, es = graphcap.random_multigraph(rng, 9)
        es = shuffled(rng, es)
        if n <= 6:
            yield "random", n, es, None
        else:
            yield "random", n, es, biased_patterns(rng, n, es, 30)


def search(ctx):
    try:
        m = ctx.model("C04")
    except Exception as ex:  # model build broken: the oracle comparison still runs
        ctx.note("model runner unavailable in search: %r" % (ex,))
        m = None
    rng = ctx.rng
    spec_reqs, spec_meta = [], []
    cert_reqs, cert_meta = [], []
    prim_reqs, prim_meta = [], []
    wit_jobs = []

    def report(key, got, want, acyclic, detail):
        ctx.violation(key, "posted constraints are %s although the active vertices %s" % (
            "satisfiable" if got else "unsatisfiable",
            ("induce a tree / are empty" if acyclic else "are connected") if want else
            ("do not induce a tree" if acyclic else "are not connected")), detail)

    def scen_tag(how, grid, opts, hist):
        tag = (("grid%dx%d" % tuple(grid)) + ("" if how == "vars" else ":" + how)) if grid else how
        if opts:
            tag += ":cfg=%d,ugp=%s,%s" % (int(opts[0]), opts[1], opts[2])
        if hist:
            tag += ":hist=" + ";".join("%d%s%s%s" % (c, "a" if ha else "c", r[0], "s" if sh else "f") for c, ha, r, sh in hist)
        return tag

    def run_patterns(kind, n, es, acyclic, pats, grid=None, how=None, opts=None, hist=None):
        """every pattern of `pats`: satisfiability of the really posted program (scenario = how / opts / hist, see
        `posted`) against the oracle on the graph as it is at the moment of the call"""
        if how is None:
            how = "vars" if grid is not None or rng.random() < 0.7 else "neg"
        r = vlib.guarded(posted, n, es, acyclic, how, None, grid, opts, hist)
        tag = scen_tag(how, grid, opts, hist)
        scen = {"n": n, "edges": es, "acyclic": acyclic, "how": how, "grid": grid, "opts": opts, "hist": hist}
        ctx.count("search-scenario:how=" + how)
        if hist:
            ctx.count("search-scenario:graph-object-reused")
        if opts:
            ctx.count("search-scenario:options-given")
        if r[0] == "err":
            if how in graphcap2.ONESHOTS and r[1] == "TypeError":
                ctx.count("search-one-shot:TypeError")
                return  # not a Sequence; accepted behaviour
            ctx.violation("avc:%s:acyclic=%d:n=%d:e=%s:raises" % (tag, acyclic, n, ",".join("%d-%d" % e for e in es)),
                          "active_vertices_connected raises on a well-formed call", dict(scen, error=r[1]))
            return
        s, vs, aux = r[1]
        neg = how in ("neg", "grid-neg")
        if pats is None:
            pats = list(graphcap.patterns(n))
        if any(is_prim_node(c) for c in s.constraints):
            # the auxiliary encoding was asked for (by acyclic=True or by the options) but a native node was posted:
            # its meaning (Coq gsem_avc: connectivity of the decoded graph and pattern) is compared with the oracle
            ctx.count("search-scenario:native-node-where-auxiliary-encoding-expected")
            if len(s.constraints) == 1:
                for pat in pats:
                    env = [False] * len(s.variables)
                    for v, b in zip(vs, pat):
                        env[v.id] = (not b) if neg else b
                    prim_reqs.append("H E %s B %s" % (exprio.show(s.constraints[0]), bits(env)))
                    prim_meta.append((key_of(n, es, acyclic, pat, tag), acyclic, oracle(n, es, acyclic, pat),
                                      dict(scen, pattern=[int(b) for b in pat])))
            return
        check = graphcap.z3_session(s)
        for pat in pats:
            want = oracle(n, es, acyclic, pat)
            fixed = [(v, (not b) if neg else b) for v, b in zip(vs, pat)]
            sample = m is not None and rng.random() < 0.06
            if sample and want:
                got, model = check(fixed, want_model=True)
            else:
                got, model = check(fixed), None
            ctx.prop_case("sat-vs-oracle", (tag, n, tuple(es), acyclic, pat))
            ctx.count("pattern:" + ("acyclic-" if acyclic else "") + ("accepted" if want else "rejected"))
            if got != want:
                report(key_of(n, es, acyclic, pat, tag), got, want, acyclic,
                       dict(scen, pattern=[int(b) for b in pat], expected_satisfiable=want, observed_satisfiable=got))
            if m is not None and (len(pats) <= 64 or rng.random() < 0.3):
                spec_reqs.append("SPEC %d %s B %s" % (acyclic, graphcap.graph_tok(n, es), bits(pat)))
                spec_meta.append((n, es, acyclic, pat, want))
            if m is not None and model is not None and len(aux) == 2 * n:
                ranks = [model[v.id] for v in aux[:n]]
                roots = [model[v.id] for v in aux[n:]]
                cert_reqs.append("C %d %s B %s R %s T %s" % (acyclic, graphcap.graph_tok(n, es), bits(pat),
                                                               " ".join(str(x) for x in ranks), bits(roots)))
                cert_meta.append((n, es, acyclic, pat, ranks, roots))
            if sample and want and len(aux) == 2 * n and not (acyclic and any(a == b for a, b in es)):
                wit_jobs.append((n, es, acyclic, pat, check, fixed, aux))

    def rand_opts(acyclic):
        cfg, ugp = rng.choice(AUX_OPTS[bool(acyclic)])
        return [cfg, ugp, rng.choice(CALL_STYLES)]

    def rand_hist(m_edges, cuts=None, allow_shared=True):
        """earlier uses of the Graph object while it had fewer edges (and, sometimes, once more when complete)"""
        cuts = cuts if cuts is not None else graphcap2.random_cuts(rng, m_edges, 2)
        hist = [[c, rng.random() < 0.5, "aux" if rng.random() < 0.8 else "prim", False] for c in cuts]
        if allow_shared and rng.random() < 0.4:
            for hh in hist:
                hh[2], hh[3] = "aux", True
        return hist

    for kind, n, es, pats in search_graphs(ctx):
        loops = any(a == b for a, b in es)
        for acyclic in (False, True):
            if acyclic and loops:
                continue  # 'tree' is read on loop-free graphs (see ASSUMPTIONS)
            ctx.count("search-graphs:" + kind)
            run_patterns(kind, n, es, acyclic, pats)
            if kind in ("small", "loops") and es and (ctx.thorough or ctx.deep or rng.random() < 0.6):
                # the same graph stored differently ((larger, smaller), mixed, other order); as a Graph object that
                # was already used while it had fewer edges; with the options / container spelled differently
                c = rng.randrange(3)
                if c == 0 or ctx.thorough or ctx.deep:
                    nm, es2 = rng.choice(list(graphcap2.orientation_variants(rng, es)))
                    ctx.count("search-graphs:small-" + nm)
                    run_patterns(kind, n, es2, acyclic, pats)
                if c == 1 or ctx.thorough or ctx.deep:
                    ctx.count("search-graphs:small-history")
                    run_patterns(kind, n, graphcap2.mixed_orientation(rng, es) if rng.random() < 0.5 else es, acyclic, pats,
                                 hist=rand_hist(len(es)))
                if c == 2 or ctx.thorough or ctx.deep:
                    ctx.count("search-graphs:small-options-containers")
                    run_patterns(kind, n, es, acyclic, pats, how=rng.choice(SEARCH_HOWS + graphcap2.ONESHOTS),
                                 opts=rand_opts(acyclic))
    # cycles closed by a reversed edge / made of reversed or parallel edges: fresh, and with the closing edge added
    # to a Graph object that was already used as a path
    for name, n, es in graphcap2.reversed_cycles(8 if ctx.thorough else (7 if ctx.deep else 6)):
        for acyclic in (False, True):
            ctx.count("search-graphs:reversed-cycles")
            run_patterns("revcycle", n, es, acyclic, None, how="vars")
            run_patterns("revcycle", n, es, acyclic, None, how=rng.choice(SEARCH_HOWS), opts=rand_opts(acyclic),
                         hist=[[len(es) - 1, bool(rng.randrange(2)), "aux", bool(rng.randrange(2))]])
            run_patterns("revcycle", n, es, acyclic, None, how="vars", hist=[[len(es) - 1, acyclic, "aux", False]])
    # structured graphs just beyond the exhaustive scope (rank-range stress: K_n needs n distinct ranks when
    # acyclic, a path needs depth n // 2), in canonical and mixed orientation, fresh and with a history
    for k, (name, n, es) in enumerate(graphcap2.structured_graphs(ctx.thorough)):
        for acyclic in (False, True):
            ctx.count("search-graphs:structured")
            pats = None if n <= 8 else biased_patterns(rng, n, es, 250 if ctx.thorough else 120)
            run_patterns("structured", n, es, acyclic, pats, how="vars")
            pats = None if n <= 7 else biased_patterns(rng, n, es, 100 if ctx.thorough else 40)
            run_patterns("structured", n, graphcap2.mixed_orientation(rng, es), acyclic, pats,
                         how=SEARCH_HOWS[(k + acyclic) % len(SEARCH_HOWS)], opts=rand_opts(acyclic),
                         hist=rand_hist(len(es)) if (k + acyclic) % 2 else None)
    # the array form on grids, oracle on an independently written adjacency
    grids = [(1, 1), (1, 2), (2, 1), (1, 4), (3, 1), (2, 2), (2, 3), (3, 2), (3, 3), (2, 4)]
    if ctx.thorough or ctx.deep:
        grids += [(3, 4), (4, 3), (2, 6), (1, 9)]
    for (h, w) in grids:
        es = graphcap.grid_edges(h, w)
        for acyclic in (False, True):
            ctx.count("search-graphs:grid")
            run_patterns("grid", h * w, es, acyclic, None if h * w <= 9 else biased_patterns(rng, h * w, es, 150), grid=(h, w))
            if h * w <= 8 or ctx.thorough:
                run_patterns("grid", h * w, es, acyclic, None if h * w <= 9 else biased_patterns(rng, h * w, es, 60),
                             grid=(h, w), how=rng.choice(GRID_HOWS[1:]), opts=rand_opts(acyclic))
    for (h, w) in [(4, 4), (3, 5), (5, 4)]:
        es = graphcap.grid_edges(h, w)
        for acyclic in (False, True):
            ctx.count("search-graphs:grid")
            run_patterns("grid", h * w, es, acyclic, biased_patterns(rng, h * w, es, 60 if not ctx.thorough else 300), grid=(h, w))
    # larger boards with targeted patterns: snakes / spirals / combs (long induced paths and trees: rank depth),
    # rings (a cycle), diagonal chains and X shapes (not connected), and single-cell perturbations of them
    big = [(5, 6), (6, 5), (4, 5), (5, 5), (2, 7), (7, 7)] + ([(7, 2), (6, 6), (3, 9), (8, 8)] if ctx.thorough else [])
    for k, (h, w) in enumerate(big):
        es = graphcap.grid_edges(h, w)
        for acyclic in (False, True):
            ctx.count("search-graphs:grid-large")
            pats = [p for (_, p) in graphcap2.grid_patterns(rng, h, w, 8 if ctx.thorough else 4)]
            run_patterns("grid", h * w, es, acyclic, pats, grid=(h, w), how=GRID_HOWS[(k + acyclic) % len(GRID_HOWS)],
                         opts=rand_opts(acyclic) if k % 2 else None)
    # the same boards given as an explicit graph (larger-first edges) with a flat sequence
    for (h, w) in [(5, 6), (3, 7)]:
        es = graphcap2.larger_first(graphcap.grid_edges(h, w))
        for acyclic in (False, True):
            ctx.count("search-graphs:grid-as-graph")
            run_patterns("grid-as-graph", h * w, es, acyclic, [p for (_, p) in graphcap2.grid_patterns(rng, h, w, 2)],
                         how=rng.choice(SEARCH_HOWS), hist=rand_hist(len(es)))

    # Python constants as is_active (all of them, or mixed with variables): the program itself must be (un)satisfiable
    const_graphs = [(n, es) for n, es in graphcap.all_multigraphs(4, 4 if not ctx.thorough else 5)
                    if rng.random() < (1.0 if ctx.thorough else 0.25)]
    const_graphs += [(n, es) for (_, n, es) in graphcap2.reversed_cycles(4)] + [(5, graphcap2.complete_edges(5))]
    for n, es in const_graphs:
        for pat in graphcap.patterns(n):
            if not ctx.thorough and rng.random() < 0.5:
                continue
            for acyclic in (False, True):
                how, mask, opts, hist = "const", None, None, None
                if rng.random() < 0.5:
                    how, mask = "mixedconst", [rng.random() < 0.5 for _ in range(n)]
                if rng.random() < 0.3:
                    opts = rand_opts(acyclic)
                if es and rng.random() < 0.3:
                    hist = rand_hist(len(es), allow_shared=False)
                r = vlib.guarded(posted, n, es, acyclic, how, pat, None, opts, hist, mask)
                want = oracle(n, es, acyclic, pat)
                tag = scen_tag(how, None, opts, hist) + ("" if mask is None else ":mask=" + bits(mask).replace(" ", ""))
                scen = {"n": n, "edges": es, "acyclic": acyclic, "how": how, "grid": None, "opts": opts, "hist": hist,
                        "mask": mask, "pattern": [int(b) for b in pat]}
                ctx.prop_case("const-sat-vs-oracle", (tag, n, tuple(es), acyclic, pat))
                if r[0] == "err":
                    ctx.violation(key_of(n, es, acyclic, pat, tag) + ":raises",
                                  "active_vertices_connected raises on Python constants", dict(scen, error=r[1]))
                    continue
                s, vs, _ = r[1]
                if any(is_prim_node(c) for c in s.constraints):
                    ctx.count("search-scenario:native-node-where-auxiliary-encoding-expected")
                    continue  # examined through run_patterns
                got = graphcap.z3_session(s)([(v, b) for v, b in zip(vs, pat) if v is not None])
                if got != want:
                    report(key_of(n, es, acyclic, pat, tag), got, want, acyclic,
                           dict(scen, expected_satisfiable=want, observed_satisfiable=got))

    # two calls on ONE Solver (two graphs, or one Graph object before / after add_edge, or the same graph twice;
    # separate or the SAME is_active variables): satisfiable iff both calls' patterns are accepted
    for _ in range(200 if ctx.thorough else (100 if ctx.deep else 36)):
        n = rng.randint(2, 4)
        es = graphcap2.mixed_orientation(rng, rng.choice([e for (k, e) in graphcap.all_multigraphs(n, 4) if k == n and e]))
        mode = rng.choice(["extended", "two-graphs", "twice"])
        same_vars = rng.random() < 0.4
        acy = [rng.random() < 0.5, rng.random() < 0.5]
        cut = rng.randrange(len(es)) if mode == "extended" else len(es)
        n2 = rng.randint(1, 4) if mode == "two-graphs" and not same_vars else n
        es2 = es if mode != "two-graphs" else graphcap2.mixed_orientation(
            rng, rng.choice([e for (k, e) in graphcap.all_multigraphs(n2, 4) if k == n2]))
        scen = {"two_calls": True, "n": n, "edges": es, "cut": cut, "n2": n2, "edges2": es2, "mode": mode,
                "same_vars": same_vars, "acyclic": acy}
        r = vlib.guarded(posted_two, scen)
        key = "avc:two-calls:%s:n=%d:e=%s:cut=%d:n2=%d:e2=%s:same=%d:acyclic=%d%d" % (
            mode, n, ",".join("%d-%d" % e for e in es), cut, n2, ",".join("%d-%d" % e for e in es2), same_vars,
            acy[0], acy[1])
        ctx.count("search-graphs:two-calls-" + mode + ("-same-vars" if same_vars else ""))
        if r[0] == "err":
            ctx.violation(key + ":raises", "active_vertices_connected raises on the second call on one Solver",
                          dict(scen, error=r[1]))
            continue
        s, vs1, vs2 = r[1]
        if any(is_prim_node(c) for c in s.constraints):
            ctx.count("search-scenario:native-node-where-auxiliary-encoding-expected")
            continue
        check = graphcap.z3_session(s)
        for p1 in graphcap.patterns(n):
            for p2 in ([p1] if same_vars else graphcap.patterns(n2)):
                want = oracle(n, es[:cut], acy[0], p1) and oracle(n2, es2, acy[1], p2)
                got = check(list(zip(vs1, p1)) + ([] if same_vars else list(zip(vs2, p2))))
                ctx.prop_case("two-calls-sat-vs-oracle", (key, p1, p2))
                if got != want:
                    ctx.violation(key + ":p=%s/%s" % (bits(p1).replace(" ", ""), bits(p2).replace(" ", "")),
                                  "two calls on one Solver: the posted constraints are %s although the two patterns are %s"
                                  % ("satisfiable" if got else "unsatisfiable",
                                     "both accepted" if want else "not both accepted"),
                                  dict(scen, pattern=[int(b) for b in p1], pattern2=[int(b) for b in p2],
                                       expected_satisfiable=want, observed_satisfiable=got))

    # the native operator: the node really posted, decoded and evaluated by the Coq meaning, vs the oracle
    if m is not None:
        from cspuz import Solver
        from cspuz.graph import active_vertices_connected
        reqs, meta = [], []
        prim_graphs = [(n, es) for n, es in graphcap.all_multigraphs(4, 4)] + \
                      [graphcap.random_multigraph(rng, 8, loops=(i % 4 == 0)) for i in range(40)]
        prim_jobs = [(n, es, None) for n, es in prim_graphs]
        # hardening round: stored (larger, smaller) / mixed, structured graphs, the native route selected through the
        # configuration or the argument, other containers, and a Graph object that was used before it was complete
        for n, es in prim_graphs:
            if es and rng.random() < (1.0 if ctx.thorough else 0.3):
                prim_jobs.append((n, graphcap2.mixed_orientation(rng, es), "variant"))
        prim_jobs += [(n, es, "variant") for (_, n, es) in graphcap2.reversed_cycles(6) + graphcap2.structured_graphs()[:8]]
        for n, es, variant in prim_jobs:
            s = Solver()
            vs = [s.bool_var() for _ in range(n)]
            if variant is None:
                r = vlib.guarded(active_vertices_connected, s, vs, graphcap.mk_graph(n, es), use_graph_primitive=True)
            else:
                H = graphcap2.GraphHistory(n, es)
                for cut in graphcap2.random_cuts(rng, len(es), 2):
                    hs = Solver()
                    vlib.guarded(call_raw, hs, [hs.bool_var() for _ in range(n)], H.advance(cut), False,
                                 rng.random() < 0.5, rng.random() < 0.5, "kw")
                cfg, ugp = rng.choice([(True, None), (False, True), (True, True)])
                r = call_impl(s, graphcap2.as_container(rng.choice(graphcap2.CONTAINERS), vs), H.finish(), cfg, False, ugp,
                              rng.choice(CALL_STYLES))
                ctx.count("search-graphs:primitive-variant")
            if r[0] == "err" or len(s.constraints) != 1:
                ctx.violation("avc:primitive:n=%d:e=%s:raises" % (n, ",".join("%d-%d" % e for e in es)),
                              "primitive route does not post exactly one node", {"n": n, "edges": es, "result": repr(r)})
                continue
            node = exprio.show(s.constraints[0])
            pats = list(graphcap.patterns(n)) if n <= 5 else biased_patterns(rng, n, es, 24)
            for pat in pats:
                reqs.append("H E %s B %s" % (node, bits(pat)))
                meta.append((n, es, pat))
        for (n, es, pat), o in zip(meta, m.batch(reqs)):
            want = graphcap.is_connected(n, es, pat)
            ctx.prop_case("primitive-node-meaning-vs-oracle", (n, tuple(es), pat))
            if (o == "1") != want:
                ctx.violation(key_of(n, es, False, pat, "primitive"),
                              "the posted GRAPH_ACTIVE_VERTICES_CONNECTED node decodes to a (graph, pattern) whose "
                              "connectivity differs from that of the caller's graph and pattern",
                              {"n": n, "edges": es, "pattern": [int(b) for b in pat], "expected": want, "decoded": o})

    if m is None:
        return
    # native nodes met where the auxiliary encoding was expected (see run_patterns)
    for (key, acyclic, want, detail), o in zip(prim_meta, m.batch(prim_reqs)):
        ctx.prop_case("unexpected-native-node-meaning-vs-oracle", key)
        if (o == "1") != want:
            report(key, o == "1", want, acyclic, dict(detail, expected_satisfiable=want, observed_satisfiable=(o == "1"),
                                                      native_node=True))
    # the Coq specification agrees with the independent oracle
    for (n, es, acyclic, pat, want), o in zip(spec_meta, m.batch(spec_reqs)):
        ctx.count("spec-validation")
        if (o == "1") != want:
            ctx.mismatches.append({"kind": "spec-vs-oracle", "input": [n, es, acyclic, [int(b) for b in pat]],
                                   "model": o, "impl": want})
    # a z3 model of the real program passes the Coq certificate checker
    for (n, es, acyclic, pat, ranks, roots), o in zip(cert_meta, m.batch(cert_reqs)):
        ctx.corr("cert-of-z3-model", (n, tuple(es), acyclic, pat, tuple(ranks), tuple(roots)), o, "1 1")
    # the certificate constructed in the completeness proof satisfies the real program
    reqs = ["W %s B %s" % (graphcap.graph_tok(n, es), bits(pat)) for (n, es, _, pat, _, _, _) in wit_jobs]
    for (n, es, acyclic, pat, check, fixed, aux), o in zip(wit_jobs, m.batch(reqs)):
        rs, bs = o.split("|")
        ranks = [int(t) for t in rs.split()]
        roots = [t == "1" for t in bs.split()]
        ok = len(ranks) == n and len(roots) == n and check(fixed + list(zip(aux[:n], ranks)) + list(zip(aux[n:], roots)))
        ctx.corr("coq-certificate-on-real-program", (n, tuple(es), acyclic, pat),
                 ("sat" if ok else "unsat", tuple(ranks)), ("sat", tuple(ranks)))


def replay(ctx, rp):
    print(rp)
    v = rp.get("violation", {}).get("detail", {})
    if not v or "pattern" not in v or "acyclic" not in v:
        return 0
    pat = [bool(b) for b in v["pattern"]]
    if v.get("two_calls"):
        s, vs1, vs2 = posted_two(v)
        p2 = [bool(b) for b in v["pattern2"]]
        es, es2 = [tuple(e) for e in v["edges"]], [tuple(e) for e in v["edges2"]]
        got = graphcap.sat_with(s, list(zip(vs1, pat)) + ([] if v["same_vars"] else list(zip(vs2, p2))))
        want = oracle(v["n"], es[:v["cut"]], v["acyclic"][0], pat) and oracle(v.get("n2", v["n"]), es2, v["acyclic"][1], p2)
        print("satisfiable:", got, " oracle:", want)
        return 1 if got != want else 0
    n, es = v["n"], [tuple(e) for e in v["edges"]]
    acyclic, how = bool(v["acyclic"]), v.get("how", "vars")
    grid = tuple(v["grid"]) if v.get("grid") else None
    s, vs, _ = posted(n, es, acyclic, how, pat, grid, v.get("opts"), v.get("hist"), v.get("mask"))
    neg = how in ("neg", "grid-neg")
    fixed = [(x, (not b) if neg else b) for x, b in zip(vs, pat) if x is not None]
    if len(s.constraints) == 1 and is_prim_node(s.constraints[0]):
        env = [False] * len(s.variables)
        for x, b in fixed:
            env[x.id] = b
        got = ctx.model("C04").call("H E %s B %s" % (exprio.show(s.constraints[0]), bits(env))) == "1"
        print("a native node was posted; its Coq meaning (gsem_avc) under the pattern:", got)
    else:
        got = graphcap.sat_with(s, fixed)
    want = oracle(n, es, acyclic, pat)
    print("satisfiable:", got, " oracle:", want)
    return 1 if got != want else 0
