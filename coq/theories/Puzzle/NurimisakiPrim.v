(* C11 Tier 1, native-operator route - nurimisaki.  The program solve_nurimisaki posts when
   cspuz.config.use_graph_primitive is on: graph.active_vertices_connected(solver, is_white) posts ONE node
   GRAPH_ACTIVE_VERTICES_CONNECTED over the answer grid (model Graph/Avc.v::post_avc with prim = true), no auxiliary
   variable; the 2x2 and cape constraints are those of Puzzle/Nurimisaki.v (nurimisaki_constraints), the input
   alphabet is the same.  On a board without cells the call succeeds on this route.
   Theorem: same ids, same rules as NurimisakiProofs.nurimisaki_exact; the meaning of the node is C04's gsem_avc. *)
From Coq Require Import ZArith List Bool Arith Lia.
From Cspuz Require Import Lib.PyErr Core.Expr Core.Program Graph.GraphModel Graph.Avc
     Puzzle.PuzzleBase Puzzle.SatAbs Puzzle.ModelBase Puzzle.ModelLemmas
     Puzzle.Rules_nurimisaki Puzzle.Nurimisaki Puzzle.NurimisakiProofs Puzzle.AvcPrimCompose.
Import ListNotations.
Local Open Scope nat_scope.

Definition solve_nurimisaki_model_prim (pb : problem) : res state :=
  let h := dim pb 0 in let w := dim pb 1 in
  if existsb (fun v => (v <? -1)%Z) (sec pb 1) then Err ValueError
  else
  match post_avc (bool_grid_state (h * w) []) (map BVar (seq 0 (h * w))) (grid_graph h w) false true with
  | Ok st1 => Ok (ensure st1 (nurimisaki_constraints h w (sec pb 1)))
  | Err e => Err e
  end.

Theorem nurimisaki_exact_prim h w grid st ans :
  solve_nurimisaki_model_prim [[Z.of_nat h; Z.of_nat w]; grid] = Ok st ->
  ((exists en, model_of gsem_avc en st /\ reads st en (seq 0 (h * w)) = ans)
   <-> rules_nurimisaki [[Z.of_nat h; Z.of_nat w]; grid] ans = true).
Proof.
  unfold solve_nurimisaki_model_prim. destruct (dims2n h w [grid]) as [-> ->].
  change (sec [[Z.of_nat h; Z.of_nat w]; grid] 1) with grid.
  destruct (existsb (fun v => (v <? -1)%Z) grid); [discriminate|].
  destruct (post_avc (bool_grid_state (h * w) []) (map BVar (seq 0 (h * w))) (grid_graph h w) false true)
    as [st1|e] eqn:Hp; [|discriminate].
  intros H. inversion H; subst st; clear H.
  rewrite rules_nurimisaki_split.
  apply (avc_grid_compose_prim h w (nurimisaki_constraints h w grid) (misaki_local h w grid) st1 ans Hp).
  intros en. apply misaki_local_core.
Qed.

Example nurimisaki_model_prim_ok :
  exists st, solve_nurimisaki_model_prim [[2; 3]; [2; -1; -1; -1; 0; 3]]%Z = Ok st.
Proof. vm_compute. eexists. reflexivity. Qed.
