(* URL assembly / disassembly of cspuz/problem_serializer.py (definitions only).
   The regular expression itself is read by Codec/Comb.v's [url_match]; here:
     make_url   the f-string  f"{prefix}{puzzle}/{width}/{height}/{serialized}"
     parse_url  _DESERIALIZE_URL_REG.match(url) followed by the int() conversions of
                deserialize_problem_as_url: (name, width, height, body)                    *)
From Coq Require Import ZArith List Ascii Bool NArith.
From Cspuz Require Import Lib.PyErr Codec.Comb Codec.Legacy.
Import ListNotations.
Local Open Scope Z_scope.
Local Open Scope res_scope.

Definition make_url (prefix name : str) (h w : Z) (body : str) : str :=
  prefix ++ name ++ slash ++ py_str_int w ++ slash ++ py_str_int h ++ slash ++ body.

Definition parse_url (url : str) : res (option (str * Z * Z * str)) :=
  match url_match url with
  | None => Ok None
  | Some (name, wd, hd, body) =>
      let* w := py_int wd 10 in
      let* h := py_int hd 10 in
      Ok (Some (name, w, h, body))
  end.

Definition default_prefix : str := ["h"; "t"; "t"; "p"; "s"; ":"; "/"; "/"; "p"; "u"; "z"; "z"; "."; "l"; "i"; "n"; "k"; "/"; "p"; "?"]%char.
Definition pzv_prefix : str := ["h"; "t"; "t"; "p"; ":"; "/"; "/"; "p"; "z"; "v"; "."; "j"; "p"; "/"; "p"; "."; "h"; "t"; "m"; "l"; "?"]%char.

(* a puzzle name the regular expression can read back: non-empty, no slash *)
Definition valid_name (nm : str) : Prop := nm <> [] /\ Forall (fun c => is_slash c = false) nm.
(* the dot of the regular expression does not match a newline *)
Definition valid_body (b : str) : Prop := Forall (fun c => is_newline c = false) b.

(* the prefixes the regular expression accepts: http or https, a non-empty host without
   slash, "/p", optionally ".html", "?" *)
Definition valid_prefix (p : str) : Prop :=
  exists (tls html : bool) (host : str),
    host <> [] /\ Forall (fun c => is_slash c = false) host /\
    p = s_http ++ (if tls then ["s"%char] else []) ++ s_colon_slashes ++ host ++ s_slash_p
        ++ (if html then s_dot_html else []) ++ ["?"%char].
