(* C11 Tier 1, native-operator route - nurikabe.  solve_nurikabe makes ONE call into cspuz.graph,
       graph.division_connected(solver, division, len(clues) + 1, roots=roots, allow_empty_group=True),
   and _division_connected reads config.use_graph_primitive (NOT config.use_graph_division_primitive).  With that
   flag on (default of the csugar / enigma_csp / cspuz_core backends) the helper posts, for every group
   k = 0 .. len(clues), an indicator array region_k of h*w fresh Boolean variables, region_k[v] <-> (division[v] == k)
   and ONE node GRAPH_ACTIVE_VERTICES_CONNECTED over region_k and the grid graph (no count_true >= 1:
   allow_empty_group), then division[y*w+x] == i+1 for the clue cells; no rank / is_root / spanning_forest variables.
   solve_nurikabe_model_prim is Nurikabe.v::solve_nurikabe_model with that flag on; everything else the module posts
   (Nurikabe.v::nk_constraints) is unchanged.  The answer keys (is_white) are declared after the division grid and the
   (K+1) indicator arrays: ids (K+2)*h*w .. (K+3)*h*w - 1 (K = number of clue cells).
   Difference at the error points: on a board without cells this route does NOT raise (the auxiliary route raises
   ValueError at rank = int_array(0, 0, -1)); the program then has no variables, one G_AVC node on the empty graph
   (true by its specification) and the theorem holds for it as well (the only candidate grid is the empty one).
   The theorem: nurikabe_exact_prim - same statement as NurikabeProofs.nurikabe_exact; gsem = division_gsem (the
   specification of the native node, Graph/Division.v).  Proof: the module's local lemmas of NurikabeProofs.v
   (nk_constraints_sem, nk_local_ext, nk_rules_iff_division) + DivisionPrimCompose.division_grid_compose_prim
   (C05's closed theorem of this route, division_primitive, through division_exact_models). *)
From Coq Require Import ZArith List Bool Arith Lia.
From Cspuz Require Import Lib.PyErr Core.Expr Core.Program Graph.GraphModel Graph.ReachProofs Graph.AvcProofs
     Graph.Division Graph.DivisionEval Graph.DivisionProofs Graph.DivisionMain
     Puzzle.PuzzleBase Puzzle.SatAbs Puzzle.ModelBase Puzzle.ModelLemmas Puzzle.CreekProofs
     Puzzle.HeyawakeLemmas Puzzle.DivisionCompose Puzzle.DivisionPrimCompose
     Puzzle.Rules_nurikabe Puzzle.Nurikabe Puzzle.NurikabeProofs.
Import ListNotations.
Local Open Scope nat_scope.

(* Nurikabe.v::solve_nurikabe_model with config.use_graph_primitive on (last argument of division_connected) *)
Definition solve_nurikabe_model_prim (pb : problem) : res state :=
  let h := dim pb 0 in let w := dim pb 1 in let grid := sec pb 1 in
  if Nat.ltb (length grid) (h * w) then Err IndexError
  else
    let cl := nk_clue_cells h w grid in
    let K := length cl in
    match int_array empty_state (h * w) 0 (Z.of_nat K) with
    | Err e => Err e
    | Ok (st0, division) =>
        match division_connected st0 (D2 h w division) (S K) None (Some (RNone :: map nk_root cl)) true true with
        | Err e => Err e
        | Ok st1 =>
            Ok {| vars := vars st1 ++ repeat DBool (h * w);
                  keys := keys st1 ++ repeat true (h * w);
                  cons := cons st1 ++ nk_constraints h w grid cl (next_id st1) |}
        end
    end.

Theorem nurikabe_exact_prim h w grid st ans :
  solve_nurikabe_model_prim [[Z.of_nat h; Z.of_nat w]; grid] = Ok st ->
  ((exists en, model_of division_gsem en st /\ reads st en (key_ids st) = ans)
   <-> rules_nurikabe [[Z.of_nat h; Z.of_nat w]; grid] ans = true).
Proof.
  unfold solve_nurikabe_model_prim. destruct (dims2c h w [grid]) as [-> ->].
  change (sec [[Z.of_nat h; Z.of_nat w]; grid] 1) with grid.
  destruct (Nat.ltb (length grid) (h * w)); [discriminate|].
  set (cl := nk_clue_cells h w grid).
  destruct (int_array empty_state (h * w) 0 (Z.of_nat (length cl))) as [[st0 division]|e] eqn:Hdecl; [|discriminate].
  destruct (division_connected st0 (D2 h w division) (S (length cl)) None (Some (RNone :: map nk_root cl)) true true)
    as [st1|e] eqn:Hcall; [|discriminate].
  intros H. inversion H; subst st; clear H.
  rewrite nk_roots_args in Hcall.
  pose proof (division_grid_compose_prim h w (Z.of_nat (length cl)) (S (length cl)) _ true st0 division st1 Hdecl Hcall
                (nk_constraints h w grid cl (next_id st1)) (nk_local h w grid cl)
                (nk_constraints_sem h w grid cl (next_id st1)) (nk_local_ext h w grid cl) ans) as HC.
  unfold division_final_state in HC. rewrite HC. clear HC.
  rewrite rules_nurikabe_split.
  pose proof (nk_rules_iff_division h w grid ans) as HR.
  unfold nk_n, nk_g, nk_K, nk_roots, nk_cl, nk_wh in *. fold cl in HR.
  rewrite <- HR. rewrite !andb_true_iff, Nat.eqb_eq. tauto.
Qed.

(* the answer keys are the is_white variables, declared last: after the division grid and the K+1 indicator arrays *)
Lemma nurikabe_key_ids_prim h w grid st :
  solve_nurikabe_model_prim [[Z.of_nat h; Z.of_nat w]; grid] = Ok st ->
  key_ids st = seq ((length (nk_clue_cells h w grid) + 2) * (h * w)) (h * w).
Proof.
  unfold solve_nurikabe_model_prim. destruct (dims2c h w [grid]) as [-> ->].
  change (sec [[Z.of_nat h; Z.of_nat w]; grid] 1) with grid.
  destruct (Nat.ltb (length grid) (h * w)); [discriminate|].
  set (cl := nk_clue_cells h w grid).
  destruct (int_array empty_state (h * w) 0 (Z.of_nat (length cl))) as [[st0 division]|e] eqn:Hdecl; [|discriminate].
  destruct (division_connected st0 (D2 h w division) (S (length cl)) None (Some (RNone :: map nk_root cl)) true true)
    as [st1|e] eqn:Hcall; [|discriminate].
  intros H. inversion H; subst st; clear H.
  rewrite nk_roots_args in Hcall.
  pose proof (pcompose_keys h w _ _ _ true st0 division st1 Hdecl Hcall (nk_constraints h w grid cl (next_id st1))) as HK.
  unfold division_final_state in HK. rewrite HK.
  rewrite (pcompose_base h w _ _ _ true st0 division st1 Hdecl Hcall). f_equal. lia.
Qed.

(* the hypothesis of nurikabe_exact_prim is satisfiable; also on a board without cells (no ValueError on this route) *)
Example nurikabe_model_prim_ok :
  exists st, solve_nurikabe_model_prim [[2; 3]; [2; 0; 0; 0; 0; -1]]%Z = Ok st.
Proof. vm_compute. eexists. reflexivity. Qed.

Example nurikabe_model_prim_empty_board :
  exists st, solve_nurikabe_model_prim [[0; 2]; []]%Z = Ok st.
Proof. vm_compute. eexists. reflexivity. Qed.

(* the hypothesis of nurikabe_exact_prim holds exactly for the problems with a full clue list - boards without cells
   included (otherwise the Python raises IndexError for a missing / short row) *)
Theorem nurikabe_model_prim_defined h w grid :
  (exists st, solve_nurikabe_model_prim [[Z.of_nat h; Z.of_nat w]; grid] = Ok st) <-> (h * w <= length grid).
Proof.
  unfold solve_nurikabe_model_prim. destruct (dims2c h w [grid]) as [-> ->].
  change (sec [[Z.of_nat h; Z.of_nat w]; grid] 1) with grid.
  destruct (Nat.ltb_spec (length grid) (h * w)) as [Hl|Hl]; [split; [intros [st Hst]; discriminate|lia]|].
  set (cl := nk_clue_cells h w grid).
  unfold int_array. destruct (Z.ltb_spec (Z.of_nat (length cl)) 0); [lia|].
  rewrite DivisionEval.int_vars_spec. rewrite nk_roots_args, division_grid_roots.
  set (st0 := add_decls empty_state (repeat (DInt 0 (Z.of_nat (length cl))) (h * w))).
  set (data := map (fun i => IVar (next_id empty_state + i) 0 (Z.of_nat (length cl))) (seq 0 (h * w))).
  split; [intros _; exact Hl|]. intros _.
  destruct (post_division_prim_defined st0 (SArr data) (S (length cl)) (grid_graph h w)
              (map (grid_root_vertex w) (GNone :: map (fun c => GCell (Z.of_nat (fst c)) (Z.of_nat (snd c))) cl)) true)
    as [st1 Hst1].
  + simpl. unfold data. rewrite map_length, seq_length. reflexivity.
  + cbn [map]. constructor; [exact I|]. rewrite map_map. rewrite Forall_map. apply Forall_forall.
    intros c Hc. destruct (cl_in h w grid c Hc) as [Hy Hx]. simpl.
    pose proof (DivisionMain.grid_cell_lt h w (fst c) (snd c) Hy Hx). lia.
  + rewrite Hst1. eexists; reflexivity.
Qed.
