From Coq Require Import ZArith List Ascii Sorting.Permutation.
From Cspuz Require Import Lib.PyErr Codec.Comb Codec.CombWf Codec.CombBasics Codec.CombLeaf Codec.CombRoundTrip
  Codec.RoomsGrid Codec.RoomsFill Codec.RoomsProofs Codec.RoomsCanon Codec.RoomsTotal Codec.RoomsValued.
Import ListNotations.
Local Open Scope Z_scope.

(* every well-formed composition of FixStr/Dict/Spaces/DecInt/HexInt/IntSpaces/MultiDigit/OneOf/Tupl/Seq/Grid,
   every value it serializes (in its documented shape), every board size >= 1, every follow-compatible rest *)
Theorem roundtrip : forall e c data idx k s rest,
  env_ok e -> wf c = true -> rooms_free c = true ->
  ser e c (VList data) idx = Ok (Some (k, s)) -> accepts e c data idx -> follow_ok c rest ->
  exists items, de e c (s ++ rest) = Ok (Some (length s, items))
    /\ firstn k items = firstn k (skipn idx data) /\ (k <= length items)%nat
    /\ (exact e c data idx -> length items = k).
Proof. intros e c data idx k s rest He Hwf Hrf. exact (roundtrip_rooms_free e c He Hwf Hrf data idx k s rest). Qed.
Print Assumptions roundtrip.

Theorem problem_roundtrip : forall c v h w s, 1 <= h -> 1 <= w -> wf c = true -> rooms_free c = true ->
  accepts (mk_env h w) c [v] 0 -> exact (mk_env h w) c [v] 0 -> consumed_all (mk_env h w) c [v] ->
  serialize_problem c v h w = Ok s -> deserialize_problem c s h w = Ok (Some v).
Proof. exact CombRoundTrip.problem_roundtrip. Qed.
Print Assumptions problem_roundtrip.

(* all well-formed terms, Rooms and ValuedRooms included: room partitions in canonical order
   (rooms by least cell, cells row-major; CombWf.accepts) come back unchanged, values attached *)
Theorem roundtrip_with_rooms : forall e c, env_ok e -> wf c = true -> RT e c.
Proof. exact roundtrip_all. Qed.
Print Assumptions roundtrip_with_rooms.

(* the decoder on the border bitmaps of a canonical partition rebuilds exactly that partition *)
Theorem decode_borders_canonical : forall H W rs allow, canonical_rooms (Z.of_nat H) (Z.of_nat W) rs ->
  rooms_of_borders (Z.of_nat H) (Z.of_nat W) allow (vg H W (rid_of rs)) (hg H W (rid_of rs)) = Ok (rooms_to_pv rs).
Proof. intros H W rs allow (Hv & Hc & Hh). exact (RoomsProofs.decode_borders_canonical H W rs Hv Hc Hh allow). Qed.
Print Assumptions decode_borders_canonical.

(* rooms and cells listed in ANY order: the text decodes to every canonical arrangement rs' of the same partition
   (rooms as sets of cells) - i.e. the value is recovered up to the canonical ordering of rooms and cells *)
Theorem rooms_roundtrip_any_order : forall h w skip allow rs rs' s, 1 <= h -> 1 <= w ->
  valid_rooms h w rs -> canonical_rooms h w rs' -> rooms_equiv rs rs' ->
  serialize_problem (Rooms skip allow) (rooms_to_pv rs) h w = Ok s ->
  deserialize_problem (Rooms skip allow) s h w = Ok (Some (rooms_to_pv rs')).
Proof. exact RoomsProofs.rooms_roundtrip_any_order. Qed.
Print Assumptions rooms_roundtrip_any_order.

(* Rooms, full statement (existence included): EVERY partition of the h x w board into non-empty connected
   rooms, listed in any order of rooms and of cells, serializes (never None, never an error), and the text
   decodes to a canonical listing rs' of the same partition (rooms_equiv: same rooms as sets of cells) *)
Theorem rooms_roundtrip_any_partition : forall h w skip allow rs, 1 <= h -> 1 <= w -> valid_rooms h w rs ->
  exists s rs', serialize_problem (Rooms skip allow) (rooms_to_pv rs) h w = Ok s /\
    canonical_rooms h w rs' /\ rooms_equiv rs rs' /\
    deserialize_problem (Rooms skip allow) s h w = Ok (Some (rooms_to_pv rs')).
Proof. exact rooms_roundtrip_proof. Qed.
Print Assumptions rooms_roundtrip_any_partition.

(* the totality half alone, at the combinator level and for every environment *)
Theorem rooms_serialize_total : forall e skip rs, env_ok e -> valid_rooms (height e) (width e) rs ->
  exists s, rooms_ser e skip (VList [rooms_to_pv rs]) 0 = Ok (Some (1%nat, s)).
Proof. exact rooms_ser_total. Qed.
Print Assumptions rooms_serialize_total.

(* ValuedRooms with the rooms (and the cells inside rooms) listed in ANY order: serialize sorts the
   (room, value) pairs by min(room); the decoder returns the canonical listing rs' and the values in the
   order of rs' - ps is the permutation of zip(rooms, values) that pairs every decoded room (a permutation of
   the cells of the given room) with the value given for it.  Any well-formed value combinator. *)
Theorem valued_rooms_roundtrip_any_order :
  forall h w vc skip allow rs vs, 1 <= h -> 1 <= w -> wf (ValuedRooms vc skip allow) = true ->
  valid_rooms h w rs -> length vs = length rs ->
  forall s, serialize_problem (ValuedRooms vc skip allow) (VTup [rooms_to_pv rs; VList vs]) h w = Ok s ->
  (forall vs', Permutation vs' vs -> forall p, accepts (mk_env h w) vc vs' p) ->
  exists ps rs', Permutation ps (combine rs vs) /\ Forall2 (fun p r' => Permutation (fst p) r') ps rs' /\
    canonical_rooms h w rs' /\
    deserialize_problem (ValuedRooms vc skip allow) s h w
    = Ok (Some (VTup [rooms_to_pv rs'; VList (map snd ps)])).
Proof. exact RoomsValued.valued_rooms_roundtrip_any_order. Qed.
Print Assumptions valued_rooms_roundtrip_any_order.

(* the two statements CombRoundTrip.v left open (premises of C16's *_given_rooms theorems) hold *)
Theorem rooms_statements_hold : rooms_roundtrip_statement /\ valued_rooms_roundtrip_statement.
Proof. exact (conj rooms_roundtrip_proof valued_rooms_roundtrip_proof). Qed.
Print Assumptions rooms_statements_hold.

(* Rooms.serialize computes the room-index grid of any valid partition (rooms in any order) *)
Theorem rooms_assign_correct : forall H W rs, valid_rooms (Z.of_nat H) (Z.of_nat W) rs ->
  rooms_assign (Z.of_nat H) (Z.of_nat W) (neg_grid (Z.of_nat H) (Z.of_nat W)) 0 (map room_to_pv rs)
  = Ok (mk_grid H W (fun y x => rid_of rs (y, x))).
Proof. exact assign_correct. Qed.
Print Assumptions rooms_assign_correct.

(* leading characters: what serialization emits starts in the first set; a strict term decodes nothing else *)
Theorem first_of_ser : forall e c, env_ok e -> wf c = true -> rooms_free c = true -> FS e c.
Proof. exact CombRoundTrip.first_of_ser. Qed.
Print Assumptions first_of_ser.

Theorem de_none_outside_first : forall e c, env_ok e -> wf c = true -> rooms_free c = true -> FD e c.
Proof. exact CombRoundTrip.de_none_outside_first. Qed.
Print Assumptions de_none_outside_first.

(* per-combinator round trips *)
Theorem fixstr_roundtrip : forall e t, RT e (FixStr t).
Proof. exact fixstr_rt. Qed.
Print Assumptions fixstr_roundtrip.

Theorem dict_roundtrip : forall e before after, wf (Dict before after) = true -> RT e (Dict before after).
Proof. exact dict_rt. Qed.
Print Assumptions dict_roundtrip.

Theorem spaces_roundtrip : forall e sp sm, wf (Spaces sp sm) = true -> RT e (Spaces sp sm).
Proof. exact spaces_rt. Qed.
Print Assumptions spaces_roundtrip.

Theorem decint_roundtrip : forall e, RT e DecInt.
Proof. exact decint_rt. Qed.
Print Assumptions decint_roundtrip.

Theorem hexint_roundtrip : forall e, RT e HexInt.
Proof. exact hexint_rt. Qed.
Print Assumptions hexint_roundtrip.

Theorem intspaces_roundtrip : forall e sp mi ms, wf (IntSpaces sp mi ms) = true -> RT e (IntSpaces sp mi ms).
Proof. exact intspaces_rt. Qed.
Print Assumptions intspaces_roundtrip.

Theorem multidigit_roundtrip : forall e b d, wf (MultiDigit b d) = true -> RT e (MultiDigit b d).
Proof. exact md_rt. Qed.
Print Assumptions multidigit_roundtrip.

(* int(str(n)) = n, int(hex digits of n, 16) = n, base 36 likewise *)
Theorem int_of_digits : forall b n, 2 <= b <= 36 -> 0 <= n -> py_int (to_base b n) b = Ok n.
Proof. exact py_int_to_base. Qed.
Print Assumptions int_of_digits.
