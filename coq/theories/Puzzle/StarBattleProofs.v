(* C11 Tier 1 - star battle: for every n, k and region layout, the program posted
   by solve_star_battle (model StarBattle.v) admits exactly the grids obeying
   Rules_star_battle. *)
From Coq Require Import ZArith List Bool Arith Lia.
From Cspuz Require Import Lib.PyErr Core.Expr Core.Program Puzzle.PuzzleBase Puzzle.SatAbs
     Puzzle.ModelBase Puzzle.ModelLemmas Puzzle.Rules_norinori Puzzle.Norinori Puzzle.Putteria
     Puzzle.PutteriaProofs Puzzle.Rules_star_battle Puzzle.StarBattle.
Import ListNotations.
Local Open Scope nat_scope.

Lemma eval_py_sum_go en ids : forall acc a,
  eval no_graph en acc = Some (VI a) ->
  eval no_graph en (fold_left (fun acc i => INode ADD [acc; INode IF [BVar i; PyInt 1; PyInt 0]]) ids acc) =
  Some (VI (a + Z.of_nat (count (eb en) ids))%Z).
Proof.
  induction ids as [|i r IH]; intros acc a Ha; simpl fold_left.
  - unfold count. simpl. rewrite Z.add_0_r. exact Ha.
  - rewrite (IH _ (a + (if eb en i then 1 else 0))%Z).
    + f_equal. f_equal. unfold count. simpl. destruct (eb en i); simpl length.
      * rewrite Nat2Z.inj_succ. lia.
      * lia.
    + cbn [eval map]. rewrite Ha. destruct (eb en i); unfold eval_iop; simpl; f_equal; f_equal; lia.
Qed.

Lemma holds_py_sum_eq en ids k :
  holds no_graph en (BNode EQ [py_sum_vars ids; PyInt k]) = (Z.of_nat (count (eb en) ids) =? k)%Z.
Proof.
  unfold holds, py_sum_vars. cbn [eval map].
  rewrite (eval_py_sum_go en ids (PyInt 0) 0%Z eq_refl). simpl.
  destruct (Z.of_nat (count (eb en) ids) =? k)%Z; reflexivity.
Qed.

(* "a marked cell has no marked cell among its (up to 8) neighbours" = the four
   families of pairs: vertical, horizontal and the two diagonals *)
Lemma king_equiv n (f : nat * nat -> bool) :
  forallb (fun '(y, x) => negb (f (y, x)) ||
     forallb (fun '(y', x') =>
        (Nat.eqb y y' && Nat.eqb x x') || Nat.ltb 1 (y - y' + (y' - y)) || Nat.ltb 1 (x - x' + (x' - x)) ||
        negb (f (y', x'))) (cells n n)) (cells n n) =
  forallb (fun '(y, x) => negb (f (y, x) && f (S y, x))) (cells (n - 1) n) &&
  (forallb (fun '(y, x) => negb (f (y, x) && f (y, S x))) (cells n (n - 1)) &&
   (forallb (fun '(y, x) => negb (f (y, x) && f (S y, S x))) (cells (n - 1) (n - 1)) &&
    forallb (fun '(y, x) => negb (f (y, S x) && f (S y, x))) (cells (n - 1) (n - 1)))).
Proof.
  apply eq_true_iff_eq. rewrite !andb_true_iff, !forallb_forall. split.
  - intros H.
    assert (Hpair : forall y x y' x', y < n -> x < n -> y' < n -> x' < n ->
              (y <> y' \/ x <> x') -> y - y' + (y' - y) <= 1 -> x - x' + (x' - x) <= 1 ->
              negb (f (y, x) && f (y', x')) = true).
    { intros y x y' x' Hy Hx Hy' Hx' Hne Hdy Hdx.
      assert (Hc : In (y, x) (cells n n)) by (apply cells_in; lia).
      specialize (H _ Hc). simpl in H.
      destruct (f (y, x)) eqn:E; [|reflexivity]. simpl in H. rewrite forallb_forall in H.
      assert (Hc' : In (y', x') (cells n n)) by (apply cells_in; lia).
      specialize (H _ Hc'). simpl in H.
      replace (Nat.eqb y y' && Nat.eqb x x') with false in H
        by (symmetry; apply andb_false_iff; destruct Hne; [left|right]; apply Nat.eqb_neq; assumption).
      replace (Nat.ltb 1 (y - y' + (y' - y))) with false in H by (symmetry; apply Nat.ltb_ge; lia).
      replace (Nat.ltb 1 (x - x' + (x' - x))) with false in H by (symmetry; apply Nat.ltb_ge; lia).
      simpl in H. simpl. exact H. }
    repeat split; intros [y x] Hc; apply cells_in in Hc; destruct Hc as [Hy Hx]; apply Hpair; lia.
  - intros [HV [HH [HD1 HD2]]] [y x] Hc. apply cells_in in Hc. destruct Hc as [Hy Hx].
    destruct (f (y, x)) eqn:E; [|reflexivity]. simpl.
    apply forallb_forall. intros [y' x'] Hc'. apply cells_in in Hc'. destruct Hc' as [Hy' Hx'].
    destruct (Nat.eqb y y' && Nat.eqb x x') eqn:Eq; [reflexivity|]. simpl.
    destruct (Nat.ltb 1 (y - y' + (y' - y))) eqn:Ey; [reflexivity|]. simpl.
    destruct (Nat.ltb 1 (x - x' + (x' - x))) eqn:Ex; [reflexivity|]. simpl.
    apply Nat.ltb_ge in Ey. apply Nat.ltb_ge in Ex.
    apply andb_false_iff in Eq.
    assert (Hne : y <> y' \/ x <> x') by (destruct Eq as [Eq|Eq]; apply Nat.eqb_neq in Eq; auto).
    destruct (f (y', x')) eqn:E'; [|reflexivity]. exfalso.
    assert (Cy : y' = y \/ y' = S y \/ y = S y') by lia.
    assert (Cx : x' = x \/ x' = S x \/ x = S x') by lia.
    destruct Cy as [Cy|[Cy|Cy]]; destruct Cx as [Cx|[Cx|Cx]]; subst.
    + lia.
    + assert (Hc : In (y, x) (cells n (n - 1))) by (apply cells_in; lia).
      specialize (HH _ Hc). simpl in HH. rewrite E, E' in HH. discriminate.
    + assert (Hc : In (y, x') (cells n (n - 1))) by (apply cells_in; lia).
      specialize (HH _ Hc). simpl in HH. rewrite E, E' in HH. discriminate.
    + assert (Hc : In (y, x) (cells (n - 1) n)) by (apply cells_in; lia).
      specialize (HV _ Hc). simpl in HV. rewrite E, E' in HV. discriminate.
    + assert (Hc : In (y, x) (cells (n - 1) (n - 1))) by (apply cells_in; lia).
      specialize (HD1 _ Hc). simpl in HD1. rewrite E, E' in HD1. discriminate.
    + assert (Hc : In (y, x') (cells (n - 1) (n - 1))) by (apply cells_in; lia).
      specialize (HD2 _ Hc). simpl in HD2. rewrite E, E' in HD2. discriminate.
    + assert (Hc : In (y', x) (cells (n - 1) n)) by (apply cells_in; lia).
      specialize (HV _ Hc). simpl in HV. rewrite E, E' in HV. discriminate.
    + assert (Hc : In (y', x) (cells (n - 1) (n - 1))) by (apply cells_in; lia).
      specialize (HD2 _ Hc). simpl in HD2. rewrite E, E' in HD2. discriminate.
    + assert (Hc : In (y', x') (cells (n - 1) (n - 1))) by (apply cells_in; lia).
      specialize (HD1 _ Hc). simpl in HD1. rewrite E, E' in HD1. discriminate.
Qed.

Lemma star_battle_core n k region en :
  (0 <= k)%Z ->
  rules_star_battle [[Z.of_nat n; k]; region] (map (fun i => b2z (eb en i)) (seq 0 (n * n))) =
  satisfies no_graph en (bool_grid_state (n * n) (star_battle_constraints n k region)).
Proof.
  intros Hk. unfold rules_star_battle.
  replace (dim [[Z.of_nat n; k]; region] 0) with n by (unfold dim, zn, getz, sec; simpl; rewrite Nat2Z.id; reflexivity).
  replace (dim [[Z.of_nat n; k]; region] 1) with (Z.to_nat k) by reflexivity.
  change (sec [[Z.of_nat n; k]; region] 1) with region.
  set (ans := map (fun i => b2z (eb en i)) (seq 0 (n * n))).
  set (f := fun c : nat * nat => eb en (cidx n c)).
  assert (Hhas : forall y x, y < n -> x < n -> isb (at2 ans n y x) = f (y, x)).
  { intros y x Hy Hx. unfold at2, ans, f. rewrite getz_map_seq by (apply (cidx_lt n n y x); assumption).
    apply b2z_isb. }
  assert (Hkk : forall c, Nat.eqb c (Z.to_nat k) = (Z.of_nat c =? k)%Z).
  { intros c. rewrite <- (Z2Nat.id k Hk) at 2. symmetry. apply znat_eqb. }
  replace (Nat.eqb (length ans) (n * n)) with true
    by (unfold ans; rewrite map_length, seq_length; symmetry; apply Nat.eqb_refl).
  replace (forallb is01 ans) with true
    by (unfold ans; rewrite forallb_map; symmetry; apply forallb_forall; intros; apply is01_b2z).
  cbn [andb].
  (* adjacency with f *)
  replace (forallb (fun '(y, x) => negb (isb (at2 ans n y x)) ||
             forallb (fun '(y', x') =>
                (Nat.eqb y y' && Nat.eqb x x') || Nat.ltb 1 (y - y' + (y' - y)) || Nat.ltb 1 (x - x' + (x' - x)) ||
                negb (isb (at2 ans n y' x'))) (cells n n)) (cells n n))
    with (forallb (fun '(y, x) => negb (f (y, x)) ||
             forallb (fun '(y', x') =>
                (Nat.eqb y y' && Nat.eqb x x') || Nat.ltb 1 (y - y' + (y' - y)) || Nat.ltb 1 (x - x' + (x' - x)) ||
                negb (f (y', x'))) (cells n n)) (cells n n)).
  2:{ apply forallb_ext_in. intros [y x] Hc. apply cells_in in Hc. destruct Hc as [Hy Hx].
      rewrite (Hhas y x Hy Hx). f_equal.
      apply forallb_ext_in. intros [y' x'] Hc'. apply cells_in in Hc'. destruct Hc' as [Hy' Hx'].
      rewrite (Hhas y' x' Hy' Hx'). reflexivity. }
  rewrite king_equiv.
  unfold satisfies, bool_grid_state, star_battle_constraints. cbn [Program.cons].
  rewrite !forallb_app, !forallb_map, forallb_flat_map.
  (* rows, columns and regions *)
  set (RC := forallb _ (seq 0 n)).
  set (V := forallb _ (cells (n - 1) n)). set (H := forallb _ (cells n (n - 1))).
  set (D1 := forallb _ (cells (n - 1) (n - 1))). set (D2 := forallb _ (cells (n - 1) (n - 1))).
  set (RC' := forallb _ (seq 0 n)).
  set (V' := forallb _ (cells (n - 1) n)). set (H' := forallb _ (cells n (n - 1))).
  set (D1' := forallb _ (cells (n - 1) (n - 1))). set (D2' := forallb _ (cells (n - 1) (n - 1))).
  set (G' := forallb _ (seq 0 n)).
  assert (EV : V' = V) by (apply forallb_ext; intros [y x]; rewrite holds_nand; reflexivity).
  assert (EH : H' = H) by (apply forallb_ext; intros [y x]; rewrite holds_nand; reflexivity).
  assert (ED1 : D1' = D1) by (apply forallb_ext; intros [y x]; rewrite holds_nand; reflexivity).
  assert (ED2 : D2' = D2) by (apply forallb_ext; intros [y x]; rewrite holds_nand; reflexivity).
  assert (ERC : RC = RC' && G').
  { unfold RC, RC', G'. rewrite <- forallb_and. apply forallb_ext_in. intros i Hi. apply in_seq in Hi.
    cbn [forallb]. rewrite !holds_py_sum_eq, holds_ct_eq, andb_true_r, !Hkk.
    rewrite !count_map. unfold region_cells. rewrite count_filter.
    rewrite (count_ext_in (fun x => isb (at2 ans n i x)) (fun x => eb en (cidx n (i, x))))
      by (intros x Hx; apply in_seq in Hx; apply Hhas; lia).
    rewrite (count_ext_in (fun y => isb (at2 ans n y i)) (fun y => eb en (cidx n (y, i))))
      by (intros y Hy; apply in_seq in Hy; apply Hhas; lia).
    rewrite (count_ext_in (fun '(y, x) => (at2 region n y x =? Z.of_nat i)%Z && isb (at2 ans n y x))
                          (fun x => (let '(y, x0) := x in (at2 region n y x0 =? Z.of_nat i)%Z) && eb en (cidx n x))).
    2:{ intros [y x] Hc. apply cells_in in Hc. destruct Hc as [Hy Hx]. rewrite (Hhas y x Hy Hx). reflexivity. }
    reflexivity. }
  rewrite ERC, EV, EH, ED1, ED2.
  destruct RC', G', V, H, D1, D2; reflexivity.
Qed.

Theorem star_battle_exact n k region st ans :
  (0 <= k)%Z ->
  solve_star_battle_model [[Z.of_nat n; k]; region] = Ok st ->
  ((exists en, model_of no_graph en st /\ reads st en (seq 0 (n * n)) = ans)
   <-> rules_star_battle [[Z.of_nat n; k]; region] ans = true).
Proof.
  intros Hk. unfold solve_star_battle_model.
  replace (dim [[Z.of_nat n; k]; region] 0) with n by (unfold dim, zn, getz, sec; simpl; rewrite Nat2Z.id; reflexivity).
  change (sec [[Z.of_nat n; k]; region] 1) with region.
  change (getz (sec [[Z.of_nat n; k]; region] 0) 1) with k.
  intros H. inversion H; subst st; clear H.
  apply bool_grid_exact.
  - intros en. apply star_battle_core. assumption.
  - intros a Ha. unfold rules_star_battle in Ha.
    replace (dim [[Z.of_nat n; k]; region] 0) with n in Ha by (unfold dim, zn, getz, sec; simpl; rewrite Nat2Z.id; reflexivity).
    repeat (apply andb_true_iff in Ha; destruct Ha as [Ha ?]).
    apply Nat.eqb_eq in Ha. split; assumption.
Qed.
