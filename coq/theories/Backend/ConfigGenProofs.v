(* C20 — the statements of Backend/ConfigProofs.v for the tables generated from /repo's current
   source (Gen/ConfigTables.v, written by harness/c20_translate.py on every run).
   - configuration / dispatch part: the generated tables must BE the prescribed ones
     ([tables_cfg_eq], by computation); the statements are transferred.
   - graph part: every decision-table statement is proved about the generated decision
     structure itself, by kernel computation over all flag / argument combinations.
   An edited name chain / detection order / default tuple / spelling list / entry point / decision
   site / forwarding call in the Python source changes [ConfigTables.tables] and with it what has
   to be proved here. *)
From Coq Require Import String List Bool.
From Cspuz Require Import Lib.PyErr Backend.Config Backend.ConfigProofs Gen.ConfigTables.
Import ListNotations.
Local Open Scope string_scope.

Lemma tables_cfg_eq :
  tables = with_graph (t_sites tables) (t_calls tables) (t_emits tables) (t_raises tables).
Proof. vm_compute. reflexivity. Qed.

Lemma transfer (P : Config.tables -> Prop) :
  (forall gs gc ge gr, P (with_graph gs gc ge gr)) -> P tables.
Proof. intros H. rewrite tables_cfg_eq. apply H. Qed.

Definition detect_order_G := transfer _ detect_order_E.
Definition strtobool_strict_G := transfer _ strtobool_strict_E.
Definition config_of_env_G := transfer _ config_of_env_E.
Definition config_no_env_G := transfer _ config_no_env_E.
Definition default_backend_env_G := transfer _ default_backend_env_E.
Definition primitive_default_G := transfer _ primitive_default_E.
Definition env_override_strict_G := transfer _ env_override_strict_E.
Definition unknown_backend_rejected_G := transfer _ unknown_backend_rejected_E.
Definition call_argument_wins_G := transfer _ call_argument_wins_E.
Definition solve_receiver_G := transfer _ solve_receiver_E.
Definition auto_detected_importable_G := transfer _ auto_detected_importable_E.

(* ---- graph part, about the generated decision structure ---- *)

Lemma primitive_decision_G : primitive_decision_stmt tables.
Proof.
  intros [db bp p d] arg acyclic explicit dd. cbv zeta.
  simpl use_graph_primitive; simpl use_graph_division_primitive.
  destruct p, d, arg as [[|]|], acyclic, explicit, dd; vm_compute; repeat split.
Qed.

Definition acy_ok (c : callrec) : bool :=
  match c_acy c with AcyConst true => false | _ => true end.

Lemma acyclic_never_primitive_G : acyclic_never_primitive_stmt tables.
Proof.
  intros [db bp p d] arg explicit dd. repeat split.
  - destruct p, arg as [[|]|], explicit, dd; vm_compute; reflexivity.
  - destruct p, arg as [[|]|], explicit, dd; vm_compute; reflexivity.
  - destruct p, arg as [[|]|]; vm_compute; reflexivity.
  - assert (H : forallb acy_ok (t_calls tables) = true) by (vm_compute; reflexivity).
    rewrite forallb_forall in H. intros c Hc. specialize (H c Hc). unfold acy_ok in H.
    destruct (c_acy c) as [|[|]]; auto; discriminate.
Qed.

Lemma site_decisions_G : site_decisions_stmt tables.
Proof.
  intros [db bp p d] arg acyclic. repeat split; destruct arg as [[|]|], acyclic, p, d; vm_compute; reflexivity.
Qed.
