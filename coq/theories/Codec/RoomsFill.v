(* The Rooms decoder's flood fill reconstructs the room-index grid from the two border bitmaps. *)
From Coq Require Import ZArith List Ascii Bool NArith Lia Sorting.Sorted.
From Cspuz Require Import Lib.PyErr Codec.Comb Codec.CombWf Codec.RoomsGrid.
Import ListNotations.
Local Open Scope Z_scope.

(* ------------------------------------------------------------------ order of cells *)
Lemma cell_ltb_trans a b c : cell_lt a b -> cell_lt b c -> cell_lt a c.
Proof.
  unfold cell_lt, cell_ltb. intros H1 H2.
  apply orb_true_iff in H1. apply orb_true_iff in H2. apply orb_true_iff.
  rewrite !andb_true_iff, !Nat.ltb_lt, !Nat.eqb_eq in *. lia.
Qed.

Lemma cell_lt_irrefl a : ~ cell_lt a a.
Proof.
  unfold cell_lt, cell_ltb. intros H. apply orb_true_iff in H.
  rewrite !andb_true_iff, !Nat.ltb_lt, !Nat.eqb_eq in *. lia.
Qed.

Lemma cell_lt_spec a b : cell_lt a b <-> (fst a < fst b)%nat \/ (fst a = fst b /\ (snd a < snd b)%nat).
Proof.
  unfold cell_lt, cell_ltb. rewrite orb_true_iff, andb_true_iff, !Nat.ltb_lt, Nat.eqb_eq. reflexivity.
Qed.

Lemma cell_trichotomy (a b : cell) : cell_lt a b \/ a = b \/ cell_lt b a.
Proof.
  rewrite !cell_lt_spec. destruct a as [ay ax], b as [by_ bx]. simpl.
  destruct (Nat.lt_trichotomy ay by_) as [?|[?|?]]; try lia.
  destruct (Nat.lt_trichotomy ax bx) as [?|[?|?]]; try lia.
  right; left. f_equal; lia.
Qed.

Lemma StronglySorted_app {A} (R : A -> A -> Prop) l1 l2 :
  StronglySorted R l1 -> StronglySorted R l2 -> (forall a b, In a l1 -> In b l2 -> R a b) ->
  StronglySorted R (l1 ++ l2).
Proof.
  induction l1 as [|x l1 IH]; simpl; intros H1 H2 H12; auto.
  inversion H1; subst. constructor.
  - apply IH; auto.
  - apply Forall_app. split; auto. rewrite Forall_forall. intros b Hb. apply H12; auto.
Qed.

Lemma row_sorted y : forall s n, StronglySorted cell_lt (map (fun x => (y, x)) (seq s n)).
Proof.
  intros s n; revert s; induction n; intros s; simpl; constructor; auto.
  rewrite Forall_forall. intros c Hc. apply in_map_iff in Hc as (x & E & Hx). subst. apply in_seq in Hx.
  apply cell_lt_spec. simpl. lia.
Qed.

Lemma cells_sorted_gen W : forall n s,
  StronglySorted cell_lt (flat_map (fun y => map (fun x => (y, x)) (seq 0 W)) (seq s n)).
Proof.
  induction n; intros s; simpl; [constructor|].
  apply StronglySorted_app; auto using row_sorted.
  intros a b Ha Hb. apply in_map_iff in Ha as (x & E & Hx). subst.
  apply in_flat_map in Hb as (y' & Hy' & Hb). apply in_map_iff in Hb as (x' & E & Hx'). subst.
  apply in_seq in Hy'. apply cell_lt_spec. simpl. lia.
Qed.

Lemma cells_of_sorted H W : StronglySorted cell_lt (cells_of (Z.of_nat H) (Z.of_nat W)).
Proof. unfold cells_of. rewrite !Nat2Z.id. apply cells_sorted_gen. Qed.

Lemma sorted_nodup l : StronglySorted cell_lt l -> NoDup l.
Proof.
  induction 1 as [|a l Hs IH Hf]; constructor; auto.
  intros Hin. rewrite Forall_forall in Hf. apply (cell_lt_irrefl a). auto.
Qed.

(* ------------------------------------------------------------------ counting *)
Lemma filter_count_drop {A} (P P' : A -> bool) (a : A) l :
  NoDup l -> In a l -> P a = true -> P' a = false -> (forall b, b <> a -> P' b = P b) ->
  (length (filter P' l) + 1 = length (filter P l))%nat.
Proof.
  induction l as [|x l IH]; intros Hnd Hin Hpa Hpa' Hoth; [contradiction|].
  inversion Hnd as [|? ? Hnotin Hnd']; subst. simpl. destruct Hin as [E|Hin].
  - subst x. rewrite Hpa, Hpa'. simpl.
    assert (E : filter P' l = filter P l).
    { apply filter_ext_in. intros b Hb. apply Hoth. intros E. subst. contradiction. }
    rewrite E. lia.
  - assert (x <> a) by (intros E; subst; contradiction).
    rewrite (Hoth x H). destruct (P x); simpl; rewrite <- (IH Hnd' Hin Hpa Hpa' Hoth); lia.
Qed.

(* ------------------------------------------------------------------ one direction of the fill *)
Definition dir_push (cond : bool) (flag : Z) (nb : nat * nat) (st : list (nat * nat)) : list (nat * nat) :=
  if cond then (if flag =? 0 then nb :: st else st) else st.

Lemma dir_push_eq (cond : bool) g yy xx flag nb st :
  (cond = true -> grid_get g yy xx = Ok flag) ->
  (if cond then match grid_get g yy xx with
                | Err e => Err e
                | Ok b => Ok (if b =? 0 then nb :: st else st)
                end
   else Ok st) = Ok (dir_push cond flag nb st).
Proof.
  intros Hg. unfold dir_push. destruct cond; auto. rewrite (Hg eq_refl). reflexivity.
Qed.

Lemma dir_push_length cond flag nb st : (length (dir_push cond flag nb st) <= S (length st))%nat.
Proof. unfold dir_push. destruct cond; [destruct (flag =? 0)|]; simpl; lia. Qed.

Lemma dir_push_incl cond flag nb st c : In c st -> In c (dir_push cond flag nb st).
Proof. unfold dir_push. destruct cond; [destruct (flag =? 0)|]; simpl; auto. Qed.

Lemma dir_push_in cond flag nb st c : In c (dir_push cond flag nb st) ->
  In c st \/ (cond = true /\ flag = 0 /\ c = nb).
Proof.
  unfold dir_push. destruct cond; auto. destruct (Z.eqb_spec flag 0); auto.
  simpl. intros [E|Hin]; auto.
Qed.

Lemma dir_push_new cond flag nb st : cond = true -> flag = 0 -> In nb (dir_push cond flag nb st).
Proof. intros -> ->. simpl. auto. Qed.

(* ------------------------------------------------------------------ the fill, relative to a room-index function *)
Section Fill.
  Variables (H W : nat).
  Variable rid : cell -> Z.
  Variable n : nat.

  Definition inb (c : cell) : Prop := (fst c < H)%nat /\ (snd c < W)%nat.
  Definition cells : list cell := cells_of (Z.of_nat H) (Z.of_nat W).

  Lemma cells_inb c : In c cells <-> inb c.
  Proof. destruct c as [y x]. unfold cells, inb. apply cells_of_in. Qed.

  (* paths inside one room *)
  Inductive path : cell -> cell -> Prop :=
    | path_refl a : inb a -> path a a
    | path_step a b c : path a b -> inb c -> adjacent b c -> rid c = rid b -> path a c.

  Hypothesis rid_range : forall c, inb c -> 0 <= rid c < Z.of_nat n.
  Hypothesis rooms_connected : forall a b, inb a -> inb b -> rid a = rid b -> path a b.

  Definition vflag (y x : nat) : Z := if rid (y, x) =? rid (y, (x + 1)%nat) then 0 else 1.
  Definition hflag (y x : nat) : Z := if rid (y, x) =? rid ((y + 1)%nat, x) then 0 else 1.
  Definition vg : list (list Z) := mk_grid H (W - 1) vflag.
  Definition hg : list (list Z) := mk_grid (H - 1) W hflag.

  Definition getc (g : list (list Z)) (c : cell) : res Z := grid_get g (fst c) (snd c).
  Definition unassigned (g : list (list Z)) (c : cell) : bool :=
    match getc g c with Ok v => v =? -1 | Err _ => false end.
  Definition U (g : list (list Z)) : nat := length (filter (unassigned g) cells).

  Lemma U_set g c k : wfg H W g -> inb c -> getc g c = Ok (-1) -> k <> -1 ->
    (U (grid_set g (fst c) (snd c) k) + 1 = U g)%nat.
  Proof.
    intros Hw Hc Hg Hk. unfold U. apply filter_count_drop with (a := c).
    - apply sorted_nodup. apply cells_of_sorted.
    - apply cells_inb; auto.
    - unfold unassigned. rewrite Hg. reflexivity.
    - unfold unassigned, getc. destruct Hc. rewrite (grid_get_set_same H W) by auto.
      apply Z.eqb_neq. auto.
    - intros b Hb. unfold unassigned, getc. rewrite grid_get_set_other; auto.
      intros E. apply Hb. destruct b as [b1 b2], c as [c1 c2]. simpl in E. congruence.
  Qed.

  (* the stack after visiting (y, x) *)
  Definition pushes (y x : nat) (st : list cell) : list cell :=
    dir_push (Z.of_nat x <? Z.of_nat W - 1) (vflag y x) (y, (x + 1)%nat)
      (dir_push (0 <? Z.of_nat x) (vflag y (x - 1)) (y, (x - 1)%nat)
         (dir_push (Z.of_nat y <? Z.of_nat H - 1) (hflag y x) ((y + 1)%nat, x)
            (dir_push (0 <? Z.of_nat y) (hflag (y - 1) x) ((y - 1)%nat, x) st))).

  Lemma fill_loop_unfold f g y x st id : inb (y, x) ->
    fill_loop (S f) (Z.of_nat H) (Z.of_nat W) vg hg g ((y, x) :: st) id =
    match grid_get g y x with
    | Err e => Err e
    | Ok v => if negb (v =? -1) then fill_loop f (Z.of_nat H) (Z.of_nat W) vg hg g st id
              else fill_loop f (Z.of_nat H) (Z.of_nat W) vg hg (grid_set g y x id) (pushes y x st) id
    end.
  Proof.
    intros [Hy Hx]. simpl in Hy, Hx. cbn [fill_loop]. destruct (grid_get g y x) as [v|]; auto.
    destruct (negb (v =? -1)); auto.
    rewrite (dir_push_eq (0 <? Z.of_nat y) hg (y - 1) x (hflag (y - 1) x)).
    2:{ intros Hc. apply Z.ltb_lt in Hc. unfold hg. apply mk_grid_get; lia. }
    rewrite (dir_push_eq (Z.of_nat y <? Z.of_nat H - 1) hg y x (hflag y x)).
    2:{ intros Hc. apply Z.ltb_lt in Hc. unfold hg. apply mk_grid_get; lia. }
    rewrite (dir_push_eq (0 <? Z.of_nat x) vg y (x - 1) (vflag y (x - 1))).
    2:{ intros Hc. apply Z.ltb_lt in Hc. unfold vg. apply mk_grid_get; lia. }
    rewrite (dir_push_eq (Z.of_nat x <? Z.of_nat W - 1) vg y x (vflag y x)).
    2:{ intros Hc. apply Z.ltb_lt in Hc. unfold vg. apply mk_grid_get; lia. }
    reflexivity.
  Qed.

  Lemma flag0 a b : (if rid a =? rid b then 0 else 1) = 0 <-> rid a = rid b.
  Proof. destruct (Z.eqb_spec (rid a) (rid b)); split; intros E; auto; try discriminate; contradiction. Qed.

  (* what gets pushed: exactly the in-bounds neighbours in the same room *)
  Lemma pushes_in y x st c : inb (y, x) -> In c (pushes y x st) ->
    In c st \/ (inb c /\ adjacent (y, x) c /\ rid c = rid (y, x)).
  Proof.
    intros [Hy Hx] Hin. simpl in Hy, Hx. unfold pushes in Hin.
    apply dir_push_in in Hin as [Hin|(Hc & Hf & E)].
    2:{ right. subst c. apply Z.ltb_lt in Hc. apply flag0 in Hf. unfold inb, adjacent; simpl.
        repeat split; auto; try lia. }
    apply dir_push_in in Hin as [Hin|(Hc & Hf & E)].
    2:{ right. subst c. apply Z.ltb_lt in Hc. apply flag0 in Hf. unfold inb, adjacent; simpl.
        replace (x - 1 + 1)%nat with x in Hf by lia. repeat split; auto; try lia. }
    apply dir_push_in in Hin as [Hin|(Hc & Hf & E)].
    2:{ right. subst c. apply Z.ltb_lt in Hc. apply flag0 in Hf. unfold inb, adjacent; simpl.
        repeat split; auto; try lia. }
    apply dir_push_in in Hin as [Hin|(Hc & Hf & E)]; auto.
    right. subst c. apply Z.ltb_lt in Hc. apply flag0 in Hf. unfold inb, adjacent; simpl.
    replace (y - 1 + 1)%nat with y in Hf by lia. repeat split; auto; try lia.
  Qed.

  Lemma pushes_incl y x st c : In c st -> In c (pushes y x st).
  Proof. intros Hin. unfold pushes. repeat apply dir_push_incl. exact Hin. Qed.

  Lemma pushes_length y x st : (length (pushes y x st) <= length st + 4)%nat.
  Proof.
    unfold pushes.
    set (s1 := dir_push (0 <? Z.of_nat y) (hflag (y - 1) x) ((y - 1)%nat, x) st).
    set (s2 := dir_push (Z.of_nat y <? Z.of_nat H - 1) (hflag y x) ((y + 1)%nat, x) s1).
    set (s3 := dir_push (0 <? Z.of_nat x) (vflag y (x - 1)) (y, (x - 1)%nat) s2).
    pose proof (dir_push_length (0 <? Z.of_nat y) (hflag (y - 1) x) ((y - 1)%nat, x) st) as L1.
    pose proof (dir_push_length (Z.of_nat y <? Z.of_nat H - 1) (hflag y x) ((y + 1)%nat, x) s1) as L2.
    pose proof (dir_push_length (0 <? Z.of_nat x) (vflag y (x - 1)) (y, (x - 1)%nat) s2) as L3.
    pose proof (dir_push_length (Z.of_nat x <? Z.of_nat W - 1) (vflag y x) (y, (x + 1)%nat) s3) as L4.
    fold s1 in L1. fold s2 in L2. fold s3 in L3.
    generalize dependent (dir_push (Z.of_nat x <? Z.of_nat W - 1) (vflag y x) (y, (x + 1)%nat) s3).
    intros s4 L4. clearbody s1 s2 s3. unfold cell in *. lia.
  Qed.

  Lemma pushes_all y x st c : inb (y, x) -> inb c -> adjacent (y, x) c -> rid c = rid (y, x) ->
    In c (pushes y x st).
  Proof.
    intros [Hy Hx] [Hcy Hcx] Hadj Hrid. destruct c as [cy cx]. simpl in *. unfold adjacent in Hadj. simpl in Hadj.
    unfold pushes.
    destruct Hadj as [[Ey [Ex|Ex]]|[Ex [Ey|Ey]]]; subst.
    - (* right *) replace (S x) with (x + 1)%nat in * by lia. apply dir_push_new.
      + apply Z.ltb_lt. lia.
      + apply flag0. auto.
    - (* left *) apply dir_push_incl. replace (cy, cx) with (cy, (S cx - 1)%nat) by (f_equal; lia). apply dir_push_new.
      + apply Z.ltb_lt. lia.
      + apply flag0. replace (S cx - 1 + 1)%nat with (S cx) by lia. replace (S cx - 1)%nat with cx by lia. auto.
    - (* down *) do 2 apply dir_push_incl. replace (S y) with (y + 1)%nat in * by lia. apply dir_push_new.
      + apply Z.ltb_lt. lia.
      + apply flag0. auto.
    - (* up *) do 3 apply dir_push_incl. replace (cy, cx) with ((S cy - 1)%nat, cx) by (f_equal; lia). apply dir_push_new.
      + apply Z.ltb_lt. lia.
      + apply flag0. replace (S cy - 1 + 1)%nat with (S cy) by lia. replace (S cy - 1)%nat with cy by lia. auto.
  Qed.
End Fill.
