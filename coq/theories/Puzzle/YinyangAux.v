(* C11 Tier 1 - yinyang: the three "auxiliary constraints" of solve_yinyang as an executable predicate on answer
   grids, and the statement that the published rules imply them.  The published rules (Rules_yinyang.v) do not
   mention them; they follow from the rules only by planarity (two orthogonally connected colour classes of a grid
   cannot cross).  Definitions only. *)
From Coq Require Import ZArith List Bool Arith.
From Cspuz Require Import Graph.GraphModel Puzzle.PuzzleBase Puzzle.Rules_yinyang Puzzle.Yinyang.
Import ListNotations.
Local Open Scope nat_scope.

(* cell (y, x) of the answer holds a black circle *)
Definition yy_blk (w : nat) (ans : answer) (c : nat * nat) : bool := isb (at2 ans w (fst c) (snd c)).

(* no 2x2 block is a checkerboard (either orientation) *)
Definition yy_no_checker (h w : nat) (ans : answer) : bool :=
  let B := yy_blk w ans in
  forallb (fun '(y, x) =>
             negb (B (y, x) && B (S y, S x) && negb (B (S y, x)) && negb (B (y, S x))) &&
             negb (negb (B (y, x)) && negb (B (S y, S x)) && B (S y, x) && B (y, S x)))
          (cells (h - 1) (w - 1)).

(* number of positions of the border walk `circ` of solve_yinyang (Yinyang.v::yy_circ: left column downwards, bottom
   row rightwards, right column upwards, top row leftwards; on one-row / one-column boards cells occur twice) whose
   colour differs from the colour of the cyclically next position *)
Definition yy_switches (h w : nat) (ans : answer) : nat :=
  count (fun p => xorb (yy_blk w ans (fst p)) (yy_blk w ans (snd p))) (yy_cyc_pairs (yy_circ h w)).

Definition yy_aux (h w : nat) (ans : answer) : bool :=
  yy_no_checker h w ans && Nat.leb (yy_switches h w ans) 2.

(* the planarity statement: every grid obeying the published rules satisfies the auxiliary constraints *)
Definition yinyang_aux_implied_statement : Prop :=
  forall h w given ans,
    rules_yinyang [[Z.of_nat h; Z.of_nat w]; given] ans = true -> yy_aux h w ans = true.

(* its two halves *)
Definition yinyang_no_checker_statement : Prop :=
  forall h w given ans,
    rules_yinyang [[Z.of_nat h; Z.of_nat w]; given] ans = true -> yy_no_checker h w ans = true.
Definition yinyang_border_statement : Prop :=
  forall h w given ans,
    rules_yinyang [[Z.of_nat h; Z.of_nat w]; given] ans = true -> yy_switches h w ans <= 2.
