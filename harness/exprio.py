"""Serialise cspuz expression trees / Solver states to the one-line S-expression
syntax shared with coq/extract/exprio.ml."""
from cspuz.expr import BoolExpr, BoolVar, Expr, IntExpr, IntVar, Op


def show(e):
    if e is True:
        return "T"
    if e is False:
        return "F"
    if e is None:
        return "N"
    if isinstance(e, int):
        return "#%d" % e
    if isinstance(e, BoolVar):
        return "b%d" % e.id
    if isinstance(e, IntVar):
        return "i%d:%d:%d" % (e.id, e.lo, e.hi)
    if isinstance(e, BoolExpr):
        k = "B"
    elif isinstance(e, IntExpr):
        k = "I"
    else:
        raise TypeError("not an expression: %r" % (e,))
    return "( %s %s%s )" % (k, e.op.name, "".join(" " + show(x) for x in e.operands))


def show_list(l):
    return "[" + "".join(" " + show(e) for e in l) + " ]"


def show_state(solver):
    ds = []
    for v in solver.variables:
        ds.append("b" if isinstance(v, BoolVar) else "i:%d:%d" % (v.lo, v.hi))
    return "V [%s ] K [%s ] C %s" % (
        "".join(" " + d for d in ds),
        "".join(" 1" if k else " 0" for k in solver.is_answer_key),
        show_list(solver.constraints))


def parse(s, variables=None):
    """parse the S-expression back into a cspuz tree (fresh variable objects unless
    `variables` (list indexed by id) is given)."""
    toks = s.split()
    pos = [0]

    def go():
        t = toks[pos[0]]
        pos[0] += 1
        if t == "T":
            return True
        if t == "F":
            return False
        if t == "N":
            return None
        if t == "(":
            k = toks[pos[0]]
            o = Op[toks[pos[0] + 1]]
            pos[0] += 2
            args = []
            while toks[pos[0]] != ")":
                args.append(go())
            pos[0] += 1
            return (BoolExpr if k == "B" else IntExpr)(o, args)
        if t[0] == "#":
            return int(t[1:])
        if t[0] == "b":
            i = int(t[1:])
            return variables[i] if variables is not None else BoolVar(i)
        if t[0] == "i":
            i, lo, hi = t[1:].split(":")
            return variables[int(i)] if variables is not None else IntVar(int(i), int(lo), int(hi))
        raise ValueError(t)
    return go()
