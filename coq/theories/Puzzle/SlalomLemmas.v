(* C11 Tier 1, slalom - bridging lemmas between the model's vocabulary (sl_dirs, sl_edge, sl_flag, sl_gate_id) and the
   rule file's (seg, step_dir, gate_cells), list lemmas about positions / counting along the walk, and the content of
   the board format slalom_wf. *)
From Coq Require Import ZArith List Bool Arith Lia.
From Cspuz Require Import Lib.PyErr Core.Expr Core.Program Graph.GraphModel
     Puzzle.PuzzleBase Puzzle.ModelBase Puzzle.ModelLemmas Puzzle.CycleFrameBase Puzzle.CycleCompose Puzzle.CycleLattice
     Puzzle.Rules_slalom Puzzle.Slalom Puzzle.SlalomWalk.
Import ListNotations.
Local Open Scope nat_scope.

(* ---------------------------------------------------------------- directions *)
Lemma sl_dirs_lt h w y x d : In d (sl_dirs h w y x) -> d < 4.
Proof.
  unfold sl_dirs. rewrite !in_app_iff. intros [H|[H|[H|H]]];
    match type of H with In _ (if ?b then _ else _) => destruct b end; simpl in H; lia.
Qed.

Lemma sl_dirs_nodup h w y x : NoDup (sl_dirs h w y x).
Proof.
  unfold sl_dirs.
  destruct (Nat.ltb 0 y), (Nat.ltb (S y) h), (Nat.ltb 0 x), (Nat.ltb (S x) w); simpl;
    repeat constructor; simpl; intuition lia.
Qed.

Lemma sl_flag_opposite d : d < 4 -> sl_flag (opposite d) = negb (sl_flag d).
Proof. intros Hd. destruct d as [|[|[|[|d]]]]; try lia; reflexivity. Qed.

Section Bridge.
  Variables (fh fw : nat) (on : nat -> bool).
  Let P := S fh.
  Let Q := S fw.
  Let sg (c : cell) (d : nat) : bool := seg P Q on (fst c) (snd c) d.

  Lemma seg_as_edge y x d : d < 4 ->
    seg P Q on y x d = existsb (Nat.eqb d) (sl_dirs P Q y x) && on (sl_edge fh fw y x d).
  Proof.
    intros Hd. unfold seg, sl_dirs, sl_edge, P, Q. rewrite !sl_vseg_vid, !sl_hseg_hid.
    destruct d as [|[|[|[|d]]]]; try lia; rewrite !existsb_app;
      destruct (Nat.ltb 0 y), (Nat.ltb (S y) (S fh)), (Nat.ltb 0 x), (Nat.ltb (S x) (S fw)); reflexivity.
  Qed.

  Lemma seg_in_dirs c d : d < 4 -> sg c d = true -> In d (sl_dirs P Q (fst c) (snd c)).
  Proof.
    intros Hd H. unfold sg in H. rewrite seg_as_edge in H by exact Hd. apply andb_prop in H. destruct H as [H _].
    apply existsb_exists in H. destruct H as [d' [Hin E]]. apply Nat.eqb_eq in E. subst. exact Hin.
  Qed.

  Lemma seg_edge_on c d : In d (sl_dirs P Q (fst c) (snd c)) -> sg c d = on (sl_edge fh fw (fst c) (snd c) d).
  Proof.
    intros Hin. unfold sg. rewrite seg_as_edge by (eapply sl_dirs_lt; exact Hin).
    replace (existsb (Nat.eqb d) (sl_dirs P Q (fst c) (snd c))) with true; [reflexivity|].
    symmetry. apply existsb_exists. exists d. split; [exact Hin|apply Nat.eqb_refl].
  Qed.

  Lemma sl_edge_back c d : d < 4 -> sg c d = true ->
    sl_edge fh fw (fst (stepc c d)) (snd (stepc c d)) (opposite d) = sl_edge fh fw (fst c) (snd c) d.
  Proof.
    destruct c as [y x]. unfold sg, seg, stepc, step_dir, sl_edge. cbn [fst snd]. intros Hd H.
    destruct d as [|[|[|[|d]]]]; try lia; apply andb_prop in H; destruct H as [H1 _]; apply Nat.ltb_lt in H1;
      cbn [opposite fst snd]; try reflexivity.
    - replace (S y - 1) with y by lia. reflexivity.
    - replace (S x - 1) with x by lia. reflexivity.
  Qed.

  Lemma sl_edge_lt c d : onb fh fw c -> d < 4 -> sg c d = true -> sl_edge fh fw (fst c) (snd c) d < frame_n fh fw.
  Proof.
    destruct c as [y x]. unfold onb, sg, seg, sl_edge, frame_n, frame_vid, frame_hid. cbn [fst snd]. intros [Hy Hx] Hd H.
    destruct d as [|[|[|[|d]]]]; try lia; apply andb_prop in H; destruct H as [H1 _]; apply Nat.ltb_lt in H1;
      unfold P, Q in *; nia.
  Qed.

  (* a segment is seen from its two ends only *)
  Lemma sl_edge_inj c d c' d' : onb fh fw c -> onb fh fw c' -> d < 4 -> d' < 4 -> sg c d = true -> sg c' d' = true ->
    sl_edge fh fw (fst c) (snd c) d = sl_edge fh fw (fst c') (snd c') d' ->
    (c = c' /\ d = d') \/ (c' = stepc c d /\ d' = opposite d).
  Proof.
    destruct c as [y x], c' as [y' x']. unfold onb, sg, seg, sl_edge, stepc, step_dir, frame_vid, frame_hid.
    cbn [fst snd]. unfold P, Q. intros [Hy Hx] [Hy' Hx'] Hd Hd' H H' E.
    assert (Hm : y' * fw <= fh * fw) by (apply Nat.mul_le_mono_r; lia).
    assert (Hm' : y * fw <= fh * fw) by (apply Nat.mul_le_mono_r; lia).
    destruct d as [|[|[|[|d]]]]; try lia; destruct d' as [|[|[|[|d']]]]; try lia;
      apply andb_prop in H; destruct H as [H1 _]; apply andb_prop in H'; destruct H' as [H1' _];
      apply Nat.ltb_lt in H1; apply Nat.ltb_lt in H1'; cbn [opposite];
      try (exfalso; simpl in E; lia).
    (* vertical / vertical *)
    - assert (E2 : (y - 1) * S fw + x = (y' - 1) * S fw + x') by lia. apply rowcol_inj in E2; [|lia|lia].
      left. split; [f_equal; lia|reflexivity].
    - assert (E2 : (y - 1) * S fw + x = y' * S fw + x') by lia. apply rowcol_inj in E2; [|lia|lia].
      right. split; [f_equal; lia|reflexivity].
    - assert (E2 : y * S fw + x = (y' - 1) * S fw + x') by lia. apply rowcol_inj in E2; [|lia|lia].
      right. split; [f_equal; lia|reflexivity].
    - assert (E2 : y * S fw + x = y' * S fw + x') by lia. apply rowcol_inj in E2; [|lia|lia].
      left. split; [f_equal; lia|reflexivity].
    (* horizontal / horizontal *)
    - apply rowcol_inj in E; [|lia|lia]. left. split; [f_equal; lia|reflexivity].
    - apply rowcol_inj in E; [|lia|lia]. right. split; [f_equal; lia|reflexivity].
    - apply rowcol_inj in E; [|lia|lia]. right. split; [f_equal; lia|reflexivity].
    - apply rowcol_inj in E; [|lia|lia]. left. split; [f_equal; lia|reflexivity].
  Qed.

  Lemma on_line_deg4 c : onb fh fw c -> on_line (lattice P Q) on (cix fw c) = negb (Nat.eqb (deg4 fh fw on c) 0).
  Proof. intros Hc. unfold on_line, P, Q. rewrite (deg4_degree fh fw on c Hc). reflexivity. Qed.

  Lemma on_line_pos c : onb fh fw c -> (on_line (lattice P Q) on (cix fw c) = true <-> 0 < deg4 fh fw on c).
  Proof.
    intros Hc. rewrite on_line_deg4 by exact Hc. rewrite negb_true_iff, Nat.eqb_neq. lia.
  Qed.

  Lemma deg4_pos_dir c : 0 < deg4 fh fw on c -> exists d, d < 4 /\ sg c d = true.
  Proof.
    unfold deg4. fold P Q. intros H.
    destruct (sg c 0) eqn:E0; [exists 0; split; [lia|exact E0]|].
    destruct (sg c 1) eqn:E1; [exists 1; split; [lia|exact E1]|].
    destruct (sg c 2) eqn:E2; [exists 2; split; [lia|exact E2]|].
    destruct (sg c 3) eqn:E3; [exists 3; split; [lia|exact E3]|].
    unfold sg in *. rewrite E0, E1, E2, E3 in H. simpl in H. lia.
  Qed.
End Bridge.

(* ---------------------------------------------------------------- lists *)
Lemma count_le_length {A} (f : A -> bool) l : count f l <= length l.
Proof. unfold count. induction l; simpl; [lia|]. destruct (f a); simpl; lia. Qed.

Lemma count_app {A} (f : A -> bool) l1 l2 : count f (l1 ++ l2) = count f l1 + count f l2.
Proof. unfold count. rewrite filter_app, app_length. reflexivity. Qed.

Lemma count_pos_in {A} (f : A -> bool) l : 0 < count f l -> exists a, In a l /\ f a = true.
Proof.
  unfold count. induction l as [|a l IH]; simpl; [lia|]. destruct (f a) eqn:E.
  - intros _. exists a. auto.
  - intros H. destruct (IH H) as [b [Hb Hf]]. exists b. auto.
Qed.

Lemma count_one_unique {A} (f : A -> bool) l a b :
  count f l = 1 -> In a l -> In b l -> f a = true -> f b = true -> a = b.
Proof.
  unfold count. induction l as [|x l IH]; simpl; intros Hc Ha Hb Fa Fb; [contradiction|].
  destruct (f x) eqn:E.
  - simpl in Hc. assert (Hz : length (filter f l) = 0) by lia.
    assert (Hnone : forall y, In y l -> f y = true -> False).
    { intros y Hy Fy. assert (In y (filter f l)) by (apply filter_In; auto).
      destruct (filter f l); [contradiction|discriminate]. }
    destruct Ha as [->|Ha], Hb as [->|Hb]; try reflexivity; exfalso; eauto.
  - destruct Ha as [->|Ha]; [congruence|]. destruct Hb as [->|Hb]; [congruence|]. apply IH; assumption.
Qed.

Lemma count_one_dirs (f : nat -> bool) l a : NoDup l -> In a l -> f a = true ->
  (forall b, In b l -> f b = true -> b = a) -> count f l = 1.
Proof.
  unfold count. induction l as [|x l IH]; simpl; intros Hnd Ha Fa Hu; [contradiction|].
  inversion Hnd; subst.
  destruct Ha as [->|Ha].
  - rewrite Fa. simpl. f_equal.
    assert (Hn : filter f l = []).
    { destruct (filter f l) as [|y r] eqn:E; [reflexivity|]. exfalso.
      assert (Hy : In y (filter f l)) by (rewrite E; left; reflexivity). apply filter_In in Hy. destruct Hy as [Hy Fy].
      assert (y = a) by (apply Hu; auto). subst. contradiction. }
    rewrite Hn. reflexivity.
  - destruct (f x) eqn:E.
    + exfalso. assert (x = a) by (apply Hu; auto). subst. contradiction.
    + apply IH; auto.
Qed.

Lemma count_zero {A} (f : A -> bool) l : (forall a, In a l -> f a = false) -> count f l = 0.
Proof.
  unfold count. induction l as [|x l IH]; simpl; intros H; [reflexivity|].
  rewrite (H x (or_introl eq_refl)). apply IH. intros a Ha. apply H. right. exact Ha.
Qed.

(* position of the j-th element satisfying f *)
Lemma filter_index {A} (f : A -> bool) (l : list A) : forall i j c, NoDup l ->
  nth_error l i = Some c -> nth_error (filter f l) j = Some c -> count f (firstn (S i) l) = S j.
Proof.
  induction l as [|a l IH]; intros i j c Hnd Hi Hj; [destruct i; discriminate|].
  inversion Hnd; subst. destruct i as [|i].
  - simpl in Hi. inversion Hi; subst a. simpl in Hj. destruct (f c) eqn:E.
    + destruct j as [|j].
      * unfold count. simpl. rewrite E. reflexivity.
      * simpl in Hj. exfalso. apply nth_error_In in Hj. apply filter_In in Hj. destruct Hj. contradiction.
    + exfalso. apply nth_error_In in Hj. apply filter_In in Hj. destruct Hj. contradiction.
  - simpl in Hi. change (firstn (S (S i)) (a :: l)) with (a :: firstn (S i) l).
    simpl in Hj. unfold count in *. simpl. destruct (f a) eqn:E.
    + destruct j as [|j].
      * simpl in Hj. inversion Hj; subst. exfalso. apply nth_error_In in Hi. contradiction.
      * simpl in Hj. simpl. f_equal. apply (IH i j c); assumption.
    + apply (IH i j c); assumption.
Qed.

Lemma count_firstn_le {A} (f : A -> bool) (l : list A) i : count f (firstn i l) <= count f l.
Proof.
  rewrite <- (firstn_skipn i l) at 2. rewrite count_app. lia.
Qed.

Lemma count_firstn_strict {A} (f : A -> bool) (l : list A) : forall i0 i1 c, i0 < i1 ->
  nth_error l i1 = Some c -> f c = true -> count f (firstn (S i0) l) < count f (firstn (S i1) l).
Proof.
  induction l as [|a l IH]; intros i0 i1 c Hlt Hi Fc; [destruct i1; discriminate|].
  destruct i1 as [|i1]; [lia|]. simpl in Hi.
  change (firstn (S (S i1)) (a :: l)) with (a :: firstn (S i1) l).
  change (firstn (S i0) (a :: l)) with (a :: firstn i0 l).
  unfold count in *.
  assert (H : length (filter f (firstn i0 l)) < length (filter f (firstn (S i1) l))).
  { destruct i0 as [|i0].
    - simpl firstn at 1. simpl length at 1.
      destruct l as [|b l]; [destruct i1; discriminate|].
      assert (Hlen : i1 < length (b :: l)) by (apply nth_error_Some; rewrite Hi; discriminate).
      assert (Hc : In c (firstn (S i1) (b :: l))).
      { rewrite <- (firstn_skipn (S i1) (b :: l)) in Hi. rewrite nth_error_app1 in Hi.
        - apply nth_error_In in Hi. exact Hi.
        - rewrite firstn_length. simpl in *. lia. }
      assert (In c (filter f (firstn (S i1) (b :: l)))) by (apply filter_In; auto).
      destruct (filter f (firstn (S i1) (b :: l))); [contradiction|simpl; lia].
    - apply (IH i0 i1 c); [lia|assumption|assumption]. }
  cbn [filter]. destruct (f a); cbn [length]; lia.
Qed.

(* ---------------------------------------------------------------- gates *)
Section Gates.
  Variable gs : list Z.
  Let G := n_gates gs.
  Definition in_gate (k : nat) (c : cell) : bool := cell_in c (gate_cells gs k).
  Definition is_gate_cell (c : cell) : bool := existsb (fun k => in_gate k c) (seq 0 G).

  Let stepf (c : cell) := fun (acc : option Z) k => if cell_in c (gate_cells gs k) then Some (gate_field gs k 4) else acc.

  Lemma fold_gate_none c l init : (forall k, In k l -> in_gate k c = false) -> fold_left (stepf c) l init = init.
  Proof.
    revert init. induction l as [|a l IH]; intros init H; [reflexivity|].
    simpl. unfold stepf at 2. unfold in_gate in H. rewrite (H a (or_introl eq_refl)).
    apply IH. intros k Hk. apply H. right. exact Hk.
  Qed.

  Lemma fold_gate_some c l k : forall init, In k l -> in_gate k c = true ->
    (forall k', In k' l -> in_gate k' c = true -> k' = k) ->
    fold_left (stepf c) l init = Some (gate_field gs k 4).
  Proof.
    induction l as [|a l IH]; intros init Hin Hk Hu; [contradiction|].
    simpl. unfold stepf at 2. fold (in_gate a c).
    destruct (in_gate a c) eqn:Ea.
    - assert (a = k) by (apply Hu; [left; reflexivity|exact Ea]). subst a.
      destruct (in_dec Nat.eq_dec k l) as [Hl|Hl].
      + apply IH; [exact Hl|exact Hk|]. intros k' Hk' H'. apply Hu; [right; exact Hk'|exact H'].
      + apply fold_gate_none. intros k' Hk'. destruct (in_gate k' c) eqn:E; [|reflexivity].
        exfalso. assert (k' = k) by (apply Hu; [right; exact Hk'|exact E]). subst. contradiction.
    - destruct Hin as [->|Hin]; [congruence|].
      apply IH; [exact Hin|exact Hk|]. intros k' Hk' H'. apply Hu; [right; exact Hk'|exact H'].
  Qed.

  Lemma fold_gate_inv c l : forall init n, fold_left (stepf c) l init = Some n ->
    init = Some n \/ exists k, In k l /\ in_gate k c = true /\ n = gate_field gs k 4.
  Proof.
    induction l as [|a l IH]; intros init n H; [left; exact H|].
    simpl in H. apply IH in H. destruct H as [H|[k [Hk [Hg Hn]]]].
    - unfold stepf in H. fold (in_gate a c) in H. destruct (in_gate a c) eqn:Ea.
      + right. exists a. split; [left; reflexivity|]. split; [exact Ea|]. inversion H. reflexivity.
      + left. exact H.
    - right. exists k. split; [right; exact Hk|]. split; assumption.
  Qed.

  Lemma is_gate_cell_spec c : is_gate_cell c = true <-> exists k, k < G /\ in_gate k c = true.
  Proof.
    unfold is_gate_cell. rewrite existsb_exists. split.
    - intros [k [Hk H]]. apply in_seq in Hk. exists k. split; [lia|exact H].
    - intros [k [Hk H]]. exists k. split; [apply in_seq; lia|exact H].
  Qed.

  Lemma fold_gate_None_iff c l : forall init,
    fold_left (stepf c) l init = None <-> (init = None /\ forall k, In k l -> in_gate k c = false).
  Proof.
    induction l as [|a l IH]; intros init; simpl.
    - split; [intros H; split; [exact H|intros k []]|intros [H _]; exact H].
    - rewrite IH. unfold stepf at 1. fold (in_gate a c). destruct (in_gate a c) eqn:Ea.
      + split; [intros [H _]; discriminate|intros [_ H]]. specialize (H a (or_introl eq_refl)). congruence.
      + split.
        * intros [H1 H2]. split; [exact H1|]. intros k [<-|Hk]; [exact Ea|apply H2; exact Hk].
        * intros [H1 H2]. split; [exact H1|]. intros k Hk. apply H2. right. exact Hk.
  Qed.

  Lemma sl_is_gate_spec c : sl_is_gate gs c = is_gate_cell c.
  Proof.
    unfold sl_is_gate, sl_gate_id. fold G. fold (stepf c).
    destruct (fold_left (stepf c) (seq 0 G) None) as [n|] eqn:F.
    - apply fold_gate_inv in F. destruct F as [F|[k [Hk [Hg _]]]]; [discriminate|].
      symmetry. apply is_gate_cell_spec. exists k. apply in_seq in Hk. split; [lia|exact Hg].
    - apply fold_gate_None_iff in F. destruct F as [_ F].
      destruct (is_gate_cell c) eqn:E; [|reflexivity].
      apply is_gate_cell_spec in E. destruct E as [k [Hk Hg]].
      rewrite F in Hg by (apply in_seq; lia). discriminate.
  Qed.

  Lemma sl_gate_id_none c : is_gate_cell c = false -> sl_gate_id gs c = None.
  Proof.
    intros H. unfold sl_gate_id. fold G. fold (stepf c). apply fold_gate_None_iff. split; [reflexivity|].
    intros k Hk. apply in_seq in Hk. destruct (in_gate k c) eqn:Eg; [|reflexivity].
    assert (is_gate_cell c = true) by (apply is_gate_cell_spec; exists k; split; [lia|exact Eg]). congruence.
  Qed.

  Lemma sl_gate_id_some c k : k < G -> in_gate k c = true ->
    (forall k', k' < G -> in_gate k' c = true -> k' = k) ->
    sl_gate_id gs c = Some (gate_field gs k 4).
  Proof.
    intros Hk Hg Hu. unfold sl_gate_id. fold G. fold (stepf c).
    apply fold_gate_some; [apply in_seq; lia|exact Hg|].
    intros k' Hk' H'. apply in_seq in Hk'. apply Hu; [lia|exact H'].
  Qed.

  Lemma sl_gate_id_inv c n : sl_gate_id gs c = Some n ->
    exists k, k < G /\ in_gate k c = true /\ n = gate_field gs k 4.
  Proof.
    unfold sl_gate_id. fold G. fold (stepf c). intros F. apply fold_gate_inv in F.
    destruct F as [F|[k [Hk [Hg Hn]]]]; [discriminate|]. apply in_seq in Hk.
    exists k. split; [lia|]. split; assumption.
  Qed.
End Gates.

(* ---------------------------------------------------------------- the board format *)
Definition gate_hor (gs : list Z) (k : nat) : bool := (gate_field gs k 2 =? 0)%Z.

Record sl_wf_facts (h w : nat) (o : cell) (black gs : list Z) : Prop := {
  wf_o : fst o < h /\ snd o < w;
  wf_onb : forall k c, k < n_gates gs -> In c (gate_cells gs k) -> fst c < h /\ snd c < w;
  wf_no_o : forall k, k < n_gates gs -> ~ In o (gate_cells gs k);
  wf_disj : forall k k' c, k < n_gates gs -> k' < n_gates gs ->
              In c (gate_cells gs k) -> In c (gate_cells gs k') -> k = k';
  wf_ends : forall k c, k < n_gates gs -> In c (gate_cells gs k) ->
     if gate_hor gs k then
       (snd c = 0 \/ In (fst c, snd c - 1) (gate_cells gs k) \/ at2 black w (fst c) (snd c - 1) <> 0%Z) /\
       (S (snd c) = w \/ In (fst c, S (snd c)) (gate_cells gs k) \/ at2 black w (fst c) (S (snd c)) <> 0%Z)
     else
       (fst c = 0 \/ In (fst c - 1, snd c) (gate_cells gs k) \/ at2 black w (fst c - 1) (snd c) <> 0%Z) /\
       (S (fst c) = h \/ In (S (fst c), snd c) (gate_cells gs k) \/ at2 black w (S (fst c)) (snd c) <> 0%Z)
}.

Lemma sl_dims h w (rest : list (list Z)) :
  dim ([Z.of_nat h; Z.of_nat w] :: rest) 0 = h /\ dim ([Z.of_nat h; Z.of_nat w] :: rest) 1 = w.
Proof. unfold dim, zn, getz, sec; simpl. rewrite !Nat2Z.id. split; reflexivity. Qed.

(* what the format says about one gate *)
Definition gate_shape (h w : nat) (o : cell) (black gs : list Z) (k : nat) : Prop :=
  exists y x l,
    gate_cells gs k = (if gate_hor gs k then map (fun i => (y, x + i)) (seq 0 l)
                       else map (fun i => (y + i, x)) (seq 0 l)) /\
    (if gate_hor gs k
     then y < h /\ x + l <= w /\ (x = 0 \/ at2 black w y (x - 1) <> 0%Z) /\ (x + l = w \/ at2 black w y (x + l) <> 0%Z)
     else x < w /\ y + l <= h /\ (y = 0 \/ at2 black w (y - 1) x <> 0%Z) /\ (y + l = h \/ at2 black w (y + l) x <> 0%Z)).

Lemma gate_shape_of_wf h w o black gs k :
  let y := gate_field gs k 0 in let x := gate_field gs k 1 in
  let d := gate_field gs k 2 in let l := gate_field gs k 3 in
  let zh := Z.of_nat h in let zw := Z.of_nat w in
  let blk := fun y x : Z => negb (at2 black w (zn y) (zn x) =? 0)%Z in
  ((0 <=? y) && (0 <=? x) && (0 <=? l) && ((d =? 0) || (d =? 1)))%Z = true ->
  (if (d =? 0)%Z
   then ((y <? zh) && (x + l <=? zw) && ((x =? 0) || blk y (x - 1)) && ((x + l =? zw) || blk y (x + l)))%Z
   else ((x <? zw) && (y + l <=? zh) && ((y =? 0) || blk (y - 1) x) && ((y + l =? zh) || blk (y + l) x))%Z) = true ->
  gate_shape h w o black gs k.
Proof.
  intros y x d l zh zw blk Hb Hd.
  apply andb_prop in Hb. destruct Hb as [Hb _]. apply andb_prop in Hb. destruct Hb as [Hb Hl0].
  apply andb_prop in Hb. destruct Hb as [Hy0 Hx0].
  apply Z.leb_le in Hy0. apply Z.leb_le in Hx0. apply Z.leb_le in Hl0.
  exists (zn y), (zn x), (zn l). split.
  - unfold gate_cells, gate_hor. fold y x l. reflexivity.
  - unfold gate_hor. fold d. destruct (d =? 0)%Z.
    + apply andb_prop in Hd. destruct Hd as [Hd He2]. apply andb_prop in Hd. destruct Hd as [Hd He1].
      apply andb_prop in Hd. destruct Hd as [Hd1 Hd2]. apply Z.ltb_lt in Hd1. apply Z.leb_le in Hd2.
      unfold zh, zw, zn in *. split; [lia|]. split; [lia|]. split.
      * destruct (Z.eq_dec x 0) as [E|E]; [left; lia|right].
        apply orb_prop in He1. destruct He1 as [He1|He1]; [apply Z.eqb_eq in He1; lia|].
        unfold blk in He1. apply negb_true_iff in He1. apply Z.eqb_neq in He1. unfold zn in He1.
        replace (Z.to_nat (x - 1)) with (Z.to_nat x - 1) in He1 by lia. exact He1.
      * apply orb_prop in He2. destruct He2 as [He2|He2]; [left; apply Z.eqb_eq in He2; lia|right].
        unfold blk in He2. apply negb_true_iff in He2. apply Z.eqb_neq in He2. unfold zn in He2.
        replace (Z.to_nat (x + l)) with (Z.to_nat x + Z.to_nat l) in He2 by lia. exact He2.
    + apply andb_prop in Hd. destruct Hd as [Hd He2]. apply andb_prop in Hd. destruct Hd as [Hd He1].
      apply andb_prop in Hd. destruct Hd as [Hd1 Hd2]. apply Z.ltb_lt in Hd1. apply Z.leb_le in Hd2.
      unfold zh, zw, zn in *. split; [lia|]. split; [lia|]. split.
      * destruct (Z.eq_dec y 0) as [E|E]; [left; lia|right].
        apply orb_prop in He1. destruct He1 as [He1|He1]; [apply Z.eqb_eq in He1; lia|].
        unfold blk in He1. apply negb_true_iff in He1. apply Z.eqb_neq in He1. unfold zn in He1.
        replace (Z.to_nat (y - 1)) with (Z.to_nat y - 1) in He1 by lia. exact He1.
      * apply orb_prop in He2. destruct He2 as [He2|He2]; [left; apply Z.eqb_eq in He2; lia|right].
        unfold blk in He2. apply negb_true_iff in He2. apply Z.eqb_neq in He2. unfold zn in He2.
        replace (Z.to_nat (y + l)) with (Z.to_nat y + Z.to_nat l) in He2 by lia. exact He2.
Qed.

Lemma gate_shape_facts h w o black gs k : gate_shape h w o black gs k ->
  (forall c, In c (gate_cells gs k) -> fst c < h /\ snd c < w) /\
  (forall c, In c (gate_cells gs k) ->
     if gate_hor gs k then
       (snd c = 0 \/ In (fst c, snd c - 1) (gate_cells gs k) \/ at2 black w (fst c) (snd c - 1) <> 0%Z) /\
       (S (snd c) = w \/ In (fst c, S (snd c)) (gate_cells gs k) \/ at2 black w (fst c) (S (snd c)) <> 0%Z)
     else
       (fst c = 0 \/ In (fst c - 1, snd c) (gate_cells gs k) \/ at2 black w (fst c - 1) (snd c) <> 0%Z) /\
       (S (fst c) = h \/ In (S (fst c), snd c) (gate_cells gs k) \/ at2 black w (S (fst c)) (snd c) <> 0%Z)).
Proof.
  intros [y [x [l [Hc Hs]]]]. rewrite Hc. destruct (gate_hor gs k).
  - destruct Hs as [Hy [Hxl [He1 He2]]]. split.
    + intros c Hin. apply in_map_iff in Hin. destruct Hin as [i [<- Hi]]. apply in_seq in Hi. simpl. lia.
    + intros c Hin. apply in_map_iff in Hin. destruct Hin as [i [<- Hi]]. apply in_seq in Hi. cbn [fst snd]. split.
      * destruct i as [|i].
        -- rewrite Nat.add_0_r. destruct He1 as [E|E]; [left; exact E|right; right; exact E].
        -- right. left. apply in_map_iff. exists i. split; [f_equal; lia|apply in_seq; lia].
      * destruct (Nat.eq_dec (S i) l) as [E|E].
        -- replace (S (x + i)) with (x + l) by lia. destruct He2 as [E2|E2]; [left; exact E2|right; right; exact E2].
        -- right. left. apply in_map_iff. exists (S i). split; [f_equal; lia|apply in_seq; lia].
  - destruct Hs as [Hx [Hyl [He1 He2]]]. split.
    + intros c Hin. apply in_map_iff in Hin. destruct Hin as [i [<- Hi]]. apply in_seq in Hi. simpl. lia.
    + intros c Hin. apply in_map_iff in Hin. destruct Hin as [i [<- Hi]]. apply in_seq in Hi. cbn [fst snd]. split.
      * destruct i as [|i].
        -- rewrite Nat.add_0_r. destruct He1 as [E|E]; [left; exact E|right; right; exact E].
        -- right. left. apply in_map_iff. exists i. split; [f_equal; lia|apply in_seq; lia].
      * destruct (Nat.eq_dec (S i) l) as [E|E].
        -- replace (S (y + i)) with (y + l) by lia. destruct He2 as [E2|E2]; [left; exact E2|right; right; exact E2].
        -- right. left. apply in_map_iff. exists (S i). split; [f_equal; lia|apply in_seq; lia].
Qed.

Lemma slalom_wf_spec h w oy ox black gs :
  slalom_wf [[Z.of_nat h; Z.of_nat w]; [oy; ox]; black; gs] = true ->
  sl_wf_facts h w (zn oy, zn ox) black gs /\ (0 <= oy)%Z /\ (0 <= ox)%Z.
Proof.
  unfold slalom_wf.
  change (sec [[Z.of_nat h; Z.of_nat w]; [oy; ox]; black; gs] 1) with [oy; ox].
  change (sec [[Z.of_nat h; Z.of_nat w]; [oy; ox]; black; gs] 2) with black.
  change (sec [[Z.of_nat h; Z.of_nat w]; [oy; ox]; black; gs] 3) with gs.
  change (getz [oy; ox] 0) with oy. change (getz [oy; ox] 1) with ox.
  destruct (sl_dims h w [[oy; ox]; black; gs]) as [-> ->].
  set (G := n_gates gs). intros H.
  apply andb_prop in H. destruct H as [H Hg]. apply andb_prop in H. destruct H as [Ho _].
  apply andb_prop in Ho. destruct Ho as [Ho Ho4]. apply andb_prop in Ho. destruct Ho as [Ho Ho3].
  apply andb_prop in Ho. destruct Ho as [Ho1 Ho2].
  apply Z.leb_le in Ho1. apply Z.ltb_lt in Ho2. apply Z.leb_le in Ho3. apply Z.ltb_lt in Ho4.
  rewrite forallb_forall in Hg.
  assert (Hgate : forall k, k < G ->
            gate_shape h w (zn oy, zn ox) black gs k /\ ~ In (zn oy, zn ox) (gate_cells gs k) /\
            (forall k', k' < G -> k' <> k -> forall c, In c (gate_cells gs k) -> ~ In c (gate_cells gs k'))).
  { intros k Hk. specialize (Hg k ltac:(apply in_seq; lia)).
    apply andb_prop in Hg. destruct Hg as [Hg Hdis]. apply andb_prop in Hg. destruct Hg as [Hg Hno].
    apply andb_prop in Hg. destruct Hg as [Hb Hd]. split; [|split].
    - apply (gate_shape_of_wf h w (zn oy, zn ox) black gs k Hb Hd).
    - apply negb_true_iff in Hno. intros Hin. apply cell_in_In in Hin. congruence.
    - intros k' Hk' Hne c Hc Hc'. rewrite forallb_forall in Hdis. specialize (Hdis k' ltac:(apply in_seq; lia)).
      apply orb_prop in Hdis. destruct Hdis as [E|Hdis]; [apply Nat.eqb_eq in E; contradiction|].
      rewrite forallb_forall in Hdis. specialize (Hdis c Hc). apply negb_true_iff in Hdis.
      apply cell_in_In in Hc'. congruence. }
  split; [|split; assumption].
  constructor.
  - unfold zn. simpl. lia.
  - intros k c Hk Hc. destruct (Hgate k Hk) as [Hs _]. apply (proj1 (gate_shape_facts _ _ _ _ _ _ Hs)). exact Hc.
  - intros k Hk. destruct (Hgate k Hk) as [_ [Hn _]]. exact Hn.
  - intros k k' c Hk Hk' Hc Hc'. destruct (Nat.eq_dec k k') as [E|E]; [exact E|]. exfalso.
    destruct (Hgate k Hk) as [_ [_ Hd]]. apply (Hd k' Hk' (fun e => E (eq_sym e)) c Hc Hc').
  - intros k c Hk Hc. destruct (Hgate k Hk) as [Hs _]. apply (proj2 (gate_shape_facts _ _ _ _ _ _ Hs)). exact Hc.
Qed.

Lemma sl_edge_lt_dirs fh fw y x d : y < S fh -> x < S fw -> In d (sl_dirs (S fh) (S fw) y x) ->
  sl_edge fh fw y x d < frame_n fh fw.
Proof.
  intros Hy Hx. unfold sl_dirs, sl_edge, frame_n, frame_vid, frame_hid. rewrite !in_app_iff.
  intros [H|[H|[H|H]]];
    match type of H with In _ (if ?b then _ else _) => destruct b eqn:E end; simpl in H; try contradiction;
    destruct H as [<-|[]]; apply Nat.ltb_lt in E; nia.
Qed.

(* ---------------------------------------------------------------- more list lemmas (completeness) *)
Lemma NoDup_map_inj_on {A B} (f : A -> B) (l : list A) :
  NoDup l -> (forall a b, In a l -> In b l -> f a = f b -> a = b) -> NoDup (map f l).
Proof.
  induction l as [|a l IH]; intros Hnd Hinj; simpl; [constructor|].
  inversion Hnd; subst. constructor.
  - intros Hin. apply in_map_iff in Hin. destruct Hin as [b [E Hb]].
    assert (b = a) by (apply Hinj; [right; exact Hb|left; reflexivity|exact E]). subst. contradiction.
  - apply IH; [assumption|]. intros x y Hx Hy. apply Hinj; right; assumption.
Qed.

Lemma firstn_S_nth {A} (l : list A) : forall i c, nth_error l i = Some c -> firstn (S i) l = firstn i l ++ [c].
Proof.
  induction l as [|a l IH]; intros i c H; [destruct i; discriminate|].
  destruct i as [|i]; simpl in H.
  - inversion H; subst. reflexivity.
  - change (firstn (S (S i)) (a :: l)) with (a :: firstn (S i) l). rewrite (IH i c H). reflexivity.
Qed.

Lemma count_filter_length {A} (f : A -> bool) l : count f l = length (filter f l).
Proof. reflexivity. Qed.

Lemma find_some_seq (f : nat -> bool) n k : k < n -> f k = true -> exists k', find f (seq 0 n) = Some k' /\ k' < n /\ f k' = true.
Proof.
  intros Hk Hf. destruct (find f (seq 0 n)) as [k'|] eqn:E.
  - apply find_some in E. destruct E as [Hin Hf']. apply in_seq in Hin. exists k'. split; [reflexivity|]. split; [lia|exact Hf'].
  - exfalso. pose proof (find_none _ _ E k ltac:(apply in_seq; lia)). congruence.
Qed.

(* position of a cell in a list, by its index on the board *)
Fixpoint cpos (fw idx : nat) (l : list cell) : option nat :=
  match l with
  | [] => None
  | c :: r => if Nat.eqb (cix fw c) idx then Some 0 else option_map S (cpos fw idx r)
  end.

Lemma cpos_nth fh fw (l : list cell) : NoDup l -> (forall c, In c l -> onb fh fw c) ->
  forall i c, nth_error l i = Some c -> cpos fw (cix fw c) l = Some i.
Proof.
  induction l as [|a l IH]; intros Hnd Hon i c Hi; [destruct i; discriminate|].
  inversion Hnd; subst. destruct i as [|i]; simpl in Hi.
  - inversion Hi; subst. simpl. rewrite Nat.eqb_refl. reflexivity.
  - simpl. destruct (Nat.eqb_spec (cix fw a) (cix fw c)) as [E|E].
    + exfalso. apply (cix_inj fh fw) in E; [|apply Hon; left; reflexivity|apply Hon; right; apply nth_error_In with i; exact Hi].
      subst. apply H1. apply nth_error_In with i. exact Hi.
    + rewrite (IH H2 (fun c' Hc' => Hon c' (or_intror Hc')) i c Hi). reflexivity.
Qed.

Lemma cpos_none fh fw (l : list cell) c : (forall c', In c' l -> onb fh fw c') -> onb fh fw c -> ~ In c l ->
  cpos fw (cix fw c) l = None.
Proof.
  induction l as [|a l IH]; intros Hon Hc Hn; [reflexivity|].
  simpl. destruct (Nat.eqb_spec (cix fw a) (cix fw c)) as [E|E].
  - exfalso. apply (cix_inj fh fw) in E; [|apply Hon; left; reflexivity|exact Hc]. subst. apply Hn. left. reflexivity.
  - rewrite IH; [reflexivity| |exact Hc|]; [intros c' Hc'; apply Hon; right; exact Hc'|intros H; apply Hn; right; exact H].
Qed.
