(* C11 Tier 1 - slalom: the program solve_slalom_model builds has exactly the rule-obeying loops as its answer-key
   readings, for every board in the puzzle's format (Rules_slalom.slalom_wf).
     part 1  what the posted constraints mean along the loop (soundness): passed = "on the loop", loop_dir orients the
             loop consistently, gate_ord counts the gates from the start; hence every loop the program accepts obeys the rules
     part 2  values of loop_dir / passed / gate_ord for a rule-obeying loop (completeness)
     part 3  slalom_exact through SlalomCompose.sl_compose (C06) *)
From Coq Require Import ZArith List Bool Arith Lia.
From Cspuz Require Import Lib.PyErr Core.Expr Core.Program Graph.GraphModel Graph.Cycle Graph.CycleLemmas
     Puzzle.PuzzleBase Puzzle.SatAbs Puzzle.ModelBase Puzzle.ModelLemmas Puzzle.CycleFrameBase Puzzle.CycleCompose
     Puzzle.CycleLattice Puzzle.Rules_slalom Puzzle.Slalom Puzzle.SlalomCompose Puzzle.SlalomWalk Puzzle.SlalomSem
     Puzzle.SlalomLemmas.
Import ListNotations.
Local Open Scope nat_scope.

(* the rules without the shape of the answer and the single-loop condition *)
Definition slalom_local_on (h w oy ox : nat) (black gs : list Z) (on : nat -> bool) : bool :=
  let G := n_gates gs in
  let g := lattice h w in
  let sg := seg h w on in
  let visited := fun c : nat * nat => on_line g on (fst c * w + snd c) in
  let in_gate := fun k c => cell_in c (gate_cells gs k) in
  let is_gate_cell := fun c => existsb (fun k => in_gate k c) (seq 0 G) in
  let ordered := fun d0 =>
     let '(y1, x1) := step_dir oy ox d0 in
     let met := filter is_gate_cell (slalom_walk h w on oy ox (h * w) y1 x1 d0) in
     forallb (fun k => let n := gate_field gs k 4 in
                (n <? 1)%Z || match nth_error met (zn n - 1) with Some c => in_gate k c | None => false end)
             (seq 0 G) in
  Nat.ltb oy h && Nat.ltb ox w && visited (oy, ox) &&
  forallb (fun c => (at2 black w (fst c) (snd c) =? 0)%Z || negb (visited c)) (cells h w) &&
  forallb (fun k =>
     Nat.eqb (count visited (gate_cells gs k)) 1 &&
     forallb (fun c => negb (visited c) ||
                (if (gate_field gs k 2 =? 0)%Z then sg (fst c) (snd c) 0 && sg (fst c) (snd c) 1
                 else sg (fst c) (snd c) 2 && sg (fst c) (snd c) 3)) (gate_cells gs k)) (seq 0 G) &&
  existsb ordered (filter (sg oy ox) [0; 1; 2; 3]).

Definition slalom_local (h w oy ox : nat) (black gs : list Z) (ans : answer) : bool :=
  slalom_local_on h w oy ox black gs (fun k => isb (getz ans k)).

Lemma rules_slalom_local h w oy ox black gs ans :
  rules_slalom [[Z.of_nat h; Z.of_nat w]; [oy; ox]; black; gs] ans =
  Nat.eqb (length ans) (n_lattice_edges h w) && forallb is01 ans &&
  single_loop_b (lattice h w) (fun k => isb (getz ans k)) &&
  slalom_local h w (zn oy) (zn ox) black gs ans.
Proof.
  unfold rules_slalom, slalom_local, slalom_local_on.
  change (sec [[Z.of_nat h; Z.of_nat w]; [oy; ox]; black; gs] 1) with [oy; ox].
  change (sec [[Z.of_nat h; Z.of_nat w]; [oy; ox]; black; gs] 2) with black.
  change (sec [[Z.of_nat h; Z.of_nat w]; [oy; ox]; black; gs] 3) with gs.
  change (getz [oy; ox] 0) with oy. change (getz [oy; ox] 1) with ox.
  destruct (sl_dims h w [[oy; ox]; black; gs]) as [-> ->].
  rewrite !andb_assoc. reflexivity.
Qed.

(* ------------------------------------------------------------------------------------------------------ *)
(* 1. soundness                                                                                            *)
Section Sound.
  Variables (fh fw G base : nat) (o : cell) (black gs : list Z) (en : env) (on : nat -> bool).
  Let h := S fh.
  Let w := S fw.
  Let N := frame_n fh fw.
  Let L := lattice h w.
  Let sg (c : cell) (d : nat) : bool := seg h w on (fst c) (snd c) d.
  Let onb' := onb fh fw.
  Let pv := sl_pv en h w base.
  Let ov := sl_ov en w base.
  Let ins (c : cell) (d : nat) := in_sem en h w (fst c) (snd c) d.
  Let outs (c : cell) (d : nat) := out_sem en h w (fst c) (snd c) d.
  Let dirs (c : cell) := sl_dirs h w (fst c) (snd c).

  Hypothesis Hon : forall k, k < N -> eb en k = on k.
  Hypothesis Hloop : single_loop_b L on = true.
  Hypothesis HG : G = n_gates gs.
  Hypothesis WF : sl_wf_facts h w o black gs.
  Hypothesis Hcnt : forall k, k < G -> count pv (gate_cells gs k) = 1.
  Hypothesis Hpo : pv o = true.
  Hypothesis Hcell : forall c, onb' c -> cell_sem en h w base (fst o) (snd o) black gs c = true.
  Hypothesis Hbnd : forall c, onb' c -> (0 <= ov c <= Z.of_nat G)%Z.

  Lemma snd_ins c d : onb' c -> In d (dirs c) -> ins c d = sg c d && xorb (sl_dr en h w (sl_edge fh fw (fst c) (snd c) d)) (sl_flag d).
  Proof.
    intros Hc Hd. unfold ins, in_sem. replace (h - 1) with fh by (unfold h; lia). replace (w - 1) with fw by (unfold w; lia).
    f_equal. unfold sl_lp. rewrite Hon by (apply sl_edge_lt_dirs; [apply Hc|apply Hc|exact Hd]).
    symmetry. apply (seg_edge_on fh fw on c d Hd).
  Qed.
  Lemma snd_outs c d : onb' c -> In d (dirs c) -> outs c d = sg c d && Bool.eqb (sl_dr en h w (sl_edge fh fw (fst c) (snd c) d)) (sl_flag d).
  Proof.
    intros Hc Hd. unfold outs, out_sem. replace (h - 1) with fh by (unfold h; lia). replace (w - 1) with fw by (unfold w; lia).
    f_equal. unfold sl_lp. rewrite Hon by (apply sl_edge_lt_dirs; [apply Hc|apply Hc|exact Hd]).
    symmetry. apply (seg_edge_on fh fw on c d Hd).
  Qed.

  Lemma snd_in_or_out c d : onb' c -> In d (dirs c) -> sg c d = true -> (ins c d = true /\ outs c d = false) \/ (ins c d = false /\ outs c d = true).
  Proof.
    intros Hc Hd Hs. rewrite snd_ins, snd_outs, Hs by assumption.
    destruct (sl_dr en h w _), (sl_flag d); simpl; auto.
  Qed.

  Lemma snd_cell c : onb' c ->
    Z.of_nat (count (ins c) (dirs c)) = (if pv c then 1 else 0)%Z /\
    Z.of_nat (count (outs c) (dirs c)) = (if pv c then 1 else 0)%Z.
  Proof.
    intros Hc. pose proof (Hcell c Hc) as H. destruct c as [y x]. unfold cell_sem in H.
    apply andb_prop in H. destruct H as [H _]. apply andb_prop in H. destruct H as [H1 H2].
    apply Z.eqb_eq in H1. apply Z.eqb_eq in H2. split; assumption.
  Qed.

  (* passed = on the loop *)
  Lemma snd_passed c : onb' c -> pv c = on_line L on (cix fw c).
  Proof.
    intros Hc. destruct (snd_cell c Hc) as [Hi Ho].
    destruct (on_line L on (cix fw c)) eqn:E.
    - apply (on_line_pos fh fw on c Hc) in E. destruct (deg4_pos_dir fh fw on c E) as [d [Hd Hs]].
      pose proof (seg_in_dirs fh fw on c d Hd Hs) as Hin.
      destruct (pv c); [reflexivity|]. exfalso.
      destruct (snd_in_or_out c d Hc Hin Hs) as [[H _]|[_ H]].
      + assert (0 < count (ins c) (dirs c)).
        { unfold count. assert (In d (filter (ins c) (dirs c))) by (apply filter_In; auto).
          destruct (filter (ins c) (dirs c)); [contradiction|simpl; lia]. }
        lia.
      + assert (0 < count (outs c) (dirs c)).
        { unfold count. assert (In d (filter (outs c) (dirs c))) by (apply filter_In; auto).
          destruct (filter (outs c) (dirs c)); [contradiction|simpl; lia]. }
        lia.
    - destruct (pv c); [|reflexivity]. exfalso.
      assert (Hp : 0 < count (ins c) (dirs c)) by lia.
      apply count_pos_in in Hp. destruct Hp as [d [Hd Hi']].
      rewrite snd_ins in Hi' by assumption. apply andb_prop in Hi'. destruct Hi' as [Hs _].
      assert (Hpos : 0 < deg4 fh fw on c) by (apply (deg4_pos fh fw on c d); [eapply sl_dirs_lt; exact Hd|exact Hs]).
      apply (on_line_pos fh fw on c Hc) in Hpos. unfold L, h, w in E. rewrite E in Hpos. discriminate.
  Qed.
  Lemma snd_o_onb : onb' o.
  Proof. destruct WF as [[H1 H2] _ _ _ _]. split; [exact H1|exact H2]. Qed.

  Lemma snd_o_pos : 0 < deg4 fh fw on o.
  Proof.
    apply (on_line_pos fh fw on o snd_o_onb). unfold h, w, L in *. rewrite <- snd_passed by exact snd_o_onb. exact Hpo.
  Qed.

  Lemma snd_deg c : onb' c -> deg4 fh fw on c = 0 \/ deg4 fh fw on c = 2.
  Proof. apply (proj1 (sl_loop_facts fh fw on o Hloop snd_o_onb snd_o_pos)). Qed.
  Lemma snd_conn c : onb' c -> 0 < deg4 fh fw on c -> reach L all_vertices_ok on (cix fw o) (cix fw c).
  Proof. apply (proj2 (sl_loop_facts fh fw on o Hloop snd_o_onb snd_o_pos)). Qed.

  Lemma snd_not_black c : onb' c -> pv c = true -> at2 black w (fst c) (snd c) = 0%Z.
  Proof.
    intros Hc Hp. pose proof (Hcell c Hc) as H. destruct c as [y x]. unfold cell_sem in H.
    apply andb_prop in H. destruct H as [_ H]. cbn [fst snd].
    destruct (at2 black w y x =? 0)%Z eqn:E; [apply Z.eqb_eq in E; exact E|].
    cbn [negb] in H. fold pv in H. rewrite Hp in H. discriminate.
  Qed.

  Lemma snd_gate_onb k c : k < G -> In c (gate_cells gs k) -> onb' c.
  Proof. intros Hk Hc. rewrite HG in Hk. destruct WF as [_ H _ _ _]. destruct (H k c Hk Hc). split; assumption. Qed.

  Lemma snd_gate_count k : k < G -> count (fun c => on_line L on (cix fw c)) (gate_cells gs k) = 1.
  Proof.
    intros Hk. rewrite <- (Hcnt k Hk). apply count_ext_in. intros c Hc. symmetry. apply snd_passed.
    apply (snd_gate_onb k c Hk Hc).
  Qed.

  (* a neighbour along a drawn segment is on the loop *)
  Lemma snd_step_on_line c d : onb' c -> d < 4 -> sg c d = true -> on_line L on (cix fw (stepc c d)) = true.
  Proof.
    intros Hc Hd Hs. apply (on_line_pos fh fw on _ (seg_onb fh fw on c d Hc Hs)).
    apply (deg4_pos fh fw on _ (opposite d) (opposite_lt _ Hd)). apply (seg_sym fh fw on c d Hc Hd Hs).
  Qed.

  (* rule 3, second half: the loop goes straight through the gate *)
  Lemma snd_straight k c : k < G -> In c (gate_cells gs k) -> on_line L on (cix fw c) = true ->
    if (gate_field gs k 2 =? 0)%Z then sg c 0 && sg c 1 = true else sg c 2 && sg c 3 = true.
  Proof.
    intros Hk Hc Hv. pose proof (snd_gate_onb k c Hk Hc) as Hoc.
    assert (H2 : deg4 fh fw on c = 2).
    { destruct (snd_deg c Hoc) as [H0|H2]; [|exact H2]. apply (on_line_pos fh fw on c Hoc) in Hv. lia. }
    (* no drawn segment towards a cell that is another cell of the gate, a black cell, or off the board *)
    assert (Hside : forall d, d < 4 -> sg c d = true ->
               ~ In (stepc c d) (gate_cells gs k) /\ at2 black w (fst (stepc c d)) (snd (stepc c d)) = 0%Z).
    { intros d Hd Hs. pose proof (snd_step_on_line c d Hoc Hd Hs) as Hv'.
      pose proof (seg_onb fh fw on c d Hoc Hs) as Hoc'. split.
      - intros Hin. assert (E : c = stepc c d).
        { apply (count_one_unique _ _ _ _ (snd_gate_count k Hk) Hc Hin Hv Hv'). }
        apply (step_neq fh fw on c d Hd Hs). symmetry. exact E.
      - apply snd_not_black; [exact Hoc'|]. rewrite snd_passed by exact Hoc'. exact Hv'. }
    rewrite HG in Hk. destruct WF as [_ _ _ _ Hends]. specialize (Hends k c Hk Hc). unfold gate_hor in Hends.
    destruct c as [y x]. unfold onb', onb in Hoc. cbn [fst snd] in *.
    destruct (gate_field gs k 2 =? 0)%Z.
    - destruct Hends as [Hl Hr].
      assert (S2 : sg (y, x) 2 = false).
      { destruct (sg (y, x) 2) eqn:E; [|reflexivity]. exfalso. destruct (Hside 2 ltac:(lia) E) as [Hn Hb].
        unfold stepc in Hn, Hb. cbn [step_dir fst snd] in Hn, Hb.
        destruct Hl as [Hl|[Hl|Hl]]; [|contradiction|contradiction].
        unfold sg, seg in E. cbn [fst snd] in E. subst x. simpl in E. discriminate. }
      assert (S3 : sg (y, x) 3 = false).
      { destruct (sg (y, x) 3) eqn:E; [|reflexivity]. exfalso. destruct (Hside 3 ltac:(lia) E) as [Hn Hb].
        unfold stepc in Hn, Hb. cbn [step_dir fst snd] in Hn, Hb.
        destruct Hr as [Hr|[Hr|Hr]]; [|contradiction|contradiction].
        unfold sg, seg in E. cbn [fst snd] in E. apply andb_prop in E. destruct E as [E _]. apply Nat.ltb_lt in E.
        unfold w in *. lia. }
      unfold deg4 in H2. fold h w in H2. change (seg h w on (fst (y, x)) (snd (y, x))) with (sg (y, x)) in H2.
      rewrite S2, S3 in H2. destruct (sg (y, x) 0), (sg (y, x) 1); simpl in H2; first [reflexivity|lia].
    - destruct Hends as [Hl Hr].
      assert (S0 : sg (y, x) 0 = false).
      { destruct (sg (y, x) 0) eqn:E; [|reflexivity]. exfalso. destruct (Hside 0 ltac:(lia) E) as [Hn Hb].
        unfold stepc in Hn, Hb. cbn [step_dir fst snd] in Hn, Hb.
        destruct Hl as [Hl|[Hl|Hl]]; [|contradiction|contradiction].
        unfold sg, seg in E. cbn [fst snd] in E. subst y. simpl in E. discriminate. }
      assert (S1 : sg (y, x) 1 = false).
      { destruct (sg (y, x) 1) eqn:E; [|reflexivity]. exfalso. destruct (Hside 1 ltac:(lia) E) as [Hn Hb].
        unfold stepc in Hn, Hb. cbn [step_dir fst snd] in Hn, Hb.
        destruct Hr as [Hr|[Hr|Hr]]; [|contradiction|contradiction].
        unfold sg, seg in E. cbn [fst snd] in E. apply andb_prop in E. destruct E as [E _]. apply Nat.ltb_lt in E.
        unfold h in *. lia. }
      unfold deg4 in H2. fold h w in H2. change (seg h w on (fst (y, x)) (snd (y, x))) with (sg (y, x)) in H2.
      rewrite S0, S1 in H2. destruct (sg (y, x) 2), (sg (y, x) 3); simpl in H2; first [reflexivity|lia].
  Qed.
  Lemma snd_out_o : exists d0, d0 < 4 /\ sg o d0 = true /\ outs o d0 = true.
  Proof.
    destruct (snd_cell o snd_o_onb) as [_ Ho]. fold pv in Hpo. rewrite Hpo in Ho.
    assert (Hp : 0 < count (outs o) (dirs o)) by lia.
    apply count_pos_in in Hp. destruct Hp as [d [Hd Hout]]. exists d.
    split; [eapply sl_dirs_lt; exact Hd|]. split; [|exact Hout].
    rewrite snd_outs in Hout by (first [exact snd_o_onb|exact Hd]). apply andb_prop in Hout. tauto.
  Qed.

  (* gate_ord along any list of cells in which each cell carries its predecessor's value, plus one on a gate *)
  Lemma ord_along (g : cell -> bool) (l : list cell) : forall prev,
    (forall i a b, nth_error (prev :: l) i = Some a -> nth_error (prev :: l) (S i) = Some b ->
                   ov b = (ov a + (if g b then 1 else 0))%Z) ->
    forall j c, nth_error (filter g l) j = Some c -> ov c = (ov prev + Z.of_nat (S j))%Z.
  Proof.
    induction l as [|b r IH]; intros prev Hrel j c Hj; [destruct j; discriminate|].
    pose proof (Hrel 0 prev b eq_refl eq_refl) as Hb.
    assert (Hrel' : forall i a b', nth_error (b :: r) i = Some a -> nth_error (b :: r) (S i) = Some b' ->
                      ov b' = (ov a + (if g b' then 1 else 0))%Z).
    { intros i a b' H1 H2. apply (Hrel (S i) a b'); assumption. }
    simpl in Hj. destruct (g b) eqn:Eg.
    - destruct j as [|j].
      + simpl in Hj. inversion Hj; subst. rewrite Hb. lia.
      + simpl in Hj. rewrite (IH b Hrel' j c Hj), Hb. lia.
    - rewrite (IH b Hrel' j c Hj), Hb. lia.
  Qed.

  Section Orient.
    Variable d0 : nat.
    Hypothesis Hd0 : d0 < 4.
    Hypothesis Hs0 : sg o d0 = true.
    Hypothesis Hout0 : outs o d0 = true.
    Let F := sl_F fh fw on o d0.
    Let cs := map fst (sl_walkd fh fw on o (h * w) (stepc o d0) d0).
    Let isg := is_gate_cell gs.
    Let met := filter isg cs.

    Lemma snd_F_all a da : In (a, da) F -> da < 4 /\ onb' a /\ sg a da = true.
    Proof. apply (sl_F_all fh fw on o d0 snd_o_onb Hd0 Hs0 snd_deg). Qed.

    (* the far end of a segment travelled away from a cell is entered through it *)
    Lemma snd_out_in p dp : onb' p -> dp < 4 -> sg p dp = true -> outs p dp = true -> ins (stepc p dp) (opposite dp) = true.
    Proof.
      intros Hp Hdp Hsp Hout.
      pose proof (seg_onb fh fw on p dp Hp Hsp) as Ha. pose proof (seg_sym fh fw on p dp Hp Hdp Hsp) as Hback.
      rewrite snd_ins by (first [exact Ha|apply (seg_in_dirs fh fw on); [apply opposite_lt; exact Hdp|exact Hback]]).
      change (sg (stepc p dp) (opposite dp) = true) in Hback. rewrite Hback. cbn [andb].
      rewrite (sl_edge_back fh fw on p dp Hdp Hsp), (sl_flag_opposite dp Hdp).
      rewrite snd_outs in Hout by (first [exact Hp|apply (seg_in_dirs fh fw on); assumption]).
      apply andb_prop in Hout. destruct Hout as [_ Hout]. apply eqb_prop in Hout. rewrite Hout.
      destruct (sl_flag dp); reflexivity.
    Qed.

    Lemma snd_pv_of_in c d : onb' c -> In d (dirs c) -> ins c d = true -> pv c = true.
    Proof.
      intros Hc Hd Hi. destruct (snd_cell c Hc) as [H _]. destruct (pv c); [reflexivity|]. exfalso.
      assert (0 < count (ins c) (dirs c)).
      { unfold count. assert (In d (filter (ins c) (dirs c))) by (apply filter_In; auto).
        destruct (filter (ins c) (dirs c)); [contradiction|simpl; lia]. }
      lia.
    Qed.

    Lemma snd_orient i : forall a da, nth_error F i = Some (a, da) -> outs a da = true.
    Proof.
      induction i as [|i IH]; intros a da Hi.
      - unfold F, sl_F in Hi. simpl in Hi. inversion Hi; subst. exact Hout0.
      - destruct (nth_error F i) as [[p dp]|] eqn:Ep.
        2:{ apply nth_error_None in Ep. assert (S i < length F) by (apply nth_error_Some; rewrite Hi; discriminate). lia. }
        pose proof (IH p dp eq_refl) as Hout.
        destruct (sl_F_chain fh fw on o d0 snd_o_onb Hd0 Hs0 snd_deg i p dp a da Ep Hi) as [Hst Hne].
        destruct (snd_F_all p dp (nth_error_In _ _ Ep)) as [Hdp [Hop Hsp]].
        destruct (snd_F_all a da (nth_error_In _ _ Hi)) as [Hda [Hoa Hsa]].
        pose proof (snd_out_in p dp Hop Hdp Hsp Hout) as Hin. rewrite Hst in Hin.
        assert (Hback : sg a (opposite dp) = true) by (rewrite <- Hst; apply (seg_sym fh fw on p dp Hop Hdp Hsp)).
        assert (Hbd : In (opposite dp) (dirs a)) by (apply (seg_in_dirs fh fw on); [apply opposite_lt; exact Hdp|exact Hback]).
        pose proof (snd_pv_of_in a (opposite dp) Hoa Hbd Hin) as Hpa.
        destruct (snd_cell a Hoa) as [_ Hoc]. rewrite Hpa in Hoc.
        assert (Hp : 0 < count (outs a) (dirs a)) by lia.
        apply count_pos_in in Hp. destruct Hp as [d [Hd Hod]].
        assert (Hsd : sg a d = true).
        { rewrite snd_outs in Hod by assumption. apply andb_prop in Hod. tauto. }
        destruct (sl_F_dirs fh fw on o d0 snd_o_onb Hd0 Hs0 snd_deg a da p dp d (nth_error_In _ _ Hi) (nth_error_In _ _ Ep) Hst
                    (sl_dirs_lt _ _ _ _ _ Hd) Hsd) as [->| ->]; [exact Hod|].
        exfalso. destruct (snd_in_or_out a (opposite dp) Hoa Hbd Hback) as [[_ H]|[H _]]; congruence.
    Qed.

    Lemma snd_F_fst i a : nth_error (o :: cs) i = Some a <-> exists da, nth_error F i = Some (a, da).
    Proof.
      assert (E : o :: cs = map fst F) by reflexivity. rewrite E, nth_error_map. split.
      - destruct (nth_error F i) as [[a' da]|]; simpl; intros H; inversion H; subst. exists da. reflexivity.
      - intros [da ->]. reflexivity.
    Qed.

    Lemma snd_ord_step i a b : nth_error (o :: cs) i = Some a -> nth_error (o :: cs) (S i) = Some b ->
      ov b = (ov a + (if isg b then 1 else 0))%Z.
    Proof.
      intros Ha Hb. apply snd_F_fst in Ha. apply snd_F_fst in Hb. destruct Ha as [da Ha], Hb as [db Hb].
      destruct (sl_F_chain fh fw on o d0 snd_o_onb Hd0 Hs0 snd_deg i a da b db Ha Hb) as [Hst Hne].
      destruct (snd_F_all a da (nth_error_In _ _ Ha)) as [Hda [Hoa Hsa]].
      destruct (snd_F_all b db (nth_error_In _ _ Hb)) as [Hdb [Hob Hsb]].
      pose proof (snd_out_in a da Hoa Hda Hsa (snd_orient i a da Ha)) as Hin. rewrite Hst in Hin.
      assert (Hback : sg b (opposite da) = true) by (rewrite <- Hst; apply (seg_sym fh fw on a da Hoa Hda Hsa)).
      assert (Hbd : In (opposite da) (dirs b)) by (apply (seg_in_dirs fh fw on); [apply opposite_lt; exact Hda|exact Hback]).
      pose proof (snd_pv_of_in b (opposite da) Hob Hbd Hin) as Hpb.
      assert (Hbo : b <> o).
      { intros ->. pose proof (sl_F_nodup fh fw on o d0 snd_o_onb Hd0 Hs0 snd_deg) as Hnd.
        assert (H0 : nth_error (map fst F) 0 = Some o) by reflexivity.
        assert (H1 : nth_error (map fst F) (S i) = Some o) by (rewrite nth_error_map, Hb; reflexivity).
        assert (0 = S i); [|discriminate].
        apply (proj1 (NoDup_nth_error (map fst F)) Hnd); [simpl; lia|congruence]. }
      assert (Hstep : step_dir (fst b) (snd b) (opposite da) = a).
      { change (stepc b (opposite da) = a). rewrite <- Hst. apply (step_back fh fw on a da Hda Hsa). }
      pose proof (Hcell b Hob) as H. pose proof (snd_not_black b Hob Hpb) as Hnb.
      destruct b as [y x]. unfold cell_sem in H. apply andb_prop in H. destruct H as [_ H].
      cbn [fst snd] in *. rewrite Hnb in H. cbn [Z.eqb negb] in H.
      replace (Nat.eqb y (fst o) && Nat.eqb x (snd o)) with false in H.
      2:{ symmetry. apply andb_false_iff. destruct o as [oy ox]. cbn [fst snd].
          destruct (Nat.eqb_spec y oy) as [->|]; [|left; reflexivity]. right. apply Nat.eqb_neq. intros ->. apply Hbo. reflexivity. }
      unfold isg. rewrite <- sl_is_gate_spec. unfold sl_is_gate.
      destruct (sl_gate_id gs (y, x)) as [n|].
      - apply andb_prop in H. destruct H as [H _]. rewrite forallb_forall in H. specialize (H _ Hbd).
        unfold ins in Hin. cbn [fst snd] in Hin. rewrite Hin in H. cbn [negb orb] in H. rewrite Hstep in H.
        apply Z.eqb_eq in H. fold ov in H. lia.
      - rewrite forallb_forall in H. specialize (H _ Hbd).
        unfold ins in Hin. cbn [fst snd] in Hin. rewrite Hin in H. cbn [negb orb] in H. rewrite Hstep in H.
        apply Z.eqb_eq in H. fold ov in H. lia.
    Qed.

    Lemma snd_ord_met j c : nth_error met j = Some c -> ov c = (ov o + Z.of_nat (S j))%Z.
    Proof. apply (ord_along isg cs o). intros i a b. apply snd_ord_step. Qed.

    Lemma snd_cs_onb c : In c cs -> onb' c.
    Proof.
      intros Hc. unfold cs in Hc. apply in_map_iff in Hc. destruct Hc as [[c' dc] [<- Hin]].
      destruct (snd_F_all c' dc (or_intror Hin)) as [_ [H _]]. exact H.
    Qed.

    (* the cell at which gate k is passed *)
    Lemma snd_gate_cell k : k < G -> exists c, In c (gate_cells gs k) /\ pv c = true /\ In c met.
    Proof.
      intros Hk. pose proof (Hcnt k Hk) as Hc.
      assert (Hp : 0 < count pv (gate_cells gs k)) by lia.
      apply count_pos_in in Hp. destruct Hp as [c [Hin Hpc]]. exists c. split; [exact Hin|]. split; [exact Hpc|].
      pose proof (snd_gate_onb k c Hk Hin) as Hoc.
      apply filter_In. split.
      - assert (Hcov : In c (map fst F)).
        { apply (sl_F_cover fh fw on o d0 snd_o_onb Hd0 Hs0 snd_deg snd_conn c Hoc).
          apply (on_line_pos fh fw on c Hoc). fold h w L. rewrite <- snd_passed by exact Hoc. exact Hpc. }
        destruct Hcov as [E|Hcov]; [|exact Hcov]. exfalso. simpl in E. subst c.
        rewrite HG in Hk. destruct WF as [_ _ Hno _ _]. exact (Hno k Hk Hin).
      - apply is_gate_cell_spec. exists k. split; [rewrite <- HG; exact Hk|]. apply cell_in_In. exact Hin.
    Qed.

    Lemma snd_met_many n : n <= G -> exists l, length l = n /\ NoDup l /\
      forall c, In c l -> In c met /\ exists k, k < n /\ In c (gate_cells gs k).
    Proof.
      induction n as [|n IH]; intros Hn.
      - exists []. split; [reflexivity|]. split; [constructor|]. intros c [].
      - destruct (IH ltac:(lia)) as [l [Hl [Hnd Hall]]].
        destruct (snd_gate_cell n ltac:(lia)) as [c [Hin [_ Hm]]].
        exists (c :: l). split; [simpl; lia|]. split.
        + constructor; [|exact Hnd]. intros Hcl. destruct (Hall c Hcl) as [_ [k [Hk Hink]]].
          destruct WF as [_ _ _ Hdis _]. assert (k = n) by (apply (Hdis k n c); try lia; assumption). lia.
        + intros c' [<-|Hc'].
          * split; [exact Hm|]. exists n. split; [lia|exact Hin].
          * destruct (Hall c' Hc') as [H1 [k [Hk H2]]]. split; [exact H1|]. exists k. split; [lia|exact H2].
    Qed.

    Lemma snd_met_length : G <= length met.
    Proof.
      destruct (snd_met_many G (le_n _)) as [l [Hl [Hnd Hall]]]. rewrite <- Hl.
      apply NoDup_incl_length; [exact Hnd|]. intros c Hc. apply (Hall c Hc).
    Qed.

    Lemma snd_ord_o : 1 <= G -> ov o = 0%Z.
    Proof.
      intros HG1. pose proof snd_met_length as Hlen.
      destruct (nth_error met (length met - 1)) as [c|] eqn:E.
      2:{ apply nth_error_None in E. lia. }
      pose proof (snd_ord_met _ c E) as Hov.
      assert (Hoc : onb' c).
      { apply snd_cs_onb. apply nth_error_In in E. apply filter_In in E. tauto. }
      pose proof (Hbnd c Hoc) as Hb. pose proof (Hbnd o snd_o_onb) as Hbo. lia.
    Qed.

    Lemma snd_ordered k : k < G ->
      let n := gate_field gs k 4 in
      ((n <? 1)%Z || match nth_error met (zn n - 1) with Some c => in_gate gs k c | None => false end) = true.
    Proof.
      intros Hk n. destruct (n <? 1)%Z eqn:En; [reflexivity|]. apply Z.ltb_ge in En. cbn [orb].
      destruct (snd_gate_cell k Hk) as [c [Hin [Hpc Hm]]].
      pose proof (snd_gate_onb k c Hk Hin) as Hoc.
      destruct (In_nth_error _ _ Hm) as [j Hj].
      pose proof (snd_ord_met j c Hj) as Hov. rewrite (snd_ord_o ltac:(lia)) in Hov.
      (* the numbered-gate constraint at c *)
      assert (Hid : sl_gate_id gs c = Some n).
      { apply sl_gate_id_some; [rewrite <- HG; exact Hk|apply cell_in_In; exact Hin|].
        intros k' Hk' Hin'. apply cell_in_In in Hin'. destruct WF as [_ _ _ Hdis _].
        apply (Hdis k' k c); try assumption. rewrite <- HG. exact Hk. }
      assert (Hco : c <> o).
      { intros ->. rewrite HG in Hk. destruct WF as [_ _ Hno _ _]. exact (Hno k Hk Hin). }
      pose proof (Hcell c Hoc) as H. pose proof (snd_not_black c Hoc Hpc) as Hnb.
      destruct c as [y x]. unfold cell_sem in H. apply andb_prop in H. destruct H as [_ H].
      cbn [fst snd] in *. rewrite Hnb in H. cbn [Z.eqb negb] in H.
      replace (Nat.eqb y (fst o) && Nat.eqb x (snd o)) with false in H.
      2:{ symmetry. apply andb_false_iff. destruct o as [oy ox]. cbn [fst snd].
          destruct (Nat.eqb_spec y oy) as [->|]; [|left; reflexivity]. right. apply Nat.eqb_neq. intros ->. apply Hco. reflexivity. }
      rewrite Hid in H. apply andb_prop in H. destruct H as [_ H].
      replace (1 <=? n)%Z with true in H by (symmetry; apply Z.leb_le; lia).
      fold pv in H. rewrite Hpc in H. cbn [negb orb] in H. apply Z.eqb_eq in H. fold ov in H.
      replace (zn n - 1) with j by (unfold zn; lia). unfold cell in *. rewrite Hj. apply cell_in_In. exact Hin.
    Qed.
  End Orient.

  Theorem slalom_sound : slalom_local_on h w (fst o) (snd o) black gs on = true.
  Proof.
    unfold slalom_local_on.
    destruct snd_out_o as [d0 [Hd0 [Hs0 Hout0]]].
    pose proof snd_o_onb as [Hoy Hox].
    apply andb_true_iff; split; [apply andb_true_iff; split; [apply andb_true_iff; split; [apply andb_true_iff; split;
      [apply andb_true_iff; split|]|]|]|].
    - apply Nat.ltb_lt. exact Hoy.
    - apply Nat.ltb_lt. exact Hox.
    - change (on_line L on (cix fw o) = true). rewrite <- snd_passed by exact snd_o_onb. exact Hpo.
    - apply forallb_forall. intros c Hc. destruct c as [y x]. apply cells_in in Hc.
      assert (Hoc : onb' (y, x)) by (split; simpl; unfold h, w in Hc; lia).
      cbn [fst snd]. destruct (at2 black w y x =? 0)%Z eqn:E; [reflexivity|]. cbn [orb]. apply negb_true_iff.
      change (on_line L on (cix fw (y, x)) = false). rewrite <- snd_passed by exact Hoc.
      destruct (pv (y, x)) eqn:Ep; [|reflexivity]. pose proof (snd_not_black (y, x) Hoc Ep) as H. cbn [fst snd] in H.
      rewrite H in E. discriminate.
    - apply forallb_forall. intros k Hk. apply in_seq in Hk. rewrite <- HG in Hk. apply andb_true_iff. split.
      + apply Nat.eqb_eq. apply (snd_gate_count k). lia.
      + apply forallb_forall. intros c Hc.
        change (negb (on_line L on (cix fw c)) ||
                (if (gate_field gs k 2 =? 0)%Z then sg c 0 && sg c 1 else sg c 2 && sg c 3) = true).
        destruct (on_line L on (cix fw c)) eqn:Ev; [|reflexivity]. cbn [negb orb].
        pose proof (snd_straight k c ltac:(lia) Hc Ev) as H. destruct (gate_field gs k 2 =? 0)%Z; exact H.
    - apply existsb_exists. exists d0. split.
      + apply filter_In. split; [|exact Hs0]. destruct d0 as [|[|[|[|d0]]]]; simpl; auto; lia.
      + destruct (step_dir (fst o) (snd o) d0) as [y1 x1] eqn:Est.
        apply forallb_forall. intros k Hk. apply in_seq in Hk. rewrite <- HG in Hk.
        pose proof (snd_ordered d0 Hd0 Hs0 Hout0 k ltac:(lia)) as H. cbv zeta in H.
        rewrite (sl_walkd_fst fh fw on o (h * w) (stepc o d0) d0) in H. unfold stepc in H. rewrite Est in H.
        exact H.
  Qed.
End Sound.

(* ------------------------------------------------------------------------------------------------------ *)
(* 2. completeness                                                                                         *)
Lemma cell_sem_pair en h w base oy ox black gs c :
  cell_sem en h w base oy ox black gs c = cell_sem en h w base oy ox black gs (fst c, snd c).
Proof. destruct c; reflexivity. Qed.

Section Complete.
  Variables (fh fw G base : nat) (o : cell) (black gs : list Z) (on : nat -> bool) (d0 : nat).
  Let h := S fh.
  Let w := S fw.
  Let N := frame_n fh fw.
  Let L := lattice h w.
  Let sg (c : cell) (d : nat) : bool := seg h w on (fst c) (snd c) d.
  Let onb' := onb fh fw.
  Let dirs (c : cell) := sl_dirs h w (fst c) (snd c).
  Let vis (c : cell) := on_line L on (cix fw c).
  Let isg := is_gate_cell gs.

  Hypothesis Hloop : single_loop_b L on = true.
  Hypothesis HG : G = n_gates gs.
  Hypothesis WF : sl_wf_facts h w o black gs.
  (* the rules *)
  Hypothesis Hvo : vis o = true.
  Hypothesis Hblack : forall c, onb' c -> at2 black w (fst c) (snd c) <> 0%Z -> vis c = false.
  Hypothesis Hgates : forall k, k < G -> count vis (gate_cells gs k) = 1.
  Hypothesis Hd0 : d0 < 4.
  Hypothesis Hs0 : sg o d0 = true.
  Let F := sl_F fh fw on o d0.
  Let cs := map fst (sl_walkd fh fw on o (h * w) (stepc o d0) d0).
  Let met := filter isg cs.
  Hypothesis Hord : forall k, k < G -> (1 <= gate_field gs k 4)%Z ->
    exists c, nth_error met (zn (gate_field gs k 4) - 1) = Some c /\ In c (gate_cells gs k).

  Lemma cmp_o_onb : onb' o.
  Proof. destruct WF as [[H1 H2] _ _ _ _]. split; [exact H1|exact H2]. Qed.
  Lemma cmp_o_pos : 0 < deg4 fh fw on o.
  Proof. apply (on_line_pos fh fw on o cmp_o_onb). exact Hvo. Qed.
  Lemma cmp_deg c : onb' c -> deg4 fh fw on c = 0 \/ deg4 fh fw on c = 2.
  Proof. apply (proj1 (sl_loop_facts fh fw on o Hloop cmp_o_onb cmp_o_pos)). Qed.
  Lemma cmp_conn c : onb' c -> 0 < deg4 fh fw on c -> reach L all_vertices_ok on (cix fw o) (cix fw c).
  Proof. apply (proj2 (sl_loop_facts fh fw on o Hloop cmp_o_onb cmp_o_pos)). Qed.

  Lemma cmp_F_all a da : In (a, da) F -> da < 4 /\ onb' a /\ sg a da = true.
  Proof. apply (sl_F_all fh fw on o d0 cmp_o_onb Hd0 Hs0 cmp_deg). Qed.
  Lemma cmp_F_nodup : NoDup (map fst F).
  Proof. apply (sl_F_nodup fh fw on o d0 cmp_o_onb Hd0 Hs0 cmp_deg). Qed.

  Lemma cmp_cs_nodup : NoDup cs /\ ~ In o cs.
  Proof. pose proof cmp_F_nodup as H. change (map fst F) with (o :: cs) in H. inversion H; subst. split; assumption. Qed.

  Lemma cmp_cs_onb c : In c cs -> onb' c.
  Proof.
    intros Hc. unfold cs in Hc. apply in_map_iff in Hc. destruct Hc as [[c' dc] [<- Hin]].
    destruct (cmp_F_all c' dc (or_intror Hin)) as [_ [H _]]. exact H.
  Qed.

  Lemma cmp_F_vis a da : In (a, da) F -> vis a = true.
  Proof.
    intros H. destruct (cmp_F_all a da H) as [Hda [Hoa Hsa]].
    apply (on_line_pos fh fw on a Hoa). apply (deg4_pos fh fw on a da Hda Hsa).
  Qed.

  Lemma cmp_cover c : onb' c -> vis c = true -> In c (o :: cs).
  Proof.
    intros Hc Hv. change (o :: cs) with (map fst F).
    apply (sl_F_cover fh fw on o d0 cmp_o_onb Hd0 Hs0 cmp_deg cmp_conn c Hc). apply (on_line_pos fh fw on c Hc). exact Hv.
  Qed.

  (* ---- the values of the auxiliary variables *)
  Definition cmp_dirv (e : nat) : bool :=
    existsb (fun q : cell * nat => Nat.eqb (sl_edge fh fw (fst (fst q)) (snd (fst q)) (snd q)) e && sl_flag (snd q)) F.
  Definition cmp_ordv (idx : nat) : Z :=
    match cpos fw idx cs with Some i => Z.of_nat (count isg (firstn (S i) cs)) | None => 0%Z end.
  Definition cmp_later : env :=
    {| eb := fun i => on_line L on (i - (base + h * w)); ei := fun i => cmp_ordv (i - base) |}.
  Let ordc (c : cell) : Z := cmp_ordv (cix fw c).

  Lemma cmp_dirv_F c d : In (c, d) F -> cmp_dirv (sl_edge fh fw (fst c) (snd c) d) = sl_flag d.
  Proof.
    intros Hin. destruct (sl_flag d) eqn:Ef.
    - apply existsb_exists. exists (c, d). split; [exact Hin|]. cbn [fst snd]. rewrite Nat.eqb_refl, Ef. reflexivity.
    - destruct (cmp_dirv _) eqn:E; [|reflexivity]. exfalso.
      apply existsb_exists in E. destruct E as [[c' d'] [Hin' E]]. cbn [fst snd] in E.
      apply andb_prop in E. destruct E as [E Ef']. apply Nat.eqb_eq in E.
      destruct (cmp_F_all c d Hin) as [Hd [Hoc Hsc]]. destruct (cmp_F_all c' d' Hin') as [Hd' [Hoc' Hsc']].
      destruct (sl_edge_inj fh fw on c d c' d' Hoc Hoc' Hd Hd' Hsc Hsc' (eq_sym E)) as [[-> ->]|[-> ->]].
      + congruence.
      + destruct (sl_F_succ fh fw on o d0 cmp_o_onb Hd0 Hs0 cmp_deg c d Hin) as [db [Hb Hne]].
        pose proof (nodup_fst_unique _ _ _ _ cmp_F_nodup Hb Hin') as Edb. contradiction.
  Qed.

  Lemma cmp_ordc_nth i c : nth_error cs i = Some c -> ordc c = Z.of_nat (count isg (firstn (S i) cs)).
  Proof.
    intros Hi. unfold ordc, cmp_ordv. rewrite (cpos_nth fh fw cs (proj1 cmp_cs_nodup) cmp_cs_onb i c Hi). reflexivity.
  Qed.
  Lemma cmp_ordc_out c : onb' c -> ~ In c cs -> ordc c = 0%Z.
  Proof. intros Hc Hn. unfold ordc, cmp_ordv. rewrite (cpos_none fh fw cs c cmp_cs_onb Hc Hn). reflexivity. Qed.

  Lemma cmp_met_le : length met <= G.
  Proof.
    set (gate_of := fun c : cell => match find (fun k => in_gate gs k c) (seq 0 G) with Some k => k | None => 0 end).
    assert (Hof : forall c, In c met -> gate_of c < G /\ In c (gate_cells gs (gate_of c)) /\ vis c = true).
    { intros c Hc. apply filter_In in Hc. destruct Hc as [Hcs Hg].
      apply is_gate_cell_spec in Hg. destruct Hg as [k [Hk Hin]]. rewrite <- HG in Hk.
      destruct (find_some_seq (fun k => in_gate gs k c) G k Hk Hin) as [k' [E [Hk' Hin']]].
      unfold gate_of. rewrite E. split; [exact Hk'|]. split; [apply cell_in_In; exact Hin'|].
      unfold cs in Hcs. apply in_map_iff in Hcs. destruct Hcs as [[c' dc] [<- Hq]]. apply (cmp_F_vis c' dc). right. exact Hq. }
    assert (Hnd : NoDup (map gate_of met)).
    { apply NoDup_map_inj_on; [apply NoDup_filter; exact (proj1 cmp_cs_nodup)|].
      intros a b Ha Hb E. destruct (Hof a Ha) as [Hka [Hina Hva]]. destruct (Hof b Hb) as [_ [Hinb Hvb]].
      rewrite <- E in Hinb. apply (count_one_unique vis _ a b (Hgates _ Hka) Hina Hinb Hva Hvb). }
    assert (Hincl : incl (map gate_of met) (seq 0 G)).
    { intros k Hk. apply in_map_iff in Hk. destruct Hk as [c [<- Hc]]. apply in_seq. destruct (Hof c Hc). lia. }
    pose proof (NoDup_incl_length Hnd Hincl) as H. rewrite map_length, seq_length in H. exact H.
  Qed.

  Lemma cmp_ordv_bounds idx : (0 <= cmp_ordv idx <= Z.of_nat G)%Z.
  Proof.
    unfold cmp_ordv. destruct (cpos fw idx cs) as [i|]; [|lia].
    pose proof (count_firstn_le isg cs (S i)) as H1. pose proof cmp_met_le as H2.
    unfold met in H2. rewrite <- count_filter_length in H2. lia.
  Qed.

  (* ---- an assignment carrying those values *)
  Variable en : env.
  Hypothesis Hlow : forall k, k < N -> eb en k = on k.
  Hypothesis Hdir : forall k, k < N -> eb en (N + k) = cmp_dirv k.
  Hypothesis Hlat : forall i, base <= i -> eb en i = eb cmp_later i /\ ei en i = ei cmp_later i.
  Let pv := sl_pv en h w base.
  Let ov := sl_ov en w base.
  Let ins (c : cell) (d : nat) := in_sem en h w (fst c) (snd c) d.
  Let outs (c : cell) (d : nat) := out_sem en h w (fst c) (snd c) d.

  Lemma cmp_pv c : pv c = vis c.
  Proof.
    unfold pv, sl_pv, sl_pid. destruct (Hlat (base + h * w + cidx w c) ltac:(lia)) as [E _]. rewrite E. simpl.
    unfold vis, cix, cidx. f_equal. unfold w. lia.
  Qed.
  Lemma cmp_ov c : ov c = ordc c.
  Proof.
    unfold ov, sl_ov. destruct (Hlat (base + cidx w c) ltac:(lia)) as [_ E]. rewrite E. simpl.
    unfold ordc, cix, cidx. f_equal. unfold w. lia.
  Qed.

  Lemma cmp_ins c d : onb' c -> In d (dirs c) ->
    ins c d = sg c d && xorb (cmp_dirv (sl_edge fh fw (fst c) (snd c) d)) (sl_flag d).
  Proof.
    intros Hc Hd. unfold ins, in_sem. replace (h - 1) with fh by (unfold h; lia). replace (w - 1) with fw by (unfold w; lia).
    pose proof (sl_edge_lt_dirs fh fw (fst c) (snd c) d (proj1 Hc) (proj2 Hc) Hd) as Hlt.
    unfold sl_lp, sl_dr. replace (h - 1) with fh by (unfold h; lia). replace (w - 1) with fw by (unfold w; lia).
    fold N. rewrite Hlow, Hdir by exact Hlt. f_equal. symmetry. apply (seg_edge_on fh fw on c d Hd).
  Qed.
  Lemma cmp_outs c d : onb' c -> In d (dirs c) ->
    outs c d = sg c d && Bool.eqb (cmp_dirv (sl_edge fh fw (fst c) (snd c) d)) (sl_flag d).
  Proof.
    intros Hc Hd. unfold outs, out_sem. replace (h - 1) with fh by (unfold h; lia). replace (w - 1) with fw by (unfold w; lia).
    pose proof (sl_edge_lt_dirs fh fw (fst c) (snd c) d (proj1 Hc) (proj2 Hc) Hd) as Hlt.
    unfold sl_lp, sl_dr. replace (h - 1) with fh by (unfold h; lia). replace (w - 1) with fw by (unfold w; lia).
    fold N. rewrite Hlow, Hdir by exact Hlt. f_equal. symmetry. apply (seg_edge_on fh fw on c d Hd).
  Qed.

  (* a cell off the loop: nothing goes in or out *)
  Lemma cmp_off c d : onb' c -> vis c = false -> In d (dirs c) -> ins c d = false /\ outs c d = false.
  Proof.
    intros Hc Hv Hd. rewrite cmp_ins, cmp_outs by assumption.
    assert (Hs : sg c d = false).
    { destruct (sg c d) eqn:E; [|reflexivity]. exfalso.
      assert (Hp : 0 < deg4 fh fw on c) by (apply (deg4_pos fh fw on c d); [eapply sl_dirs_lt; exact Hd|exact E]).
      apply (on_line_pos fh fw on c Hc) in Hp. unfold vis, L, h, w in Hv. congruence. }
    rewrite Hs. split; reflexivity.
  Qed.

  (* a cell of the loop, its dart (c, dc) and the dart (a, da) leading to it: in through opposite da, out through dc *)
  Lemma cmp_on c dc a da d : In (c, dc) F -> In (a, da) F -> stepc a da = c -> In d (dirs c) ->
    ins c d = Nat.eqb d (opposite da) /\ outs c d = Nat.eqb d dc.
  Proof.
    intros Hc Ha Hst Hd.
    destruct (cmp_F_all c dc Hc) as [Hdc [Hoc Hsc]]. destruct (cmp_F_all a da Ha) as [Hda [Hoa Hsa]].
    pose proof (sl_dirs_lt _ _ _ _ _ Hd) as Hd4.
    assert (Hback : sg c (opposite da) = true) by (rewrite <- Hst; apply (seg_sym fh fw on a da Hoa Hda Hsa)).
    assert (Hne : dc <> opposite da).
    { intros E. destruct (sl_F_succ fh fw on o d0 cmp_o_onb Hd0 Hs0 cmp_deg c dc Hc) as [db [Hb Hnb]].
      assert (Ec : stepc c dc = a) by (rewrite E, <- Hst; apply (step_back fh fw on a da Hda Hsa)).
      rewrite Ec in Hb. pose proof (nodup_fst_unique _ _ _ _ cmp_F_nodup Hb Ha) as Edb. subst db.
      apply Hnb. rewrite E. rewrite opposite_inv by exact Hda. reflexivity. }
    rewrite cmp_ins, cmp_outs by assumption.
    destruct (sg c d) eqn:Es.
    - destruct (sl_F_dirs fh fw on o d0 cmp_o_onb Hd0 Hs0 cmp_deg c dc a da d Hc Ha Hst Hd4 Es) as [->| ->].
      + rewrite (cmp_dirv_F c dc Hc). rewrite Nat.eqb_refl.
        replace (Nat.eqb dc (opposite da)) with false by (symmetry; apply Nat.eqb_neq; exact Hne).
        destruct (sl_flag dc); split; reflexivity.
      + assert (Ee : sl_edge fh fw (fst c) (snd c) (opposite da) = sl_edge fh fw (fst a) (snd a) da)
          by (rewrite <- Hst; apply (sl_edge_back fh fw on a da Hda Hsa)).
        rewrite Ee, (cmp_dirv_F a da Ha).
        rewrite (sl_flag_opposite da Hda), Nat.eqb_refl.
        replace (Nat.eqb (opposite da) dc) with false by (symmetry; apply Nat.eqb_neq; intros E; apply Hne; symmetry; exact E).
        destruct (sl_flag da); split; reflexivity.
    - cbn [andb]. split; symmetry; apply Nat.eqb_neq; intros ->; congruence.
  Qed.
  Lemma cmp_F_index i c : nth_error cs i = Some c ->
    exists dc a da, nth_error F (S i) = Some (c, dc) /\ nth_error F i = Some (a, da) /\ stepc a da = c /\
                    nth_error (o :: cs) i = Some a.
  Proof.
    intros Hi. assert (E : o :: cs = map fst F) by reflexivity.
    assert (H1 : nth_error (map fst F) (S i) = Some c) by (rewrite <- E; exact Hi).
    rewrite nth_error_map in H1. destruct (nth_error F (S i)) as [[c' dc]|] eqn:E1; [|discriminate].
    simpl in H1. inversion H1; subst c'.
    destruct (nth_error F i) as [[a da]|] eqn:E0.
    2:{ apply nth_error_None in E0. assert (S i < length F) by (apply nth_error_Some; rewrite E1; discriminate). lia. }
    exists dc, a, da. split; [reflexivity|]. split; [reflexivity|].
    destruct (sl_F_chain fh fw on o d0 cmp_o_onb Hd0 Hs0 cmp_deg i a da c dc E0 E1) as [Hst _]. split; [exact Hst|].
    rewrite E, nth_error_map, E0. reflexivity.
  Qed.

  Lemma cmp_ordc_o : ordc o = 0%Z.
  Proof. apply cmp_ordc_out; [exact cmp_o_onb|exact (proj2 cmp_cs_nodup)]. Qed.

  (* gate_ord of the cell before position i *)
  Lemma cmp_ordc_prev i a : nth_error (o :: cs) i = Some a -> ordc a = Z.of_nat (count isg (firstn i cs)).
  Proof.
    destruct i as [|i]; simpl; intros H.
    - inversion H; subst a. apply cmp_ordc_o.
    - apply cmp_ordc_nth. exact H.
  Qed.

  Lemma cmp_numbered c n : onb' c -> vis c = true -> sl_gate_id gs c = Some n -> (1 <= n)%Z -> ordc c = n.
  Proof.
    intros Hc Hv Hid Hn. apply sl_gate_id_inv in Hid. destruct Hid as [k [Hk [Hin ->]]]. rewrite <- HG in Hk.
    apply cell_in_In in Hin.
    destruct (Hord k Hk Hn) as [c' [Hnth Hin']].
    assert (Hm : In c' met) by (apply nth_error_In in Hnth; exact Hnth).
    pose proof Hm as Hm'. apply filter_In in Hm'. destruct Hm' as [Hcs' _].
    assert (Hv' : vis c' = true).
    { unfold cs in Hcs'. apply in_map_iff in Hcs'. destruct Hcs' as [[c2 dc] [<- Hq]]. apply (cmp_F_vis c2 dc). right. exact Hq. }
    assert (c = c') by (apply (count_one_unique vis _ c c' (Hgates k Hk) Hin Hin' Hv Hv')). subst c'.
    destruct (In_nth_error _ _ Hcs') as [i Hi].
    rewrite (cmp_ordc_nth i c Hi).
    rewrite (filter_index isg cs i (zn (gate_field gs k 4) - 1) c (proj1 cmp_cs_nodup) Hi Hnth).
    unfold zn. lia.
  Qed.

  Lemma cmp_cell c : onb' c -> cell_sem en h w base (fst o) (snd o) black gs c = true.
  Proof.
    intros Hc. destruct (vis c) eqn:Hv.
    - (* on the loop *)
      assert (Hnb : at2 black w (fst c) (snd c) = 0%Z).
      { destruct (Z.eq_dec (at2 black w (fst c) (snd c)) 0) as [E|E]; [exact E|]. rewrite (Hblack c Hc E) in Hv. discriminate. }
      destruct (cmp_cover c Hc Hv) as [Eo|Hcs].
      + (* the start *)
        subst c. destruct sl_F_last with (fh := fh) (fw := fw) (on := on) (o := o) (d0 := d0) as [z [dz [Hl [Hz Hdz]]]];
          try assumption; try exact cmp_o_onb; try exact cmp_deg.
        assert (HoF : In (o, d0) F) by (left; reflexivity).
        assert (HzF : In (z, dz) F) by (apply nth_error_In with (length (sl_F fh fw on o d0) - 1); exact Hl).
        destruct (cmp_F_all z dz HzF) as [Hdz4 [Hoz Hsz]].
        assert (Hback : sg o (opposite dz) = true) by (rewrite <- Hz; apply (seg_sym fh fw on z dz Hoz Hdz4 Hsz)).
        rewrite cell_sem_pair. unfold cell_sem.
        rewrite Hnb. cbn [Z.eqb negb]. rewrite !Nat.eqb_refl. cbn [andb]. rewrite andb_true_r.
        fold pv. rewrite <- surjective_pairing, cmp_pv, Hv. apply andb_true_iff. split; apply Z.eqb_eq; change 1%Z with (Z.of_nat 1); f_equal.
        * apply (count_one_dirs (ins o) (dirs o) (opposite dz) (sl_dirs_nodup _ _ _ _)).
          -- apply (seg_in_dirs fh fw on o); [apply opposite_lt; exact Hdz4|exact Hback].
          -- rewrite (proj1 (cmp_on o d0 z dz (opposite dz) HoF HzF Hz
                      (seg_in_dirs fh fw on o _ (opposite_lt _ Hdz4) Hback))). apply Nat.eqb_refl.
          -- intros b Hb Hib. rewrite (proj1 (cmp_on o d0 z dz b HoF HzF Hz Hb)) in Hib. apply Nat.eqb_eq in Hib. exact Hib.
        * apply (count_one_dirs (outs o) (dirs o) d0 (sl_dirs_nodup _ _ _ _)).
          -- apply (seg_in_dirs fh fw on o); assumption.
          -- rewrite (proj2 (cmp_on o d0 z dz d0 HoF HzF Hz (seg_in_dirs fh fw on o _ Hd0 Hs0))). apply Nat.eqb_refl.
          -- intros b Hb Hib. rewrite (proj2 (cmp_on o d0 z dz b HoF HzF Hz Hb)) in Hib. apply Nat.eqb_eq in Hib. exact Hib.
      + (* another cell of the loop *)
        destruct (In_nth_error _ _ Hcs) as [i Hi].
        destruct (cmp_F_index i c Hi) as [dc [a [da [E1 [E0 [Hst Ha]]]]]].
        pose proof (nth_error_In _ _ E1) as HcF. pose proof (nth_error_In _ _ E0) as HaF.
        destruct (cmp_F_all c dc HcF) as [Hdc [_ Hsc]]. destruct (cmp_F_all a da HaF) as [Hda [Hoa Hsa]].
        assert (Hback : sg c (opposite da) = true) by (rewrite <- Hst; apply (seg_sym fh fw on a da Hoa Hda Hsa)).
        assert (Hbd : In (opposite da) (dirs c)) by (apply (seg_in_dirs fh fw on c); [apply opposite_lt; exact Hda|exact Hback]).
        assert (Hco : c <> o) by (intros ->; apply (proj2 cmp_cs_nodup); exact Hcs).
        assert (Hprev : step_dir (fst c) (snd c) (opposite da) = a).
        { change (stepc c (opposite da) = a). rewrite <- Hst. apply (step_back fh fw on a da Hda Hsa). }
        assert (Hordc : ordc c = (ordc a + (if isg c then 1 else 0))%Z).
        { rewrite (cmp_ordc_nth i c Hi), (cmp_ordc_prev i a Ha), (firstn_S_nth cs i c Hi), count_app.
          unfold count. cbn [filter]. destruct (isg c); cbn [length]; lia. }
        destruct c as [y x] eqn:Ec. unfold cell_sem. cbn [fst snd] in *.
        rewrite Hnb. cbn [Z.eqb negb].
        replace (Nat.eqb y (fst o) && Nat.eqb x (snd o)) with false.
        2:{ symmetry. apply andb_false_iff. destruct (Nat.eqb_spec y (fst o)) as [Ey|]; [|left; reflexivity].
            right. apply Nat.eqb_neq. intros Ex. apply Hco. rewrite (surjective_pairing o), <- Ey, <- Ex. reflexivity. }
        fold pv. rewrite cmp_pv, Hv.
        apply andb_true_iff. split; [apply andb_true_iff; split; apply Z.eqb_eq; change 1%Z with (Z.of_nat 1); f_equal|].
        * apply (count_one_dirs (ins (y, x)) (dirs (y, x)) (opposite da) (sl_dirs_nodup _ _ _ _)); [exact Hbd| |].
          -- rewrite (proj1 (cmp_on (y, x) dc a da (opposite da) HcF HaF Hst Hbd)). apply Nat.eqb_refl.
          -- intros b Hb Hib. rewrite (proj1 (cmp_on (y, x) dc a da b HcF HaF Hst Hb)) in Hib. apply Nat.eqb_eq in Hib. exact Hib.
        * apply (count_one_dirs (outs (y, x)) (dirs (y, x)) dc (sl_dirs_nodup _ _ _ _)).
          -- apply (seg_in_dirs fh fw on (y, x)); assumption.
          -- rewrite (proj2 (cmp_on (y, x) dc a da dc HcF HaF Hst (seg_in_dirs fh fw on (y, x) _ Hdc Hsc))). apply Nat.eqb_refl.
          -- intros b Hb Hib. rewrite (proj2 (cmp_on (y, x) dc a da b HcF HaF Hst Hb)) in Hib. apply Nat.eqb_eq in Hib. exact Hib.
        * assert (Hstepd : forall d (z : Z), In d (sl_dirs h w y x) -> (ordc a = ordc (y, x) - z)%Z ->
                     negb (in_sem en h w y x d) || (sl_ov en w base (step_dir y x d) =? sl_ov en w base (y, x) - z)%Z = true).
          { intros d z Hd Hz. destruct (in_sem en h w y x d) eqn:Ei; [|reflexivity]. cbn [negb orb].
            change (ins (y, x) d = true) in Ei. rewrite (proj1 (cmp_on (y, x) dc a da d HcF HaF Hst Hd)) in Ei.
            apply Nat.eqb_eq in Ei. subst d. rewrite Hprev. fold ov. rewrite !cmp_ov. apply Z.eqb_eq. exact Hz. }
          pose proof (sl_is_gate_spec gs (y, x)) as Hisg. unfold sl_is_gate in Hisg. fold isg in Hisg.
          destruct (sl_gate_id gs (y, x)) as [n|] eqn:Eid.
          -- rewrite <- Hisg in Hordc. apply andb_true_iff. split.
             ++ apply forallb_forall. intros d Hd. apply Hstepd; [exact Hd|lia].
             ++ destruct (1 <=? n)%Z eqn:En; [|reflexivity]. apply Z.leb_le in En. cbn [negb orb].
                fold ov. rewrite cmp_ov. apply Z.eqb_eq. apply (cmp_numbered (y, x) n Hc Hv Eid En).
          -- rewrite <- Hisg in Hordc. apply forallb_forall. intros d Hd.
             replace (sl_ov en w base (y, x)) with (sl_ov en w base (y, x) - 0)%Z by lia. apply Hstepd; [exact Hd|lia].
    - (* off the loop *)
      destruct c as [y x]. unfold cell_sem. fold pv. rewrite cmp_pv, Hv. cbn [fst snd negb].
      rewrite (count_zero (in_sem en h w y x)) by (intros d Hd; apply (proj1 (cmp_off (y, x) d Hc Hv Hd))).
      rewrite (count_zero (out_sem en h w y x)) by (intros d Hd; apply (proj2 (cmp_off (y, x) d Hc Hv Hd))).
      cbn [Z.of_nat Z.eqb andb].
      destruct (negb (at2 black w y x =? 0)%Z); [reflexivity|].
      destruct (Nat.eqb y (fst o) && Nat.eqb x (snd o)); [reflexivity|].
      assert (Hall : forall z, forallb (fun d => negb (in_sem en h w y x d) ||
                        (sl_ov en w base (step_dir y x d) =? sl_ov en w base (y, x) - z)%Z) (sl_dirs h w y x) = true).
      { intros z. apply forallb_forall. intros d Hd. change (in_sem en h w y x d) with (ins (y, x) d).
        rewrite (proj1 (cmp_off (y, x) d Hc Hv Hd)). reflexivity. }
      destruct (sl_gate_id gs (y, x)) as [n|].
      + rewrite Hall. destruct (1 <=? n)%Z; reflexivity.
      + apply forallb_forall. intros d Hd. change (in_sem en h w y x d) with (ins (y, x) d).
        rewrite (proj1 (cmp_off (y, x) d Hc Hv Hd)). reflexivity.
  Qed.
  Lemma cmp_gate_in_cs c : onb' c -> isg c = true -> vis c = true -> In c cs.
  Proof.
    intros Hc Hg Hv. destruct (cmp_cover c Hc Hv) as [E|H]; [|exact H]. exfalso. subst c.
    apply is_gate_cell_spec in Hg. destruct Hg as [k [Hk Hin]]. apply cell_in_In in Hin.
    destruct WF as [_ _ Hno _ _]. exact (Hno k Hk Hin).
  Qed.

  Lemma cmp_aux : aux_sem en h w base gs = true.
  Proof.
    unfold aux_sem. apply forallb_forall. intros c0 Hc0. apply forallb_forall. intros c1 Hc1.
    destruct (Nat.ltb (cidx w c0) (cidx w c1) && sl_is_gate gs c0 && sl_is_gate gs c1) eqn:Ec; [|reflexivity].
    cbn [negb orb]. apply andb_prop in Ec. destruct Ec as [Ec Hg1]. apply andb_prop in Ec. destruct Ec as [Hlt Hg0].
    apply Nat.ltb_lt in Hlt. rewrite sl_is_gate_spec in Hg0, Hg1.
    fold pv ov. rewrite !cmp_pv, !cmp_ov.
    destruct (vis c0) eqn:Hv0; [|reflexivity]. destruct (vis c1) eqn:Hv1; [|reflexivity]. cbn [andb negb orb].
    assert (Ho0 : onb' c0) by (destruct c0; apply cells_in in Hc0; split; simpl; unfold h, w in Hc0; lia).
    assert (Ho1 : onb' c1) by (destruct c1; apply cells_in in Hc1; split; simpl; unfold h, w in Hc1; lia).
    destruct (In_nth_error _ _ (cmp_gate_in_cs c0 Ho0 Hg0 Hv0)) as [i0 Hi0].
    destruct (In_nth_error _ _ (cmp_gate_in_cs c1 Ho1 Hg1 Hv1)) as [i1 Hi1].
    rewrite (cmp_ordc_nth i0 c0 Hi0), (cmp_ordc_nth i1 c1 Hi1).
    apply negb_true_iff. apply Z.eqb_neq.
    destruct (lt_eq_lt_dec i0 i1) as [[Hl|He]|Hl].
    - pose proof (count_firstn_strict isg cs i0 i1 c1 Hl Hi1 Hg1). lia.
    - exfalso. subst i1. rewrite Hi0 in Hi1. inversion Hi1; subst c1. lia.
    - pose proof (count_firstn_strict isg cs i1 i0 c0 Hl Hi0 Hg0). lia.
  Qed.

  Theorem slalom_complete :
    in_bounds_from en base (repeat (DInt 0 (Z.of_nat G)) (h * w) ++ repeat DBool (h * w)) = true /\
    forallb (holds no_graph en) (sl_constraints h w G base (fst o) (snd o) black gs) = true.
  Proof.
    split.
    - rewrite CycleLemmas.in_bounds_from_app, CycleLemmas.in_bounds_from_bools, andb_true_r.
      apply CycleLemmas.in_bounds_from_ints. intros k Hk.
      destruct (Hlat (base + k) ltac:(lia)) as [_ E]. rewrite E. simpl.
      replace (base + k - base) with k by lia. apply cmp_ordv_bounds.
    - rewrite holds_sl_constraints.
      apply andb_true_iff; split; [apply andb_true_iff; split; [apply andb_true_iff; split|]|].
      + apply forallb_forall. intros k Hk. apply in_seq in Hk. apply Z.eqb_eq. change 1%Z with (Z.of_nat 1). f_equal.
        rewrite <- (Hgates k ltac:(lia)). apply count_ext_in. intros c _. apply cmp_pv.
      + rewrite <- surjective_pairing. fold pv. rewrite cmp_pv. exact Hvo.
      + apply forallb_forall. intros c Hc. apply cmp_cell.
        destruct c; apply cells_in in Hc; split; simpl; unfold h, w in Hc; lia.
      + apply cmp_aux.
  Qed.
End Complete.

(* ------------------------------------------------------------------------------------------------------ *)
(* 3. the theorem                                                                                          *)

(* what the rules say, piece by piece *)
Lemma slalom_local_on_inv fh fw oy ox black gs on :
  slalom_local_on (S fh) (S fw) oy ox black gs on = true ->
  on_line (lattice (S fh) (S fw)) on (cix fw (oy, ox)) = true /\
  (forall c, onb fh fw c -> at2 black (S fw) (fst c) (snd c) <> 0%Z ->
             on_line (lattice (S fh) (S fw)) on (cix fw c) = false) /\
  (forall k, k < n_gates gs ->
     count (fun c => on_line (lattice (S fh) (S fw)) on (cix fw c)) (gate_cells gs k) = 1) /\
  exists d0, d0 < 4 /\ seg (S fh) (S fw) on oy ox d0 = true /\
    forall k, k < n_gates gs -> (1 <= gate_field gs k 4)%Z ->
      exists c, nth_error (filter (is_gate_cell gs)
                             (map fst (sl_walkd fh fw on (oy, ox) (S fh * S fw) (stepc (oy, ox) d0) d0)))
                          (zn (gate_field gs k 4) - 1) = Some c /\ In c (gate_cells gs k).
Proof.
  unfold slalom_local_on. intros H.
  apply andb_prop in H. destruct H as [H Hord]. apply andb_prop in H. destruct H as [H Hg].
  apply andb_prop in H. destruct H as [H Hb]. apply andb_prop in H. destruct H as [_ Hv].
  split; [exact Hv|]. split; [|split].
  - intros c Hc Hne. rewrite forallb_forall in Hb. specialize (Hb c).
    destruct c as [y x]. destruct Hc as [Hy Hx]. cbn [fst snd] in *.
    specialize (Hb ltac:(apply cells_in; lia)). cbn [fst snd] in Hb.
    apply orb_prop in Hb. destruct Hb as [Hb|Hb]; [apply Z.eqb_eq in Hb; contradiction|].
    apply negb_true_iff in Hb. exact Hb.
  - intros k Hk. rewrite forallb_forall in Hg. specialize (Hg k ltac:(apply in_seq; lia)).
    apply andb_prop in Hg. destruct Hg as [Hg _]. apply Nat.eqb_eq in Hg. exact Hg.
  - apply existsb_exists in Hord. destruct Hord as [d0 [Hd0 Hord]].
    apply filter_In in Hd0. destruct Hd0 as [Hd0 Hs0]. exists d0.
    split; [simpl in Hd0; lia|]. split; [exact Hs0|].
    intros k Hk Hn. destruct (step_dir oy ox d0) as [y1 x1] eqn:Est.
    rewrite forallb_forall in Hord. specialize (Hord k ltac:(apply in_seq; lia)). cbv zeta in Hord.
    replace (gate_field gs k 4 <? 1)%Z with false in Hord by (symmetry; apply Z.ltb_ge; lia). cbn [orb] in Hord.
    rewrite (sl_walkd_fst fh fw on (oy, ox) (S fh * S fw) (stepc (oy, ox) d0) d0). unfold stepc. cbn [fst snd]. rewrite Est.
    cbn [fst snd].
    match type of Hord with match ?t with _ => _ end = true => destruct t as [c|] eqn:E end; [|discriminate].
    exists c. split; [exact E|]. apply cell_in_In. exact Hord.
Qed.

Theorem slalom_exact h w oy ox black gs st ans :
  slalom_wf [[Z.of_nat h; Z.of_nat w]; [oy; ox]; black; gs] = true ->
  solve_slalom_model [[Z.of_nat h; Z.of_nat w]; [oy; ox]; black; gs] = Ok st ->
  ((exists en, model_of no_graph en st /\ reads st en (seq 0 (n_lattice_edges h w)) = ans)
   <-> rules_slalom [[Z.of_nat h; Z.of_nat w]; [oy; ox]; black; gs] ans = true).
Proof.
  intros Hwf. destruct (slalom_wf_spec h w oy ox black gs Hwf) as [WF [Hoy0 Hox0]].
  rewrite rules_slalom_local.
  unfold solve_slalom_model.
  change (sec [[Z.of_nat h; Z.of_nat w]; [oy; ox]; black; gs] 0) with [Z.of_nat h; Z.of_nat w].
  change (sec [[Z.of_nat h; Z.of_nat w]; [oy; ox]; black; gs] 1) with [oy; ox].
  change (sec [[Z.of_nat h; Z.of_nat w]; [oy; ox]; black; gs] 2) with black.
  change (sec [[Z.of_nat h; Z.of_nat w]; [oy; ox]; black; gs] 3) with gs.
  change (getz [Z.of_nat h; Z.of_nat w] 0) with (Z.of_nat h).
  change (getz [Z.of_nat h; Z.of_nat w] 1) with (Z.of_nat w).
  change (getz [oy; ox] 0) with oy. change (getz [oy; ox] 1) with ox.
  destruct (sl_dims h w [[oy; ox]; black; gs]) as [-> ->].
  destruct h as [|fh]; [intros H; discriminate H|].
  destruct w as [|fw]; [rewrite orb_true_r; intros H; discriminate H|].
  replace ((Z.of_nat (S fh) <? 1) || (Z.of_nat (S fw) <? 1))%Z with false
    by (symmetry; apply orb_false_iff; split; apply Z.ltb_ge; lia).
  destruct (sl_outside _); [discriminate|].
  replace (S fh - 1) with fh by lia. replace (S fw - 1) with fw by lia.
  destruct (sl_cycle fh fw) as [[st1 res]|e] eqn:Hcall; [|discriminate].
  set (G := n_gates gs). set (base := next_id st1).
  unfold int_array. replace (Z.of_nat G <? 0)%Z with false by (symmetry; apply Z.ltb_ge; lia).
  rewrite int_vars_spec. unfold bool_array. rewrite bool_vars_spec. cbn [vars keys Program.cons].
  destruct (_ || _); [discriminate|].
  intros Hst. inversion Hst; subst st. clear Hst.
  set (o := (zn oy, zn ox)) in *.
  replace (n_lattice_edges (S fh) (S fw)) with (frame_n fh fw)
    by (unfold n_lattice_edges, frame_n; replace (S fw - 1) with fw by lia; replace (S fh - 1) with fh by lia; reflexivity).
  apply (sl_compose fh fw (repeat (DInt 0 (Z.of_nat G)) (S fh * S fw) ++ repeat DBool (S fh * S fw))
             (sl_constraints (S fh) (S fw) G base (zn oy) (zn ox) black gs)
             (slalom_local (S fh) (S fw) (zn oy) (zn ox) black gs) st1 res _ ans Hcall).
  - cbn [ensure vars]. rewrite <- app_assoc. reflexivity.
  - cbn [ensure Program.cons]. reflexivity.
  - (* soundness *)
    intros en Hloop Hb Hx.
    set (a := map (fun i => b2z (eb en i)) (seq 0 (frame_n fh fw))) in *.
    rewrite holds_sl_constraints in Hx.
    apply andb_prop in Hx. destruct Hx as [Hx _]. apply andb_prop in Hx. destruct Hx as [Hx Hcells].
    apply andb_prop in Hx. destruct Hx as [Hcnt Hpo].
    rewrite in_bounds_from_app, in_bounds_from_bools, andb_true_r in Hb.
    unfold slalom_local.
    apply (slalom_sound fh fw G base o black gs en (fun k => isb (getz a k))).
    + intros k Hk. unfold a. rewrite getz_map_seq by exact Hk. rewrite b2z_isb. reflexivity.
    + exact Hloop.
    + reflexivity.
    + exact WF.
    + intros k Hk. rewrite forallb_forall in Hcnt. specialize (Hcnt k ltac:(apply in_seq; lia)).
      apply Z.eqb_eq in Hcnt. lia.
    + exact Hpo.
    + intros c Hc. rewrite forallb_forall in Hcells. apply Hcells. destruct c as [y x]. destruct Hc as [Hy Hx'].
      apply cells_in. cbn [fst snd] in *. lia.
    + intros c Hc. unfold sl_ov.
      apply (proj1 (in_bounds_from_ints en base (S fh * S fw) 0 (Z.of_nat G)) Hb (cidx (S fw) c)).
      destruct c as [y x]. destruct Hc as [Hy Hx']. apply cidx_lt; assumption.
  - (* completeness *)
    intros a Hlen H01 Hloop Hloc. unfold slalom_local in Hloc.
    destruct (slalom_local_on_inv fh fw (zn oy) (zn ox) black gs _ Hloc) as [Hvo [Hblack [Hgates [d0 [Hd0 [Hs0 Hord]]]]]].
    exists (cmp_dirv fh fw o (fun k => isb (getz a k)) d0), (cmp_later fh fw base o gs (fun k => isb (getz a k)) d0).
    intros en Hlow Hdir Hlat.
    apply (slalom_complete fh fw G base o black gs (fun k => isb (getz a k)) d0); try assumption; reflexivity.
Qed.

(* ------------------------------------------------------------------------------------------------------ *)
(* 4. the premise of slalom_exact is satisfiable: on a board in the format the model (like the Python) only needs a
      black grid with an entry for every cell                                                               *)
Lemma slalom_wf_not_outside h w oy ox black gs :
  slalom_wf [[Z.of_nat h; Z.of_nat w]; [oy; ox]; black; gs] = true ->
  sl_outside [[Z.of_nat h; Z.of_nat w]; [oy; ox]; black; gs] = false.
Proof.
  unfold slalom_wf, sl_outside.
  change (sec [[Z.of_nat h; Z.of_nat w]; [oy; ox]; black; gs] 1) with [oy; ox].
  change (sec [[Z.of_nat h; Z.of_nat w]; [oy; ox]; black; gs] 3) with gs.
  change (getz [oy; ox] 0) with oy. change (getz [oy; ox] 1) with ox.
  intros H. apply andb_prop in H. destruct H as [H Hg]. apply andb_prop in H. destruct H as [Ho _].
  apply andb_prop in Ho. destruct Ho as [Ho _]. apply andb_prop in Ho. destruct Ho as [Ho Ho3].
  apply andb_prop in Ho. destruct Ho as [Ho1 _]. apply Z.leb_le in Ho1. apply Z.leb_le in Ho3.
  apply orb_false_iff. split.
  - apply orb_false_iff. split; apply Z.ltb_ge; assumption.
  - destruct (existsb _ _) eqn:E; [|reflexivity]. exfalso.
    apply existsb_exists in E. destruct E as [k [Hk E]]. rewrite forallb_forall in Hg. specialize (Hg k Hk).
    apply andb_prop in Hg. destruct Hg as [Hg _]. apply andb_prop in Hg. destruct Hg as [Hg _].
    apply andb_prop in Hg. destruct Hg as [Hb _].
    apply andb_prop in Hb. destruct Hb as [Hb Hd01]. apply andb_prop in Hb. destruct Hb as [Hb _].
    apply andb_prop in Hb. destruct Hb as [Hy0 Hx0]. apply Z.leb_le in Hy0. apply Z.leb_le in Hx0.
    apply orb_prop in E. destruct E as [E|E].
    + apply orb_prop in E. destruct E as [E|E]; apply Z.ltb_lt in E; lia.
    + rewrite Hd01 in E. discriminate.
Qed.

Theorem slalom_model_defined h w oy ox black gs :
  slalom_wf [[Z.of_nat h; Z.of_nat w]; [oy; ox]; black; gs] = true ->
  ((exists st, solve_slalom_model [[Z.of_nat h; Z.of_nat w]; [oy; ox]; black; gs] = Ok st) <-> h * w <= length black).
Proof.
  intros Hwf. destruct (slalom_wf_spec h w oy ox black gs Hwf) as [WF [Hoy0 Hox0]].
  pose proof (slalom_wf_not_outside h w oy ox black gs Hwf) as Hout.
  unfold solve_slalom_model. rewrite Hout.
  change (sec [[Z.of_nat h; Z.of_nat w]; [oy; ox]; black; gs] 0) with [Z.of_nat h; Z.of_nat w].
  change (sec [[Z.of_nat h; Z.of_nat w]; [oy; ox]; black; gs] 1) with [oy; ox].
  change (sec [[Z.of_nat h; Z.of_nat w]; [oy; ox]; black; gs] 2) with black.
  change (sec [[Z.of_nat h; Z.of_nat w]; [oy; ox]; black; gs] 3) with gs.
  change (getz [Z.of_nat h; Z.of_nat w] 0) with (Z.of_nat h).
  change (getz [Z.of_nat h; Z.of_nat w] 1) with (Z.of_nat w).
  change (getz [oy; ox] 0) with oy. change (getz [oy; ox] 1) with ox.
  destruct (sl_dims h w [[oy; ox]; black; gs]) as [-> ->].
  destruct WF as [[Hoy Hox] Honb _ _ _]. cbn [fst snd] in Hoy, Hox.
  destruct h as [|fh]; [lia|]. destruct w as [|fw]; [lia|].
  replace ((Z.of_nat (S fh) <? 1) || (Z.of_nat (S fw) <? 1))%Z with false
    by (symmetry; apply orb_false_iff; split; apply Z.ltb_ge; lia).
  replace (S fh - 1) with fh by lia. replace (S fw - 1) with fw by lia.
  destruct (sl_cycle_shape fh fw) as [st1 [Hc _]]. rewrite Hc.
  unfold int_array. replace (Z.of_nat (n_gates gs) <? 0)%Z with false by (symmetry; apply Z.ltb_ge; lia).
  rewrite int_vars_spec. unfold bool_array. rewrite bool_vars_spec.
  replace (existsb _ (seq 0 (n_gates gs))) with false.
  2:{ symmetry. destruct (existsb _ (seq 0 (n_gates gs))) eqn:E; [|reflexivity]. exfalso.
      apply existsb_exists in E. destruct E as [k [Hk E]]. apply in_seq in Hk.
      apply existsb_exists in E. destruct E as [c [Hc' E]]. destruct (Honb k c ltac:(lia) Hc') as [H1 H2].
      apply negb_true_iff in E. apply andb_false_iff in E. destruct E as [E|E]; apply Nat.ltb_ge in E; lia. }
  replace (Nat.ltb (zn oy) (S fh) && Nat.ltb (zn ox) (S fw)) with true
    by (symmetry; apply andb_true_iff; split; apply Nat.ltb_lt; assumption).
  cbn [negb orb].
  destruct (Nat.ltb_spec (length black) (S fh * S fw)).
  - split; [intros [st H']; discriminate|lia].
  - split; [intros _; lia|intros _; eexists; reflexivity].
Qed.

(* the 3 x 3 board with a black centre, the start in a corner and four one-cell gates numbered 1 .. 4 clockwise is in the
   format, the model is defined on it, the ring around the centre obeys the rules, and the ring does not when two numbers are
   exchanged; a gate whose end is neither black nor the board edge is outside the format *)
Example slalom_wf_ring :
  let pb := [[3; 3]; [0; 0]; [0; 0; 0; 0; 1; 0; 0; 0; 0];
             [0; 1; 1; 1; 1;  1; 2; 0; 1; 2;  2; 1; 1; 1; 3;  1; 0; 0; 1; 4]]%Z in
  slalom_wf pb = true /\
  (exists st, solve_slalom_model pb = Ok st) /\
  rules_slalom pb [1; 1; 0; 0; 1; 1; 1; 0; 1; 1; 0; 1]%Z = true /\
  rules_slalom [[3; 3]; [0; 0]; [0; 0; 0; 0; 1; 0; 0; 0; 0];
                [0; 1; 1; 1; 1;  1; 2; 0; 1; 3;  2; 1; 1; 1; 2;  1; 0; 0; 1; 4]]%Z
               [1; 1; 0; 0; 1; 1; 1; 0; 1; 1; 0; 1]%Z = false /\
  slalom_wf [[2; 2]; [1; 1]; [0; 0; 0; 0]; [0; 0; 0; 1; -1]]%Z = false.
Proof.
  cbv zeta. split; [vm_compute; reflexivity|]. split.
  - apply (slalom_model_defined 3 3 0 0 [0; 0; 0; 0; 1; 0; 0; 0; 0]%Z
             [0; 1; 1; 1; 1;  1; 2; 0; 1; 2;  2; 1; 1; 1; 3;  1; 0; 0; 1; 4]%Z); [vm_compute; reflexivity|simpl; lia].
  - vm_compute. repeat split.
Qed.

(* the hypothesis slalom_wf cannot be dropped: solve_slalom does not post the "straight through" half of rule 3 - it
   relies on the black cells at the two ends of every gate.  On the 2 x 2 board with the start at (1, 1), no black cell
   and a one-cell horizontal gate at (0, 0) whose right end is open, the posted program accepts the square loop, which
   turns inside the gate cell and so breaks rule 3. *)
Example slalom_wf_needed :
  let pb := [[2; 2]; [1; 1]; [0; 0; 0; 0]; [0; 0; 0; 1; -1]]%Z in
  exists st en, solve_slalom_model pb = Ok st /\ model_of no_graph en st /\
                rules_slalom pb (reads st en (seq 0 4)) = false.
Proof.
  cbv zeta.
  set (bs := [true; true; true; true; false; true; true; false; true; true; true; true; false; false; false; false;
              false; true; false; false; false; false; false; false; true; true; true; true]).
  set (zs := [0; 0; 0; 0; 0; 0; 0; 0; 0; 0; 0; 0; 1; 0; 2; 1; 0; 0; 0; 0; 1; 1; 0; 0; 0; 0; 0; 0]%Z).
  destruct (solve_slalom_model [[2; 2]; [1; 1]; [0; 0; 0; 0]; [0; 0; 0; 1; -1]]%Z) as [st|e] eqn:E;
    [|vm_compute in E; discriminate].
  exists st, {| eb := fun i => nth i bs false; ei := fun i => nth i zs 0%Z |}.
  split; [reflexivity|].
  assert (Est : Ok st = solve_slalom_model [[2; 2]; [1; 1]; [0; 0; 0; 0]; [0; 0; 0; 1; -1]]%Z) by (symmetry; exact E).
  vm_compute in Est. inversion Est; subst st. clear.
  split; [split|]; vm_compute; reflexivity.
Qed.
