(* C17: the side conditions under which decoding is total, and the allowed outcomes.
   Definitions only, no proofs.

   The decoders themselves are Codec/Comb.v's [de] (property C15's model of
   cspuz/problem_serializer.py), Codec/Yajilin.v's [yajilin_de] and Codec/Puzzles.v's
   [deserialize_url_cu] / [run_de] (property C16's), all of which follow the code as it is
   after C17's fixes (HexInt reads hex digits only, Rooms raises ValueError on a board without
   cells, non-URL text raises ValueError, YajilinClue rejects negative numbers).             *)
From Coq Require Import ZArith List Ascii Bool NArith.
From Cspuz Require Import Lib.PyErr Codec.Comb.
Import ListNotations.
Local Open Scope Z_scope.

(* a successful decode reads at least one character or returns at least one item
   (otherwise the while loop of Seq.deserialize never ends: Seq(FixStr(""), 3)) *)
Fixpoint productive (c : comb) : bool :=
  match c with
  | FixStr s => match s with [] => false | _ => true end
  | OneOf l => forallb productive l
  | _ => true
  end.

(* what the constructors / the caller must guarantee for decoding to be total:
   Dict with as many keys as texts (the constructor checks it), Seq / Grid / ValuedRooms over a
   productive base, explicit Grid sizes with a non-negative product *)
Fixpoint dec_ok (c : comb) : bool :=
  match c with
  | Dict b a => Nat.eqb (length b) (length a)
  | OneOf l | Tupl l => forallb dec_ok l
  | Seq c1 _ => dec_ok c1 && productive c1
  | Grid c1 None => dec_ok c1 && productive c1
  | Grid c1 (Some (h, w)) => dec_ok c1 && productive c1 && (0 <=? h * w)
  | ValuedRooms c1 _ _ => dec_ok c1 && productive c1
  | _ => true
  end.

(* a successful decode returns exactly one item (deserialize_problem asserts it) *)
Fixpoint single (c : comb) : bool :=
  match c with
  | Dict _ _ | DecInt | HexInt | Tupl _ | Seq _ _ | Grid _ _ | Rooms _ _ | ValuedRooms _ _ _ => true
  | OneOf l => forallb single l
  | _ => false
  end.

Definition is_fixstr (c : comb) : bool := match c with FixStr _ => true | _ => false end.

(* every Tupl element decodes to exactly one item (or none, FixStr): Tupl.serialize hands an
   element its whole item list but writes only what the first serialize call consumes *)
Fixpoint tupl_single (c : comb) : bool :=
  match c with
  | Tupl l => forallb (fun x => (single x || is_fixstr x) && tupl_single x) l
  | OneOf l => forallb tupl_single l
  | Seq c1 _ | Grid c1 _ | ValuedRooms c1 _ _ => tupl_single c1
  | _ => true
  end.

(* the allowed outcomes: a result (None or a value), or the one exception class callers are told to expect *)
Definition safe {A} (r : res A) : Prop :=
  match r with Ok _ => True | Err e => e = ValueError end.

(* a Combinator subclass plugged in as [Custom k] must behave like the library ones *)
Definition custom_total (cu : custom) : Prop :=
  forall k s, safe (cu_de cu k s) /\
    forall n l, cu_de cu k s = Ok (Some (n, l)) -> (n <= length s)%nat /\ length l = 1%nat.

(* no Combinator subclass occurs in the term *)
Fixpoint custom_free (c : comb) : bool :=
  match c with
  | Custom _ => false
  | OneOf l | Tupl l => forallb custom_free l
  | Seq c1 _ | Grid c1 _ | ValuedRooms c1 _ _ => custom_free c1
  | _ => true
  end.

(* the subclasses that do occur behave *)
Definition customs_ok (cu : custom) (c : comb) : Prop := custom_total cu \/ custom_free c = true.

(* Grid without explicit size multiplies the two board sizes *)
Definition env_nonneg (e : env) : Prop := 0 <= height e * width e.
