(* C11 Tier 1 - yinyang: the published rules imply the three auxiliary constraints of solve_yinyang
   (YinyangAux.v::yinyang_aux_implied_statement), every board size.
     - no checkerboard: YinyangPlanar.v::yy_checker_down, and the same with the colours exchanged;
     - at most two colour changes along the border walk: three changes would give four positions of the walk
       coloured alternately (yy_alt4); on boards with both sides >= 2 the walk is the simple border cycle and
       YinyangBorder.v::yy_border_alternation applies; on single rows / columns the walk runs along the line and
       back, two of the positions enclose a third of the other colour on the line, which contradicts connectivity
       directly; boards without cells have the empty answer. *)
From Coq Require Import ZArith List Bool Arith Lia.
From Cspuz Require Import Graph.GraphModel Graph.ReachProofs Graph.Avc Graph.AvcProofs
  Graph.NotAdj Graph.NotAdjPlanarGrid Graph.NotAdjPlanarB
  Puzzle.PuzzleBase Puzzle.ModelBase Puzzle.Rules_yinyang Puzzle.Yinyang Puzzle.YinyangAux
  Puzzle.YinyangPlanar Puzzle.YinyangBorder.
Import ListNotations.
Local Open Scope nat_scope.

(* ------------------------------------------------------------------------ *)
(* colour changes along a list                                               *)

Section Alt.
  Variable A : Type.
  Variable B : A -> bool.

  Fixpoint linsw (l : list A) : nat :=
    match l with
    | a :: r => match r with b :: _ => (if xorb (B a) (B b) then 1 else 0) + linsw r | [] => 0 end
    | [] => 0
    end.

  Lemma cyc_count_linsw r : forall a x,
    count (fun p => xorb (B (fst p)) (B (snd p))) (combine (a :: r) (r ++ [x])) = linsw (a :: r ++ [x]).
  Proof.
    induction r as [|b r IH]; intros a x.
    - unfold count. simpl. destruct (xorb (B a) (B x)); reflexivity.
    - change (combine (a :: b :: r) ((b :: r) ++ [x])) with ((a, b) :: combine (b :: r) (r ++ [x])).
      change (linsw (a :: (b :: r) ++ [x])) with ((if xorb (B a) (B b) then 1 else 0) + linsw (b :: r ++ [x])).
      rewrite <- IH. unfold count. cbn [filter fst snd]. destruct (xorb (B a) (B b)); reflexivity.
  Qed.

  Lemma lin_step : forall l a k, S k <= linsw (a :: l) ->
    exists l1 b l2, a :: l = l1 ++ b :: l2 /\ l1 <> [] /\ B b <> B a /\ k <= linsw (b :: l2).
  Proof.
    induction l as [|b l IH]; intros a k H; [simpl in H; lia|].
    change (linsw (a :: b :: l)) with ((if xorb (B a) (B b) then 1 else 0) + linsw (b :: l)) in H.
    destruct (xorb (B a) (B b)) eqn:E.
    - exists [a], b, l. split; [reflexivity|]. split; [discriminate|]. split; [|lia].
      destruct (B a), (B b); simpl in E; congruence.
    - destruct (IH b k ltac:(lia)) as [l1 [b' [l2 [E1 [N1 [N2 L]]]]]].
      exists (a :: l1), b', l2. split; [simpl; rewrite E1; reflexivity|]. split; [discriminate|]. split; [|exact L].
      destruct (B a), (B b); simpl in E; congruence.
  Qed.

  (* three colour changes along the cyclic list: four positions coloured alternately *)
  Lemma yy_alt4 (l : list A) (d : A) :
    3 <= count (fun p => xorb (B (fst p)) (B (snd p))) (yy_cyc_pairs l) ->
    exists i j k m, i < j /\ j < k /\ k < m /\ m < length l /\
      B (nth i l d) <> B (nth j l d) /\ B (nth j l d) <> B (nth k l d) /\ B (nth k l d) <> B (nth m l d).
  Proof.
    destruct l as [|a r]; [unfold count; simpl; lia|]. unfold yy_cyc_pairs. rewrite cyc_count_linsw. intros H.
    destruct (lin_step _ _ _ H) as [l1 [b [l2 [E1 [N1 [C1 H1]]]]]].
    destruct (lin_step _ _ _ H1) as [l3 [c [l4 [E2 [N3 [C2 H2]]]]]].
    destruct (lin_step _ _ _ H2) as [l5 [e [l6 [E3 [N5 [C3 _]]]]]].
    set (W := (a :: r) ++ [a]).
    assert (EW1 : W = l1 ++ b :: l2) by exact E1.
    assert (EW2 : W = (l1 ++ l3) ++ c :: l4) by (rewrite <- app_assoc, <- E2; exact EW1).
    assert (EW3 : W = (l1 ++ l3 ++ l5) ++ e :: l6) by (rewrite <- !app_assoc, <- E3, app_assoc; exact EW2).
    destruct l6 as [|f l6].
    { exfalso. unfold W in EW3. apply app_inj_tail in EW3. destruct EW3 as [_ Ea]. subst e.
      destruct (B a), (B b), (B c); congruence. }
    assert (Hlen : length W = S (length r) + 1) by (unfold W; rewrite app_length; reflexivity).
    assert (L1 : 1 <= length l1) by (destruct l1; [congruence|simpl; lia]).
    assert (L3 : 1 <= length l3) by (destruct l3; [congruence|simpl; lia]).
    assert (L5 : 1 <= length l5) by (destruct l5; [congruence|simpl; lia]).
    assert (Hlen3 : length W = length l1 + length l3 + length l5 + S (S (length l6))).
    { rewrite EW3. rewrite !app_length. simpl. lia. }
    assert (Hnth : forall q, q < S (length r) -> nth q (a :: r) d = nth q W d).
    { intros q Hq. unfold W. rewrite app_nth1; [reflexivity|simpl; lia]. }
    exists 0, (length l1), (length l1 + length l3), (length l1 + length l3 + length l5).
    split; [lia|]. split; [lia|]. split; [lia|]. split; [simpl; lia|].
    rewrite !Hnth by lia.
    assert (Q0 : nth 0 W d = a) by reflexivity.
    assert (Q1 : nth (length l1) W d = b) by (rewrite EW1; apply nth_middle).
    assert (Q2 : nth (length l1 + length l3) W d = c).
    { rewrite EW2. rewrite <- app_length. apply nth_middle. }
    assert (Q3 : nth (length l1 + length l3 + length l5) W d = e).
    { rewrite EW3. rewrite <- !app_length, <- app_assoc. apply nth_middle. }
    rewrite Q0, Q1, Q2, Q3. repeat split; auto.
  Qed.
End Alt.

(* ------------------------------------------------------------------------ *)
(* the border walk by index                                                  *)

Lemma nth_map_seq {A} (f : nat -> A) a k j d : j < k -> nth j (map f (seq a k)) d = f (a + j).
Proof.
  intros H. rewrite (nth_indep _ d (f 0)) by (rewrite map_length, seq_length; exact H).
  rewrite map_nth, seq_nth by exact H. reflexivity.
Qed.
Lemma nth_map_rev_seq {A} (f : nat -> A) a k j d : j < k -> nth j (map f (rev (seq a k))) d = f (a + (k - 1 - j)).
Proof.
  intros H. rewrite (nth_indep _ d (f 0)) by (rewrite map_length, rev_length, seq_length; exact H).
  rewrite map_nth, rev_nth by (rewrite seq_length; exact H). rewrite seq_length, seq_nth by lia. f_equal. lia.
Qed.

Lemma yy_circ_length h w : length (yy_circ h w) = h + (w - 1) + (h - 1) + (w - 2).
Proof. unfold yy_circ. rewrite !app_length, !map_length, !rev_length, !seq_length. lia. Qed.

Lemma yy_circ_nth h w i : i < length (yy_circ h w) ->
  nth i (yy_circ h w) (0, 0) =
  if i <? h then (i, 0)
  else if i <? h + (w - 1) then (h - 1, 1 + (i - h))
  else if i <? h + (w - 1) + (h - 1) then (h - 2 - (i - h - (w - 1)), w - 1)
  else (0, w - 2 - (i - (h + (w - 1) + (h - 1)))).
Proof.
  rewrite yy_circ_length. intros Hi. unfold yy_circ.
  destruct (Nat.ltb_spec i h) as [L1|L1].
  { rewrite app_nth1 by (rewrite map_length, seq_length; exact L1). rewrite nth_map_seq by exact L1. reflexivity. }
  rewrite app_nth2 by (rewrite map_length, seq_length; exact L1). rewrite map_length, seq_length.
  destruct (Nat.ltb_spec i (h + (w - 1))) as [L2|L2].
  { rewrite app_nth1 by (rewrite map_length, seq_length; lia). rewrite nth_map_seq by lia. reflexivity. }
  rewrite app_nth2 by (rewrite map_length, seq_length; lia). rewrite map_length, seq_length.
  destruct (Nat.ltb_spec i (h + (w - 1) + (h - 1))) as [L3|L3].
  { rewrite app_nth1 by (rewrite map_length, rev_length, seq_length; lia). rewrite nth_map_rev_seq by lia.
    f_equal. lia. }
  rewrite app_nth2 by (rewrite map_length, rev_length, seq_length; lia). rewrite map_length, rev_length, seq_length.
  rewrite nth_map_rev_seq by lia. f_equal. lia.
Qed.

(* both sides >= 2: position i of the walk is the border cell with bpos = i *)
Lemma yy_circ_wide h w i : 2 <= h -> 2 <= w -> i < length (yy_circ h w) ->
  exists y x, nth i (yy_circ h w) (0, 0) = (y, x) /\ y < h /\ x < w /\ is_border h w y x /\ bpos h w y x = i.
Proof.
  intros Hh Hw Hi. rewrite (yy_circ_nth h w i Hi). rewrite yy_circ_length in Hi.
  destruct (Nat.ltb_spec i h) as [L1|L1].
  { exists i, 0. split; [reflexivity|]. unfold is_border, bpos. simpl. repeat split; try lia. }
  destruct (Nat.ltb_spec i (h + (w - 1))) as [L2|L2].
  { exists (h - 1), (1 + (i - h)). split; [reflexivity|]. unfold is_border, bpos. repeat split; try lia. bsolve2. }
  destruct (Nat.ltb_spec i (h + (w - 1) + (h - 1))) as [L3|L3].
  { exists (h - 2 - (i - h - (w - 1))), (w - 1). split; [reflexivity|]. unfold is_border, bpos.
    repeat split; try lia. bsolve2. }
  exists 0, (w - 2 - (i - (h + (w - 1) + (h - 1)))). split; [reflexivity|]. unfold is_border, bpos.
  repeat split; try lia. bsolve2.
Qed.

(* one row or one column: position i of the walk is the cell number zf i of the line (forth, then back) *)
Definition zf (M i : nat) : nat := if i <? M then i else 2 * (M - 1) - i.

Lemma yy_circ_thin h w i : 1 <= h -> 1 <= w -> h = 1 \/ w = 1 -> i < length (yy_circ h w) ->
  cidx w (nth i (yy_circ h w) (0, 0)) = zf (h * w) i /\ zf (h * w) i < h * w.
Proof.
  intros Hh Hw Hthin Hi. rewrite (yy_circ_nth h w i Hi). rewrite yy_circ_length in Hi. unfold zf, cidx.
  destruct Hthin as [-> | ->].
  - replace (1 * w) with w by lia.
    destruct (Nat.ltb_spec i 1) as [L1|L1]; [cbn [fst snd]; destruct (Nat.ltb_spec i w); lia|].
    destruct (Nat.ltb_spec i (1 + (w - 1))) as [L2|L2]; [cbn [fst snd]; destruct (Nat.ltb_spec i w); lia|].
    destruct (Nat.ltb_spec i (1 + (w - 1) + (1 - 1))) as [L3|L3]; [lia|].
    cbn [fst snd]. destruct (Nat.ltb_spec i w); lia.
  - replace (h * 1) with h by lia.
    destruct (Nat.ltb_spec i h) as [L1|L1]; [cbn [fst snd]; lia|].
    destruct (Nat.ltb_spec i (h + (1 - 1))) as [L2|L2]; [lia|].
    destruct (Nat.ltb_spec i (h + (1 - 1) + (h - 1))) as [L3|L3]; [cbn [fst snd]; lia|]. lia.
Qed.

(* ------------------------------------------------------------------------ *)
(* single rows and columns                                                   *)

Lemma line_nbrs h w v z : h = 1 \/ w = 1 -> v < h * w ->
  In z (nbrs (grid_graph h w) all_edges_ok v) -> z = v + 1 \/ v = z + 1.
Proof.
  intros Hthin Hv Hin. destruct (cell_coords h w v Hv) as [Hy [Hx Ev]].
  rewrite Ev in Hin. apply (grid_nbrs_coords h w _ _ z Hy Hx) in Hin. unfold cell in *.
  destruct Hthin as [-> | ->].
  - assert (cell_y w v = 0) by lia.
    destruct Hin as [[H1 ->]|[[H1 ->]|[[x' [H1 ->]]|[y' [H1 ->]]]]]; try lia.
  - assert (cell_x 1 v = 0) by lia.
    destruct Hin as [[H1 ->]|[[H1 ->]|[[x' [H1 ->]]|[y' [H1 ->]]]]]; try lia.
Qed.

(* on a line a connected colour class is an interval *)
Lemma line_interval h w (act : nat -> bool) a b c' :
  h = 1 \/ w = 1 -> connected (grid_graph h w) act ->
  a < b -> b < c' -> c' < h * w -> act a = true -> act c' = true -> act b = true.
Proof.
  intros Hthin Hc Hab Hbc Hcn Aa Ac. destruct (act b) eqn:Eb; [reflexivity|exfalso].
  assert (Hinv : forall v, reach (grid_graph h w) act all_edges_ok a v -> v < b).
  { intros v R. induction R as [v Hv|u v z R IH Hz Hbz]; [exact Hab|].
    specialize (IH Hab Aa).
    assert (Hvn : v < h * w) by lia.
    destruct (line_nbrs h w v z Hthin Hvn Hz) as [E|E]; [|lia].
    destruct (Nat.eq_dec z b) as [->|Nz]; [congruence|lia]. }
  assert (Hr : reach (grid_graph h w) act all_edges_ok a c') by (apply Hc; simpl; try assumption; lia).
  specialize (Hinv c' Hr). lia.
Qed.

(* ------------------------------------------------------------------------ *)
(* from the rules to the graph vocabulary                                    *)

Lemma yy_rules_facts h w given ans :
  rules_yinyang [[Z.of_nat h; Z.of_nat w]; given] ans = true ->
  length ans = h * w /\
  connected (grid_graph h w) (fun v => isb (getz ans v)) /\
  connected (grid_graph h w) (inactive (fun v => isb (getz ans v))).
Proof.
  unfold rules_yinyang.
  assert (D0 : dim [[Z.of_nat h; Z.of_nat w]; given] 0 = h) by (unfold dim, zn, getz, sec; simpl; apply Nat2Z.id).
  assert (D1 : dim [[Z.of_nat h; Z.of_nat w]; given] 1 = w) by (unfold dim, zn, getz, sec; simpl; apply Nat2Z.id).
  rewrite D0, D1. cbv zeta. rewrite !andb_true_iff.
  intros [[[[[[H1 _] _] H4] H5] _] _]. apply Nat.eqb_eq in H1. split; [exact H1|].
  unfold cells_connected, board in H4, H5.
  split; apply (connected_b_spec _ _ (grid_wf h w)); assumption.
Qed.

Lemma yy_blk_cell w ans y x : yy_blk w ans (y, x) = isb (getz ans (cell w y x)).
Proof. reflexivity. Qed.

Lemma connected_inactive2 g act : connected g act -> connected g (inactive (inactive act)).
Proof.
  intros Hc u v Hu Hv Au Av.
  assert (E : forall x, act x = inactive (inactive act) x) by (intros x; unfold inactive; rewrite negb_involutive; reflexivity).
  apply (reach_ext g act _ all_edges_ok all_edges_ok); [exact E|reflexivity|].
  apply Hc; try assumption; rewrite E; assumption.
Qed.

(* ------------------------------------------------------------------------ *)
(* (1) no checkerboard                                                       *)

Theorem yinyang_no_checker : yinyang_no_checker_statement.
Proof.
  intros h w given ans Hr. destruct (yy_rules_facts h w given ans Hr) as [_ [HcB HcW]].
  set (blk := fun v => isb (getz ans v)) in *.
  unfold yy_no_checker. apply forallb_forall. intros [y x] Hc.
  assert (Hyx : S y < h /\ S x < w).
  { unfold cells in Hc. apply in_flat_map in Hc. destruct Hc as [y' [Hy Hx]]. apply in_map_iff in Hx.
    destruct Hx as [x' [E Hx]]. inversion E; subst. apply in_seq in Hy. apply in_seq in Hx. lia. }
  destruct Hyx as [Hy Hx]. rewrite !yy_blk_cell. fold (blk (cell w y x)) (blk (cell w (S y) (S x)))
    (blk (cell w (S y) x)) (blk (cell w y (S x))).
  destruct (blk (cell w y x)) eqn:EA, (blk (cell w (S y) (S x))) eqn:ED, (blk (cell w (S y) x)) eqn:EC,
    (blk (cell w y (S x))) eqn:EB; try reflexivity; exfalso.
  - apply (yy_checker_down h w blk HcB HcW y x Hy Hx EA ED EB EC).
  - apply (yy_checker_down h w (inactive blk) HcW (connected_inactive2 _ _ HcB) y x Hy Hx);
      unfold inactive; rewrite ?EA, ?ED, ?EB, ?EC; reflexivity.
Qed.

(* ------------------------------------------------------------------------ *)
(* (2) at most two colour changes along the border walk                      *)

Theorem yinyang_border : yinyang_border_statement.
Proof.
  intros h w given ans Hr. destruct (yy_rules_facts h w given ans Hr) as [Hlen [HcB HcW]].
  set (blk := fun v => isb (getz ans v)) in *.
  destruct (le_lt_dec (yy_switches h w ans) 2) as [L|L]; [exact L|exfalso].
  unfold yy_switches in L.
  destruct (yy_alt4 _ (yy_blk w ans) (yy_circ h w) (0, 0) L) as [i [j [k [m [Lij [Ljk [Lkm [Lm [N1 [N2 N3]]]]]]]]]].
  assert (Hcol : forall q, yy_blk w ans (nth q (yy_circ h w) (0, 0)) = blk (cidx w (nth q (yy_circ h w) (0, 0)))).
  { intros q. destruct (nth q (yy_circ h w) (0, 0)) as [y x]. reflexivity. }
  destruct (le_lt_dec h 0) as [Hh0|Hh1].
  { (* no rows: the answer is empty *)
    assert (h = 0) by lia. subst h. destruct ans; [|discriminate]. apply N1. rewrite !Hcol. unfold blk, getz.
    destruct (cidx w (nth i (yy_circ 0 w) (0, 0))), (cidx w (nth j (yy_circ 0 w) (0, 0))); reflexivity. }
  destruct (le_lt_dec w 0) as [Hw0|Hw1].
  { assert (w = 0) by lia. subst w. rewrite Nat.mul_0_r in Hlen. destruct ans; [|discriminate]. apply N1.
    rewrite !Hcol. unfold blk, getz.
    destruct (cidx 0 (nth i (yy_circ h 0) (0, 0))), (cidx 0 (nth j (yy_circ h 0) (0, 0))); reflexivity. }
  destruct (le_lt_dec h 1) as [Hh|Hh]; [|destruct (le_lt_dec w 1) as [Hw|Hw]].
  3: { (* both sides >= 2 *)
    destruct (yy_circ_wide h w i ltac:(lia) ltac:(lia) ltac:(lia)) as [ya [xa [Ea [Hya [Hxa [Ba Pa]]]]]].
    destruct (yy_circ_wide h w j ltac:(lia) ltac:(lia) ltac:(lia)) as [yb [xb [Eb [Hyb [Hxb [Bb Pb]]]]]].
    destruct (yy_circ_wide h w k ltac:(lia) ltac:(lia) ltac:(lia)) as [yc [xc [Ec [Hyc [Hxc [Bc Pc]]]]]].
    destruct (yy_circ_wide h w m ltac:(lia) ltac:(lia) ltac:(lia)) as [yd [xd [Ed [Hyd [Hxd [Bd Pd]]]]]].
    rewrite Ea, Eb, Ec, Ed, !yy_blk_cell in *.
    apply (yy_border_alternation h w blk ya xa yb xb yc xc yd xd ltac:(lia) ltac:(lia) HcB HcW
             Hya Hxa Hyb Hxb Hyc Hxc Hyd Hxd Ba Bb Bc Bd ltac:(lia) ltac:(lia) ltac:(lia) N1 N2 N3). }
  all: (* a single row / a single column *)
    assert (Hthin : h = 1 \/ w = 1) by lia;
    destruct (yy_circ_thin h w i ltac:(lia) ltac:(lia) Hthin ltac:(lia)) as [Ei Zi];
    destruct (yy_circ_thin h w j ltac:(lia) ltac:(lia) Hthin ltac:(lia)) as [Ej Zj];
    destruct (yy_circ_thin h w k ltac:(lia) ltac:(lia) Hthin ltac:(lia)) as [Ek Zk];
    destruct (yy_circ_thin h w m ltac:(lia) ltac:(lia) Hthin ltac:(lia)) as [Em Zm];
    rewrite !Hcol, Ei, Ej, Ek, Em in *;
    set (M := h * w) in *;
    assert (Hint : forall a b c', a < b -> b < c' -> c' < M -> blk a <> blk b -> blk b <> blk c' -> False)
      by (intros a b c' Hab Hbc HcM Q1 Q2; destruct (blk a) eqn:Xa;
          [ pose proof (line_interval h w blk a b c' Hthin HcB Hab Hbc HcM Xa) as Q;
            destruct (blk b), (blk c'); try congruence; specialize (Q eq_refl); congruence
          | pose proof (line_interval h w (inactive blk) a b c' Hthin HcW Hab Hbc HcM) as Q; unfold inactive in Q;
            rewrite Xa in Q; destruct (blk b), (blk c'); try congruence; specialize (Q eq_refl eq_refl); discriminate ]);
    assert (HL : length (yy_circ h w) <= 2 * M - 1)
      by (rewrite yy_circ_length; unfold M; destruct Hthin; subst; lia);
    assert (Zlo : forall q, q < M -> zf M q = q) by (intros q Hq; unfold zf; destruct (Nat.ltb_spec q M); lia);
    assert (Zhi : forall q, M <= q -> zf M q = 2 * (M - 1) - q) by (intros q Hq; unfold zf; destruct (Nat.ltb_spec q M); lia);
    destruct (Nat.ltb_spec k M) as [Hk|Hk];
    [ (* forth, forth, forth *)
      rewrite (Zlo i), (Zlo j), (Zlo k) in * by lia;
      apply (Hint i j k Lij Ljk Hk N1 N2)
    | destruct (Nat.ltb_spec j M) as [Hj|Hj];
      [ (* forth, forth, back, back: compare the second and the third cell *)
        rewrite (Zlo i), (Zlo j), (Zhi k), (Zhi m) in * by lia;
        destruct (lt_eq_lt_dec j (2 * (M - 1) - k)) as [[Q|Q]|Q];
        [ apply (Hint i j (2 * (M - 1) - k) Lij Q ltac:(lia) N1 N2)
        | rewrite <- Q in N2; congruence
        | apply (Hint (2 * (M - 1) - m) (2 * (M - 1) - k) j ltac:(lia) Q Zj (not_eq_sym N3) (not_eq_sym N2)) ]
      | (* back, back, back *)
        rewrite (Zhi j), (Zhi k), (Zhi m) in * by lia;
        apply (Hint (2 * (M - 1) - m) (2 * (M - 1) - k) (2 * (M - 1) - j) ltac:(lia) ltac:(lia) ltac:(lia)
                    (not_eq_sym N3) (not_eq_sym N2)) ] ].
Qed.

(* ------------------------------------------------------------------------ *)

Theorem yinyang_aux_implied : yinyang_aux_implied_statement.
Proof.
  intros h w given ans Hr. unfold yy_aux. rewrite (yinyang_no_checker h w given ans Hr). simpl.
  apply Nat.leb_le. apply (yinyang_border h w given ans Hr).
Qed.
